"""T1 spans for actix-codec (C13, C14): the water marks of `Framed` and every comparison on them"""
_F = "actix-codec/src/framed.rs"
_C = dict(consts={"LW": "framedLW", "HW": "framedHW"})
register("framed_lw", span_const(_F, "LW", "framedLW"))
register("framed_hw", span_const(_F, "HW", "framedHW"))
# read side (next_item): `if remaining < LW { this.read_buf.reserve(HW - remaining) }`, `if cnt == 0`
register("framed_rd_need_reserve", span_expr(_F, "next_item", None, r"if\s+(remaining\s*[^{]*?)\s*\{\s*this\.read_buf\.reserve",
         "framedRdNeedReserve", "(remaining : Nat)", "Bool", dict(_C, reads={"remaining": "remaining"}, want="bool")))
register("framed_rd_reserve_arg", span_expr(_F, "next_item", None, r"this\.read_buf\.reserve\((.*?)\)\s*[;}]",
         "framedRdReserveArg", "(remaining : Nat)", "Nat", dict(_C, reads={"remaining": "remaining"})))
register("framed_read_eof", span_expr(_F, "next_item", None, r"if\s+([^{};]*?)\s*\{\s*this\.flags\.insert\(Flags::EOF\)",
         "framedReadEof", "(cnt : Nat)", "Bool", dict(_C, reads={"cnt": "cnt"}, want="bool")))
# write side (write): `if remaining < LW { this.write_buf.reserve(HW - remaining); }`
register("framed_wr_need_reserve", span_expr(_F, "write", None, r"if\s+(remaining\s*[^{]*?)\s*\{\s*this\.write_buf\.reserve",
         "framedWrNeedReserve", "(remaining : Nat)", "Bool", dict(_C, reads={"remaining": "remaining"}, want="bool")))
register("framed_wr_reserve_arg", span_expr(_F, "write", None, r"this\.write_buf\.reserve\((.*?)\)\s*[;}]",
         "framedWrReserveArg", "(remaining : Nat)", "Nat", dict(_C, reads={"remaining": "remaining"})))
# `is_write_ready` (used by poll_ready), `is_write_buf_full`
register("framed_write_ready", span_fn(_F, "is_write_ready", None, "framedWriteReady", "(len : Nat)", "Bool",
         dict(_C, reads={"self.write_buf.len()": "len"}, result="value")))
register("framed_write_full", span_fn(_F, "is_write_buf_full", None, "framedWriteFull", "(len : Nat)", "Bool",
         dict(_C, reads={"self.write_buf.len()": "len"}, result="value")))
# flush: `if n == 0 { return Poll::Ready(Err(WriteZero)) }`
register("framed_write_zero", span_expr(_F, "flush", None, r"if\s+([^{};]*?)\s*\{\s*return\s+Poll::Ready\(Err\(io::Error::new\(\s*io::ErrorKind::WriteZero",
         "framedWriteZero", "(n : Nat)", "Bool", dict(_C, reads={"n": "n"}, want="bool")))
