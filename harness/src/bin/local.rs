//! Engine `local`: the real `actix_utils::counter::Counter`, `local_waker::LocalWaker` (C17) and
//! `local_channel::mpsc` (C16) driven through the line protocol, with counting wakers.
//!
//! ```text
//! case <name> counter <cap> [probe]   acquire h | drop g | dropP g | avail h w | availG h g | clone h | total h | dropH h | dbg h | dbgG g
//! case <name> lw [default]            reg w | wake | take | dbg
//! case <name> chan                    send i x | ssend i x | clone i | dropS i | dropSP i | close i | poll w | recv w | recvNew w |
//!                                     recvDrop | rsender | dropR | dropRP | b <op> | clonefrom <a|b> i <a|b> j | sready i w | sflush i w | sclose i w | dbgS i | dbgR
//! ```
//! Every observation ends in ` woke=<ids>`: which of the counting wakers `0..NW` were woken by this
//! operation (ascending, with multiplicity; `-` = none).
//!
//! Every public entry point of the three crates is reached by some operation:
//! * `Counter::{new, get, available, total, clone, drop, fmt::Debug}`, `CounterGuard::{drop, fmt::Debug}`;
//! * `LocalWaker::{new, default, register, wake, take, fmt::Debug}`;
//! * `mpsc::channel`, `Sender::{send, close, clone, drop, fmt::Debug}`, `<Sender as Sink>::{poll_ready,
//!   start_send, poll_flush, poll_close}`, `Receiver::{recv, sender, drop, fmt::Debug}`,
//!   `<Receiver as Stream>::poll_next`, `SendError::{into_inner, 0, fmt::Debug, fmt::Display}`.
//!
//! `recv w` polls the `recv()` future by hand with the counting waker `w`: the pending future if there
//! is one, a fresh `rx.recv()` otherwise; `recvNew w` drops a pending future first (cancellation) and
//! polls a fresh one; `recvDrop` drops a pending future.  Every other receiver operation (`poll`,
//! `rsender`, `dropR`, `dbgR`) drops a pending future first — the borrow checker demands it of any user.
//!
//! `dropP g` / `dropSP i` / `dropRP` drop the guard / sender / receiver while the thread is unwinding
//! from a panic that is then caught (`drop_unwinding`): the property makes no exception for it.
//! `avail h w` with `w = 4, 5` registers an **inline-polling** waker: `Waker::wake` re-enters the
//! counter from inside `task.wake()` (`total()`, `available(cx)`) and the releasing drop reports what
//! the woken task saw (`dropped saw=<total>,<available> woke=<w>`): it must find the slot freed.
//!
//! The T3 oracles below are written against the *property statements* with their own bookkeeping
//! (number of live guards, FIFO queue of accepted messages, "receiver returned Pending with waker w
//! and has not been woken since"); they do not look at the Lean model.
use std::{
    cell::{Cell, RefCell},
    collections::{HashMap, VecDeque},
    future::Future,
    io::Write,
    pin::Pin,
    rc::Rc,
    sync::{
        atomic::{AtomicUsize, Ordering},
        Arc, OnceLock,
    },
    task::{Context, Poll, Wake, Waker},
};

use actix_utils::counter::{Counter, CounterGuard};
use futures_core::Stream;
use futures_sink::Sink;
use local_channel::mpsc;
use local_waker::LocalWaker;
use vh::*;

const NW: usize = 4;
/// T3 lines reported per (property, message shape); the rest is counted in a `#NOTE`
const T3_CAP: u64 = 4;

// ------------------------------------------------------------------------------------------------
// counting wakers
// ------------------------------------------------------------------------------------------------
/// `1`: the wake counter; `inline`: `Some(id)` for an **inline-polling** waker (ids `NW..NW+NI`):
/// `wake()` polls the woken task on the spot — it re-enters the counter from inside `task.wake()`,
/// reads `total()` and asks `available(cx)` with itself as the waker (what a synchronous executor or a
/// `FuturesUnordered`-style waker does), and records what it saw.
struct CW(AtomicUsize, Option<usize>);
impl CW {
    fn woken(&self) {
        self.0.fetch_add(1, Ordering::SeqCst);
        if let Some(id) = self.1 {
            inline_poll(id);
        }
    }
}
impl Wake for CW {
    fn wake(self: Arc<Self>) {
        self.woken();
    }
    fn wake_by_ref(self: &Arc<Self>) {
        self.woken();
    }
}

/// number of inline-polling wakers (ids `NW..NW+NI`), accepted by the counter's `avail` only
const NI: usize = 4;
/// of these, ids `NW+2..NW+NI` also **take** the slot they find free and let the next task ask
const TAKER0: usize = NW + 2;

/// what the inline-polling tasks hold: their own handle of the counter (a clone of the handle they
/// asked through) and their own waker; `saw`: (waker id, `total()`, `available(cx)`) per inline poll
#[derive(Default)]
struct InlineCtx {
    task: [Option<Rc<Counter>>; NI],
    /// all wakers, counting ones included (ids `0..NW+NI`)
    wakers: Vec<Waker>,
    saw: Vec<(usize, usize, bool)>,
    /// what the taking tasks did inside `wake()`: (waker id, the guard taken, the answer the next
    /// task — asking with the counting waker `id - 4` — got)
    took: Vec<(usize, CounterGuard, bool)>,
    /// the `lw` engine's `LocalWaker`: the re-entrant wakers 4 / 5 register waker 1 / themselves on it
    /// from inside `wake()`; `rereg`: (waker id, what that `register` returned)
    lw: Option<Rc<LocalWaker>>,
    rereg: Vec<(usize, bool)>,
}
thread_local! {
    static INLINE: RefCell<InlineCtx> = RefCell::new(InlineCtx::default());
    /// set while an operation drops an object during an unwind: the property the verdict belongs to
    static UNWINDING: Cell<Option<&'static str>> = const { Cell::new(None) };
    static PANICS_IN_OP: Cell<u32> = const { Cell::new(0) };
}
/// input lines consumed so far / where a process-ending verdict goes (`<out>.watchdog`, see check.py)
static LINES: AtomicUsize = AtomicUsize::new(0);
static WATCHDOG: OnceLock<String> = OnceLock::new();

fn inline_poll(id: usize) {
    // nothing of the context stays borrowed while the code under test runs
    let (c, lw, w, next) = INLINE.with(|x| {
        let x = x.borrow();
        (x.task[id - NW].clone(), x.lw.clone(), x.wakers.get(id).cloned(), x.wakers.get(id - NW).cloned())
    });
    if let (Some(lw), Some(w)) = (&lw, &w) {
        // `lw` engine: the woken task registers on the same LocalWaker before `wake()` returns
        let was = if id == NW { lw.register(&INLINE.with(|x| x.borrow().wakers[1].clone())) } else { lw.register(w) };
        INLINE.with(|x| x.borrow_mut().rereg.push((id, was)));
        return;
    }
    if let (Some(c), Some(w)) = (c, w) {
        let total = c.total();
        let avail = c.available(&Context::from_waker(&w));
        INLINE.with(|x| x.borrow_mut().saw.push((id, total, avail)));
        if id >= TAKER0 && avail {
            // told that a slot is free, the task takes it on the spot; the next task in line asks
            let g = c.get();
            let b = c.available(&Context::from_waker(next.as_ref().unwrap()));
            INLINE.with(|x| x.borrow_mut().took.push((id, g, b)));
        }
    }
}

/// Drop `x` while the thread is unwinding from a panic that is then caught (`catch_unwind`: an
/// executor isolating a panicking task, a `select!` arm that panics, …).  A destructor of the code
/// under test that panics here would abort the process: the panic hook leaves the verdict in
/// `<out>.watchdog` first.
fn drop_unwinding<T>(x: T, prop: &'static str, rep: &mut Report) {
    rep.flush();
    PANICS_IN_OP.with(|p| p.set(0));
    UNWINDING.with(|u| u.set(Some(prop)));
    let r = catch(move || {
        let _held = x;
        panic!("unwinding with the object on the stack");
    });
    UNWINDING.with(|u| u.set(None));
    let _ = r; // always the panic raised above
}

fn install_panic_hook() {
    std::panic::set_hook(Box::new(|_| {
        let n = PANICS_IN_OP.with(|p| {
            p.set(p.get() + 1);
            p.get()
        });
        if let (Some(prop), true) = (UNWINDING.with(|u| u.get()), n >= 2) {
            if let Some(path) = WATCHDOG.get() {
                let _ = std::fs::write(
                    path,
                    format!(
                        "#T3 prop={prop} case=@{} a destructor panicked while the thread was unwinding (object dropped during a caught panic): the process aborts\n",
                        LINES.load(Ordering::SeqCst)
                    ),
                );
            }
        }
    }));
}

/// A waker whose **drop** has a side effect, unless it was woken first: it stands for the last owner of
/// a parked task that, dropped, releases what it holds.  A fresh one is built per registration, so the
/// clone stored in the `LocalWaker` is the last one once the harness has dropped its own.
/// * id `6` (`lw` engine): the drop calls `wake()` on the same `LocalWaker`;
/// * id `100 + g` (counter engine): the task owns guard `g` (parked in `DROPFX.held`); the drop releases it.
struct DW {
    id: usize,
    woken: std::sync::atomic::AtomicBool,
}
impl DW {
    fn fresh(id: usize) -> (Waker, *const ()) {
        let a = Arc::new(DW { id, woken: std::sync::atomic::AtomicBool::new(false) });
        let p = Arc::as_ptr(&a) as *const ();
        (Waker::from(a), p)
    }
    fn woken(&self) {
        self.woken.store(true, Ordering::SeqCst);
        DROPFX.with(|d| d.borrow_mut().woken.push(self.id));
    }
}
impl Wake for DW {
    fn wake(self: Arc<Self>) {
        self.woken();
    }
    fn wake_by_ref(self: &Arc<Self>) {
        self.woken();
    }
}
impl Drop for DW {
    fn drop(&mut self) {
        if self.woken.load(Ordering::SeqCst) {
            return; // the task was woken: it lives on
        }
        if self.id == 6 {
            if let Some(lw) = INLINE.with(|x| x.borrow().lw.clone()) {
                lw.wake();
            }
        } else if self.id >= 100 {
            // nothing of the registry stays borrowed while the guard's destructor runs
            let g = DROPFX.with(|d| d.borrow_mut().held.remove(&(self.id - 100)));
            if let Some(guard) = g {
                drop(guard);
                DROPFX.with(|d| d.borrow_mut().freed.push(self.id - 100));
            }
        }
    }
}
#[derive(Default)]
struct DropFx {
    woken: Vec<usize>,
    held: HashMap<usize, CounterGuard>,
    freed: Vec<usize>,
}
thread_local! {
    static DROPFX: RefCell<DropFx> = RefCell::new(DropFx::default());
}

struct Wakers {
    cws: Vec<Arc<CW>>,
    wakers: Vec<Waker>,
    seen: Vec<usize>,
    /// the oracle's own waker (index `NW`): used where a correct implementation registers nothing
    probe_cw: Arc<CW>,
    probe: Waker,
    probe_seen: usize,
}
impl Wakers {
    fn new() -> Self {
        let cws: Vec<Arc<CW>> = (0..NW + NI).map(|i| Arc::new(CW(AtomicUsize::new(0), (i >= NW).then_some(i)))).collect();
        let wakers: Vec<Waker> = cws.iter().map(|c| Waker::from(c.clone())).collect();
        INLINE.with(|x| x.borrow_mut().wakers = wakers.clone());
        let probe_cw = Arc::new(CW(AtomicUsize::new(0), None));
        let probe = Waker::from(probe_cw.clone());
        Wakers { cws, wakers, seen: vec![0; NW + NI], probe_cw, probe, probe_seen: 0 }
    }
    /// wakers woken since the last call (ascending ids, with multiplicity)
    fn delta(&mut self) -> Vec<usize> {
        let mut v = vec![];
        for i in 0..NW + NI {
            let now = self.cws[i].0.load(Ordering::SeqCst);
            for _ in self.seen[i]..now {
                v.push(i);
            }
            self.seen[i] = now;
        }
        v.extend(DROPFX.with(|d| std::mem::take(&mut d.borrow_mut().woken)));
        v.sort();
        v
    }
    /// number of times the oracle's probe waker was woken since the last call
    fn probe_delta(&mut self) -> usize {
        let now = self.probe_cw.0.load(Ordering::SeqCst);
        let d = now - self.probe_seen;
        self.probe_seen = now;
        d
    }
    fn id_of(&self, w: &Waker) -> Option<usize> {
        (0..NW + NI).find(|&i| w.data() == Arc::as_ptr(&self.cws[i]) as *const ())
    }
}

fn woke_str(v: &[usize]) -> String {
    if v.is_empty() {
        " woke=-".into()
    } else {
        format!(" woke={}", v.iter().map(|x| x.to_string()).collect::<Vec<_>>().join(","))
    }
}

/// a capacity: any `usize` (the Lean driver uses the same rule: 1..=20 ASCII digits, at most 2^64 - 1)
fn cap_num(s: &str) -> Option<usize> {
    if s.is_empty() || s.len() > 20 || !s.bytes().all(|b| b.is_ascii_digit()) {
        return None;
    }
    s.parse::<u64>().ok().map(|n| n as usize)
}

/// strict decimal (the Lean driver uses the same rule): 1..=9 ASCII digits
fn num(s: &str) -> Option<usize> {
    if s.is_empty() || s.len() > 9 || !s.bytes().all(|b| b.is_ascii_digit()) {
        return None;
    }
    s.parse().ok()
}

// ------------------------------------------------------------------------------------------------
// engines (real objects + the oracle's own bookkeeping)
// ------------------------------------------------------------------------------------------------
struct CounterEng {
    handles: Vec<Option<Counter>>,
    guards: Vec<Option<CounterGuard>>,
    /// after every operation also ask `available` where a correct implementation does not change
    /// its state by being asked (see `counter_invariants`)
    probe: bool,
    // oracle
    cap: usize,
    live: usize,
    pend: Option<usize>,
}

struct LwEng {
    /// the data pointer of the drop-waking waker (id 6) registered last
    dw_ptr: *const (),
    lw: Rc<LocalWaker>,
    outstanding: Option<usize>,
}

type RecvFut = Pin<Box<dyn Future<Output = Option<u32>>>>;

struct ChanEng {
    senders: Vec<Option<mpsc::Sender<u32>>>,
    live_senders: usize,
    /// a pending `recv()` future.  It borrows `*rx` mutably: it is dropped before `rx` is used in
    /// any other way (`drop_fut`), and declared before `rx` so that it is dropped first.
    fut: Option<RecvFut>,
    /// boxed: the receiver keeps its address while the engine moves
    rx: Option<Box<mpsc::Receiver<u32>>>,
    // oracle
    queue: VecDeque<u32>,
    closed: bool,
    parked: Option<usize>,
}
impl ChanEng {
    fn n_senders(&self) -> usize {
        self.live_senders // kept by hand: populations of 65 537 senders are driven through here
    }
    fn drop_fut(&mut self) {
        self.fut = None;
    }
    /// a fresh `rx.recv()` future
    fn new_fut(&mut self) -> Option<RecvFut> {
        self.fut = None;
        let rx: *mut mpsc::Receiver<u32> = &mut **self.rx.as_mut()?;
        // SAFETY: the receiver is boxed and owned by this engine; the future is stored in `self.fut`
        // and dropped (`drop_fut`) before the receiver is touched through any other path or dropped.
        let fut = unsafe { (*rx).recv() };
        Some(Box::pin(fut))
    }
}

enum Eng {
    Idle,
    Counter(CounterEng),
    Lw(LwEng),
    /// two independent channels per case: `b <op>` addresses the second one, `clonefrom` moves a
    /// sender handle from one to the other (or within one)
    Chan(Box<[ChanEng; 2]>),
}

struct T3 {
    counts: HashMap<String, u64>,
}
impl T3 {
    fn fail(&mut self, rep: &mut Report, prop: &str, msg: String) {
        let sig: String = format!(
            "{prop}:{}",
            msg.chars().map(|c| if c.is_ascii_digit() { '#' } else { c }).collect::<String>()
        );
        let n = self.counts.entry(sig).or_insert(0);
        *n += 1;
        if *n <= T3_CAP {
            rep.t3(prop, &msg);
        }
    }
}

/// Drop the objects of the finished case.  Every destructor runs on its own inside `catch`: a
/// destructor of the code under test that panics (e.g. a count that underflows) is an oracle failure
/// of the finished case, and must not take the harness down.
fn teardown(eng: &mut Eng, wk: &mut Wakers, rep: &mut Report, t3: &mut T3) {
    // the inline-polling tasks of the finished case are gone: their wakers do nothing from here on
    let tasks: Vec<Rc<Counter>> = INLINE.with(|x| {
        let mut x = x.borrow_mut();
        x.saw.clear();
        x.rereg.clear();
        x.lw = None;
        x.task.iter_mut().filter_map(|t| t.take()).collect()
    });
    let stray: Vec<(usize, CounterGuard, bool)> = INLINE.with(|x| std::mem::take(&mut x.borrow_mut().took));
    for (_, g, _) in stray {
        let _ = catch(move || drop(g));
    }
    for t in tasks {
        if let Err(m) = catch(move || drop(t)) {
            t3.fail(rep, "C17", format!("dropping a Counter handle at the end of the case panicked: {m}"));
        }
    }
    match std::mem::replace(eng, Eng::Idle) {
        Eng::Idle => {}
        Eng::Counter(mut e) => {
            // the guards owned by parked tasks go first (their wakers then find nothing to release)
            let held: Vec<CounterGuard> = DROPFX.with(|d| {
                let mut d = d.borrow_mut();
                d.freed.clear();
                d.held.drain().map(|(_, g)| g).collect()
            });
            for g in held {
                if let Err(m) = catch(move || drop(g)) {
                    t3.fail(rep, "C17", format!("dropping a parked task's guard at the end of the case panicked: {m}"));
                } else {
                    e.live -= 1;
                }
                counter_totals(&e, "the end-of-case drop of a guard", rep, t3);
            }
            // newest first, as a scope would
            for g in (0..e.guards.len()).rev() {
                if let Some(guard) = e.guards[g].take() {
                    if let Err(m) = catch(move || drop(guard)) {
                        t3.fail(rep, "C17", format!("dropping guard {g} at the end of the case panicked: {m}"));
                    } else {
                        e.live -= 1;
                    }
                    counter_totals(&e, "the end-of-case drop of a guard", rep, t3);
                }
            }
            for h in (0..e.handles.len()).rev() {
                if let Some(c) = e.handles[h].take() {
                    if let Err(m) = catch(move || drop(c)) {
                        t3.fail(rep, "C17", format!("dropping Counter handle {h} at the end of the case panicked: {m}"));
                    }
                }
            }
        }
        Eng::Lw(e) => {
            if let Err(m) = catch(move || drop(e)) {
                t3.fail(rep, "C17", format!("dropping the LocalWaker panicked: {m}"));
            }
        }
        Eng::Chan(pair) => {
            for mut e in *pair {
                e.drop_fut();
                for i in 0..e.senders.len() {
                    if let Some(s) = e.senders[i].take() {
                        if let Err(m) = catch(move || drop(s)) {
                            t3.fail(rep, "C16", format!("dropping sender {i} at the end of the case panicked: {m}"));
                        }
                    }
                }
                if let Some(rx) = e.rx.take() {
                    if let Err(m) = catch(move || drop(rx)) {
                        t3.fail(rep, "C16", format!("dropping the receiver at the end of the case panicked: {m}"));
                    }
                }
            }
        }
    }
    // wakes caused by the teardown belong to nobody
    DROPFX.with(|d| {
        let mut d = d.borrow_mut();
        d.freed.clear();
        d.woken.clear();
    });
    wk.delta();
    wk.probe_delta();
}

fn run(a: &Args) {
    install_panic_hook();
    if let Some(out) = &a.output {
        let _ = WATCHDOG.set(format!("{out}.watchdog"));
    }
    let mut rep = Report::new(&a.output);
    let mut t3 = T3 { counts: HashMap::new() };
    let mut wk = Wakers::new();
    let mut eng = Eng::Idle;
    for line in in_lines(&a.input) {
        LINES.fetch_add(1, Ordering::SeqCst);
        let ws: Vec<&str> = line.split_whitespace().collect();
        let real: String = if ws.first() == Some(&"case") {
            teardown(&mut eng, &mut wk, &mut rep, &mut t3);
            let counter = |cap: &str, probe: bool| -> Option<Eng> {
                let cap = cap_num(cap)?;
                Some(Eng::Counter(CounterEng {
                    handles: vec![Some(Counter::new(cap))],
                    guards: vec![],
                    probe,
                    cap,
                    live: 0,
                    pend: None,
                }))
            };
            let made: Option<Eng> = match ws.as_slice() {
                ["case", _, "counter", cap] => counter(cap, false),
                ["case", _, "counter", cap, "probe"] => counter(cap, true),
                ["case", _, "lw"] | ["case", _, "lw", "default"] => {
                    let lw = Rc::new(if ws.len() == 3 { LocalWaker::new() } else { LocalWaker::default() });
                    INLINE.with(|x| x.borrow_mut().lw = Some(lw.clone()));
                    Some(Eng::Lw(LwEng { dw_ptr: std::ptr::null(), lw, outstanding: None }))
                }
                ["case", _, "chan"] => {
                    let one = || {
                        let (tx, rx) = mpsc::channel::<u32>();
                        ChanEng {
                            senders: vec![Some(tx)],
                            live_senders: 1,
                            fut: None,
                            rx: Some(Box::new(rx)),
                            queue: VecDeque::new(),
                            closed: false,
                            parked: None,
                        }
                    };
                    Some(Eng::Chan(Box::new([one(), one()])))
                }
                _ => None,
            };
            match made {
                Some(e) => {
                    eng = e;
                    "ok".into()
                }
                None => "bad-op".into(),
            }
        } else {
            let r = catch(|| match &mut eng {
                Eng::Idle => None,
                Eng::Counter(e) => counter_op(e, &ws, &mut wk, &mut rep, &mut t3),
                Eng::Lw(e) => lw_op(e, &ws, &mut wk, &mut rep, &mut t3),
                Eng::Chan(pair) => chan_pair_op(pair, &ws, &mut wk, &mut rep, &mut t3),
            });
            match r {
                Ok(Some(s)) => s,
                Ok(None) => "bad-op".into(),
                Err(m) => {
                    let prop = if matches!(eng, Eng::Chan(_)) { "C16" } else { "C17" };
                    t3.fail(&mut rep, prop, format!("operation `{line}` panicked: {m}"));
                    wk.delta();
                    "panic".into()
                }
            }
        };
        rep.obs(&line, &real);
        rep_flush_some(&mut rep);
    }
    teardown(&mut eng, &mut wk, &mut rep, &mut t3);
    let mut supp: Vec<(String, u64)> = t3.counts.iter().filter(|(_, n)| **n > T3_CAP).map(|(k, n)| (k.clone(), *n - T3_CAP)).collect();
    supp.sort();
    for (k, n) in supp {
        rep.note(&format!("{n} further oracle failures of the shape `{k}` not listed"));
    }
    rep.finish();
}

/// the report is buffered (1 MiB); nothing to do per line — kept as a hook so that a future abort
/// can be narrowed down by flushing more often
fn rep_flush_some(_rep: &mut Report) {}

// ---- C17: Counter --------------------------------------------------------------------------------

/// `total` is a plain read: demand after every operation, through every live handle, that it is the
/// number of live guards ("total n-count is shared across all clones")
fn counter_totals(e: &CounterEng, after: &str, rep: &mut Report, t3: &mut T3) {
    for (h, c) in e.handles.iter().enumerate() {
        if let Some(c) = c {
            let n = c.total();
            if n != e.live {
                t3.fail(
                    rep,
                    "C17",
                    format!("after {after}: total() through handle {h} is {n} with {} live guards (capacity {})", e.live, e.cap),
                );
            }
        }
    }
}

/// `available ⇔ live < capacity` after every operation, asked where asking does not change the
/// state of a correct implementation: below the capacity nothing is registered (the oracle's own
/// probe waker is passed), at/above the capacity re-registering the waker that is pending anyway
/// changes nothing.  (At/above the capacity with nobody pending the question would park somebody:
/// not asked.)
fn counter_probe(e: &CounterEng, after: &str, wk: &mut Wakers, rep: &mut Report, t3: &mut T3) {
    if !e.probe {
        return;
    }
    for (h, c) in e.handles.iter().enumerate() {
        let Some(c) = c else { continue };
        if e.live < e.cap {
            let cx = Context::from_waker(&wk.probe);
            if !c.available(&cx) {
                t3.fail(
                    rep,
                    "C17",
                    format!("after {after}: available through handle {h} answered false with {} live guards and capacity {}", e.live, e.cap),
                );
            }
        } else if let Some(w) = e.pend.filter(|w| *w < NW + NI) {
            let cx = Context::from_waker(&wk.wakers[w]);
            if c.available(&cx) {
                t3.fail(
                    rep,
                    "C17",
                    format!("after {after}: available through handle {h} answered true with {} live guards and capacity {}", e.live, e.cap),
                );
            }
        }
    }
}

/// What the property demands of a guard release (a `drop`, or the release made by a displaced
/// guard-owning waker) beyond the wake-up itself, and the part of the observation that reports it:
/// the wake-up comes *when the count is below the capacity* — a woken task that polls inline finds
/// the slot freed — and what a taking task does there counts like any other call.
fn after_release(e: &mut CounterEng, op: &str, expect_wake: Option<usize>, rep: &mut Report, t3: &mut T3) -> String {
    // … and the wake-up comes *when the count is below the capacity*: a woken task that polls
    // inline (re-enters the counter from inside `wake()`) finds the slot freed
    let saw: Vec<(usize, usize, bool)> = INLINE.with(|x| std::mem::take(&mut x.borrow_mut().saw));
    let want_saw: Vec<(usize, usize, bool)> = expect_wake.filter(|w| (NW..NW + NI).contains(w)).map(|w| (w, e.live, true)).into_iter().collect();
    if saw != want_saw {
        t3.fail(
            rep,
            "C17",
            format!(
                "inside the wake-up of this `{op}` the woken task(s) polled inline and saw (waker, total, available) = {saw:?} with {} live guards after the drop (capacity {}): the property demands the wake-up when the count is below the capacity: {want_saw:?}",
                e.live, e.cap
            ),
        );
    }
    let mut head = String::new();
    if !saw.is_empty() {
        head += " saw=";
        head += &saw.iter().map(|(_, t, b)| format!("{t},{}", *b as u8)).collect::<Vec<_>>().join(";");
    }
    // a taking task took the freed slot inside its wake-up and the next task asked: both are
    // ordinary calls, made before the drop returned, and count like any other
    let took: Vec<(usize, CounterGuard, bool)> = INLINE.with(|x| std::mem::take(&mut x.borrow_mut().took));
    let want_taker: Option<usize> = expect_wake.filter(|w| (TAKER0..NW + NI).contains(w) && saw == want_saw);
    if took.iter().map(|t| t.0).collect::<Vec<_>>() != want_taker.into_iter().collect::<Vec<_>>() {
        t3.fail(rep, "C17", format!("inside the wake-up of this `{op}` the taking tasks {:?} took a slot; woken (and told a slot is free): {want_taker:?}", took.iter().map(|t| t.0).collect::<Vec<_>>()));
    }
    for (id, g, b) in took {
        e.guards.push(Some(g));
        e.live += 1;
        let want = e.live < e.cap;
        if b != want {
            t3.fail(rep, "C17", format!("asked from inside a wake-up, available answered {b} with {} live guards and capacity {}", e.live, e.cap));
        }
        if !want {
            // the task registered during the wake callback is the one the next release must wake
            e.pend = Some(id - NW);
        }
        head += &format!(" took={} next={}", e.guards.len() - 1, b as u8);
    }
    head
}

fn counter_op(e: &mut CounterEng, ws: &[&str], wk: &mut Wakers, rep: &mut Report, t3: &mut T3) -> Option<String> {
    let mut expect_wake: Option<usize> = None;
    let has = |e: &CounterEng, h: usize| h < e.handles.len() && e.handles[h].is_some();
    let head: String = match ws {
        ["acquire", h] => {
            let h = num(h).filter(|h| has(e, *h))?;
            // `get` never refuses: the counter gates through `available` only
            let g = e.handles[h].as_ref().unwrap().get();
            e.guards.push(Some(g));
            e.live += 1;
            format!("guard {}", e.guards.len() - 1)
        }
        [op @ ("drop" | "dropP"), g] => {
            let g = num(g).filter(|g| *g < e.guards.len() && e.guards[*g].is_some())?;
            let guard = e.guards[g].take();
            // property: the drop that brings the count below the capacity wakes the task most
            // recently answered "unavailable"
            if e.live == e.cap {
                expect_wake = e.pend.take();
            }
            e.live -= 1;
            if *op == "drop" {
                drop(guard);
            } else {
                // the same drop while the thread unwinds from a panic that is then caught
                drop_unwinding(guard, "C17", rep);
            }
            let tail = after_release(e, op, expect_wake, rep, t3);
            String::from("dropped") + &tail
        }
        [op @ ("avail" | "availG"), h, w] => {
            let h = num(h).filter(|h| has(e, *h))?;
            // `availG h g`: asked by a task that owns the live guard g; its waker is `100 + g`
            let (w, fresh): (usize, Option<Waker>) = if *op == "avail" {
                (num(w).filter(|w| *w < NW + NI)?, None)
            } else {
                let g = num(w).filter(|g| *g < e.guards.len() && e.guards[*g].is_some())?;
                let guard = e.guards[g].take().unwrap();
                DROPFX.with(|d| d.borrow_mut().held.insert(g, guard));
                (100 + g, Some(DW::fresh(100 + g).0))
            };
            if (NW..NW + NI).contains(&w) {
                // the inline-polling task owns a handle of its own: a clone of the one it asks through
                let own = Rc::new(e.handles[h].as_ref().unwrap().clone());
                let old = INLINE.with(|x| x.borrow_mut().task[w - NW].replace(own));
                drop(old);
            }
            let displaced = e.pend;
            let b = {
                let waker: &Waker = fresh.as_ref().unwrap_or_else(|| &wk.wakers[w]);
                e.handles[h].as_ref().unwrap().available(&Context::from_waker(waker))
            };
            if let (true, true) = (b, w >= 100) {
                // not parked: the task keeps running and its guard is an ordinary guard again
                let back = DROPFX.with(|d| d.borrow_mut().held.remove(&(w - 100)));
                e.guards[w - 100] = back;
            }
            drop(fresh); // if it was registered, the LocalWaker now holds the last clone
            let want = e.live < e.cap;
            if b != want {
                t3.fail(rep, "C17", format!("available answered {b} with {} live guards and capacity {}", e.live, e.cap));
            }
            let mut head = format!("avail {}", b as u8);
            if !want {
                e.pend = Some(w);
                // `register` stores the new waker and only then lets go of the displaced one: if that was
                // the last owner of a task holding a guard, the guard is released now — with the new waker
                // in place, so if a slot is freed the task just answered "unavailable" is the one woken
                if let Some(gd) = displaced.filter(|d| *d >= 100).map(|d| d - 100) {
                    if e.live == e.cap {
                        expect_wake = e.pend.take();
                    }
                    e.live -= 1;
                    head += &format!(" freed={gd}");
                    let freed: Vec<usize> = DROPFX.with(|d| std::mem::take(&mut d.borrow_mut().freed));
                    if freed != vec![gd] {
                        t3.fail(rep, "C17", format!("the displaced waker owned guard {gd}; guards released while it was dropped: {freed:?}"));
                    }
                    head += &after_release(e, op, expect_wake, rep, t3);
                }
            }
            head
        }
        ["clone", h] => {
            let h = num(h).filter(|h| has(e, *h))?;
            let c = e.handles[h].as_ref().unwrap().clone();
            e.handles.push(Some(c));
            format!("handle {}", e.handles.len() - 1)
        }
        ["total", h] => {
            let h = num(h).filter(|h| has(e, *h))?;
            let n = e.handles[h].as_ref().unwrap().total();
            if n != e.live {
                t3.fail(rep, "C17", format!("total() is {n} with {} live guards", e.live));
            }
            format!("total {n}")
        }
        ["dropH", h] => {
            let h = num(h).filter(|h| has(e, *h))?;
            let c = e.handles[h].take();
            drop(c);
            "dropped".into()
        }
        ["dbg", h] => {
            let h = num(h).filter(|h| has(e, *h))?;
            let s = format!("{:?}", e.handles[h].as_ref().unwrap());
            let want = format!("Counter(Counter {{ count: {}, capacity: {}, task: LocalWaker }})", e.live, e.cap);
            if s != want {
                t3.fail(rep, "C17", format!("Debug of the counter is `{s}` with {} live guards and capacity {}", e.live, e.cap));
            }
            format!("dbg {s}")
        }
        ["dbgG", g] => {
            let g = num(g).filter(|g| *g < e.guards.len() && e.guards[*g].is_some())?;
            let s = format!("{:?}", e.guards[g].as_ref().unwrap());
            let want = format!("CounterGuard(Counter {{ count: {}, capacity: {}, task: LocalWaker }})", e.live, e.cap);
            if s != want {
                t3.fail(rep, "C17", format!("Debug of a guard is `{s}` with {} live guards and capacity {}", e.live, e.cap));
            }
            format!("dbg {s}")
        }
        _ => return None,
    };
    let woke = wk.delta();
    let want: Vec<usize> = expect_wake.into_iter().collect();
    if woke != want {
        t3.fail(
            rep,
            "C17",
            format!(
                "`{}` with {} live guards after it (capacity {}): woke {:?}, the property demands {:?}",
                ws[0], e.live, e.cap, woke, want
            ),
        );
    }
    // a guard-owning task that was woken lives on: its guard is an ordinary guard again
    for id in woke.iter().filter(|x| **x >= 100) {
        if let Some(guard) = DROPFX.with(|d| d.borrow_mut().held.remove(&(id - 100))) {
            e.guards[id - 100] = Some(guard);
        }
    }
    let stray_freed: Vec<usize> = DROPFX.with(|d| std::mem::take(&mut d.borrow_mut().freed));
    if !stray_freed.is_empty() {
        t3.fail(rep, "C17", format!("`{}` made a parked task's waker go away un-woken: its guards {stray_freed:?} were released", ws[0]));
    }
    let stray_saw: Vec<(usize, usize, bool)> = INLINE.with(|x| std::mem::take(&mut x.borrow_mut().saw));
    if !stray_saw.is_empty() {
        t3.fail(rep, "C17", format!("`{}` woke an inline-polling task outside a releasing drop: it saw (waker, total, available) = {stray_saw:?}", ws[0]));
    }
    let after = format!("`{}`", ws[0]);
    counter_totals(e, &after, rep, t3);
    counter_probe(e, &after, wk, rep, t3);
    let stray = wk.delta();
    let stray_probe = wk.probe_delta();
    if !stray.is_empty() || stray_probe != 0 {
        t3.fail(rep, "C17", format!("asking available/total after `{}` woke {stray:?} (and the oracle's own waker {stray_probe} times)", ws[0]));
    }
    Some(head + &woke_str(&woke))
}

// ---- C17: LocalWaker -----------------------------------------------------------------------------
/// after a wake-up in the `lw` engine: the callback of a re-entrant waker found the cell empty (`wake`
/// takes the waker out first) and what it registered is what is registered now
fn lw_after_wake(e: &mut LwEng, woken: Option<usize>, what: &str, rep: &mut Report, t3: &mut T3) -> String {
    let rereg: Vec<(usize, bool)> = INLINE.with(|x| std::mem::take(&mut x.borrow_mut().rereg));
    let want: Vec<(usize, bool)> = woken.filter(|w| *w == NW || *w == NW + 1).map(|w| (w, false)).into_iter().collect();
    if rereg != want {
        t3.fail(rep, "C17", format!("inside `{what}` the re-entrant wakers registered again (waker, register returned) = {rereg:?}; the property demands {want:?}"));
    }
    match woken {
        Some(w) if w == NW => e.outstanding = Some(1),
        Some(w) if w == NW + 1 => e.outstanding = Some(w),
        _ => {}
    }
    match rereg.first() {
        Some((_, was)) => format!(" rereg={}", *was as u8),
        None => String::new(),
    }
}

fn lw_op(e: &mut LwEng, ws: &[&str], wk: &mut Wakers, rep: &mut Report, t3: &mut T3) -> Option<String> {
    let mut expect_wake: Option<usize> = None;
    let head: String = match ws {
        ["reg", w] => {
            // 4, 5: re-entrant wakers (woken, they register waker 1 / themselves on this LocalWaker);
            // 6: a fresh waker whose drop, un-woken, calls wake() on this LocalWaker
            let w = num(w).filter(|w| *w < NW + 3)?;
            let displaced = e.outstanding;
            let was = if w == 6 {
                let (waker, p) = DW::fresh(6);
                e.dw_ptr = p;
                e.lw.register(&waker)
            } else {
                e.lw.register(&wk.wakers[w])
            };
            if was != displaced.is_some() {
                t3.fail(rep, "C17", format!("register returned {was} but a waker was registered before: {}", displaced.is_some()));
            }
            e.outstanding = Some(w);
            let mut head = format!("registered {}", was as u8);
            if displaced == Some(6) {
                // `register` is `replace`: the new waker is in place when the displaced one is dropped, so
                // the wake made by that drop wakes the waker that is being registered
                expect_wake = e.outstanding.take();
                head += &lw_after_wake(e, expect_wake, "register (the displaced waker's drop calls wake)", rep, t3);
            }
            head
        }
        ["wake"] => {
            e.lw.wake();
            expect_wake = e.outstanding.take();
            String::from("done") + &lw_after_wake(e, expect_wake, "wake", rep, t3)
        }
        ["take"] => {
            let got = e.lw.take();
            let id = got.as_ref().map(|w| if w.data() == e.dw_ptr { Some(6) } else { wk.id_of(w) });
            let want = e.outstanding.take();
            let shown = match id {
                None => "-".to_string(),
                Some(Some(i)) => i.to_string(),
                Some(None) => "?".to_string(),
            };
            if id.map(|x| x.map(|i| i as i64).unwrap_or(-1)) != want.map(|i| i as i64) {
                t3.fail(rep, "C17", format!("take returned waker {shown}, most recently registered: {want:?}"));
            }
            format!("took {shown}")
        }
        ["dbg"] => {
            let s = format!("{:?}", e.lw);
            if s != "LocalWaker" {
                t3.fail(rep, "C17", format!("Debug of the LocalWaker is `{s}`"));
            }
            format!("dbg {s}")
        }
        _ => return None,
    };
    let woke = wk.delta();
    let want: Vec<usize> = expect_wake.into_iter().collect();
    if woke != want {
        t3.fail(rep, "C17", format!("LocalWaker `{}`: woke {:?}, the property demands {:?}", ws[0], woke, want));
    }
    Some(head + &woke_str(&woke))
}

// ---- C16: local_channel::mpsc --------------------------------------------------------------------

/// what the property demands of one answer of the receiver, whichever way it was asked
fn check_received(e: &mut ChanEng, r: &Poll<Option<u32>>, how: &str, rep: &mut Report, t3: &mut T3) -> String {
    let shown = match r {
        Poll::Ready(Some(x)) => format!("ready {x}"),
        Poll::Ready(None) => "ready none".into(),
        Poll::Pending => "pending".into(),
    };
    match e.queue.pop_front() {
        Some(front) => {
            if *r != Poll::Ready(Some(front)) {
                t3.fail(
                    rep,
                    "C16",
                    format!(
                        "{how} returned `{shown}` but message {front} is the next in send order ({} more buffered, closed={}, {} senders)",
                        e.queue.len(),
                        e.closed,
                        e.n_senders()
                    ),
                );
                // keep the bookkeeping in step with what was actually handed out
                if !matches!(r, Poll::Ready(Some(_))) {
                    e.queue.push_front(front);
                }
            }
        }
        None => {
            if e.closed || e.n_senders() == 0 {
                if *r != Poll::Ready(None) {
                    t3.fail(
                        rep,
                        "C16",
                        format!(
                            "{how} returned `{shown}` on a drained channel that is closed={} with {} senders: the property demands `ready none`",
                            e.closed,
                            e.n_senders()
                        ),
                    );
                }
            } else if *r != Poll::Pending {
                t3.fail(rep, "C16", format!("{how} returned `{shown}` on an empty open channel with {} senders", e.n_senders()));
            }
        }
    }
    shown
}

fn chan_debug(who: &str, e: &ChanEng) -> String {
    format!(
        "{who} {{ shared: RefCell {{ value: Shared {{ buffer: {:?}, blocked_recv: LocalWaker, has_receiver: {} }} }} }}",
        e.queue,
        e.rx.is_some() && !e.closed
    )
}

/// the wake-up rule, applied after every operation that goes to one channel
fn chan_wakes(e: &mut ChanEng, op: &str, must_wake: Option<&'static str>, wk: &mut Wakers, rep: &mut Report, t3: &mut T3) -> Vec<usize> {
    let woke = wk.delta();
    if e.rx.is_some() {
        // while the receiver lives: exactly the parked receiver is woken, exactly once, exactly by
        // the events the property names — and nobody else, ever
        let want: Vec<usize> = match (must_wake, e.parked) {
            (Some(_), Some(w)) => vec![w],
            _ => vec![],
        };
        if woke != want {
            match (must_wake, e.parked) {
                (Some(why), Some(w)) => t3.fail(
                    rep,
                    "C16",
                    format!(
                        "receiver parked with waker {w} (it returned Pending) was woken {} times by {why}; woke={woke:?}",
                        woke.iter().filter(|x| **x == w).count()
                    ),
                ),
                _ => t3.fail(
                    rep,
                    "C16",
                    format!("`{}` woke {woke:?} with the receiver parked={:?}: the property names no reason to wake anybody here", op, e.parked),
                ),
            }
        }
        if must_wake.is_some() {
            e.parked = None;
        }
    }
    if let Some(w) = e.parked {
        if woke.contains(&w) {
            e.parked = None;
        }
    }
    woke
}

/// `case … chan` holds two channels: `b <op>` goes to the second one, anything else to the first;
/// `clonefrom <a|b> i <a|b> j` is `senders[i].clone_from(&senders[j])` — the handle `i` of one channel
/// becomes a further sender of the (same or other) channel of `j`.  `Clone::clone_from` must behave as
/// `*self = source.clone()`: the old handle is **dropped** — if it was the last sender of its channel
/// the parked receiver there is woken and the stream ends — and the channel of `j` gets one more
/// sender (answer: `sender <new id in the channel of j>`).
fn chan_pair_op(pair: &mut [ChanEng; 2], ws: &[&str], wk: &mut Wakers, rep: &mut Report, t3: &mut T3) -> Option<String> {
    match ws {
        ["b", rest @ ..] if !rest.is_empty() && rest[0] != "b" && rest[0] != "clonefrom" => chan_op(&mut pair[1], rest, wk, rep, t3),
        ["b", ..] => None,
        ["clonefrom", ci, i, cj, j] => {
            let side = |c: &str| match c {
                "a" => Some(0usize),
                "b" => Some(1usize),
                _ => None,
            };
            let (ki, kj) = (side(ci)?, side(cj)?);
            let alive = |e: &ChanEng, i: usize| i < e.senders.len() && e.senders[i].is_some();
            let i = num(i).filter(|i| alive(&pair[ki], *i))?;
            let j = num(j).filter(|j| alive(&pair[kj], *j))?;
            if ki == kj && i == j {
                return None; // `a.clone_from(&a)` does not borrow-check
            }
            let mut h = pair[ki].senders[i].take().unwrap();
            pair[ki].live_senders -= 1;
            h.clone_from(pair[kj].senders[j].as_ref().unwrap());
            pair[kj].senders.push(Some(h));
            pair[kj].live_senders += 1;
            let id = pair[kj].senders.len() - 1;
            // for the channel the handle left, this was a sender drop
            let must_wake = (pair[ki].n_senders() == 0).then_some("the last sender being overwritten by clone_from (its old value is dropped)");
            let woke = chan_wakes(&mut pair[ki], "clonefrom", must_wake, wk, rep, t3);
            // the handle must now feed the channel of `j`: checked by whatever is sent through it later
            Some(format!("sender {id}") + &woke_str(&woke))
        }
        _ => chan_op(&mut pair[0], ws, wk, rep, t3),
    }
}

fn chan_op(e: &mut ChanEng, ws: &[&str], wk: &mut Wakers, rep: &mut Report, t3: &mut T3) -> Option<String> {
    // Some(reason) when the property demands that the parked receiver is woken by this operation
    let mut must_wake: Option<&'static str> = None;
    let alive = |e: &ChanEng, i: usize| i < e.senders.len() && e.senders[i].is_some();
    let head: String = match ws {
        ["send", i, x] | ["ssend", i, x] => {
            let i = num(i).filter(|i| alive(e, *i))?;
            let x = num(x)? as u32;
            let how = ws[0];
            let res = if how == "send" {
                e.senders[i].as_ref().unwrap().send(x)
            } else {
                Pin::new(e.senders[i].as_mut().unwrap()).start_send(x)
            };
            let ok = res.is_ok();
            let want_ok = e.rx.is_some() && !e.closed;
            if ok != want_ok {
                t3.fail(
                    rep,
                    "C16",
                    format!("{how} returned ok={ok} with receiver dropped={} closed={}", e.rx.is_none(), e.closed),
                );
            }
            if ok {
                e.queue.push_back(x);
            }
            if want_ok {
                must_wake = Some("a send");
            }
            match res {
                Ok(()) => "ok".into(),
                Err(err) => {
                    let (dbg, disp) = (format!("{err:?}"), format!("{err}"));
                    if dbg != "SendError(\"...\")" || disp != "send failed because receiver is gone" {
                        t3.fail(rep, "C16", format!("SendError formats as `{dbg}` / `{disp}`"));
                    }
                    let back = err.into_inner();
                    if back != x {
                        t3.fail(rep, "C16", format!("SendError::into_inner returned {back}, the rejected message was {x}"));
                    }
                    format!("err {back}")
                }
            }
        }
        ["clone", i] => {
            let i = num(i).filter(|i| alive(e, *i))?;
            let s = e.senders[i].as_ref().unwrap().clone();
            e.senders.push(Some(s));
            e.live_senders += 1;
            format!("sender {}", e.senders.len() - 1)
        }
        [op @ ("dropS" | "dropSP"), i] => {
            let i = num(i).filter(|i| alive(e, *i))?;
            let s = e.senders[i].take();
            e.live_senders -= 1;
            if *op == "dropS" {
                drop(s);
            } else {
                // the sender goes while the thread unwinds from a panic that is then caught: no sender
                // is left all the same, the parked receiver must be woken all the same
                drop_unwinding(s, "C16", rep);
            }
            if e.n_senders() == 0 {
                must_wake = Some(if *op == "dropS" { "the drop of the last sender" } else { "the drop of the last sender (during a caught unwind)" });
            }
            "dropped".into()
        }
        ["close", i] => {
            let i = num(i).filter(|i| alive(e, *i))?;
            e.senders[i].as_mut().unwrap().close();
            e.closed = true;
            must_wake = Some("close");
            "closed".into()
        }
        [op @ ("sready" | "sflush" | "sclose"), i, w] => {
            let i = num(i).filter(|i| alive(e, *i))?;
            let w = num(w).filter(|w| *w < NW)?;
            let mut cx = Context::from_waker(&wk.wakers[w]);
            let s = Pin::new(e.senders[i].as_mut().unwrap());
            let r = match *op {
                "sready" => s.poll_ready(&mut cx),
                "sflush" => s.poll_flush(&mut cx),
                _ => s.poll_close(&mut cx),
            };
            match r {
                Poll::Ready(Ok(())) => "ready ok".into(),
                Poll::Ready(Err(_)) => {
                    t3.fail(rep, "C16", format!("Sink::{op} of the unbounded sender returned an error"));
                    "ready err".into()
                }
                Poll::Pending => {
                    t3.fail(rep, "C16", format!("Sink::{op} of the unbounded sender returned Pending"));
                    "pending".into()
                }
            }
        }
        ["poll", w] => {
            let w = num(w).filter(|w| *w < NW)?;
            e.rx.as_ref()?;
            e.drop_fut();
            let mut cx = Context::from_waker(&wk.wakers[w]);
            let r = Pin::new(&mut **e.rx.as_mut().unwrap()).poll_next(&mut cx);
            let shown = check_received(e, &r, "poll_next", rep, t3);
            if r == Poll::Pending {
                e.parked = Some(w);
            }
            shown
        }
        [op @ ("recv" | "recvNew"), w] => {
            let w = num(w).filter(|w| *w < NW)?;
            e.rx.as_ref()?;
            let (mut fut, how) = match e.fut.take() {
                Some(f) if *op == "recv" => (f, "a pending recv() future polled again"),
                Some(f) => {
                    drop(f);
                    (e.new_fut()?, "a fresh recv() future (after dropping a pending one)")
                }
                None => (e.new_fut()?, "a fresh recv() future"),
            };
            let mut cx = Context::from_waker(&wk.wakers[w]);
            let r = fut.as_mut().poll(&mut cx);
            let shown = check_received(e, &r, how, rep, t3);
            if r == Poll::Pending {
                e.parked = Some(w);
                e.fut = Some(fut);
            }
            shown
        }
        ["recvDrop"] => {
            e.rx.as_ref()?;
            e.drop_fut();
            "fdropped".into()
        }
        ["rsender"] => {
            e.rx.as_ref()?;
            e.drop_fut();
            let s = e.rx.as_ref()?.sender();
            e.senders.push(Some(s));
            e.live_senders += 1;
            format!("sender {}", e.senders.len() - 1)
        }
        [op @ ("dropR" | "dropRP")] => {
            e.rx.as_ref()?;
            e.drop_fut();
            let rx = e.rx.take()?;
            if *op == "dropR" {
                drop(rx);
            } else {
                drop_unwinding(rx, "C16", rep);
            }
            e.queue.clear();
            e.parked = None;
            "dropped".into()
        }
        ["dbgS", i] => {
            let i = num(i).filter(|i| alive(e, *i))?;
            let s = format!("{:?}", e.senders[i].as_ref().unwrap());
            if s != chan_debug("Sender", e) {
                t3.fail(rep, "C16", format!("Debug of a sender is `{s}`; accepted and not yet received: {:?}, closed={}", e.queue, e.closed));
            }
            format!("dbg {s}")
        }
        ["dbgR"] => {
            e.rx.as_ref()?;
            e.drop_fut();
            let s = format!("{:?}", e.rx.as_ref().unwrap());
            if s != chan_debug("Receiver", e) {
                t3.fail(rep, "C16", format!("Debug of the receiver is `{s}`; accepted and not yet received: {:?}, closed={}", e.queue, e.closed));
            }
            format!("dbg {s}")
        }
        _ => return None,
    };
    let woke = chan_wakes(e, ws[0], must_wake, wk, rep, t3);
    Some(head + &woke_str(&woke))
}

// ------------------------------------------------------------------------------------------------
// generators
// ------------------------------------------------------------------------------------------------

fn emit(w: &mut dyn Write, header: &str, ops: &[String]) {
    writeln!(w, "{header}").unwrap();
    for o in ops {
        writeln!(w, "{o}").unwrap();
    }
}

/// C17 directed scenarios, emitted first: histories that go above the capacity (`get` is never
/// refused), the latest of several parked wakers, clones and dropped handles, `Debug`.
fn gen_c17_scenarios(w: &mut dyn Write, n: &mut u64) {
    for probe in [true, false] {
        let tag = if probe { " probe" } else { "" };
        for cap in 0..=3usize {
            for over in 1..=2usize {
                // fill up to cap+over, then release newest-first / oldest-first, asking after every step
                // `ask_often`: ask after every step; otherwise only once, at the top: the one parked
                // there must be woken by the drop that takes the count from cap to cap - 1, no earlier
                for (newest_first, ask_often) in [(true, true), (false, true), (true, false), (false, false)] {
                    let total = cap + over;
                    let mut ops: Vec<String> = vec![];
                    for k in 0..total {
                        ops.push("acquire 0".into());
                        if (ask_often && k + 1 >= cap) || k + 1 == total {
                            ops.push(format!("avail 0 {}", k % NW));
                        }
                    }
                    ops.push("total 0".into());
                    ops.push("dbg 0".into());
                    let order: Vec<usize> = if newest_first { (0..total).rev().collect() } else { (0..total).collect() };
                    for (k, g) in order.iter().enumerate() {
                        ops.push(format!("drop {g}"));
                        ops.push("total 0".into());
                        if ask_often {
                            ops.push(format!("avail 0 {}", (k + 1) % NW));
                        }
                    }
                    ops.push("avail 0 0".into());
                    *n += 1;
                    emit(
                        w,
                        &format!("case sc-over-{cap}-{over}-{}{}{} counter {cap}{tag}", newest_first as u8, ask_often as u8, if probe { "p" } else { "" }),
                        &ops,
                    );
                }
            }
            // two tasks answered "unavailable": the drop wakes the later one, once
            let mut ops: Vec<String> = (0..cap).map(|_| "acquire 0".to_string()).collect();
            ops.extend(["avail 0 0", "avail 0 1"].map(String::from));
            if cap > 0 {
                ops.extend(["drop 0", "avail 0 2", "acquire 0", "avail 0 3", "avail 0 2"].map(String::from));
                ops.push(format!("drop {cap}"));
                if cap > 1 {
                    ops.push(format!("drop {}", cap - 1));
                }
                ops.push("avail 0 0".into());
            }
            *n += 1;
            emit(w, &format!("case sc-latest-{cap}{} counter {cap}{tag}", if probe { "p" } else { "" }), &ops);
            // clones share the count; a dropped handle changes nothing
            let mut ops: Vec<String> = vec!["clone 0".into(), "clone 1".into()];
            for k in 0..=cap {
                ops.push(format!("acquire {}", k % 3));
                ops.push(format!("total {}", (k + 1) % 3));
            }
            ops.extend(["avail 2 1", "avail 1 2", "dropH 1", "avail 0 3", "dbg 2", "dbgG 0", "dropH 0", "drop 0", "total 2", "avail 2 0", "clone 2", "dropH 2", "total 3", "drop 1", "avail 3 1"].map(String::from));
            *n += 1;
            emit(w, &format!("case sc-clones-{cap}{} counter {cap}{tag}", if probe { "p" } else { "" }), &ops);
        }
    }
    // a task whose waker polls inline (ids 4, 5) is parked at the top; the drop that frees a slot wakes
    // it and it must find the slot freed from inside its wake-up — for every capacity, overshoot,
    // release order, normal drops and drops during a caught unwind
    for probe in [false, true] {
        for cap in 1..=3usize {
            for over in 0..=2usize {
                for (newest_first, unwind) in [(true, false), (false, false), (true, true), (false, true)] {
                    let total = cap + over;
                    let mut ops: Vec<String> = (0..total).map(|_| "acquire 0".to_string()).collect();
                    ops.push("avail 0 1".into());
                    ops.push(format!("avail 0 {}", NW + over % NI));
                    let order: Vec<usize> = if newest_first { (0..total).rev().collect() } else { (0..total).collect() };
                    for g in order {
                        ops.push(format!("{} {g}", if unwind { "dropP" } else { "drop" }));
                        ops.push("total 0".into());
                    }
                    // nobody may be left registered: refill and release once more
                    ops.extend((0..cap).map(|_| "acquire 0".to_string()));
                    ops.push(format!("drop {total}"));
                    ops.push("avail 0 2".into());
                    *n += 1;
                    emit(
                        w,
                        &format!("case sc-inline-{cap}-{over}-{}{}{} counter {cap}{}", newest_first as u8, unwind as u8, if probe { "p" } else { "" }, if probe { " probe" } else { "" }),
                        &ops,
                    );
                }
            }
        }
    }
    // capacities that do not fit a narrower or a signed integer: the gate is open below them
    for (k, cap) in [u32::MAX as usize, 1usize << 32, isize::MAX as usize, (isize::MAX as usize) + 1, usize::MAX - 1, usize::MAX, 1usize << 31, u16::MAX as usize + 1]
        .iter()
        .enumerate()
    {
        for probe in [false, true] {
            let ops: Vec<String> = ["avail 0 1", "acquire 0", "clone 0", "acquire 1", "avail 1 2", "total 0", "dbg 0", "acquire 0", "avail 0 4", "dbgG 1", "drop 1", "avail 1 6", "dropP 0", "total 1", "drop 2", "avail 0 3", "total 0"]
                .iter()
                .map(|o| o.to_string())
                .collect();
            *n += 1;
            emit(w, &format!("case sc-bigcap-{k}{} counter {cap}{}", if probe { "p" } else { "" }, if probe { " probe" } else { "" }), &ops);
        }
    }
    // a taking task (wakers 6, 7): woken by the release it takes the freed slot inside its wake-up and the
    // next task (counting waker 2 / 3) is answered "unavailable" there — that registration, made during
    // the wake callback, is the one the next release must wake
    for probe in [false, true] {
        for cap in 1..=3usize {
            for over in 0..=1usize {
                for unwind in [false, true] {
                    let total = cap + over;
                    let d = if unwind { "dropP" } else { "drop" };
                    let mut ops: Vec<String> = (0..total).map(|_| "acquire 0".to_string()).collect();
                    ops.push(format!("avail 0 {}", TAKER0 + over));
                    for g in 0..=over {
                        ops.push(format!("{d} {g}")); // the last of these wakes the taker: guard `total` is taken
                    }
                    ops.push("total 0".into());
                    // next release: wakes the asker that registered inside the callback
                    let next = if cap >= 2 { over + 1 } else { total };
                    ops.push(format!("{d} {next}"));
                    ops.push("total 0".into());
                    ops.push(format!("avail 0 {}", TAKER0 + 1 - over));
                    if cap >= 2 {
                        ops.push(format!("drop {total}"));
                    }
                    ops.push("avail 0 0".into());
                    *n += 1;
                    emit(
                        w,
                        &format!("case sc-taker-{cap}-{over}-{}{} counter {cap}{}", unwind as u8, if probe { "p" } else { "" }, if probe { " probe" } else { "" }),
                        &ops,
                    );
                }
            }
        }
    }
    // every Counter handle is dropped first; the guards alone keep the counter alive and still release
    for cap in 1..=2usize {
        for over in 0..=1usize {
            for clones in 0..=1usize {
                let total = cap + over;
                let mut ops: Vec<String> = (0..clones).map(|_| "clone 0".to_string()).collect();
                ops.extend((0..total).map(|k| format!("acquire {}", k % (clones + 1))));
                ops.push(format!("avail {clones} 1"));
                for h in 0..=clones {
                    ops.push(format!("dropH {h}"));
                }
                ops.push("dbgG 0".into());
                for g in 0..total {
                    ops.push(format!("{} {g}", if g % 2 == 1 { "dropP" } else { "drop" }));
                }
                *n += 1;
                emit(w, &format!("case sc-nohandle-{cap}-{over}-{clones} counter {cap}"), &ops);
            }
        }
    }
    // a parked task that owns a guard (availG): the next task answered "unavailable" displaces its waker,
    // the task goes, its guard is released — with the new waker already registered: the new task is woken
    for probe in [false, true] {
        for cap in 1..=3usize {
            for over in 0..=1usize {
                for newer in ["avail 0 1", "avail 0 4", "avail 0 6", "availG 0 1"] {
                    let total = cap + over;
                    if newer == "availG 0 1" && total < 2 {
                        continue;
                    }
                    let mut ops: Vec<String> = (0..total).map(|_| "acquire 0".to_string()).collect();
                    ops.push("availG 0 0".into());
                    ops.push("drop 0".into()); // bad-op: the guard belongs to the parked task
                    ops.push(newer.to_string());
                    ops.push("total 0".into());
                    ops.push("avail 0 2".into());
                    for g in 1..total {
                        ops.push(format!("drop {g}"));
                    }
                    ops.push("total 0".into());
                    ops.push("avail 0 3".into());
                    *n += 1;
                    emit(
                        w,
                        &format!("case sc-gw-{cap}-{over}-{}{} counter {cap}{}", newer.replace(' ', ""), if probe { "p" } else { "" }, if probe { " probe" } else { "" }),
                        &ops,
                    );
                }
                // the guard-owning task is woken by an ordinary release instead: it lives on, guard and all
                let total = cap + over;
                let mut ops: Vec<String> = (0..total).map(|_| "acquire 0".to_string()).collect();
                ops.push(format!("availG 0 {}", total - 1));
                for g in 0..=over {
                    ops.push(format!("drop {g}"));
                }
                ops.push(format!("dbgG {}", total - 1));
                ops.push(format!("drop {}", total - 1));
                ops.push("total 0".into());
                *n += 1;
                emit(w, &format!("case sc-gw-woken-{cap}-{over}{} counter {cap}{}", if probe { "p" } else { "" }, if probe { " probe" } else { "" }), &ops);
            }
        }
    }
    for (k, ops) in [
        vec!["reg 6", "reg 0", "wake"],
        vec!["reg 6", "reg 4", "wake", "wake"],
        vec!["reg 6", "reg 5", "wake", "take"],
        vec!["reg 6", "reg 6", "reg 1", "wake"],
        vec!["reg 6", "wake", "reg 2", "wake"],
        vec!["reg 6", "take", "reg 3", "reg 6", "dbg", "reg 0", "reg 1", "wake"],
    ]
    .iter()
    .enumerate()
    {
        for how in ["lw", "lw default"] {
            *n += 1;
            emit(w, &format!("case sc-lwdrop-{k}{} {how}", if how == "lw" { "" } else { "d" }), &ops.iter().map(|s| s.to_string()).collect::<Vec<_>>());
        }
    }
    for (k, ops) in [
        vec!["reg 4", "wake", "wake", "wake"],
        vec!["reg 4", "wake", "reg 0", "wake"],
        vec!["reg 5", "wake", "wake", "take", "wake"],
        vec!["reg 5", "wake", "reg 4", "wake", "take"],
        vec!["reg 0", "reg 4", "take", "wake", "reg 5", "reg 4", "wake", "dbg", "wake"],
    ]
    .iter()
    .enumerate()
    {
        for how in ["lw", "lw default"] {
            *n += 1;
            emit(w, &format!("case sc-lwre-{k}{} {how}", if how == "lw" { "" } else { "d" }), &ops.iter().map(|s| s.to_string()).collect::<Vec<_>>());
        }
    }
    for how in ["lw", "lw default"] {
        for (k, ops) in [
            vec!["reg 0", "reg 1", "wake", "wake"],
            vec!["reg 0", "reg 1", "take", "take", "wake"],
            vec!["reg 2", "reg 2", "wake", "reg 3", "dbg", "wake"],
            vec!["dbg", "wake", "take", "reg 1", "dbg", "reg 0", "reg 1", "wake"],
        ]
        .iter()
        .enumerate()
        {
            *n += 1;
            emit(w, &format!("case sc-lw-{k}{} {how}", if how == "lw" { "" } else { "d" }), &ops.iter().map(|s| s.to_string()).collect::<Vec<_>>());
        }
    }
}

/// C17 large populations: capacities around 2^8 and 2^9 with capacity+2 simultaneous guards — the gate
/// shuts exactly at the capacity, the release from capacity to capacity-1 wakes the latest asker (once
/// a counting waker, once an inline-polling one), `total` follows all the way up and down.
fn gen_c17_populations(w: &mut dyn Write, n: &mut u64) {
    for cap in [127usize, 128, 255, 256, 257, 511, 512, 513] {
        for probe in [false, true] {
            let mut ops: Vec<String> = vec!["clone 0".into()];
            for k in 0..cap + 2 {
                ops.push(format!("acquire {}", k % 2));
                if k + 3 >= cap {
                    ops.push(format!("avail {} {}", (k + 1) % 2, k % NW));
                    ops.push("total 0".into());
                }
            }
            ops.push(format!("drop {}", cap + 1));
            ops.push(format!("avail 0 {}", NW + cap % NI));
            ops.push(format!("dropP {cap}"));
            ops.push("total 1".into());
            ops.push("drop 0".into()); // capacity -> capacity - 1: wakes the inline-polling asker
            ops.push("avail 1 1".into());
            ops.push("acquire 0".into());
            ops.push("avail 1 2".into());
            ops.push(format!("drop {}", cap + 2)); // again: wakes waker 2
            for g in 1..cap {
                ops.push(format!("{} {g}", if g % 5 == 0 { "dropP" } else { "drop" }));
                if g % 64 == 0 || g + 3 >= cap {
                    ops.push(format!("total {}", g % 2));
                    ops.push("avail 0 3".into());
                }
            }
            ops.push("dbg 1".into());
            *n += 1;
            emit(w, &format!("case pop-{cap}{} counter {cap}{}", if probe { "p" } else { "" }, if probe { " probe" } else { "" }), &ops);
        }
    }
}

/// C17 exhaustive: every sequence of exactly `len` applicable operations over
/// {acquire, drop g, avail with waker 0..wakers, clone (at most `max_clones`)}; the newest handle
/// acquires, handle 0 is asked, `total` is read through the newest handle at the end.
/// `all_guards`: every live guard may be dropped; otherwise only the oldest and the newest one once
/// more than two are alive (guards are interchangeable clones of one `Rc`).
#[derive(Clone, Copy)]
struct CxCfg {
    cap: usize,
    len: usize,
    max_clones: usize,
    all_guards: bool,
    wakers: usize,
}
fn gen_counter_exhaustive(w: &mut dyn Write, cfg: CxCfg, n: &mut u64) {
    struct St {
        ops: Vec<String>,
        live: Vec<usize>,
        next_guard: usize,
        handles: usize,
    }
    fn rec(w: &mut dyn Write, st: &mut St, cfg: CxCfg, n: &mut u64) {
        let CxCfg { cap, len, max_clones, all_guards, wakers } = cfg;
        if st.ops.len() == len {
            *n += 1;
            writeln!(w, "case cx{}-{} counter {cap}", cap, *n).unwrap();
            for o in &st.ops {
                writeln!(w, "{o}").unwrap();
            }
            writeln!(w, "total {}", st.handles - 1).unwrap();
            return;
        }
        // acquire
        st.ops.push(format!("acquire {}", st.handles - 1));
        st.live.push(st.next_guard);
        st.next_guard += 1;
        rec(w, st, cfg, n);
        st.next_guard -= 1;
        st.live.pop();
        st.ops.pop();
        // drop
        let cands: Vec<usize> = if all_guards || st.live.len() <= 2 {
            (0..st.live.len()).collect()
        } else {
            vec![0, st.live.len() - 1]
        };
        for k in cands {
            let g = st.live.remove(k);
            st.ops.push(format!("drop {g}"));
            rec(w, st, cfg, n);
            st.ops.pop();
            st.live.insert(k, g);
        }
        // avail
        for wk in 0..wakers {
            st.ops.push(format!("avail 0 {wk}"));
            rec(w, st, cfg, n);
            st.ops.pop();
        }
        // clone
        if st.handles - 1 < max_clones {
            st.ops.push(format!("clone {}", st.handles - 1));
            st.handles += 1;
            rec(w, st, cfg, n);
            st.handles -= 1;
            st.ops.pop();
        }
    }
    let mut st = St { ops: vec![], live: vec![], next_guard: 0, handles: 1 };
    rec(w, &mut st, cfg, n);
}

/// C17 exhaustive over the handle operations, with the after-every-operation probes switched on:
/// every sequence of exactly `len` applicable operations over {acquire via the newest live handle,
/// drop the oldest / newest live guard, avail via the oldest live handle with waker 0|1, clone the
/// newest live handle (≤ 2 clones), dropH of the oldest live handle while two are alive, dbg, dbgG}.
fn gen_counter_handles_exhaustive(w: &mut dyn Write, cap: usize, len: usize, n: &mut u64) {
    struct St {
        ops: Vec<String>,
        live: Vec<usize>,
        next_guard: usize,
        handles: Vec<usize>,
        next_handle: usize,
    }
    fn rec(w: &mut dyn Write, st: &mut St, cap: usize, len: usize, n: &mut u64) {
        if st.ops.len() == len {
            *n += 1;
            writeln!(w, "case ch{}-{} counter {cap} probe", cap, *n).unwrap();
            for o in &st.ops {
                writeln!(w, "{o}").unwrap();
            }
            return;
        }
        let newest = *st.handles.last().unwrap();
        let oldest = st.handles[0];
        st.ops.push(format!("acquire {newest}"));
        st.live.push(st.next_guard);
        st.next_guard += 1;
        rec(w, st, cap, len, n);
        st.next_guard -= 1;
        st.live.pop();
        st.ops.pop();
        let mut cands: Vec<usize> = vec![];
        if !st.live.is_empty() {
            cands.push(0);
            if st.live.len() > 1 {
                cands.push(st.live.len() - 1);
            }
        }
        for k in cands {
            let g = st.live.remove(k);
            st.ops.push(format!("drop {g}"));
            rec(w, st, cap, len, n);
            st.ops.pop();
            st.live.insert(k, g);
        }
        for wk in 0..2 {
            st.ops.push(format!("avail {oldest} {wk}"));
            rec(w, st, cap, len, n);
            st.ops.pop();
        }
        if st.next_handle < 3 {
            st.ops.push(format!("clone {newest}"));
            st.handles.push(st.next_handle);
            st.next_handle += 1;
            rec(w, st, cap, len, n);
            st.next_handle -= 1;
            st.handles.pop();
            st.ops.pop();
        }
        if st.handles.len() >= 2 {
            let h = st.handles.remove(0);
            st.ops.push(format!("dropH {h}"));
            rec(w, st, cap, len, n);
            st.ops.pop();
            st.handles.insert(0, h);
        }
        // Debug once per history at most (it changes nothing)
        if !st.ops.iter().any(|o| o.starts_with("dbg")) {
            st.ops.push(format!("dbg {newest}"));
            rec(w, st, cap, len, n);
            st.ops.pop();
            if let Some(g) = st.live.first().copied() {
                st.ops.push(format!("dbgG {g}"));
                rec(w, st, cap, len, n);
                st.ops.pop();
            }
        }
    }
    let mut st = St { ops: vec![], live: vec![], next_guard: 0, handles: vec![0], next_handle: 1 };
    rec(w, &mut st, cap, len, n);
}

/// C17 exhaustive over the re-entrant wakers and the unwinding drops: every sequence of exactly `len`
/// applicable operations over {acquire, drop and dropP of the oldest / newest live guard, avail with
/// waker 0 (counting), 4, 5 (inline-polling)}; odd-numbered cases run with the availability probe.
fn gen_counter_inline_exhaustive(w: &mut dyn Write, cap: usize, len: usize, n: &mut u64) {
    struct St {
        ops: Vec<String>,
        live: Vec<usize>,
        next_guard: usize,
    }
    fn rec(w: &mut dyn Write, st: &mut St, cap: usize, len: usize, n: &mut u64) {
        if st.ops.len() == len {
            *n += 1;
            writeln!(w, "case ci{}-{} counter {cap}{}", cap, *n, if *n % 2 == 1 { " probe" } else { "" }).unwrap();
            for o in &st.ops {
                writeln!(w, "{o}").unwrap();
            }
            return;
        }
        st.ops.push("acquire 0".into());
        st.live.push(st.next_guard);
        st.next_guard += 1;
        rec(w, st, cap, len, n);
        st.next_guard -= 1;
        st.live.pop();
        st.ops.pop();
        let mut cands: Vec<usize> = vec![];
        if !st.live.is_empty() {
            cands.push(0);
            if st.live.len() > 1 {
                cands.push(st.live.len() - 1);
            }
        }
        for k in cands {
            let g = st.live.remove(k);
            for op in ["drop", "dropP"] {
                st.ops.push(format!("{op} {g}"));
                rec(w, st, cap, len, n);
                st.ops.pop();
            }
            st.live.insert(k, g);
        }
        for wk in [0, NW, NW + 1, TAKER0] {
            st.ops.push(format!("avail 0 {wk}"));
            rec(w, st, cap, len, n);
            st.ops.pop();
        }
        // asked by a task that owns the oldest live guard: displaced un-woken, it releases that guard
        if let Some(&g) = st.live.first() {
            st.ops.push(format!("availG 0 {g}"));
            rec(w, st, cap, len, n);
            st.ops.pop();
        }
    }
    let mut st = St { ops: vec![], live: vec![], next_guard: 0 };
    rec(w, &mut st, cap, len, n);
}

fn gen_lw_exhaustive(w: &mut dyn Write, alpha: &[&str], how: &str, len: usize, n: &mut u64) {
    let total = alpha.len().pow(len as u32);
    for mut k in 0..total {
        *n += 1;
        writeln!(w, "case lw-{} {how}", *n).unwrap();
        for _ in 0..len {
            writeln!(w, "{}", alpha[k % alpha.len()]).unwrap();
            k /= alpha.len();
        }
    }
}

const JUNK: [&str; 16] = [
    "frob", "acquire", "drop x", "avail 0 9", "poll 7", "send 0", "close -1", "take 3", "reg 4", "total 0 0", "recv", "recv 4", "sready 0", "dbg x",
    "dropH", "ssend 0",
];

fn gen_counter_random(w: &mut dyn Write, rng: &mut Rng, cases: usize, max_len: usize) {
    for c in 0..cases {
        let cap = rng.below(6);
        writeln!(w, "case cr-{c} counter {cap}{}", if rng.chance(1, 2) { " probe" } else { "" }).unwrap();
        let (mut live, mut next): (Vec<usize>, usize) = (vec![], 0);
        let (mut handles, mut next_h): (Vec<usize>, usize) = (vec![0], 1);
        // per case: how far above the capacity this history likes to go
        let over = 1 + rng.below(4);
        for _ in 0..rng.range(4, max_len) {
            // bias towards hovering around the capacity, where the behaviour changes
            let r = rng.below(100);
            if r < 3 {
                writeln!(w, "{}", rng.pick(&JUNK)).unwrap();
            } else if r < 6 {
                // stale / unknown ids and handles: rejected identically by both sides
                let dead: Vec<usize> = (0..next + 2).filter(|g| !live.contains(g)).collect();
                let dead_h: Vec<usize> = (0..next_h + 2).filter(|h| !handles.contains(h)).collect();
                match rng.below(3) {
                    0 => writeln!(w, "drop {}", rng.pick(&dead)).unwrap(),
                    1 => writeln!(w, "acquire {}", rng.pick(&dead_h)).unwrap(),
                    _ => writeln!(w, "total {}", rng.pick(&dead_h)).unwrap(),
                }
            } else if handles.is_empty() {
                // only the guards are left
                if !live.is_empty() {
                    let k = rng.below(live.len());
                    if rng.chance(1, 5) {
                        writeln!(w, "dbgG {}", live[k]).unwrap();
                    } else {
                        writeln!(w, "{} {}", if rng.chance(1, 5) { "dropP" } else { "drop" }, live.remove(k)).unwrap();
                    }
                } else {
                    writeln!(w, "total 0").unwrap();
                }
            } else if r < 34 && live.len() < cap + over {
                writeln!(w, "acquire {}", rng.pick(&handles)).unwrap();
                live.push(next);
                next += 1;
            } else if r < 58 && !live.is_empty() {
                let k = rng.below(live.len());
                writeln!(w, "{} {}", if rng.chance(1, 5) { "dropP" } else { "drop" }, live.remove(k)).unwrap();
            } else if r < 82 {
                if !live.is_empty() && rng.chance(1, 8) {
                    // asked by a task that owns one of the live guards
                    writeln!(w, "availG {} {}", rng.pick(&handles), rng.pick(&live)).unwrap();
                    continue;
                }
                // one in four askers polls inline when woken (wakers 4, 5)
                let wk = if rng.chance(1, 4) { NW + rng.below(NI) } else { rng.below(NW) };
                writeln!(w, "avail {} {wk}", rng.pick(&handles)).unwrap();
            } else if r < 87 && next_h < 5 {
                writeln!(w, "clone {}", rng.pick(&handles)).unwrap();
                handles.push(next_h);
                next_h += 1;
            } else if r < 90 && (handles.len() > 1 || rng.chance(1, 6)) {
                let k = rng.below(handles.len());
                writeln!(w, "dropH {}", handles.remove(k)).unwrap();
            } else if r < 93 {
                if !live.is_empty() && rng.chance(1, 2) {
                    writeln!(w, "dbgG {}", rng.pick(&live)).unwrap();
                } else {
                    writeln!(w, "dbg {}", rng.pick(&handles)).unwrap();
                }
            } else {
                writeln!(w, "total {}", rng.pick(&handles)).unwrap();
            }
        }
    }
}

fn gen_c17(a: &Args, w: &mut dyn Write) {
    let thorough = a.tier == "thorough";
    let mut sc = 0u64;
    gen_c17_scenarios(w, &mut sc);
    gen_c17_populations(w, &mut sc);
    let mut n = 0u64;
    for cap in 0..=3 {
        // (1) every live guard droppable, one clone allowed, two wakers
        gen_counter_exhaustive(w, CxCfg { cap, len: if thorough { 7 } else { 6 }, max_clones: 1, all_guards: true, wakers: 2 }, &mut n);
        // (2) longer, no clone, oldest/newest guard only once three are alive
        gen_counter_exhaustive(w, CxCfg { cap, len: if thorough { 9 } else { 7 }, max_clones: 0, all_guards: false, wakers: 2 }, &mut n);
    }
    // (2b) handle operations (clone / dropH / Debug), probes on
    let mut nh = 0u64;
    for cap in 0..=2 {
        gen_counter_handles_exhaustive(w, cap, if thorough { 7 } else { 6 }, &mut nh);
    }
    // (2c) inline-polling wakers and drops during a caught unwind: every sequence over {acquire, drop / dropP of
    // the oldest / newest guard, avail with the counting waker 0 or the inline-polling wakers 4, 5}
    let mut ni = 0u64;
    for cap in 1..=2 {
        gen_counter_inline_exhaustive(w, cap, if thorough { 7 } else { 6 }, &mut ni);
    }
    // (3) LocalWaker: all register/wake/take sequences with 2 wakers; with Debug and `default()` shorter
    let mut m = 0u64;
    gen_lw_exhaustive(w, &["reg 0", "reg 1", "wake", "take"], "lw", if thorough { 8 } else { 6 }, &mut m);
    gen_lw_exhaustive(w, &["reg 0", "reg 1", "wake", "take", "dbg"], "lw default", if thorough { 7 } else { 5 }, &mut m);
    // re-entrant wakers: woken, 4 registers waker 1 and 5 registers itself on the same LocalWaker
    gen_lw_exhaustive(w, &["reg 0", "reg 4", "reg 5", "wake", "take"], "lw", if thorough { 7 } else { 6 }, &mut m);
    // a waker whose drop (un-woken: displaced by the next register) calls wake() on the same LocalWaker
    gen_lw_exhaustive(w, &["reg 0", "reg 4", "reg 5", "reg 6", "wake", "take"], "lw default", if thorough { 7 } else { 5 }, &mut m);
    // (4) random long histories, capacities 0..5, 4 wakers, clones, dropped handles, junk lines
    let mut rng = Rng::new(a.seed ^ 0x17);
    gen_counter_random(w, &mut rng, if thorough { 20000 } else { 1500 }, 40);
    eprintln!("C17 gen: {sc} scenarios, {n} exhaustive counter cases, {nh} exhaustive handle cases, {ni} exhaustive inline-waker/unwind cases, {m} LocalWaker cases");
}

/// C16 directed scenarios, emitted first: a channel with `buffered` messages is ended in every way
/// (`close` with a sender alive, drop of the last sender, both) and then asked `buffered + 2` times
/// through every mixture of {poll_next, recv() polled, fresh recv() after dropping}: all receive paths
/// must drain in order and then yield `None`.  Plus park/wake through every receive path.
fn gen_c16_scenarios(w: &mut dyn Write, n: &mut u64) {
    let paths = ["poll", "recv", "recvNew"];
    for buffered in 0..=3usize {
        for ending in 0..4usize {
            let asks = buffered + 2;
            let total = paths.len().pow(asks as u32);
            for mut k in 0..total {
                let mut ops: Vec<String> = vec![];
                if ending == 3 {
                    // parked first (through the first path of this pattern), then filled and ended
                    ops.push(format!("{} 3", paths[k % paths.len()]));
                }
                for m in 0..buffered {
                    ops.push(format!("{} 0 {}", if m % 2 == 0 { "send" } else { "ssend" }, m + 1));
                }
                match ending {
                    0 => ops.push("close 0".into()),
                    1 => ops.push("dropS 0".into()),
                    2 => ops.extend(["clone 0", "close 1", "dropS 1"].map(String::from)),
                    _ => ops.push("close 0".into()),
                }
                for j in 0..asks {
                    ops.push(format!("{} {}", paths[k % paths.len()], j % NW));
                    k /= paths.len();
                }
                if ending != 1 {
                    ops.push(format!("send 0 {}", buffered + 1));
                }
                *n += 1;
                emit(w, &format!("case sc-end-{buffered}-{ending}-{} chan", *n), &ops);
            }
        }
    }
    // park through every path, wake through every event, ask again through every path
    for (pi, park) in ["poll 1", "recv 1", "recvNew 1", "recv 1\nrecvDrop", "recv 2\nrecv 1", "recv 2\nrecvNew 1", "recv 2\npoll 1", "poll 2\nrecv 1"].iter().enumerate() {
        for (ei, event) in ["send 0 7", "ssend 0 7", "close 0", "dropS 0", "clone 0\ndropS 0\ndropS 1", "rsender\ndropS 0\nsend 1 7", "sready 0 2\nsflush 0 2\nsclose 0 2\nsend 0 7", "dropSP 0", "clone 0\ndropSP 1\ndropSP 0", "clone 0\ndropSP 0\ndropS 1", "send 0 7\ndropSP 0"].iter().enumerate() {
            for (ai, again) in ["poll 0", "recv 0", "recvNew 0"].iter().enumerate() {
                let mut ops: Vec<String> = vec![];
                for part in [park, event, again, again, &"dbgR"] {
                    ops.extend(part.split('\n').map(String::from));
                }
                *n += 1;
                emit(w, &format!("case sc-park-{pi}-{ei}-{ai} chan"), &ops);
            }
        }
    }
}

/// C16 large populations, emitted right after the directed scenarios: the sender set is grown to each
/// of `sizes` (ascending) and probed there — the receiver parks (`poll` must be Pending), a send from
/// the newest and from the oldest sender each wake it exactly once and are received once, in order,
/// through `poll_next` and `recv()` — then (`shrink`) taken down again one sender at a time with the
/// receiver parked: no drop but the last one wakes it, and the same probes run again at each size on
/// the way down.  `via`: how the population grows — `chain` (clone of the newest sender), `first`
/// (clone of sender 0), `rsender` (`Receiver::sender()`), `mixed` (all three in turn), `alt` (chain and rsender in turn:
/// the two that cost O(1) per line on the model side, for the 16- and 17-bit populations).
fn gen_chan_population(w: &mut dyn Write, name: &str, via: &str, sizes: &[usize], shrink: bool, newest_first: bool) {
    let mut ops: Vec<String> = vec![];
    let mut alive: Vec<usize> = vec![0];
    let mut next = 1usize;
    let mut msg = 0usize;
    let probe = |ops: &mut Vec<String>, alive: &[usize], msg: &mut usize| {
        let (newest, oldest) = (*alive.last().unwrap(), alive[0]);
        ops.push("poll 1".into());
        *msg += 1;
        ops.push(format!("send {newest} {msg}"));
        ops.push("poll 2".into());
        ops.push("poll 2".into());
        *msg += 1;
        ops.push(format!("ssend {oldest} {msg}"));
        ops.push("recv 3".into());
        ops.push("recv 3".into());
        *msg += 2;
        ops.push(format!("send {oldest} {}", *msg - 1));
        ops.push(format!("send {newest} {msg}"));
        ops.push("recvNew 0".into());
        ops.push("poll 0".into());
        ops.push("poll 1".into());
    };
    for &size in sizes {
        while alive.len() < size {
            let how = match via {
                "mixed" => ["chain", "first", "rsender"][next % 3],
                "alt" => ["chain", "rsender"][next % 2],
                v => v,
            };
            match how {
                "chain" => ops.push(format!("clone {}", alive.last().unwrap())),
                "first" => ops.push(format!("clone {}", alive[0])),
                _ => ops.push("rsender".into()),
            }
            alive.push(next);
            next += 1;
        }
        probe(&mut ops, &alive, &mut msg);
    }
    if shrink {
        // the receiver is parked with waker 1 from the last probe
        while alive.len() > 1 {
            let i = if newest_first { alive.pop().unwrap() } else { alive.remove(0) };
            ops.push(format!("{} {i}", if i % 7 == 3 { "dropSP" } else { "dropS" }));
            if sizes.contains(&alive.len()) {
                probe(&mut ops, &alive, &mut msg);
            }
        }
        ops.push(format!("dropS {}", alive[0]));
        ops.push("poll 1".into());
    } else {
        // two drops at the top with the receiver parked, then the receiver goes first
        for _ in 0..2 {
            let i = alive.pop().unwrap();
            ops.push(format!("dropS {i}"));
        }
        probe(&mut ops, &alive, &mut msg);
        ops.push("dropR".into());
        ops.push(format!("send {} 0", alive[0]));
    }
    emit(w, &format!("case {name} chan"), &ops);
}

fn gen_c16_populations(w: &mut dyn Write, thorough: bool, n: &mut u64) {
    let small = [1usize, 2, 3, 127, 128, 129, 255, 256, 257, 511, 512, 513];
    for (k, via) in ["chain", "first", "rsender", "mixed"].iter().enumerate() {
        gen_chan_population(w, &format!("pop-{via}"), via, &small, true, k % 2 == 0);
        *n += 1;
    }
    // a 16-bit count: grown by clones of the newest sender / by Receiver::sender() (O(1) per line on both sides)
    let big = [32767usize, 32768, 32769, 65535, 65536, 65537];
    gen_chan_population(w, "pop-big-chain", "chain", &big, false, true);
    *n += 1;
    if thorough {
        gen_chan_population(w, "pop-big-rsender", "rsender", &big, false, true);
        gen_chan_population(w, "pop-big-alt", "alt", &[65535, 65536, 65537, 131071, 131072, 131073], false, true);
        *n += 2;
    }
}

/// C16 large BACKLOGS: `n` messages are accepted before the receiver looks, then everything is taken
/// out again — exactly once, in order, nothing lost, and then the receiver parks (open channel) or the
/// stream ends (closed / last sender gone).  `shape`:
/// * `drain`  — send n, take n + 1 (alternating poll_next / recv());
/// * `closed` — send n, close, take n + 1, a send that must fail;
/// * `gone`   — send n, drop the only sender, take n + 1;
/// * `inter`  — send n, take 1, send 5, take half, send 3, take all + 1 (the backlog stays long while the
///   receiver is already taking: a pop must not disturb what is still queued).
fn gen_chan_backlog(w: &mut dyn Write, n: usize, shape: &str, k: &mut u64) {
    let mut ops: Vec<String> = vec!["clone 0".into()];
    let mut msg = 0usize;
    let mut queued = 0usize;
    let mut asks = 0usize;
    let send = |ops: &mut Vec<String>, msg: &mut usize, queued: &mut usize, cnt: usize| {
        for _ in 0..cnt {
            *msg += 1;
            *queued += 1;
            ops.push(format!("{} {} {msg}", if *msg % 5 == 0 { "ssend" } else { "send" }, *msg % 2));
        }
    };
    let take = |ops: &mut Vec<String>, asks: &mut usize, queued: &mut usize, cnt: usize| {
        for _ in 0..cnt {
            *asks += 1;
            *queued = queued.saturating_sub(1);
            ops.push(match *asks % 7 {
                0 => "recvNew 1".to_string(),
                1 | 4 => "recv 2".to_string(),
                _ => "poll 3".to_string(),
            });
        }
    };
    send(&mut ops, &mut msg, &mut queued, n);
    match shape {
        "drain" => {
            take(&mut ops, &mut asks, &mut queued, n + 1);
            send(&mut ops, &mut msg, &mut queued, 1);
            take(&mut ops, &mut asks, &mut queued, 2);
        }
        "closed" => {
            ops.push("close 1".into());
            take(&mut ops, &mut asks, &mut queued, n + 1);
            ops.push("send 0 0".into());
        }
        "gone" => {
            ops.push("dropS 0".into());
            ops.push("dropSP 1".into());
            take(&mut ops, &mut asks, &mut queued, n + 1);
        }
        _ => {
            take(&mut ops, &mut asks, &mut queued, 1);
            send(&mut ops, &mut msg, &mut queued, 5);
            let half = queued / 2;
            take(&mut ops, &mut asks, &mut queued, half);
            send(&mut ops, &mut msg, &mut queued, 3);
            let rest = queued;
            take(&mut ops, &mut asks, &mut queued, rest + 1);
        }
    }
    *k += 1;
    emit(w, &format!("case bl-{shape}-{n} chan"), &ops);
}

fn gen_c16_backlogs(w: &mut dyn Write, thorough: bool, k: &mut u64) {
    // around every power of two: 2^p - 1 .. 2^p + 2 (a VecDeque grows by doubling), and a few round numbers
    // (the model appends to a List: a backlog of n costs n^2/2 there, which bounds the thorough sizes)
    let top = if thorough { 13 } else { 12 };
    let mut sizes: Vec<usize> = vec![0, 1, 2, 3, 5, 6, 7, 40, 100, 1000, 3000];
    for p in 3..=top {
        for d in [-1i64, 0, 1, 2] {
            sizes.push(((1i64 << p) + d) as usize);
        }
    }
    if thorough {
        sizes.extend([10000, 16383, 16384, 16385]);
    }
    for &n in &sizes {
        for shape in ["drain", "inter"] {
            gen_chan_backlog(w, n, shape, k);
        }
        if n <= 1100 || (thorough && n <= 4100) {
            for shape in ["closed", "gone"] {
                gen_chan_backlog(w, n, shape, k);
            }
        }
    }
}

/// C16, two channels and `clone_from`: directed scenarios — a receiver parked (through either receive
/// path) on channel `x` whose last / not last sender is overwritten by `clone_from` with a sender of the
/// other channel (open, closed, receiver gone) or of the same one; afterwards `x` is asked again, the
/// moved handle is used on its new channel, and the other direction is exercised too.
fn gen_c16_clonefrom_scenarios(w: &mut dyn Write, k: &mut u64) {
    for park in ["poll 1", "recv 1", "recv 2\nrecvNew 1", "send 0 9\npoll 1\npoll 1"] {
        for extra_sender in [false, true] {
            for other in ["", "b close 0", "b dropR", "b poll 2", "b send 0 4"] {
                for (x, y) in [("a", "b"), ("b", "a")] {
                    let on = |side: &str, op: &str| if side == "a" { op.to_string() } else { format!("b {op}") };
                    let mut ops: Vec<String> = vec![];
                    if extra_sender {
                        ops.push(on(x, "clone 0"));
                    }
                    ops.extend(park.split('\n').map(|o| on(x, o)));
                    if !other.is_empty() {
                        // `other` is written for y = b; mirror it when y = a
                        let o = other.strip_prefix("b ").unwrap();
                        ops.push(on(y, o));
                    }
                    ops.push(format!("clonefrom {x} 0 {y} 0"));
                    ops.push(on(x, "poll 1"));
                    ops.push(on(x, "poll 1"));
                    // the moved handle is sender 1 of y now
                    ops.push(on(y, "send 1 7"));
                    ops.push(on(y, "poll 3"));
                    ops.push(on(y, "poll 3"));
                    ops.push(on(y, "dropS 0"));
                    ops.push(on(y, "dropSP 1"));
                    ops.push(on(y, "poll 3"));
                    if extra_sender {
                        // x is left with sender 1: within one channel nobody is ever woken by clone_from
                        ops.push(on(x, "clone 1"));
                        ops.push(format!("clonefrom {x} 1 {x} 2"));
                        ops.push(on(x, "send 3 8"));
                        ops.push(on(x, "rsender"));
                        ops.push(format!("clonefrom {x} 2 {x} 4"));
                        ops.push(on(x, "send 5 10"));
                        ops.push(on(x, "recv 0"));
                        ops.push(on(x, "recv 0"));
                        ops.push(on(x, "dbgR"));
                    }
                    *k += 1;
                    emit(w, &format!("case sc-cf-{k} chan"), &ops);
                }
            }
        }
    }
}

/// C16, two channels, exhaustive: every sequence of exactly `len` applicable operations over
/// {poll 0 | send (oldest sender) | clone (oldest) | dropS (oldest, newest) | close (oldest) | dropR} on
/// either channel and `clonefrom` of the oldest / newest sender of one channel from the oldest sender
/// of the other one or of the same one; at most 3 live senders per channel.
fn gen_chan_pair_exhaustive(w: &mut dyn Write, len: usize, n: &mut u64) {
    #[derive(Clone)]
    struct Side {
        alive: Vec<usize>,
        next: usize,
        rx: bool,
    }
    struct St {
        ops: Vec<String>,
        ch: [Side; 2],
        msg: usize,
    }
    fn rec(w: &mut dyn Write, st: &mut St, len: usize, n: &mut u64) {
        if st.ops.len() == len {
            *n += 1;
            writeln!(w, "case ch2-{} chan", *n).unwrap();
            for o in &st.ops {
                writeln!(w, "{o}").unwrap();
            }
            return;
        }
        let names = ["a", "b"];
        for k in 0..2 {
            let pre = if k == 0 { "" } else { "b " };
            let side = st.ch[k].clone();
            if side.rx {
                st.ops.push(format!("{pre}poll {k}"));
                rec(w, st, len, n);
                st.ops.pop();
                st.ops.push(format!("{pre}dropR"));
                st.ch[k].rx = false;
                rec(w, st, len, n);
                st.ch[k].rx = true;
                st.ops.pop();
            }
            if let Some(&i) = side.alive.first() {
                st.msg += 1;
                st.ops.push(format!("{pre}send {i} {}", st.msg));
                rec(w, st, len, n);
                st.ops.pop();
                st.msg -= 1;
                st.ops.push(format!("{pre}close {i}"));
                rec(w, st, len, n);
                st.ops.pop();
                if side.alive.len() < 3 {
                    st.ops.push(format!("{pre}clone {i}"));
                    st.ch[k].alive.push(side.next);
                    st.ch[k].next += 1;
                    rec(w, st, len, n);
                    st.ch[k] = side.clone();
                    st.ops.pop();
                }
            }
            let mut cands: Vec<usize> = vec![];
            if !side.alive.is_empty() {
                cands.push(0);
                if side.alive.len() > 1 {
                    cands.push(side.alive.len() - 1);
                }
            }
            for &pos in &cands {
                let i = side.alive[pos];
                st.ops.push(format!("{pre}dropS {i}"));
                st.ch[k].alive.remove(pos);
                rec(w, st, len, n);
                st.ch[k] = side.clone();
                st.ops.pop();
                // clone_from: handle i of channel k := a sender of channel t
                for t in 0..2 {
                    let other = st.ch[t].clone();
                    let Some(&j) = other.alive.iter().find(|&&j| !(t == k && j == i)) else { continue };
                    if t != k && other.alive.len() >= 3 {
                        continue;
                    }
                    st.ops.push(format!("clonefrom {} {i} {} {j}", names[k], names[t]));
                    st.ch[k].alive.remove(pos);
                    let id = st.ch[t].next;
                    st.ch[t].alive.push(id);
                    st.ch[t].next += 1;
                    rec(w, st, len, n);
                    st.ch[k] = side.clone();
                    if t != k {
                        st.ch[t] = other;
                    }
                    st.ops.pop();
                }
            }
        }
    }
    let fresh = Side { alive: vec![0], next: 1, rx: true };
    let mut st = St { ops: vec![], ch: [fresh.clone(), fresh], msg: 0 };
    rec(w, &mut st, len, n);
}

/// C16, two channels, seeded random histories with `clone_from` in both directions and within a channel
fn gen_chan_pair_random(w: &mut dyn Write, rng: &mut Rng, cases: usize, max_len: usize) {
    for c in 0..cases {
        writeln!(w, "case ch2r-{c} chan").unwrap();
        let mut alive: [Vec<usize>; 2] = [vec![0], vec![0]];
        let mut next = [1usize, 1];
        let mut rx = [true, true];
        let mut msg = 0usize;
        for _ in 0..rng.range(4, max_len) {
            let k = rng.below(2);
            let pre = if k == 0 { "" } else { "b " };
            let r = rng.below(100);
            if r < 2 {
                writeln!(w, "{}", ["b", "b b poll 0", "clonefrom a 0 a 0", "clonefrom c 0 a 0", "b clonefrom a 0 b 0", "clonefrom a 0 b"][rng.below(6)]).unwrap();
            } else if r < 27 && !alive[k].is_empty() {
                msg += 1;
                writeln!(w, "{pre}{} {} {msg}", if rng.chance(1, 4) { "ssend" } else { "send" }, rng.pick(&alive[k])).unwrap();
            } else if r < 52 {
                let wk = rng.below(NW);
                writeln!(w, "{pre}{} {wk}", ["poll", "poll", "recv", "recvNew"][rng.below(4)]).unwrap();
            } else if r < 60 && !alive[k].is_empty() && alive[k].len() < 4 {
                writeln!(w, "{pre}clone {}", rng.pick(&alive[k])).unwrap();
                alive[k].push(next[k]);
                next[k] += 1;
            } else if r < 68 && !alive[k].is_empty() {
                let pos = rng.below(alive[k].len());
                writeln!(w, "{pre}{} {}", if rng.chance(1, 5) { "dropSP" } else { "dropS" }, alive[k].remove(pos)).unwrap();
            } else if r < 88 && !alive[k].is_empty() {
                // clone_from: mostly across the channels
                let t = if rng.chance(3, 4) { 1 - k } else { k };
                let pos = rng.below(alive[k].len());
                let i = alive[k][pos];
                let cand: Vec<usize> = alive[t].iter().copied().filter(|&j| !(t == k && j == i)).collect();
                if cand.is_empty() {
                    writeln!(w, "clonefrom {} {i} {} {}", ["a", "b"][k], ["a", "b"][t], next[t] + 1).unwrap(); // no such source: bad-op
                    continue;
                }
                let j = *rng.pick(&cand);
                writeln!(w, "clonefrom {} {i} {} {j}", ["a", "b"][k], ["a", "b"][t]).unwrap();
                alive[k].remove(pos);
                alive[t].push(next[t]);
                next[t] += 1;
            } else if r < 91 && rx[k] && alive[k].len() < 4 {
                writeln!(w, "{pre}rsender").unwrap();
                alive[k].push(next[k]);
                next[k] += 1;
            } else if r < 95 && !alive[k].is_empty() {
                writeln!(w, "{pre}close {}", rng.pick(&alive[k])).unwrap();
            } else if r < 97 && rx[k] {
                writeln!(w, "{pre}{}", if rng.chance(1, 4) { "dropRP" } else { "dropR" }).unwrap();
                rx[k] = false;
            } else {
                writeln!(w, "{pre}dbgR").unwrap();
            }
        }
    }
}

/// C16 exhaustive: every sequence of exactly `len` applicable operations with at most
/// `max_senders` live senders.  `send` through every live sender, `dropS` of every live sender,
/// `clone`/`close` through the oldest live sender (which one is immaterial: they share the `Rc`),
/// `poll` with waker 0 or 1, `rsender`, `dropR`.
/// `sym` (deeper tier): senders are interchangeable clones of one `Rc`, so `send` goes through the
/// oldest live sender only and `dropS` drops the oldest or the newest one; `wakers` = number of
/// distinct wakers used by `poll`.
/// `extra`: further letters that need the receiver alive (`recv 0`, `recvNew 1`, `recvDrop`, `dbgR`);
/// `sender_extra`: further letters that go through the oldest live sender (`ssend`, `sready`, …; `{i}` =
/// the sender, `{x}` = a fresh message number).
#[derive(Clone, Copy)]
struct ChCfg {
    len: usize,
    max_senders: usize,
    sym: bool,
    wakers: usize,
    rsender: bool,
    extra: &'static [&'static str],
    sender_extra: &'static [&'static str],
    /// also drop senders and the receiver during a caught unwind (`dropSP`, `dropRP`)
    unwind: bool,
    tag: &'static str,
}
fn gen_chan_exhaustive(w: &mut dyn Write, cfg: ChCfg, n: &mut u64) {
    struct St {
        ops: Vec<String>,
        alive: Vec<usize>,
        next_sender: usize,
        rx: bool,
        msg: usize,
    }
    fn rec(w: &mut dyn Write, st: &mut St, cfg: ChCfg, n: &mut u64) {
        let ChCfg { len, max_senders, sym, wakers, rsender, extra, sender_extra, tag, unwind: _ } = cfg;
        if st.ops.len() == len {
            *n += 1;
            writeln!(w, "case {tag}-{} chan", *n).unwrap();
            for o in &st.ops {
                writeln!(w, "{o}").unwrap();
            }
            return;
        }
        let alive = st.alive.clone();
        let mut dead_end = true;
        for &i in alive.iter().take(if sym { 1 } else { usize::MAX }) {
            dead_end = false;
            st.msg += 1;
            st.ops.push(format!("send {i} {}", st.msg));
            rec(w, st, cfg, n);
            st.ops.pop();
            st.msg -= 1;
        }
        for (k, &i) in alive.iter().enumerate() {
            if sym && k != 0 && k != alive.len() - 1 {
                continue;
            }
            for op in ["dropS", "dropSP"] {
                if op == "dropSP" && !cfg.unwind {
                    continue;
                }
                st.ops.push(format!("{op} {i}"));
                st.alive.remove(k);
                rec(w, st, cfg, n);
                st.alive.insert(k, i);
                st.ops.pop();
            }
        }
        if let Some(&i) = alive.first() {
            st.ops.push(format!("close {i}"));
            rec(w, st, cfg, n);
            st.ops.pop();
            if alive.len() < max_senders {
                st.ops.push(format!("clone {i}"));
                st.alive.push(st.next_sender);
                st.next_sender += 1;
                rec(w, st, cfg, n);
                st.next_sender -= 1;
                st.alive.pop();
                st.ops.pop();
            }
            for t in sender_extra {
                let fresh = t.contains("{x}");
                if fresh {
                    st.msg += 1;
                }
                st.ops.push(t.replace("{i}", &i.to_string()).replace("{x}", &st.msg.to_string()));
                rec(w, st, cfg, n);
                st.ops.pop();
                if fresh {
                    st.msg -= 1;
                }
            }
        }
        if st.rx {
            dead_end = false;
            for wk in 0..wakers {
                st.ops.push(format!("poll {wk}"));
                rec(w, st, cfg, n);
                st.ops.pop();
            }
            for t in extra {
                st.ops.push(t.to_string());
                rec(w, st, cfg, n);
                st.ops.pop();
            }
            if rsender && alive.len() < max_senders {
                st.ops.push("rsender".into());
                st.alive.push(st.next_sender);
                st.next_sender += 1;
                rec(w, st, cfg, n);
                st.next_sender -= 1;
                st.alive.pop();
                st.ops.pop();
            }
            for op in ["dropR", "dropRP"] {
                if op == "dropRP" && !cfg.unwind {
                    continue;
                }
                st.ops.push(op.into());
                st.rx = false;
                rec(w, st, cfg, n);
                st.rx = true;
                st.ops.pop();
            }
        }
        if dead_end && !st.ops.is_empty() {
            // nothing is applicable any more (no sender, no receiver): emit the shorter sequence
            *n += 1;
            writeln!(w, "case {tag}-{} chan", *n).unwrap();
            for o in &st.ops {
                writeln!(w, "{o}").unwrap();
            }
        }
    }
    let mut st = St { ops: vec![], alive: vec![0], next_sender: 1, rx: true, msg: 0 };
    rec(w, &mut st, cfg, n);
}

fn gen_chan_random(w: &mut dyn Write, rng: &mut Rng, cases: usize, max_len: usize) {
    for c in 0..cases {
        writeln!(w, "case chr-{c} chan").unwrap();
        let (mut alive, mut next, mut rx, mut msg): (Vec<usize>, usize, bool, usize) = (vec![0], 1, true, 0);
        // per case: how eager this history is to close / drop things, and which receive path it prefers
        let closey = rng.below(12);
        let recvy = rng.below(4); // 0: poll_next only … 3: mostly recv()
        let recv_line = |rng: &mut Rng, wakers: usize| -> String {
            let w = rng.below(wakers);
            if rng.below(3) < recvy {
                match rng.below(8) {
                    0 => "recvDrop".to_string(),
                    1 | 2 => format!("recvNew {w}"),
                    _ => format!("recv {w}"),
                }
            } else {
                format!("poll {w}")
            }
        };
        for _ in 0..rng.range(4, max_len) {
            let r = rng.below(100);
            if r < 3 {
                writeln!(w, "{}", rng.pick(&JUNK)).unwrap();
            } else if r < 5 {
                writeln!(w, "send {} 0", next + rng.below(2)).unwrap(); // unknown sender
            } else if r < 33 && !alive.is_empty() {
                msg += 1;
                writeln!(w, "{} {} {msg}", if rng.chance(1, 4) { "ssend" } else { "send" }, rng.pick(&alive)).unwrap();
            } else if r < 62 {
                writeln!(w, "{}", recv_line(rng, NW)).unwrap(); // bad-op once the receiver is gone
            } else if r < 70 && !alive.is_empty() && alive.len() < 4 {
                writeln!(w, "clone {}", rng.pick(&alive)).unwrap();
                alive.push(next);
                next += 1;
            } else if r < 81 && !alive.is_empty() {
                let k = rng.below(alive.len());
                writeln!(w, "{} {}", if rng.chance(1, 5) { "dropSP" } else { "dropS" }, alive.remove(k)).unwrap();
            } else if r < 86 && rx && alive.len() < 4 {
                writeln!(w, "rsender").unwrap();
                alive.push(next);
                next += 1;
            } else if r < 89 && !alive.is_empty() {
                let i = *rng.pick(&alive);
                match rng.below(5) {
                    0 => writeln!(w, "sready {i} {}", rng.below(NW)).unwrap(),
                    1 => writeln!(w, "sflush {i} {}", rng.below(NW)).unwrap(),
                    2 => writeln!(w, "sclose {i} {}", rng.below(NW)).unwrap(),
                    3 => writeln!(w, "dbgS {i}").unwrap(),
                    _ => writeln!(w, "dbgR").unwrap(),
                }
            } else if r < 91 + closey / 2 && !alive.is_empty() {
                writeln!(w, "close {}", rng.pick(&alive)).unwrap();
            } else if r < 92 + closey && rx && rng.chance(1, 3) {
                writeln!(w, "{}", if rng.chance(1, 4) { "dropRP" } else { "dropR" }).unwrap();
                rx = false;
            } else {
                writeln!(w, "{}", recv_line(rng, 2)).unwrap();
            }
        }
    }
}

fn gen_c16(a: &Args, w: &mut dyn Write) {
    let thorough = a.tier == "thorough";
    let mut sc = 0u64;
    gen_c16_scenarios(w, &mut sc);
    gen_c16_clonefrom_scenarios(w, &mut sc);
    let mut nb = 0u64;
    gen_c16_backlogs(w, thorough, &mut nb);
    let mut np = 0u64;
    gen_c16_populations(w, thorough, &mut np);
    let mut n = 0u64;
    let core = ChCfg { len: 6, max_senders: 3, sym: false, wakers: 2, rsender: true, extra: &[], sender_extra: &[], unwind: false, tag: "ch" };
    // (1) the core alphabet
    gen_chan_exhaustive(w, core, &mut n);
    if thorough {
        gen_chan_exhaustive(w, ChCfg { len: 7, sym: true, ..core }, &mut n);
    }
    // (1b) every receive path: poll_next, a recv() future polled (again), a fresh one after a drop, a dropped one
    let mut nr = 0u64;
    gen_chan_exhaustive(
        w,
        ChCfg {
            len: if thorough { 6 } else { 5 },
            max_senders: 2,
            sym: true,
            wakers: 1,
            rsender: false,
            extra: &["recv 0", "recv 1", "recvNew 1", "recvDrop"],
            sender_extra: &[],
            unwind: false,
            tag: "chrv",
        },
        &mut nr,
    );
    // (1c) every send path and the quiet entry points: Sink::{poll_ready, start_send, poll_flush, poll_close}, Debug
    let mut ns = 0u64;
    gen_chan_exhaustive(
        w,
        ChCfg {
            len: if thorough { 5 } else { 4 },
            max_senders: 2,
            sym: true,
            wakers: 1,
            rsender: false,
            extra: &["recv 1", "dbgR"],
            sender_extra: &["ssend {i} {x}", "sready {i} 1", "sflush {i} 1", "sclose {i} 1", "dbgS {i}"],
            unwind: false,
            tag: "chsk",
        },
        &mut ns,
    );
    // (1d) senders and the receiver dropped during a caught unwind, next to the normal drops
    let mut nu = 0u64;
    gen_chan_exhaustive(
        w,
        ChCfg {
            len: if thorough { 6 } else { 5 },
            max_senders: 2,
            sym: true,
            wakers: 1,
            rsender: false,
            extra: &["recv 1"],
            sender_extra: &[],
            unwind: true,
            tag: "chuw",
        },
        &mut nu,
    );
    // (1e) two channels and clone_from
    let mut n2 = 0u64;
    gen_chan_pair_exhaustive(w, if thorough { 5 } else { 4 }, &mut n2);
    let mut rng = Rng::new(a.seed ^ 0x16);
    gen_chan_random(w, &mut rng, if thorough { 30000 } else { 2000 }, 40);
    gen_chan_pair_random(w, &mut rng, if thorough { 10000 } else { 1000 }, 30);
    eprintln!("C16 gen: {sc} scenarios, {nb} backlog cases, {n2} exhaustive two-channel cases, {np} large-population cases, {n} exhaustive core cases, {nr} exhaustive receive-path cases, {ns} exhaustive sink/quiet cases, {nu} exhaustive unwinding-drop cases");
}

fn gen(a: &Args) {
    let mut w = out_writer(&a.output);
    match a.prop.as_str() {
        "C17" => gen_c17(a, &mut w),
        "C16" => gen_c16(a, &mut w),
        p => {
            eprintln!("local: unknown property {p}");
            std::process::exit(2)
        }
    }
    w.flush().unwrap();
}

fn main() {
    let a = parse_args();
    match a.cmd.as_str() {
        "gen" => gen(&a),
        "run" => run(&a),
        _ => {
            eprintln!("usage: local gen|run …");
            std::process::exit(2)
        }
    }
}
