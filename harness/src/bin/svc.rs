//! Engine `svc` (C11, C12): the real `actix-service` combinators over scripted, type-erased leaves,
//! driven by a manual executor that hands a fresh waker identity to every top-level poll.
//!
//! Line protocol (same as lean/Driver/Svc.lean):
//!   case <name> | svc <S> | fac <F> <cfg> | ready | call <req>
#![allow(clippy::type_complexity)]
use std::{
    cell::{Cell, RefCell},
    collections::HashMap,
    fmt,
    future::Future,
    io::Write,
    pin::Pin,
    rc::Rc,
    task::{Context, Poll, RawWaker, RawWakerVTable, Waker},
};

use actix_service::{
    apply, apply_cfg, apply_cfg_factory, apply_fn, apply_fn_factory, boxed, fn_factory,
    fn_factory_with_config, fn_service, map_config, unit_config, Service, ServiceExt,
    ServiceFactory, ServiceFactoryExt, Transform,
};
use vh::*;

// ------------------------------------------------------------------------------------------------
// AST of the op language
// ------------------------------------------------------------------------------------------------

#[derive(Clone, Copy, Debug, PartialEq, Eq)]
enum AK {
    Pre,
    Short,
    Post,
}
#[derive(Clone, Copy, Debug, PartialEq, Eq)]
enum WK {
    Boxed,
    RcBoxed,
    Rc,
    RefCell,
    Ref,
    Box,
}

#[derive(Clone, Debug, PartialEq, Eq)]
enum S {
    Leaf { id: u32, cp: u32, cok: bool, rp: u32, rok: bool },
    Fn { id: u32, cok: bool },
    Map(Box<S>, u32),
    MapErr(Box<S>, u32),
    Then(Box<S>, Box<S>),
    Apply(Box<S>, AK, u32),
    Wrap(WK, Box<S>),
    Mw(Box<S>, u32),
}

#[derive(Clone, Debug, PartialEq, Eq)]
enum F {
    Leaf { id: u32, ip: u32, iok: bool, use_cfg: bool, s: S },
    Fn { id: u32, cok: bool },
    Map(Box<F>, u32),
    MapErr(Box<F>, u32),
    MapInitErr(Box<F>, u32),
    Then(Box<F>, Box<F>),
    Apply(Box<F>, AK, u32),
    Transform { t: u32, tp: u32, tok: bool, rc: bool, a: Box<F> },
    ApplyCfg { s: S, f: u32, ip: u32, iok: bool },
    ApplyCfgFac { a: Box<F>, f: u32, ip: u32, iok: bool },
    MapConfig(Box<F>, u32),
    UnitConfig(Box<F>),
    Boxed(Box<F>),
    Rc(Box<F>),
}

fn oe(b: bool) -> &'static str {
    if b {
        "ok"
    } else {
        "err"
    }
}

impl fmt::Display for AK {
    fn fmt(&self, f: &mut fmt::Formatter<'_>) -> fmt::Result {
        f.write_str(match self {
            AK::Pre => "pre",
            AK::Short => "short",
            AK::Post => "post",
        })
    }
}
impl fmt::Display for WK {
    fn fmt(&self, f: &mut fmt::Formatter<'_>) -> fmt::Result {
        f.write_str(match self {
            WK::Boxed => "boxed",
            WK::RcBoxed => "rcboxed",
            WK::Rc => "rc",
            WK::RefCell => "refcell",
            WK::Ref => "ref",
            WK::Box => "box",
        })
    }
}
impl fmt::Display for S {
    fn fmt(&self, o: &mut fmt::Formatter<'_>) -> fmt::Result {
        match self {
            S::Leaf { id, cp, cok, rp, rok } => write!(o, "(leaf {id} {cp} {} {rp} {})", oe(*cok), oe(*rok)),
            S::Fn { id, cok } => write!(o, "(fn {id} {})", oe(*cok)),
            S::Map(s, f) => write!(o, "(map {s} {f})"),
            S::MapErr(s, f) => write!(o, "(maperr {s} {f})"),
            S::Then(a, b) => write!(o, "(then {a} {b})"),
            S::Apply(s, k, n) => write!(o, "(apply {k} {n} {s})"),
            S::Wrap(w, s) => write!(o, "({w} {s})"),
            S::Mw(s, t) => write!(o, "(mw {s} {t})"),
        }
    }
}
impl fmt::Display for F {
    fn fmt(&self, o: &mut fmt::Formatter<'_>) -> fmt::Result {
        match self {
            F::Leaf { id, ip, iok, use_cfg, s } => {
                write!(o, "(fleaf {id} {ip} {} {} {s})", oe(*iok), if *use_cfg { "cfg" } else { "nocfg" })
            }
            F::Fn { id, cok } => write!(o, "(ffn {id} {})", oe(*cok)),
            F::Map(a, f) => write!(o, "(fmap {a} {f})"),
            F::MapErr(a, f) => write!(o, "(fmaperr {a} {f})"),
            F::MapInitErr(a, f) => write!(o, "(fmapiniterr {a} {f})"),
            F::Then(a, b) => write!(o, "(fthen {a} {b})"),
            F::Apply(a, k, n) => write!(o, "(fapply {k} {n} {a})"),
            F::Transform { t, tp, tok, rc, a } => {
                write!(o, "(transform {t} {tp} {} {} {a})", oe(*tok), if *rc { "rc" } else { "plain" })
            }
            F::ApplyCfg { s, f, ip, iok } => write!(o, "(applycfg {s} {f} {ip} {})", oe(*iok)),
            F::ApplyCfgFac { a, f, ip, iok } => write!(o, "(applycfgfac {a} {f} {ip} {})", oe(*iok)),
            F::MapConfig(a, f) => write!(o, "(mapconfig {a} {f})"),
            F::UnitConfig(a) => write!(o, "(unitconfig {a})"),
            F::Boxed(a) => write!(o, "(fboxed {a})"),
            F::Rc(a) => write!(o, "(frc {a})"),
        }
    }
}

fn tokenize(s: &str) -> Vec<String> {
    let mut out = vec![];
    let mut cur = String::new();
    for c in s.chars() {
        if c == '(' || c == ')' || c == ' ' || c == '\t' || c == '\r' || c == '\n' {
            if !cur.is_empty() {
                out.push(std::mem::take(&mut cur));
            }
            if c == '(' || c == ')' {
                out.push(c.to_string());
            }
        } else {
            cur.push(c);
        }
    }
    if !cur.is_empty() {
        out.push(cur);
    }
    out
}

struct P<'a> {
    t: &'a [String],
    i: usize,
}
impl<'a> P<'a> {
    fn next(&mut self) -> Option<&'a str> {
        let r = self.t.get(self.i)?;
        self.i += 1;
        Some(r.as_str())
    }
    fn expect(&mut self, s: &str) -> Option<()> {
        if self.next()? == s {
            Some(())
        } else {
            None
        }
    }
    fn num(&mut self) -> Option<u32> {
        num(self.next()?)
    }
    fn ok_err(&mut self) -> Option<bool> {
        match self.next()? {
            "ok" => Some(true),
            "err" => Some(false),
            _ => None,
        }
    }
    fn akind(&mut self) -> Option<AK> {
        match self.next()? {
            "pre" => Some(AK::Pre),
            "short" => Some(AK::Short),
            "post" => Some(AK::Post),
            _ => None,
        }
    }
    fn svc(&mut self) -> Option<S> {
        self.expect("(")?;
        let head = self.next()?;
        let r = match head {
            "leaf" => S::Leaf { id: self.num()?, cp: self.num()?, cok: self.ok_err()?, rp: self.num()?, rok: self.ok_err()? },
            "fn" => S::Fn { id: self.num()?, cok: self.ok_err()? },
            "map" => {
                let s = self.svc()?;
                S::Map(Box::new(s), self.num()?)
            }
            "maperr" => {
                let s = self.svc()?;
                S::MapErr(Box::new(s), self.num()?)
            }
            "then" => {
                let a = self.svc()?;
                let b = self.svc()?;
                S::Then(Box::new(a), Box::new(b))
            }
            "apply" => {
                let k = self.akind()?;
                let n = self.num()?;
                S::Apply(Box::new(self.svc()?), k, n)
            }
            "mw" => {
                let s = self.svc()?;
                S::Mw(Box::new(s), self.num()?)
            }
            w => {
                let wk = match w {
                    "boxed" => WK::Boxed,
                    "rcboxed" => WK::RcBoxed,
                    "rc" => WK::Rc,
                    "refcell" => WK::RefCell,
                    "ref" => WK::Ref,
                    "box" => WK::Box,
                    _ => return None,
                };
                S::Wrap(wk, Box::new(self.svc()?))
            }
        };
        self.expect(")")?;
        Some(r)
    }
    fn fac(&mut self) -> Option<F> {
        self.expect("(")?;
        let head = self.next()?;
        let r = match head {
            "fleaf" => {
                let id = self.num()?;
                let ip = self.num()?;
                let iok = self.ok_err()?;
                let use_cfg = match self.next()? {
                    "cfg" => true,
                    "nocfg" => false,
                    _ => return None,
                };
                F::Leaf { id, ip, iok, use_cfg, s: self.svc()? }
            }
            "ffn" => F::Fn { id: self.num()?, cok: self.ok_err()? },
            "fmap" => {
                let a = self.fac()?;
                F::Map(Box::new(a), self.num()?)
            }
            "fmaperr" => {
                let a = self.fac()?;
                F::MapErr(Box::new(a), self.num()?)
            }
            "fmapiniterr" => {
                let a = self.fac()?;
                F::MapInitErr(Box::new(a), self.num()?)
            }
            "fthen" => {
                let a = self.fac()?;
                let b = self.fac()?;
                F::Then(Box::new(a), Box::new(b))
            }
            "fapply" => {
                let k = self.akind()?;
                let n = self.num()?;
                F::Apply(Box::new(self.fac()?), k, n)
            }
            "transform" => {
                let t = self.num()?;
                let tp = self.num()?;
                let tok = self.ok_err()?;
                let rc = match self.next()? {
                    "rc" => true,
                    "plain" => false,
                    _ => return None,
                };
                F::Transform { t, tp, tok, rc, a: Box::new(self.fac()?) }
            }
            "applycfg" => {
                let s = self.svc()?;
                F::ApplyCfg { s, f: self.num()?, ip: self.num()?, iok: self.ok_err()? }
            }
            "applycfgfac" => {
                let a = self.fac()?;
                F::ApplyCfgFac { a: Box::new(a), f: self.num()?, ip: self.num()?, iok: self.ok_err()? }
            }
            "mapconfig" => {
                let a = self.fac()?;
                F::MapConfig(Box::new(a), self.num()?)
            }
            "unitconfig" => F::UnitConfig(Box::new(self.fac()?)),
            "fboxed" => F::Boxed(Box::new(self.fac()?)),
            "frc" => F::Rc(Box::new(self.fac()?)),
            _ => return None,
        };
        self.expect(")")?;
        Some(r)
    }
}

fn num(s: &str) -> Option<u32> {
    if s.is_empty() || s.len() > 6 || !s.bytes().all(|b| b.is_ascii_digit()) {
        return None;
    }
    s.parse().ok()
}

fn svc_leaf_ids(s: &S, out: &mut Vec<u32>) {
    match s {
        S::Leaf { id, .. } => out.push(*id),
        S::Fn { .. } => {}
        S::Map(s, _) | S::MapErr(s, _) | S::Apply(s, _, _) | S::Wrap(_, s) | S::Mw(s, _) => svc_leaf_ids(s, out),
        S::Then(a, b) => {
            svc_leaf_ids(a, out);
            svc_leaf_ids(b, out)
        }
    }
}
fn fac_leaf_ids(f: &F, out: &mut Vec<u32>) {
    match f {
        F::Leaf { s, .. } | F::ApplyCfg { s, .. } => svc_leaf_ids(s, out),
        F::Fn { .. } => {}
        F::Map(a, _) | F::MapErr(a, _) | F::MapInitErr(a, _) | F::Apply(a, _, _) | F::MapConfig(a, _) => fac_leaf_ids(a, out),
        F::Transform { a, .. } | F::ApplyCfgFac { a, .. } => fac_leaf_ids(a, out),
        F::UnitConfig(a) | F::Boxed(a) | F::Rc(a) => fac_leaf_ids(a, out),
        F::Then(a, b) => {
            fac_leaf_ids(a, out);
            fac_leaf_ids(b, out)
        }
    }
}
fn nodup(v: &[u32]) -> bool {
    let mut s = v.to_vec();
    s.sort_unstable();
    s.windows(2).all(|w| w[0] != w[1])
}

// ------------------------------------------------------------------------------------------------
// observable arithmetic (same as ActixNet.Service.mapFn … in the Lean model)
// ------------------------------------------------------------------------------------------------

fn mapfn(f: u32, v: u32) -> u32 {
    ((31 * v as u64 + f as u64 + 1) % 9973) as u32
}
fn leaf_val(id: u32, req: u32) -> u32 {
    ((17 * req as u64 + id as u64 + 5) % 9973) as u32
}
fn leaf_err(id: u32, req: u32) -> u32 {
    ((13 * req as u64 + id as u64 + 2) % 9973) as u32
}
fn rdy_err(id: u32) -> u32 {
    7000 + id
}
fn init_err(id: u32, cfg: u32) -> u32 {
    ((11 * cfg as u64 + id as u64 + 3) % 9973) as u32
}
fn leaf_res(id: u32, cok: bool, req: u32) -> Result<u32, u32> {
    if cok {
        Ok(leaf_val(id, req))
    } else {
        Err(leaf_err(id, req))
    }
}

// ------------------------------------------------------------------------------------------------
// event log, leaf registry, waker identities
// ------------------------------------------------------------------------------------------------

#[derive(Clone, Debug, PartialEq, Eq)]
enum Ev {
    Called(u32, u32),
    Polled(u32, usize, Option<Result<u32, u32>>),
    Mapped(char, u32, u32), // m / e / o / a / w / g / h / f : closure kind, id, argument
    Rdy(u32, usize, Option<Result<(), u32>>),
    New(u32, u32),
    IPolled(u32, usize, Option<Result<(), u32>>),
    NewTransform(u32),
}
impl fmt::Display for Ev {
    fn fmt(&self, o: &mut fmt::Formatter<'_>) -> fmt::Result {
        match self {
            Ev::Called(id, req) => write!(o, "c{id}:{req}"),
            Ev::Polled(id, w, None) => write!(o, "p{id}@{w}=-"),
            Ev::Polled(id, w, Some(Ok(v))) => write!(o, "p{id}@{w}=ok:{v}"),
            Ev::Polled(id, w, Some(Err(e))) => write!(o, "p{id}@{w}=err:{e}"),
            Ev::Mapped(c, f, v) => write!(o, "{c}{f}:{v}"),
            Ev::Rdy(id, w, None) => write!(o, "r{id}@{w}=-"),
            Ev::Rdy(id, w, Some(Ok(()))) => write!(o, "r{id}@{w}=ok"),
            Ev::Rdy(id, w, Some(Err(e))) => write!(o, "r{id}@{w}=err:{e}"),
            Ev::New(id, cfg) => write!(o, "n{id}:{cfg}"),
            Ev::IPolled(id, w, None) => write!(o, "i{id}@{w}=-"),
            Ev::IPolled(id, w, Some(Ok(()))) => write!(o, "i{id}@{w}=ok"),
            Ev::IPolled(id, w, Some(Err(e))) => write!(o, "i{id}@{w}=err:{e}"),
            Ev::NewTransform(t) => write!(o, "t{t}"),
        }
    }
}

thread_local! {
    static LOG: RefCell<Vec<Ev>> = const { RefCell::new(Vec::new()) };
    /// remaining `Pending` answers of every scripted leaf's `poll_ready`, by leaf id
    static REG: RefCell<HashMap<u32, Rc<Cell<u32>>>> = RefCell::new(HashMap::new());
    /// set when a leaf / init future is polled after completion
    static REPOLL: Cell<bool> = const { Cell::new(false) };
}
fn log(e: Ev) {
    LOG.with(|l| l.borrow_mut().push(e));
}
fn take_log() -> Vec<Ev> {
    LOG.with(|l| std::mem::take(&mut *l.borrow_mut()))
}

static VTABLE: RawWakerVTable = RawWakerVTable::new(|p| RawWaker::new(p, &VTABLE), |_| {}, |_| {}, |_| {});
const FOREIGN_WAKER: usize = 999_999;

fn make_waker(id: usize) -> Waker {
    // the data pointer *is* the identity; it is never dereferenced
    unsafe { Waker::from_raw(RawWaker::new(id as *const (), &VTABLE)) }
}
/// identity of the waker a leaf is polled with (a waker not made by the executor shows as 999999)
fn waker_id(cx: &Context<'_>) -> usize {
    let w = cx.waker();
    if std::ptr::eq(w.vtable(), &VTABLE) {
        w.data() as usize
    } else {
        FOREIGN_WAKER
    }
}

// ------------------------------------------------------------------------------------------------
// scripted leaves
// ------------------------------------------------------------------------------------------------

type BS = boxed::BoxService<u32, u32, u32>;
type BF = boxed::BoxServiceFactory<u32, u32, u32, u32, u32>;
type BFut<T> = Pin<Box<dyn Future<Output = T>>>;

struct LeafFut {
    id: u32,
    pend: u32,
    res: Result<u32, u32>,
    fin: bool,
}
impl Future for LeafFut {
    type Output = Result<u32, u32>;
    fn poll(mut self: Pin<&mut Self>, cx: &mut Context<'_>) -> Poll<Self::Output> {
        let w = waker_id(cx);
        if self.fin {
            REPOLL.with(|r| r.set(true));
            panic!("leaf future {} polled after completion", self.id);
        }
        if self.pend > 0 {
            self.pend -= 1;
            log(Ev::Polled(self.id, w, None));
            Poll::Pending
        } else {
            self.fin = true;
            log(Ev::Polled(self.id, w, Some(self.res)));
            Poll::Ready(self.res)
        }
    }
}

struct LeafSvc {
    id: u32,
    cp: u32,
    cok: bool,
    rok: bool,
    rp: Rc<Cell<u32>>,
}
impl Service<u32> for LeafSvc {
    type Response = u32;
    type Error = u32;
    type Future = LeafFut;
    fn poll_ready(&self, cx: &mut Context<'_>) -> Poll<Result<(), u32>> {
        let w = waker_id(cx);
        if self.rp.get() > 0 {
            self.rp.set(self.rp.get() - 1);
            log(Ev::Rdy(self.id, w, None));
            Poll::Pending
        } else if self.rok {
            log(Ev::Rdy(self.id, w, Some(Ok(()))));
            Poll::Ready(Ok(()))
        } else {
            log(Ev::Rdy(self.id, w, Some(Err(rdy_err(self.id)))));
            Poll::Ready(Err(rdy_err(self.id)))
        }
    }
    fn call(&self, req: u32) -> LeafFut {
        log(Ev::Called(self.id, req));
        LeafFut { id: self.id, pend: self.cp, res: leaf_res(self.id, self.cok, req), fin: false }
    }
}

/// user middleware: forwards readiness, logs the call, maps an Ok response
struct Mw<Sv> {
    inner: Sv,
    t: u32,
}
impl<Sv> Service<u32> for Mw<Sv>
where
    Sv: Service<u32, Response = u32, Error = u32>,
    Sv::Future: 'static,
{
    type Response = u32;
    type Error = u32;
    type Future = BFut<Result<u32, u32>>;
    fn poll_ready(&self, cx: &mut Context<'_>) -> Poll<Result<(), u32>> {
        self.inner.poll_ready(cx)
    }
    fn call(&self, req: u32) -> Self::Future {
        log(Ev::Mapped('w', self.t, req));
        let fut = self.inner.call(req);
        let t = self.t;
        Box::pin(async move {
            let v = fut.await?;
            log(Ev::Mapped('o', t, v));
            Ok(mapfn(t, v))
        })
    }
}

/// scripted init future (leaf factories, transforms, apply_cfg closures)
struct InitFut<T> {
    id: u32,
    pend: u32,
    fin: bool,
    make: Option<Box<dyn FnOnce() -> Result<T, u32>>>,
}
impl<T> InitFut<T> {
    fn new(id: u32, pend: u32, make: impl FnOnce() -> Result<T, u32> + 'static) -> Self {
        InitFut { id, pend, fin: false, make: Some(Box::new(make)) }
    }
}
impl<T> Unpin for InitFut<T> {}
impl<T> Future for InitFut<T> {
    type Output = Result<T, u32>;
    fn poll(mut self: Pin<&mut Self>, cx: &mut Context<'_>) -> Poll<Self::Output> {
        let w = waker_id(cx);
        if self.fin {
            REPOLL.with(|r| r.set(true));
            panic!("init future {} polled after completion", self.id);
        }
        if self.pend > 0 {
            self.pend -= 1;
            log(Ev::IPolled(self.id, w, None));
            Poll::Pending
        } else {
            self.fin = true;
            let r = (self.make.take().unwrap())();
            log(Ev::IPolled(self.id, w, Some(r.as_ref().map(|_| ()).map_err(|e| *e))));
            Poll::Ready(r)
        }
    }
}

struct ScriptedT {
    t: u32,
    tp: u32,
    tok: bool,
}
impl Transform<BS, u32> for ScriptedT {
    type Response = u32;
    type Error = u32;
    type Transform = Mw<BS>;
    type InitError = u32;
    type Future = InitFut<Mw<BS>>;
    fn new_transform(&self, service: BS) -> Self::Future {
        log(Ev::NewTransform(self.t));
        let (t, tok) = (self.t, self.tok);
        InitFut::new(t, self.tp, move || if tok { Ok(Mw { inner: service, t }) } else { Err(init_err(t, 0)) })
    }
}

/// `Config = ()` view of a factory (needed by `unit_config`)
struct Unit0(BF);
impl ServiceFactory<u32> for Unit0 {
    type Response = u32;
    type Error = u32;
    type Config = ();
    type Service = BS;
    type InitError = u32;
    type Future = <BF as ServiceFactory<u32>>::Future;
    fn new_service(&self, _: ()) -> Self::Future {
        self.0.new_service(0)
    }
}
/// `Config = ()` view producing a clonable service (needed by `apply_cfg_factory`, whose closure only
/// gets a reference to the service)
struct RcUnit(BF);
impl ServiceFactory<u32> for RcUnit {
    type Response = u32;
    type Error = u32;
    type Config = ();
    type Service = Rc<BS>;
    type InitError = u32;
    type Future = BFut<Result<Rc<BS>, u32>>;
    fn new_service(&self, _: ()) -> Self::Future {
        let f = self.0.new_service(0);
        Box::pin(async move { f.await.map(Rc::new) })
    }
}

// ------------------------------------------------------------------------------------------------
// building the REAL combinators from the AST
// ------------------------------------------------------------------------------------------------

fn wrap_closure(kind: AK, k: u32) -> impl Fn(u32, &BS) -> BFut<Result<u32, u32>> + Clone {
    move |req: u32, svc: &BS| -> BFut<Result<u32, u32>> {
        log(Ev::Mapped('a', k, req));
        match kind {
            AK::Pre => svc.call(mapfn(k, req)),
            AK::Short => Box::pin(LeafFut { id: k, pend: 0, res: Err(mapfn(k, req)), fin: false }),
            AK::Post => {
                let fut = svc.call(req);
                Box::pin(async move {
                    let v = fut.await?;
                    log(Ev::Mapped('o', k, v));
                    Ok(mapfn(k, v))
                })
            }
        }
    }
}

fn build_svc(s: &S) -> BS {
    match s {
        S::Leaf { id, cp, cok, rp, rok } => {
            let cell = Rc::new(Cell::new(*rp));
            REG.with(|r| r.borrow_mut().insert(*id, cell.clone()));
            boxed::service(LeafSvc { id: *id, cp: *cp, cok: *cok, rok: *rok, rp: cell })
        }
        S::Fn { id, cok } => {
            let (id, cok) = (*id, *cok);
            boxed::service(fn_service::<_, _, u32, u32, u32, ()>(move |req: u32| {
                log(Ev::Called(id, req));
                LeafFut { id, pend: 0, res: leaf_res(id, cok, req), fin: false }
            }))
        }
        S::Map(s, f) => {
            let f = *f;
            boxed::service(build_svc(s).map(move |v: u32| {
                log(Ev::Mapped('m', f, v));
                mapfn(f, v)
            }))
        }
        S::MapErr(s, f) => {
            let f = *f;
            boxed::service(build_svc(s).map_err(move |e: u32| {
                log(Ev::Mapped('e', f, e));
                mapfn(f, e)
            }))
        }
        S::Then(a, b) => boxed::service(build_svc(a).and_then(build_svc(b))),
        S::Apply(s, kind, k) => boxed::service(apply_fn(build_svc(s), wrap_closure(*kind, *k))),
        S::Wrap(w, s) => {
            let inner = build_svc(s);
            match w {
                WK::Boxed => boxed::service(inner),
                WK::RcBoxed => boxed::service(boxed::rc_service(inner)),
                WK::Rc => boxed::service(Rc::new(inner)),
                WK::RefCell => boxed::service(RefCell::new(inner)),
                WK::Ref => {
                    let leaked: &'static BS = Box::leak(Box::new(inner));
                    boxed::service(leaked)
                }
                WK::Box => boxed::service(Box::new(inner)),
            }
        }
        S::Mw(s, t) => boxed::service(Mw { inner: build_svc(s), t: *t }),
    }
}

fn build_fac(f: &F) -> BF {
    match f {
        F::Leaf { id, ip, iok, use_cfg, s } => {
            let (id, ip, iok) = (*id, *ip, *iok);
            let s = s.clone();
            if *use_cfg {
                boxed::factory(fn_factory_with_config(move |cfg: u32| {
                    log(Ev::New(id, cfg));
                    let s = s.clone();
                    InitFut::new(id, ip, move || if iok { Ok(build_svc(&s)) } else { Err(init_err(id, cfg)) })
                }))
            } else {
                boxed::factory(fn_factory::<_, u32, BS, u32, _, u32>(move || {
                    log(Ev::New(id, 0));
                    let s = s.clone();
                    InitFut::new(id, ip, move || if iok { Ok(build_svc(&s)) } else { Err(init_err(id, 0)) })
                }))
            }
        }
        F::Fn { id, cok } => {
            let (id, cok) = (*id, *cok);
            boxed::factory(
                fn_service::<_, _, u32, u32, u32, u32>(move |req: u32| {
                    log(Ev::Called(id, req));
                    LeafFut { id, pend: 0, res: leaf_res(id, cok, req), fin: false }
                })
                .map_init_err(|_: ()| 0u32),
            )
        }
        F::Map(a, f) => {
            let f = *f;
            boxed::factory(build_fac(a).map(move |v: u32| {
                log(Ev::Mapped('m', f, v));
                mapfn(f, v)
            }))
        }
        F::MapErr(a, f) => {
            let f = *f;
            boxed::factory(build_fac(a).map_err(move |e: u32| {
                log(Ev::Mapped('e', f, e));
                mapfn(f, e)
            }))
        }
        F::MapInitErr(a, f) => {
            let f = *f;
            boxed::factory(build_fac(a).map_init_err(move |e: u32| {
                log(Ev::Mapped('h', f, e));
                mapfn(f, e)
            }))
        }
        F::Then(a, b) => boxed::factory(build_fac(a).and_then(build_fac(b))),
        F::Apply(a, kind, k) => boxed::factory(apply_fn_factory(build_fac(a), wrap_closure(*kind, *k))),
        F::Transform { t, tp, tok, rc, a } => {
            let tr = ScriptedT { t: *t, tp: *tp, tok: *tok };
            if *rc {
                boxed::factory(apply(Rc::new(tr), build_fac(a)))
            } else {
                boxed::factory(apply(tr, build_fac(a)))
            }
        }
        F::ApplyCfg { s, f, ip, iok } => {
            let (f, ip, iok) = (*f, *ip, *iok);
            let srv: Rc<BS> = Rc::new(build_svc(s));
            boxed::factory(apply_cfg(srv, move |cfg: u32, srv: &Rc<BS>| {
                log(Ev::Mapped('f', f, cfg));
                let inner = srv.clone();
                InitFut::new(f, ip, move || if iok { Ok(Mw { inner, t: mapfn(f, cfg) }) } else { Err(init_err(f, cfg)) })
            }))
        }
        F::ApplyCfgFac { a, f, ip, iok } => {
            let (f, ip, iok) = (*f, *ip, *iok);
            boxed::factory(apply_cfg_factory(RcUnit(build_fac(a)), move |cfg: u32, srv: &Rc<BS>| {
                log(Ev::Mapped('f', f, cfg));
                let inner = srv.clone();
                InitFut::new(f, ip, move || if iok { Ok(Mw { inner, t: mapfn(f, cfg) }) } else { Err(init_err(f, cfg)) })
            }))
        }
        F::MapConfig(a, f) => {
            let f = *f;
            boxed::factory(map_config(build_fac(a), move |c: u32| {
                log(Ev::Mapped('g', f, c));
                mapfn(f, c)
            }))
        }
        F::UnitConfig(a) => boxed::factory(unit_config::<_, _, u32, u32>(Unit0(build_fac(a)))),
        F::Boxed(a) => boxed::factory(build_fac(a)),
        F::Rc(a) => boxed::factory(Rc::new(build_fac(a))),
    }
}

// ------------------------------------------------------------------------------------------------
// reference interpreter (straight from the property text; independent of the Lean model)
// ------------------------------------------------------------------------------------------------

/// expected leaf executions (call, completion) and closure applications of `call(req)`, in order
fn ref_call(s: &S, req: u32, out: &mut Vec<Ev>) -> Result<u32, u32> {
    match s {
        S::Leaf { id, cok, .. } | S::Fn { id, cok } => {
            let r = leaf_res(*id, *cok, req);
            out.push(Ev::Called(*id, req));
            out.push(Ev::Polled(*id, 0, Some(r)));
            r
        }
        S::Map(s, f) => ref_call(s, req, out).map(|v| {
            out.push(Ev::Mapped('m', *f, v));
            mapfn(*f, v)
        }),
        S::MapErr(s, f) => ref_call(s, req, out).map_err(|e| {
            out.push(Ev::Mapped('e', *f, e));
            mapfn(*f, e)
        }),
        S::Then(a, b) => {
            let v = ref_call(a, req, out)?;
            ref_call(b, v, out)
        }
        S::Apply(s, kind, k) => {
            out.push(Ev::Mapped('a', *k, req));
            match kind {
                AK::Pre => ref_call(s, mapfn(*k, req), out),
                AK::Short => {
                    let r = Err(mapfn(*k, req));
                    out.push(Ev::Polled(*k, 0, Some(r)));
                    r
                }
                AK::Post => ref_call(s, req, out).map(|v| {
                    out.push(Ev::Mapped('o', *k, v));
                    mapfn(*k, v)
                }),
            }
        }
        S::Wrap(_, s) => ref_call(s, req, out),
        S::Mw(s, t) => {
            out.push(Ev::Mapped('w', *t, req));
            ref_call(s, req, out).map(|v| {
                out.push(Ev::Mapped('o', *t, v));
                mapfn(*t, v)
            })
        }
    }
}

fn leaves<'a>(s: &'a S, out: &mut Vec<&'a S>) {
    match s {
        S::Leaf { .. } => out.push(s),
        S::Fn { .. } => {}
        S::Map(s, _) | S::MapErr(s, _) | S::Apply(s, _, _) | S::Wrap(_, s) | S::Mw(s, _) => leaves(s, out),
        S::Then(a, b) => {
            leaves(a, out);
            leaves(b, out)
        }
    }
}
fn leaves_mut(s: &mut S, f: &mut dyn FnMut(u32, &mut u32)) {
    match s {
        S::Leaf { id, rp, .. } => f(*id, rp),
        S::Fn { .. } => {}
        S::Map(s, _) | S::MapErr(s, _) | S::Apply(s, _, _) | S::Wrap(_, s) | S::Mw(s, _) => leaves_mut(s, f),
        S::Then(a, b) => {
            leaves_mut(a, f);
            leaves_mut(b, f)
        }
    }
}
/// copy the live readiness countdowns of the real leaves into the AST
fn sync_ast(s: &mut S) {
    REG.with(|r| {
        let r = r.borrow();
        leaves_mut(s, &mut |id, rp| {
            if let Some(c) = r.get(&id) {
                *rp = c.get()
            }
        })
    })
}

/// what `poll_ready` must answer now: ready iff every inner service is ready, an inner error
/// (mapped by the enclosing map_err) instead of ready, else pending.  `None` = Pending.
fn ref_ready(s: &S) -> Option<Result<(), u32>> {
    match s {
        S::Leaf { id, rp, rok, .. } => {
            if *rp > 0 {
                None
            } else if *rok {
                Some(Ok(()))
            } else {
                Some(Err(rdy_err(*id)))
            }
        }
        S::Fn { .. } => Some(Ok(())),
        S::MapErr(s, f) => ref_ready(s).map(|r| r.map_err(|e| mapfn(*f, e))),
        S::Map(s, _) | S::Apply(s, _, _) | S::Wrap(_, s) | S::Mw(s, _) => ref_ready(s),
        S::Then(a, b) => {
            let ra = ref_ready(a);
            if let Some(Err(e)) = ra {
                return Some(Err(e));
            }
            let rb = ref_ready(b);
            if let Some(Err(e)) = rb {
                return Some(Err(e));
            }
            if ra.is_some() && rb.is_some() {
                Some(Ok(()))
            } else {
                None
            }
        }
    }
}

/// rounds of "every pending inner service is polled once" until readiness is decided
fn ref_ready_rounds(s: &mut S) -> (u32, Result<(), u32>) {
    let mut t = 0;
    loop {
        if let Some(r) = ref_ready(s) {
            return (t, r);
        }
        leaves_mut(s, &mut |_, rp| *rp = rp.saturating_sub(1));
        t += 1;
    }
}

struct FacRef {
    pend: u32,
    res: Result<S, u32>,
}
/// reference for `new_service(cfg)`: number of Pending polls, result, and (in `news`) which leaf
/// factories are asked for a service with which config
fn ref_fac(f: &F, cfg: u32, news: &mut Vec<(u32, u32)>) -> FacRef {
    match f {
        F::Leaf { id, ip, iok, use_cfg, s } => {
            let c = if *use_cfg { cfg } else { 0 };
            news.push((*id, c));
            FacRef { pend: *ip, res: if *iok { Ok(s.clone()) } else { Err(init_err(*id, c)) } }
        }
        F::Fn { id, cok } => FacRef { pend: 0, res: Ok(S::Fn { id: *id, cok: *cok }) },
        F::Map(a, m) => {
            let r = ref_fac(a, cfg, news);
            FacRef { pend: r.pend, res: r.res.map(|s| S::Map(Box::new(s), *m)) }
        }
        F::MapErr(a, m) => {
            let r = ref_fac(a, cfg, news);
            FacRef { pend: r.pend, res: r.res.map(|s| S::MapErr(Box::new(s), *m)) }
        }
        F::MapInitErr(a, m) => {
            let r = ref_fac(a, cfg, news);
            FacRef { pend: r.pend, res: r.res.map_err(|e| mapfn(*m, e)) }
        }
        F::Then(a, b) => {
            let ra = ref_fac(a, cfg, news);
            let rb = ref_fac(b, cfg, news);
            match (ra.res, rb.res) {
                // the error of the factory that fails at the earliest poll; ties go to the left
                (Err(ea), Err(eb)) => {
                    if ra.pend <= rb.pend {
                        FacRef { pend: ra.pend, res: Err(ea) }
                    } else {
                        FacRef { pend: rb.pend, res: Err(eb) }
                    }
                }
                (Err(ea), Ok(_)) => FacRef { pend: ra.pend, res: Err(ea) },
                (Ok(_), Err(eb)) => FacRef { pend: rb.pend, res: Err(eb) },
                (Ok(sa), Ok(sb)) => FacRef { pend: ra.pend.max(rb.pend), res: Ok(S::Then(Box::new(sa), Box::new(sb))) },
            }
        }
        F::Apply(a, kind, k) => {
            let r = ref_fac(a, cfg, news);
            FacRef { pend: r.pend, res: r.res.map(|s| S::Apply(Box::new(s), *kind, *k)) }
        }
        F::Transform { t, tp, tok, a, .. } => {
            let r = ref_fac(a, cfg, news);
            match r.res {
                Err(e) => FacRef { pend: r.pend, res: Err(e) },
                Ok(s) => FacRef { pend: r.pend + tp, res: if *tok { Ok(S::Mw(Box::new(s), *t)) } else { Err(init_err(*t, 0)) } },
            }
        }
        F::ApplyCfg { s, f, ip, iok } => FacRef {
            pend: *ip,
            res: if *iok { Ok(S::Mw(Box::new(S::Wrap(WK::Rc, Box::new(s.clone()))), mapfn(*f, cfg))) } else { Err(init_err(*f, cfg)) },
        },
        F::ApplyCfgFac { a, f, ip, iok } => {
            let r = ref_fac(a, 0, news);
            match r.res {
                Err(e) => FacRef { pend: r.pend, res: Err(e) },
                Ok(mut s) => match ref_ready_rounds(&mut s) {
                    (t, Err(e)) => FacRef { pend: r.pend + t, res: Err(e) },
                    (t, Ok(())) => FacRef {
                        pend: r.pend + t + ip,
                        res: if *iok { Ok(S::Mw(Box::new(S::Wrap(WK::Rc, Box::new(s))), mapfn(*f, cfg))) } else { Err(init_err(*f, cfg)) },
                    },
                },
            }
        }
        F::MapConfig(a, m) => ref_fac(a, mapfn(*m, cfg), news),
        F::UnitConfig(a) => ref_fac(a, 0, news),
        F::Boxed(a) => {
            let r = ref_fac(a, cfg, news);
            FacRef { pend: r.pend, res: r.res.map(|s| S::Wrap(WK::Boxed, Box::new(s))) }
        }
        F::Rc(a) => ref_fac(a, cfg, news),
    }
}

// ------------------------------------------------------------------------------------------------
// manual executor and the `run` sub-command
// ------------------------------------------------------------------------------------------------

const FUEL: usize = 64;

struct PollRec {
    w: usize,
    from: usize, // index into the log where this poll's events start
    pending: bool,
}

/// drive `fut` to completion with a fresh waker identity per poll; `w` is advanced
fn drive<T>(mut fut: Pin<&mut (dyn Future<Output = T> + '_)>, w: &Cell<usize>, polls: &RefCell<Vec<PollRec>>) -> Option<T> {
    for _ in 0..FUEL {
        let id = w.get();
        let waker = make_waker(id);
        let mut cx = Context::from_waker(&waker);
        let from = LOG.with(|l| l.borrow().len());
        polls.borrow_mut().push(PollRec { w: id, from, pending: true });
        let r = fut.as_mut().poll(&mut cx);
        w.set(id + 1);
        if let Poll::Ready(v) = r {
            polls.borrow_mut().last_mut().unwrap().pending = false;
            return Some(v);
        }
    }
    None
}

fn fmt_log(l: &[Ev]) -> String {
    let v: Vec<String> = l.iter().map(|e| e.to_string()).collect();
    format!("[{}]", v.join(","))
}

/// C12 checks common to call futures and init futures, on the events of one drive
fn check_polls(rep: &mut Report, what: &str, log: &[Ev], polls: &[PollRec]) {
    for (i, p) in polls.iter().enumerate() {
        let to = polls.get(i + 1).map(|q| q.from).unwrap_or(log.len());
        let evs = &log[p.from.min(log.len())..to.min(log.len())];
        let mut inner_pending = false;
        for e in evs {
            let (w, pend) = match e {
                Ev::Polled(_, w, r) => (*w, r.is_none()),
                Ev::IPolled(_, w, r) => (*w, r.is_none()),
                Ev::Rdy(_, w, r) => (*w, r.is_none()),
                _ => continue,
            };
            if w != p.w {
                rep.t3("C12", &format!("waker-identity: {what}: inner future polled with waker {w} during the poll with waker {} ({e})", p.w));
            }
            inner_pending |= pend;
        }
        if p.pending && !inner_pending {
            rep.t3("C12", &format!("pending-without-inner-pending: {what}: poll {} returned Pending although no inner future/service was pending with the current waker", p.w));
        }
    }
}

fn run(a: &Args) {
    silence_panics();
    let mut rep = Report::new(&a.output);
    let mut cur: Option<BS> = None;
    let mut cur_ast: Option<S> = None;
    let w = Cell::new(0usize);
    for line in in_lines(&a.input) {
        let toks = tokenize(&line);
        let head = toks.first().map(|s| s.as_str()).unwrap_or("");
        take_log();
        REPOLL.with(|r| r.set(false));
        let real: String = match head {
            "case" => {
                cur = None;
                cur_ast = None;
                w.set(0);
                REG.with(|r| r.borrow_mut().clear());
                "ok".into()
            }
            "svc" => {
                let mut p = P { t: &toks, i: 1 };
                match p.svc() {
                    Some(s) if p.i == toks.len() && {
                        let mut ids = vec![];
                        svc_leaf_ids(&s, &mut ids);
                        nodup(&ids)
                    } =>
                    {
                        REG.with(|r| r.borrow_mut().clear());
                        cur = Some(build_svc(&s));
                        cur_ast = Some(s);
                        "ok".into()
                    }
                    _ => "bad-op".into(),
                }
            }
            "ready" if toks.len() == 1 && cur.is_some() => {
                let svc = cur.as_ref().unwrap();
                let id = w.get();
                let r = catch(|| {
                    let waker = make_waker(id);
                    let mut cx = Context::from_waker(&waker);
                    svc.poll_ready(&mut cx)
                });
                w.set(id + 1);
                let log = take_log();
                let res = match &r {
                    Ok(Poll::Pending) => "pending".to_string(),
                    Ok(Poll::Ready(Ok(()))) => "ok".to_string(),
                    Ok(Poll::Ready(Err(e))) => format!("err:{e}"),
                    Err(_) => "panic".to_string(),
                };
                // ---- T3 (C12) on the real behaviour
                if let Some(ast) = cur_ast.as_mut() {
                    let want = ref_ready(ast);
                    let got = match &r {
                        Ok(Poll::Pending) => Some(None),
                        Ok(Poll::Ready(x)) => Some(Some(*x)),
                        Err(_) => None,
                    };
                    if got != Some(want) {
                        rep.t3("C12", &format!("ready-conj: poll_ready of {ast} answered {res}, the conjunction of the inner services is {want:?}"));
                    }
                    let mut ls = vec![];
                    leaves(ast, &mut ls);
                    let mut seen: HashMap<u32, u32> = HashMap::new();
                    for e in &log {
                        if let Ev::Rdy(lid, lw, _) = e {
                            *seen.entry(*lid).or_default() += 1;
                            if *lw != id {
                                rep.t3("C12", &format!("waker-identity: leaf {lid} poll_ready saw waker {lw}, current waker is {id}"));
                            }
                        }
                    }
                    if seen.values().any(|c| *c > 1) {
                        rep.t3("C12", "ready-polled-twice: an inner service was polled for readiness twice within one poll_ready");
                    }
                    if matches!(r, Ok(Poll::Pending)) {
                        let mut any = false;
                        for l in &ls {
                            if let S::Leaf { id: lid, rp, .. } = l {
                                if *rp > 0 {
                                    any = true;
                                    if !seen.contains_key(lid) {
                                        rep.t3("C12", &format!("lost-wakeup: poll_ready of {ast} answered Pending but pending leaf {lid} was not polled with the current waker (lost wake-up)"));
                                    }
                                }
                            }
                        }
                        if !any {
                            rep.t3("C12", &format!("pending-without-inner-pending: poll_ready of {ast} answered Pending although no inner service is pending"));
                        }
                    }
                    sync_ast(ast);
                }
                format!("{} r={res}", fmt_log(&log))
            }
            "call" if toks.len() == 2 && cur.is_some() && num(&toks[1]).is_some() => {
                let req = num(&toks[1]).unwrap();
                let svc = cur.as_ref().unwrap();
                let polls = RefCell::new(vec![]);
                let w0 = w.get();
                let r = catch(|| {
                    let mut fut = svc.call(req);
                    drive(fut.as_mut(), &w, &polls)
                });
                let log = take_log();
                let polls = polls.into_inner();
                let res = match &r {
                    Ok(Some(Ok(v))) => format!("ok:{v}"),
                    Ok(Some(Err(e))) => format!("err:{e}"),
                    Ok(None) => "stuck".to_string(),
                    Err(_) => "panic".to_string(),
                };
                // ---- T3
                if let Some(ast) = cur_ast.as_ref() {
                    let mut want_log = vec![];
                    let want = ref_call(ast, req, &mut want_log);
                    if r != Ok(Some(want)) {
                        rep.t3("C11", &format!("composition-result: call({req}) of {ast} resolved to {res}, the reference composition is {want:?}"));
                    }
                    let got_log: Vec<Ev> = log
                        .iter()
                        .filter_map(|e| match e {
                            Ev::Polled(_, _, None) => None,
                            Ev::Polled(id, _, r) => Some(Ev::Polled(*id, 0, *r)),
                            e => Some(e.clone()),
                        })
                        .collect();
                    if got_log != want_log {
                        rep.t3("C11", &format!("composition-trace: call({req}) of {ast}: stages/mappers ran as {} but the composition requires {} (each stage once, in order, after the previous one completed; each mapper once on the matching variant)", fmt_log(&got_log), fmt_log(&want_log)));
                    }
                    if REPOLL.with(|r| r.get()) {
                        rep.t3("C12", &format!("poll-after-done: call({req}) of {ast}: an inner future was polled again after it completed"));
                    }
                    let mut calls: HashMap<u32, u32> = HashMap::new();
                    let mut lids = vec![];
                    svc_leaf_ids(ast, &mut lids);
                    for e in &log {
                        if let Ev::Called(id, _) = e {
                            if lids.contains(id) {
                                *calls.entry(*id).or_default() += 1;
                            }
                        }
                    }
                    if calls.values().any(|c| *c > 1) {
                        rep.t3("C12", &format!("stage-twice: call({req}) of {ast}: a stage was invoked more than once"));
                    }
                    check_polls(&mut rep, &format!("call({req}) of {ast}"), &log, &polls);
                }
                let _ = w0;
                format!("{} r={res}", fmt_log(&log))
            }
            "fac" => {
                let mut p = P { t: &toks, i: 1 };
                let parsed = p.fac().and_then(|f| {
                    let cfg = p.num()?;
                    let mut ids = vec![];
                    fac_leaf_ids(&f, &mut ids);
                    if p.i == toks.len() && nodup(&ids) {
                        Some((f, cfg))
                    } else {
                        None
                    }
                });
                match parsed {
                    None => "bad-op".into(),
                    Some((f, cfg)) => {
                        REG.with(|r| r.borrow_mut().clear());
                        cur = None;
                        cur_ast = None;
                        let polls = RefCell::new(vec![]);
                        let r = catch(|| {
                            let fac = build_fac(&f);
                            let mut fut = fac.new_service(cfg);
                            drive(fut.as_mut(), &w, &polls)
                        });
                        let log = take_log();
                        let polls = polls.into_inner();
                        let res = match &r {
                            Ok(Some(Ok(_))) => "ok".to_string(),
                            Ok(Some(Err(e))) => format!("err:{e}"),
                            Ok(None) => "stuck".to_string(),
                            Err(_) => "panic".to_string(),
                        };
                        // ---- T3
                        let mut news = vec![];
                        let want = ref_fac(&f, cfg, &mut news);
                        let agrees = match (&r, &want.res) {
                            (Ok(Some(Ok(_))), Ok(_)) => true,
                            (Ok(Some(Err(e))), Err(we)) => e == we,
                            _ => false,
                        };
                        if !agrees {
                            rep.t3("C11", &format!("factory-result: new_service({cfg}) of {f} resolved to {res}, the reference is {:?}", want.res.as_ref().map(|s| s.to_string())));
                        }
                        let got_news: Vec<(u32, u32)> = log.iter().filter_map(|e| if let Ev::New(i, c) = e { Some((*i, *c)) } else { None }).collect();
                        // which factories are asked, and with what — not in which order
                        let sorted = |v: &Vec<(u32, u32)>| {
                            let mut v = v.clone();
                            v.sort_unstable();
                            v
                        };
                        if sorted(&got_news) != sorted(&news) {
                            rep.t3("C11", &format!("factory-builds-once: new_service({cfg}) of {f}: inner factories were asked {got_news:?}, expected each once with its config: {news:?}"));
                        }
                        if agrees && polls.len() != want.pend as usize + 1 {
                            rep.t3("C11", &format!("factory-first-error-poll: new_service({cfg}) of {f} resolved at poll {} but the first decisive inner result is at poll {}", polls.len(), want.pend + 1));
                        }
                        if REPOLL.with(|r| r.get()) {
                            rep.t3("C12", &format!("poll-after-done: new_service({cfg}) of {f}: an inner init future was polled again after it completed"));
                        }
                        check_polls(&mut rep, &format!("new_service({cfg}) of {f}"), &log, &polls);
                        if let (Ok(Some(Ok(svc))), Ok(ast)) = (r, want.res) {
                            cur = Some(svc);
                            let mut ast = ast;
                            sync_ast(&mut ast);
                            cur_ast = Some(ast);
                        }
                        format!("{} r={res}", fmt_log(&log))
                    }
                }
            }
            _ => "bad-op".into(),
        };
        rep.obs(&line, &real);
    }
    rep.finish();
}

// ------------------------------------------------------------------------------------------------
// generators
// ------------------------------------------------------------------------------------------------

struct G<'a> {
    rng: &'a mut Rng,
    next_leaf: u32,
    next_fleaf: u32,
    maxk: usize,
}
const WKS: [WK; 6] = [WK::Boxed, WK::RcBoxed, WK::Rc, WK::RefCell, WK::Ref, WK::Box];
const AKS: [AK; 3] = [AK::Pre, AK::Short, AK::Post];

impl<'a> G<'a> {
    fn new(rng: &'a mut Rng, maxk: usize) -> Self {
        G { rng, next_leaf: 0, next_fleaf: 60, maxk }
    }
    fn leaf(&mut self) -> S {
        let id = self.next_leaf;
        self.next_leaf += 1;
        S::Leaf {
            id,
            cp: self.rng.below(self.maxk + 1) as u32,
            cok: self.rng.chance(3, 4),
            rp: self.rng.below(self.maxk + 1) as u32,
            rok: self.rng.chance(5, 6),
        }
    }
    fn atom(&mut self) -> S {
        if self.rng.chance(1, 7) {
            S::Fn { id: 10 + self.rng.below(10) as u32, cok: self.rng.chance(3, 4) }
        } else {
            self.leaf()
        }
    }
    fn svc(&mut self, depth: usize) -> S {
        if depth == 0 {
            return self.atom();
        }
        match self.rng.below(16) {
            0 => self.atom(),
            1..=5 => S::Then(Box::new(self.svc(depth - 1)), Box::new(self.svc(depth - 1))),
            6 | 7 => S::Map(Box::new(self.svc(depth - 1)), 20 + self.rng.below(10) as u32),
            8 | 9 => S::MapErr(Box::new(self.svc(depth - 1)), 20 + self.rng.below(10) as u32),
            10 | 11 => S::Apply(Box::new(self.svc(depth - 1)), *self.rng.pick(&AKS), 40 + self.rng.below(10) as u32),
            12 | 13 => S::Wrap(*self.rng.pick(&WKS), Box::new(self.svc(depth - 1))),
            14 => S::Mw(Box::new(self.svc(depth - 1)), 30 + self.rng.below(10) as u32),
            _ => S::Then(Box::new(self.atom()), Box::new(self.svc(depth - 1))),
        }
    }
    fn fatom(&mut self) -> F {
        match self.rng.below(8) {
            0 => F::Fn { id: 10 + self.rng.below(10) as u32, cok: self.rng.chance(3, 4) },
            1 => F::ApplyCfg {
                s: self.svc(1),
                f: 50 + self.rng.below(10) as u32,
                ip: self.rng.below(self.maxk + 1) as u32,
                iok: self.rng.chance(4, 5),
            },
            _ => {
                let id = self.next_fleaf;
                self.next_fleaf += 1;
                let d = self.rng.below(2);
                F::Leaf {
                    id,
                    ip: self.rng.below(self.maxk + 1) as u32,
                    iok: self.rng.chance(4, 5),
                    use_cfg: self.rng.chance(3, 4),
                    s: self.svc(d),
                }
            }
        }
    }
    fn fac(&mut self, depth: usize) -> F {
        if depth == 0 {
            return self.fatom();
        }
        let k = self.rng.below(18);
        let sub = |g: &mut Self| Box::new(g.fac(depth - 1));
        match k {
            0 => self.fatom(),
            1..=4 => F::Then(sub(self), sub(self)),
            5 => F::Map(sub(self), 20 + self.rng.below(10) as u32),
            6 => F::MapErr(sub(self), 20 + self.rng.below(10) as u32),
            7 => F::MapInitErr(sub(self), 20 + self.rng.below(10) as u32),
            8 => F::Apply(sub(self), *self.rng.pick(&AKS), 40 + self.rng.below(10) as u32),
            9 | 10 => F::Transform {
                t: 30 + self.rng.below(10) as u32,
                tp: self.rng.below(self.maxk + 1) as u32,
                tok: self.rng.chance(4, 5),
                rc: self.rng.chance(1, 2),
                a: sub(self),
            },
            11 | 12 => F::ApplyCfgFac {
                a: sub(self),
                f: 50 + self.rng.below(10) as u32,
                ip: self.rng.below(self.maxk + 1) as u32,
                iok: self.rng.chance(4, 5),
            },
            13 => F::MapConfig(sub(self), 20 + self.rng.below(10) as u32),
            14 => F::UnitConfig(sub(self)),
            15 => F::Boxed(sub(self)),
            16 => F::Rc(sub(self)),
            _ => F::Then(Box::new(self.fatom()), sub(self)),
        }
    }
}

/// all combinator shapes up to `depth` (leaf scripts are filled in later)
fn svc_shapes(depth: usize) -> Vec<S> {
    let atoms = vec![S::Leaf { id: 0, cp: 0, cok: true, rp: 0, rok: true }, S::Fn { id: 11, cok: true }];
    if depth == 0 {
        return atoms;
    }
    let sub = svc_shapes(depth - 1);
    let mut out = sub.clone();
    for x in &sub {
        let b = || Box::new(x.clone());
        out.push(S::Map(b(), 21));
        out.push(S::MapErr(b(), 22));
        for k in AKS {
            out.push(S::Apply(b(), k, 41));
        }
        for w in WKS {
            out.push(S::Wrap(w, b()));
        }
        out.push(S::Mw(b(), 31));
    }
    for x in &sub {
        for y in &sub {
            out.push(S::Then(Box::new(x.clone()), Box::new(y.clone())));
        }
    }
    out
}

fn fac_shapes(depth: usize) -> Vec<F> {
    let l = S::Leaf { id: 0, cp: 0, cok: true, rp: 0, rok: true };
    let atoms = vec![
        F::Leaf { id: 60, ip: 0, iok: true, use_cfg: true, s: l.clone() },
        F::Leaf { id: 60, ip: 0, iok: true, use_cfg: false, s: l.clone() },
        F::Fn { id: 11, cok: true },
        F::ApplyCfg { s: l, f: 51, ip: 0, iok: true },
    ];
    if depth == 0 {
        return atoms;
    }
    let sub = fac_shapes(depth - 1);
    let mut out = sub.clone();
    for x in &sub {
        let b = || Box::new(x.clone());
        out.push(F::Map(b(), 21));
        out.push(F::MapErr(b(), 22));
        out.push(F::MapInitErr(b(), 23));
        for k in AKS {
            out.push(F::Apply(b(), k, 41));
        }
        out.push(F::Transform { t: 31, tp: 0, tok: true, rc: false, a: b() });
        out.push(F::Transform { t: 32, tp: 0, tok: true, rc: true, a: b() });
        out.push(F::ApplyCfgFac { a: b(), f: 52, ip: 0, iok: true });
        out.push(F::MapConfig(b(), 24));
        out.push(F::UnitConfig(b()));
        out.push(F::Boxed(b()));
        out.push(F::Rc(b()));
    }
    for x in &sub {
        for y in &sub {
            out.push(F::Then(Box::new(x.clone()), Box::new(y.clone())));
        }
    }
    out
}

/// visit every scripted parameter slot of a service shape: (kind, value) where kind 0 = leaf
fn svc_slots(s: &mut S, f: &mut dyn FnMut(&mut S)) {
    match s {
        S::Leaf { .. } | S::Fn { .. } => f(s),
        S::Map(x, _) | S::MapErr(x, _) | S::Apply(x, _, _) | S::Wrap(_, x) | S::Mw(x, _) => svc_slots(x, f),
        S::Then(a, b) => {
            svc_slots(a, f);
            svc_slots(b, f)
        }
    }
}
fn count_leaves(s: &S) -> usize {
    let mut v = vec![];
    leaves(s, &mut v);
    v.len()
}
/// renumber leaves 0.. and draw random scripts
fn rescript_svc(s: &mut S, rng: &mut Rng, maxk: usize, next: &mut u32) {
    svc_slots(s, &mut |x| match x {
        S::Leaf { id, cp, cok, rp, rok } => {
            *id = *next;
            *next += 1;
            *cp = rng.below(maxk + 1) as u32;
            *cok = rng.chance(3, 4);
            *rp = rng.below(maxk + 1) as u32;
            *rok = rng.chance(5, 6);
        }
        S::Fn { cok, .. } => *cok = rng.chance(3, 4),
        _ => {}
    });
}
/// renumber leaves 0.. and set the scripts from the digits of `code`: per leaf one digit in base
/// `(kk*2)^2` encoding (cp < kk, cok, rp < kk, rok)
fn script_svc_from(s: &mut S, mut code: usize, kk: usize) {
    let mut next = 0;
    svc_slots(s, &mut |x| {
        if let S::Leaf { id, cp, cok, rp, rok } = x {
            *id = next;
            next += 1;
            let base = kk * 2 * kk * 2;
            let d = code % base;
            code /= base;
            *cp = (d % kk) as u32;
            *cok = (d / kk) % 2 == 0;
            *rp = ((d / (2 * kk)) % kk) as u32;
            *rok = (d / (2 * kk * kk)) % 2 == 0;
        }
    });
}
fn rescript_fac(f: &mut F, rng: &mut Rng, maxk: usize, next: &mut u32, nextf: &mut u32) {
    match f {
        F::Leaf { id, ip, iok, s, .. } => {
            *id = *nextf;
            *nextf += 1;
            *ip = rng.below(maxk + 1) as u32;
            *iok = rng.chance(4, 5);
            rescript_svc(s, rng, maxk, next);
        }
        F::Fn { cok, .. } => *cok = rng.chance(3, 4),
        F::ApplyCfg { s, ip, iok, .. } => {
            *ip = rng.below(maxk + 1) as u32;
            *iok = rng.chance(4, 5);
            rescript_svc(s, rng, maxk, next);
        }
        F::Transform { tp, tok, a, .. } => {
            *tp = rng.below(maxk + 1) as u32;
            *tok = rng.chance(4, 5);
            rescript_fac(a, rng, maxk, next, nextf);
        }
        F::ApplyCfgFac { a, ip, iok, .. } => {
            *ip = rng.below(maxk + 1) as u32;
            *iok = rng.chance(4, 5);
            rescript_fac(a, rng, maxk, next, nextf);
        }
        F::Map(a, _) | F::MapErr(a, _) | F::MapInitErr(a, _) | F::Apply(a, _, _) | F::MapConfig(a, _) => rescript_fac(a, rng, maxk, next, nextf),
        F::UnitConfig(a) | F::Boxed(a) | F::Rc(a) => rescript_fac(a, rng, maxk, next, nextf),
        F::Then(a, b) => {
            rescript_fac(a, rng, maxk, next, nextf);
            rescript_fac(b, rng, maxk, next, nextf)
        }
    }
}

fn emit_ops(w: &mut dyn Write, rng: &mut Rng, n: usize, ready_bias: usize) {
    // `ready_bias` out of 10 ops are poll_ready; always at least one call
    let mut called = false;
    for i in 0..n {
        if rng.below(10) < ready_bias && !(i + 1 == n && !called) {
            writeln!(w, "ready").unwrap();
        } else {
            writeln!(w, "call {}", rng.below(10)).unwrap();
            called = true;
        }
    }
}

fn gen(a: &Args) {
    let mut w = out_writer(&a.output);
    let thorough = a.tier == "thorough";
    let c12 = a.prop == "C12";
    let mut rng = Rng::new(a.seed.wrapping_mul(2).wrapping_add(c12 as u64));
    let ready_bias = if c12 { 6 } else { 4 };

    // (0) malformed / not-applicable ops: must be rejected identically
    writeln!(w, "case malformed").unwrap();
    for l in [
        "ready",
        "call 1",
        "svc (leaf 0 0 ok 0)",
        "svc (then (leaf 0 0 ok 0 ok) (leaf 0 1 ok 0 ok))",
        "svc (leaf 1234567 0 ok 0 ok)",
        "svc (leaf 0 0 ok 0 ok) x",
        "svc (frob (leaf 0 0 ok 0 ok))",
        "fac (fleaf 60 0 ok cfg (leaf 0 0 ok 0 ok))",
        "fac (fthen (fleaf 60 0 ok cfg (leaf 0 0 ok 0 ok)) (fleaf 61 0 ok cfg (leaf 0 0 ok 0 ok))) 1",
        "svc (leaf 0 1 ok 1 ok)",
        "ready x",
        "call",
        "call 1 2",
        "call x",
        "ready",
        "call 3",
        "frobnicate",
    ] {
        writeln!(w, "{l}").unwrap();
    }

    // (1) every combinator shape up to depth 2; for shapes with at most two scripted leaves every
    //     script with k <= 1 (quick) / k <= 2 (thorough), otherwise random draws
    let shapes = svc_shapes(2);
    let kk = if thorough { 3 } else { 2 };
    let draws = if thorough { 6 } else { 2 };
    let mut n = 0;
    for sh in &shapes {
        let nl = count_leaves(sh);
        let full = nl <= 2;
        let total = if full { (kk * 2 * kk * 2usize).pow(nl as u32) } else { draws };
        for d in 0..total {
            let mut s = sh.clone();
            if full {
                script_svc_from(&mut s, d, kk);
            } else {
                let mut nx = 0;
                rescript_svc(&mut s, &mut rng, kk - 1, &mut nx);
            }
            n += 1;
            writeln!(w, "case shape-{n}").unwrap();
            writeln!(w, "svc {s}").unwrap();
            if full {
                // deterministic op list: readiness polls, a call, settle, another call
                writeln!(w, "ready\nready\ncall 1\nready\ncall 2").unwrap();
            } else {
                emit_ops(&mut w, &mut rng, 5, ready_bias);
            }
        }
    }

    // (2) every factory shape up to depth 1 (quick) / 2 (thorough), random scripts
    let fshapes = fac_shapes(if thorough { 2 } else { 1 });
    let fdraws = if thorough { 2 } else { 3 };
    let mut n = 0;
    for sh in &fshapes {
        for _ in 0..fdraws {
            let mut f = sh.clone();
            let (mut nx, mut nf) = (0, 60);
            rescript_fac(&mut f, &mut rng, if thorough { 2 } else { 1 }, &mut nx, &mut nf);
            n += 1;
            let cfg = rng.below(10) as u32;
            writeln!(w, "case fshape-{n}").unwrap();
            writeln!(w, "fac {f} {cfg}").unwrap();
            if ref_fac(&f, cfg, &mut vec![]).res.is_ok() {
                emit_ops(&mut w, &mut rng, 4, ready_bias);
            } else {
                writeln!(w, "ready").unwrap(); // no service: rejected on both sides
            }
        }
    }

    // (3) random trees of depth ≤ 3
    let cases = if thorough { 20000 } else { 2000 };
    for c in 0..cases {
        let mut g = G::new(&mut rng, 2);
        if c % 3 == 2 {
            let d = g.rng.range(1, 3);
            let f = g.fac(d);
            let cfg = g.rng.below(10) as u32;
            writeln!(w, "case rfac-{c}").unwrap();
            writeln!(w, "fac {f} {cfg}").unwrap();
            if ref_fac(&f, cfg, &mut vec![]).res.is_err() {
                continue;
            }
        } else {
            let d = g.rng.range(1, 3);
            let s = g.svc(d);
            writeln!(w, "case rsvc-{c}").unwrap();
            writeln!(w, "svc {s}").unwrap();
        }
        let nops = rng.range(2, 7);
        emit_ops(&mut w, &mut rng, nops, ready_bias);
    }
    w.flush().unwrap();
}

fn main() {
    let a = parse_args();
    match a.cmd.as_str() {
        "gen" => gen(&a),
        "run" => run(&a),
        _ => {
            eprintln!("usage: svc gen|run …");
            std::process::exit(2)
        }
    }
}
