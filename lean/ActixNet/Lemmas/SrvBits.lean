import ActixNet.Lemmas.SrvDrain
/-!
Who may turn an availability bit ON.

The accept thread writes the availability bitset in four places: `send_connection` (after the counter
increment: `if !inc { set_available(idx, false) }`), `remove_next` and the skip of `accept_one` (both
`set_available(idx, false)`), and the two notification arms of `handle_waker`
(`WorkerAvailable(idx)` → `set_available(idx, true)`, `Worker(handle)` → `set_available(handle.idx, true)`).
No other thread writes it (`yieldPt_avail`: the schedule cannot touch `avail`).  So

* `Off` — "no bit that was clear is set": reflexive, transitive; `setAvail _ _ false` satisfies it;
* the dispatch chain `send_connection` → forced send → `accept_one` → `accept` → `accept_all` satisfies it
  under EVERY schedule (`accept_off`), in particular the forced dispatch after a worker fault;
* `handle_waker` satisfies it when the queue holds commands only (`Cmds`: pause / resume / stop) and nothing
  is scheduled (`handleWaker_off`) — the `Still` chain of `SrvDrain` keeps the queue what it was;
* `pollEvents_off` / `poll_off`: one iteration.
-/
namespace ActixNet.Srv
open ActixNet

/-- no availability bit is turned on: every bit set afterwards was set before -/
def Off (s s' : St) : Prop := ∀ i, s'.avail i = true → s.avail i = true

theorem Off.refl (s : St) : Off s s := fun _ h => h
theorem Off.trans {a b c : St} (h1 : Off a b) (h2 : Off b c) : Off a c := fun i h => h1 i (h2 i h)
/-- `avail` is not written -/
theorem Off.of_eq {s s' : St} (h : s'.avail = s.avail) : Off s s' := fun i hi => by rw [h] at hi; exact hi

/-- clearing a bit (or raising the offset panic) turns nothing on -/
theorem setAvail_off (s : St) (idx : Nat) : Off s (setAvail s idx false) := by
  intro i h; unfold setAvail at h; split at h
  · simp only [upd] at h; split at h
    · cases h
    · exact h
  · exact h

theorem setNext_avail (s : St) : (setNext s).avail = s.avail := by unfold setNext; split <;> rfl

theorem yieldPt_off (cfg : Cfg) (s : St) : Off s (yieldPt cfg s) := Off.of_eq (yieldPt_avail cfg s)

/-- `if !inc_counter() { set_available(idx, false) }`: whatever `inc` answers, the bit is at most cleared -/
theorem incPrim_off (cfg : Cfg) (s : St) (w idx : Nat) : Off s (incPrim cfg s w idx) := by
  unfold incPrim; simp only; split
  · exact Off.of_eq rfl
  · exact Off.trans (b := { s with wk := upd s.wk w { s.wk w with c := (s.wk w).c + 1 }, pend := none })
      (Off.of_eq rfl) (setAvail_off _ idx)

theorem removeNext_off (s : St) (w : Nat) : Off s (removeNext s w) :=
  Off.trans (b := { s with handles := swapRemove s.handles s.next, faultedLog := s.faultedLog ++ [(s.wk w).idx] })
    (Off.of_eq rfl) (setAvail_off _ _)

theorem sendFail_off (s : St) (w : Nat) (c : Conn) : Off s (sendFail s w c).1 := by
  unfold sendFail; simp only; split
  · exact (removeNext_off s w).trans (Off.of_eq rfl)
  · split
    · exact (removeNext_off s w).trans (Off.of_eq rfl)
    · exact removeNext_off s w

/-! ### the dispatch chain, under every schedule -/

/-- **`send_connection` may only clear the bit of the worker it sent to** (or, on a closed channel, of the
worker it removes) — whatever runs in window W1 -/
theorem sendConnection_off (cfg : Cfg) (s : St) (c : Conn) : Off s (sendConnection cfg s c).1 := by
  unfold sendConnection
  split
  · exact Off.refl s
  · split
    · exact Off.of_eq rfl
    · rename_i w _
      split
      · exact Off.trans (b := sendPrim s w c) (Off.of_eq rfl) ((yieldPt_off cfg _).trans
          ((incPrim_off cfg _ w _).trans (Off.of_eq (setNext_avail _))))
      · exact sendFail_off s w c

/-- the forced dispatch after a fault (`while let Err(c) = self.send_connection(c)`) sets no bit either -/
theorem forcedSend_off (cfg : Cfg) : ∀ (fuel : Nat) (s : St) (c : Conn), Off s (forcedSend cfg fuel s c) := by
  intro fuel; induction fuel with
  | zero => intro s c; exact Off.of_eq rfl
  | succ f ih =>
    intro s c
    simp only [forcedSend]
    have hm := sendConnection_off cfg s c
    cases hsc : sendConnection cfg s c with
    | mk s1 ok =>
      rw [hsc] at hm; simp only at hm ⊢
      split
      · exact hm
      · exact hm.trans (ih s1 c)

theorem acceptOne_off (cfg : Cfg) : ∀ (fuel : Nat) (s : St) (c : Conn), Off s (acceptOne cfg fuel s c) := by
  intro fuel; induction fuel with
  | zero => intro s c; exact Off.of_eq rfl
  | succ f ih =>
    intro s c
    simp only [acceptOne]
    split
    · exact Off.refl s
    · split
      · exact Off.of_eq rfl
      · rename_i w _
        split
        · have hm := sendConnection_off cfg s c
          cases hsc : sendConnection cfg s c with
          | mk s1 ok =>
            rw [hsc] at hm; simp only at hm ⊢
            split
            · exact hm
            · exact hm.trans (ih s1 c)
        · have hl : Off s (setNext (setAvail s (s.wk w).idx false)) :=
            (setAvail_off s _).trans (Off.of_eq (setNext_avail _))
          split
          · exact hl.trans (forcedSend_off cfg _ _ c)
          · exact hl.trans (ih _ c)

theorem acceptSys_avail (s : St) (l : Nat) : (acceptSys s l).1.avail = s.avail := by
  unfold acceptSys; simp only
  repeat' split
  all_goals rfl

theorem setTimeout_avail (s : St) (d : Nat) : (setTimeout s d).avail = s.avail := by
  unfold setTimeout; split
  · split <;> rfl
  · rfl

theorem register_avail (s : St) (l : Nat) : (register s l).avail = s.avail := by
  unfold register; simp only; split <;> rfl

/-- **a run of `Accept::accept` on a listener turns no bit on**, whatever the other threads do meanwhile -/
theorem accept_off (cfg : Cfg) : ∀ (fuel : Nat) (s : St) (l : Nat), Off s (accept cfg fuel s l) := by
  intro fuel; induction fuel with
  | zero => intro s l; exact Off.of_eq rfl
  | succ f ih =>
    intro s l
    simp only [accept]
    split
    · exact Off.refl s
    · split
      · exact Off.refl s
      · have h0 := yieldPt_off cfg s
        have h1 := Off.of_eq (acceptSys_avail (yieldPt cfg s) l)
        cases hsys : acceptSys (yieldPt cfg s) l with
        | mk s1 r =>
          rw [hsys] at h1; simp only at h1
          have h01 : Off s s1 := h0.trans h1
          cases r with
          | conn c => exact h01.trans ((acceptOne_off cfg _ s1 c).trans (ih _ l))
          | wouldBlock => exact h01
          | connErr => exact h01.trans (ih s1 l)
          | otherErr => exact h01.trans (Off.of_eq (setTimeout_avail _ _))

theorem acceptAllFrom_off (cfg : Cfg) : ∀ (ls : List Nat) (s : St), Off s (acceptAllFrom cfg s ls) := by
  intro ls; induction ls with
  | nil => intro s; exact Off.refl s
  | cons l ls ih => intro s; simp only [acceptAllFrom]; exact (accept_off cfg _ s l).trans (ih _)

theorem acceptAll_off (cfg : Cfg) (s : St) : Off s (acceptAll cfg s) := acceptAllFrom_off cfg _ s

/-! ### `handle_waker` on a queue without notifications -/

theorem deregisterAllFrom_avail : ∀ (ls : List Nat) (s : St), (deregisterAllFrom s ls).avail = s.avail := by
  intro ls; induction ls with
  | nil => intro s; rfl
  | cons l ls ih =>
    intro s; simp only [deregisterAllFrom]
    rw [ih]; split <;> rfl

theorem registerAllFrom_avail : ∀ (ls : List Nat) (s : St), (registerAllFrom s ls).avail = s.avail := by
  intro ls; induction ls with
  | nil => intro s; rfl
  | cons l ls ih =>
    intro s; simp only [registerAllFrom]
    rw [ih, register_avail]

/-- a command of the server future — not one of the two notifications that set a bit -/
def Interest.isCmd : Interest → Bool
  | .pause | .resume | .stop => true
  | _ => false

/-- the waker queue holds commands only: no `WorkerAvailable`, no new worker's handle -/
def Cmds (q : List Interest) : Prop := ∀ i ∈ q, i.isCmd = true

theorem Cmds.nil : Cmds [] := fun _ h => nomatch h
theorem Cmds.tail {i : Interest} {q : List Interest} (h : Cmds (i :: q)) : Cmds q :=
  fun j hj => h j (List.mem_cons_of_mem _ hj)

/-- what an iteration without notifications keeps: nothing scheduled, commands only, no bit turned on -/
def QuietR (s s' : St) : Prop := s'.sched = [] ∧ Cmds s'.wq ∧ Off s s'

/-- **`handle_waker` without a notification to process turns no bit on**: nothing is pushed meanwhile
(`sched = []`) and the queue holds commands only; pause / resume / stop (de)register listeners and may run
the accept loop (`acceptAll_off`), nothing else. -/
theorem handleWaker_off (cfg : Cfg) : ∀ (fuel : Nat) (s : St), s.sched = [] → Cmds s.wq →
    QuietR s (handleWaker cfg fuel s).1 := by
  intro fuel; induction fuel with
  | zero => intro s hs hc; exact ⟨hs, hc, fun _ h => h⟩
  | succ f ih =>
    intro s hs hc
    simp only [handleWaker]
    split
    · exact ⟨hs, hc, Off.refl s⟩
    · have h0 := yieldPt_still cfg s hs
      have ha := yieldPt_off cfg s
      generalize yieldPt cfg s = s0 at h0 ha ⊢
      obtain ⟨hs0, hw0⟩ := h0
      rw [← hw0] at hc
      cases hwq : s0.wq with
      | nil => exact ⟨hs0, by rw [hwq]; exact Cmds.nil, ha⟩
      | cons i q =>
        simp only
        rw [hwq] at hc
        have hq : ∀ s3, Still { s0 with wq := q } s3 → Off s0 s3 → QuietR s (handleWaker cfg f s3).1 := by
          intro s3 h3 ho
          obtain ⟨a, b⟩ := h3 hs0
          have hb : s3.wq = q := b
          obtain ⟨r1, r2, r3⟩ := ih s3 a (by rw [hb]; exact hc.tail)
          exact ⟨r1, r2, ha.trans (ho.trans r3)⟩
        cases i with
        | workerAvail idx => have := hc _ List.mem_cons_self; simp [Interest.isCmd] at this
        | worker w => have := hc _ List.mem_cons_self; simp [Interest.isCmd] at this
        | pause =>
          simp only; split
          · exact hq _ (Still.trans (b := { s0 with wq := q, paused := true }) (Still.of_eq rfl rfl)
              (deregisterAll_still _)) (Off.of_eq (deregisterAllFrom_avail _ _))
          · exact hq _ (Still.refl _) (Off.of_eq rfl)
        | resume =>
          simp only; split
          · exact hq _ (Still.trans (b := { s0 with wq := q, paused := false }) (Still.of_eq rfl rfl)
              ((registerAllFrom_fv _ _).still.trans (acceptAll_still cfg _)))
              (Off.trans (b := registerAllFrom { s0 with wq := q, paused := false } (List.range s0.nLst))
                (Off.of_eq (registerAllFrom_avail _ _)) (acceptAll_off cfg _))
          · exact hq _ (Still.refl _) (Off.of_eq rfl)
        | stop =>
          simp only
          split
          · obtain ⟨a, b⟩ := ((deregisterAll_still { s0 with wq := q }).trans (cleanupAll_fv _).still) hs0
            refine ⟨a, ?_, ha.trans (Off.of_eq ?_)⟩
            · rw [b]; exact hc.tail
            · exact deregisterAllFrom_avail _ _
          · obtain ⟨a, b⟩ := (cleanupAll_fv { s0 with wq := q }).still hs0
            refine ⟨a, ?_, ha.trans (Off.of_eq rfl)⟩
            rw [b]; exact hc.tail

/-! ### the event batch and one iteration -/

theorem QuietR.trans {a b c : St} (h1 : QuietR a b) (h2 : QuietR b c) : QuietR a c :=
  ⟨h2.1, h2.2.1, h1.2.2.trans h2.2.2⟩

theorem pollEvents_off (cfg : Cfg) : ∀ (order : List Ev) (s : St), s.sched = [] → Cmds s.wq →
    QuietR s (pollEvents cfg s order).1 := by
  intro order; induction order with
  | nil => intro s hs hc; exact ⟨hs, hc, Off.refl s⟩
  | cons e es ih =>
    intro s hs hc
    simp only [pollEvents]
    cases e with
    | waker =>
      simp only
      have hw := handleWaker_off cfg (wakerFuel s) s hs hc
      cases hhw : handleWaker cfg (wakerFuel s) s with
      | mk s1 ex =>
        rw [hhw] at hw; simp only at hw ⊢
        cases ex with
        | true => simp only [↓reduceIte]; exact hw
        | false =>
          simp only [Bool.false_eq_true, ↓reduceIte]
          exact hw.trans (ih s1 hw.1 hw.2.1)
    | listener l =>
      simp only
      obtain ⟨hs2, hq2⟩ := accept_still cfg (acceptFuel s l) s l hs
      have h2 : QuietR s (accept cfg (acceptFuel s l) s l) := ⟨hs2, by rw [hq2]; exact hc, accept_off cfg _ s l⟩
      exact h2.trans (ih _ hs2 h2.2.1)

theorem processTimeoutFrom_avail (now : Nat) : ∀ (ls : List Nat) (s : St),
    (processTimeoutFrom s now ls).avail = s.avail := by
  intro ls; induction ls with
  | nil => intro s; rfl
  | cons l ls ih =>
    intro s; simp only [processTimeoutFrom]
    split
    · exact ih s
    · rw [ih]
      split
      · exact setTimeout_avail _ _
      · split
        · exact register_avail _ l
        · rfl

theorem processTimeout_avail (s : St) : (processTimeout s).avail = s.avail := by
  unfold processTimeout; split
  · rfl
  · exact processTimeoutFrom_avail _ _ _

theorem pollFinish_avail (r : St × Bool) : (pollFinish r).avail = r.1.avail := by
  unfold pollFinish; split
  · rfl
  · exact processTimeout_avail r.1

/-- **One iteration without a notification turns no availability bit on.**  Nothing is pushed while it runs
(empty schedule) and the waker queue holds commands only when it begins: whatever the batch of events, however
many connections it dispatches — also by force onto a saturated survivor after a worker fault — every bit set
afterwards was set before. -/
theorem poll_off (cfg : Cfg) (s : St) (order : List Ev) (hc : Cmds s.wq) : Off s (poll cfg s order []) := by
  unfold poll; split
  · exact Off.refl s
  · have h := pollEvents_off cfg order (clearEdges { s with sched := [], yields := 0 }) rfl hc
    exact Off.trans (b := clearEdges { s with sched := [], yields := 0 }) (Off.of_eq rfl)
      (h.2.2.trans (Off.of_eq (pollFinish_avail _)))

end ActixNet.Srv
