import ActixNet.Model.WakerQueue
/-! Nothing handed to `WakerQueue::wake` is lost or reordered, for every interleaving of producers and the accept thread. -/
namespace ActixNet.WakerQueue

theorem step_lossless {α : Type} (q : Q α) (s : Step α) :
    (step q s).processed ++ (step q s).queue = q.processed ++ q.queue ++ pushed [s] := by
  cases s with
  | push x => simp [step, pushed]
  | pop =>
    cases hq : q.queue with
    | nil => simp [step, pushed, hq]
    | cons x r => simp [step, pushed, hq]

theorem pushed_append {α : Type} (a b : List (Step α)) : pushed (a ++ b) = pushed a ++ pushed b := by
  induction a with
  | nil => simp [pushed]
  | cons s r ih => cases s <;> simp [pushed, ih]

/-- processed ++ still queued = everything pushed, in push order: lossless and FIFO, for EVERY interleaving. -/
theorem lossless {α : Type} (steps : List (Step α)) (q : Q α) :
    (run q steps).processed ++ (run q steps).queue = q.processed ++ q.queue ++ pushed steps := by
  induction steps generalizing q with
  | nil => simp [run, pushed]
  | cons s r ih =>
    have h1 := ih (step q s)
    have h2 := step_lossless q s
    have h3 : pushed (s :: r) = pushed [s] ++ pushed r := pushed_append [s] r
    simp only [run, List.foldl_cons] at h1 ⊢
    rw [h1, h2, h3]; simp [List.append_assoc]

/-- Once the accept thread has drained (the queue is empty), everything pushed so far has been processed. -/
theorem drained_means_all_processed {α : Type} (steps : List (Step α))
    (h : (run ({} : Q α) steps).queue = []) : (run ({} : Q α) steps).processed = pushed steps := by
  have := lossless steps ({} : Q α)
  simpa [h] using this

end ActixNet.WakerQueue
