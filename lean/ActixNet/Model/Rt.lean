import ActixNet.Generated.Src
/-!
# Model `Rt`: actix-rt at message level (system.rs, arbiter.rs, runtime.rs)

A labelled transition system.  The shared objects are exactly the ones the crate's threads
communicate through:

* the **system command channel** (`mpsc::unbounded_channel<SystemCommand>`, system.rs:54): its whole
  send history `syssent` (FIFO, linearizable — trusted tokio) and the number `sysDone` of commands
  the `SystemController` (system.rs:321-357) has handled, so the pending queue is
  `syssent.drop sysDone`;
* the controller's private state: `registered` (`arbiters: HashMap<usize, ArbiterHandle>`),
  `stopTx` (`Option<oneshot::Sender<i32>>`) and the ghost list `sends` of values put on the one-shot
  (what `run_with_code` returns is its first element);
* per arbiter `i` (a thread created by `Arbiter::new`, arbiter.rs:110-156): the history `sent` of its
  command channel and the number `recvd` of commands `ArbiterRunner` (arbiter.rs:295-317) has
  received, the `LocalSet` queue `spawned` of futures `spawn_local`ed but not yet polled, the start
  log `started`, and the life-cycle flags `ended` (runner returned `Ready`), `gone` (receiver dropped
  — `send` fails from here on), `exited` (Deregister enqueued, thread finished — `join` returns);
* the **system arbiter** (`Arbiter::in_new_system`, arbiter.rs:209-219; registered under `usize::MAX`
  by `System::with_tokio_rt`, system.rs:57-63): the same `ArbiterRunner`, but run as a *local task* of
  the system thread.  It exists from `init` on (its `Register` is the first command in the system
  queue), it has no thread of its own — so it never deregisters and cannot be joined — and the
  `LocalSet` that polls the futures it spawned is the system thread's, which keeps running after the
  runner has returned: futures received *before* the `Stop` may still start afterwards (flag `sys`);
* per OS thread the two **thread-locals** `HANDLE` / `CURRENT` (`TLS`, at the end of this file): what
  `Arbiter::current()` / `System::current()` return on a thread that hosts its 1st, 2nd, 3rd … System.

`step` takes the *label chosen by a scheduler*; a label that is not enabled leaves the state
unchanged.  Theorems quantify over arbitrary label lists, hence over all schedules and over all
behaviours of the client threads (`newArb`, `send`, `sysSend` are the client's actions).

Imports only the generated source facts (T1) so that the driver links as a `lean_exe`.
-/
namespace ActixNet.Rt

/-- `ArbiterCommand` (arbiter.rs:22-25); a future is represented by a client-chosen task number -/
inductive Cmd where
  | stop
  | exec (t : Nat)
  deriving DecidableEq, Repr, Inhabited

/-- `SystemCommand` (system.rs:293-297); handles are identified with arbiter ids -/
inductive SysCmd where
  | exit (code : Int)
  | register (i : Nat)
  | deregister (i : Nat)
  deriving DecidableEq, Repr, Inhabited

structure Arb where
  created : Bool := false
  sent : List Cmd := []
  recvd : Nat := 0
  spawned : List Nat := []
  started : List Nat := []
  ended : Bool := false
  gone : Bool := false
  exited : Bool := false
  /-- the system arbiter: a local task of the system thread (no thread of its own, never joins or
      deregisters; the `LocalSet` polling its futures outlives the runner) -/
  sys : Bool := false
  deriving Repr, Inhabited

structure State where
  arbs : Nat → Arb := fun _ => {}
  syssent : List SysCmd := []
  sysDone : Nat := 0
  registered : Nat → Bool := fun _ => false
  stopTx : Bool := true
  sends : List Int := []
  /-- ghost: return values of `ArbiterHandle::spawn/stop` (`tx.send(..).is_ok()`) in call order -/
  rets : List Bool := []
  deriving Inhabited

def upd {α : Type} (f : Nat → α) (i : Nat) (v : α) : Nat → α := fun j => if j = i then v else f j

/-- key under which the system arbiter is registered: `usize::MAX` (system.rs:62) -/
def sysArbId : Nat := 18446744073709551615

/-- the state `System::new()` returns in: the system arbiter exists (`Arbiter::in_new_system`) and its
`RegisterArbiter(usize::MAX, _)` is the first command in the system queue (system.rs:57-63) -/
def init : State :=
  { arbs := upd (fun _ => {}) sysArbId { created := true, sys := true },
    syssent := [.register sysArbId] }

@[simp] theorem upd_same {α : Type} (f : Nat → α) (i : Nat) (v : α) : upd f i v i = v := by simp [upd]
theorem upd_other {α : Type} (f : Nat → α) (i j : Nat) (v : α) (h : j ≠ i) : upd f i v j = f j := by
  simp [upd, h]

/-- scheduler labels -/
inductive Act where
  /-- `Arbiter::new`: the new thread has installed its thread-locals and enqueued
      `RegisterArbiter(i, hnd)` (arbiter.rs:131-140); `new` returns only after this step -/
  | newArb (i : Nat)
  /-- any thread: `handle.spawn(..)` / `spawn_fn(..)` / `stop()` on arbiter `i` -/
  | send (i : Nat) (c : Cmd)
  /-- any thread: `System::stop_with_code(code)` (system.rs:164-166) -/
  | sysSend (code : Int)
  /-- the `SystemController` handles the next buffered command -/
  | ctrl
  /-- arbiter `i`'s `ArbiterRunner` receives the next buffered command -/
  | runner (i : Nat)
  /-- arbiter `i`'s `LocalSet` polls the oldest not-yet-started future for the first time -/
  | task (i : Nat)
  /-- `block_on(ArbiterRunner)` has returned on thread `i`: the runner (and its receiver) is dropped -/
  | close (i : Nat)
  /-- thread `i` enqueues `DeregisterArbiter(i)` (arbiter.rs:146-148) and finishes (not the system
      arbiter: it has no thread of its own) -/
  | fin (i : Nat)
  deriving DecidableEq, Repr, Inhabited

/-- `tx.send(c)` on arbiter `a`'s channel: fails iff the receiver is gone -/
def Arb.push (a : Arb) (c : Cmd) : Arb := if a.gone then a else { a with sent := a.sent ++ [c] }

/-- one iteration of the loop in `ArbiterRunner::poll` -/
def Arb.recv (a : Arb) : Arb :=
  if a.created && !a.ended then
    match a.sent[a.recvd]? with
    | none => a
    | some .stop => { a with recvd := a.recvd + 1, ended := true }
    | some (.exec t) => { a with recvd := a.recvd + 1, spawned := a.spawned ++ [t] }
  else a

/-- first poll of the oldest spawned future (only while the `LocalSet` is still being driven: on an
`Arbiter::new` thread `block_on(ArbiterRunner)` returns when the runner does and nothing is polled
any more; the system arbiter's futures live in the system thread's `LocalSet`, which goes on) -/
def Arb.startTask (a : Arb) : Arb :=
  if a.ended && !a.sys then a else
    match a.spawned with
    | [] => a
    | t :: r => { a with spawned := r, started := a.started ++ [t] }

def step (s : State) : Act → State
  | .newArb i =>
    if (s.arbs i).created then s else
      { s with arbs := upd s.arbs i { s.arbs i with created := true },
               syssent := s.syssent ++ [.register i] }
  | .send i c =>
    if (s.arbs i).created then
      { s with arbs := upd s.arbs i ((s.arbs i).push c), rets := s.rets ++ [!(s.arbs i).gone] }
    else s
  | .sysSend code => { s with syssent := s.syssent ++ [.exit code] }
  | .ctrl =>
    match s.syssent[s.sysDone]? with
    | none => s
    | some (.exit code) =>
      { s with sysDone := s.sysDone + 1,
               arbs := fun j => if s.registered j then (s.arbs j).push .stop else s.arbs j,
               stopTx := false,
               sends := if s.stopTx then s.sends ++ [code] else s.sends }
    | some (.register i) => { s with sysDone := s.sysDone + 1, registered := upd s.registered i true }
    | some (.deregister i) => { s with sysDone := s.sysDone + 1, registered := upd s.registered i false }
  | .runner i => { s with arbs := upd s.arbs i (s.arbs i).recv }
  | .task i => { s with arbs := upd s.arbs i (s.arbs i).startTask }
  | .close i =>
    if (s.arbs i).ended && !(s.arbs i).gone then
      { s with arbs := upd s.arbs i { s.arbs i with gone := true } }
    else s
  | .fin i =>
    if (s.arbs i).gone && !(s.arbs i).exited && !(s.arbs i).sys then
      { s with arbs := upd s.arbs i { s.arbs i with exited := true },
               syssent := s.syssent ++ [.deregister i] }
    else s

def run (s : State) : List Act → State
  | [] => s
  | a :: tr => run (step s a) tr

/-! ### observables -/

/-- value `run_with_code` returns (`none`: still blocked on the one-shot) -/
def runWithCode (s : State) : Option Int := s.sends.head?

/-- result of `SystemRunner::run` (system.rs:185-195): `Ok(())` for code 0, `Err` otherwise -/
inductive RunRes where
  | ok
  | err (code : Int)
  deriving DecidableEq, Repr

def runResult (s : State) : Option RunRes :=
  (runWithCode s).map fun c => if c = 0 then .ok else .err c

/-- `Arbiter::join` on arbiter `i` returns -/
def joinReturns (s : State) (i : Nat) : Bool := (s.arbs i).exited

def execIds : List Cmd → List Nat
  | [] => []
  | .stop :: r => execIds r
  | .exec t :: r => t :: execIds r

def notStop : Cmd → Bool
  | .stop => false
  | .exec _ => true

/-- the commands in front of the first `Stop` -/
def preStop (l : List Cmd) : List Cmd := l.takeWhile notStop

/-- code of the first `Exit` in a queue history -/
def firstExit : List SysCmd → Option Int
  | [] => none
  | .exit c :: _ => some c
  | _ :: r => firstExit r

def runnerSteps (i : Nat) : List Act → Nat
  | [] => 0
  | .runner j :: tr => (if j = i then 1 else 0) + runnerSteps i tr
  | _ :: tr => runnerSteps i tr

/-! ### `Runtime::block_on` (runtime.rs:134-140) — glue

A future is abstracted to "returns `Pending` `pend` times, then `Ready out`"; `block_on` keeps
polling (and ticking the `LocalSet`) until the future is ready. -/
structure Fut (α : Type) where
  pend : Nat
  out : α

def Fut.poll {α : Type} (f : Fut α) : Sum (Fut α) α :=
  match f.pend with
  | 0 => .inr f.out
  | n + 1 => .inl { f with pend := n }

def blockOnFuel {α : Type} : Nat → Fut α → Option α
  | 0, _ => none
  | fuel + 1, f => match f.poll with
    | .inr v => some v
    | .inl f' => blockOnFuel fuel f'

def blockOn {α : Type} (f : Fut α) : Option α := blockOnFuel (f.pend + 1) f

/-! ### thread-locals: what `Arbiter::current()` / `System::current()` return

`HANDLE` (arbiter.rs:18-20) and `CURRENT` (system.rs:18-20) are per OS thread.  They are *overwritten*
by `System::new()` on that thread (`Arbiter::in_new_system` sets `HANDLE` to the new system arbiter,
`System::construct` → `set_current` sets `CURRENT`) and by the first statements of an `Arbiter::new`
thread (arbiter.rs:131-133); nothing else writes them (dropping a `SystemRunner` does not). -/
structure TLS where
  /-- `HANDLE`: the arbiter `Arbiter::current()` returns -/
  handle : Option Nat := none
  /-- `CURRENT`: id of the system `System::current()` returns -/
  current : Option Nat := none
  deriving DecidableEq, Repr, Inhabited

inductive TAct where
  /-- `System::new()` on this thread: system `sid` with system arbiter `aid` -/
  | newSystem (sid aid : Nat)
  /-- this thread is the one `Arbiter::new()` created for arbiter `aid` of system `sid` -/
  | arbThread (sid aid : Nat)
  /-- a `SystemRunner` hosted by this thread is dropped, or `run` returns -/
  | dropRunner
  deriving DecidableEq, Repr, Inhabited

def TLS.step (t : TLS) : TAct → TLS
  | .newSystem sid aid => { handle := some aid, current := some sid }
  | .arbThread sid aid => { handle := some aid, current := some sid }
  | .dropRunner => t

def TLS.run (t : TLS) : List TAct → TLS
  | [] => t
  | a :: r => TLS.run (t.step a) r

/-! ### `SYSTEM_COUNT`: what `System::id()` is

`System::construct` takes the id with one atomic `SYSTEM_COUNT.fetch_add(1, SeqCst)` (T1 fact
`rtConstructSetsCurrent`); however many threads construct Systems at the same time, the `fetch_add`s are
linearised, so the ids handed out from a counter standing at `c` are: -/
def fetchAdds (c : Nat) : Nat → List Nat
  | 0 => []
  | n + 1 => c :: fetchAdds (c + 1) n

/-! ### T1: the source lines the transition rules above are written from

Regenerated from /repo on every check by tools/spans/rt.py (shape facts, not kernels).  Each fact
backs one rule of `step`; `Props/C09`, `Props/C10` prove the conjunctions true by `decide`, so an edit
of the decisive lines breaks a proof obligation. -/

/-- `ctrl` rule: `Exit` stops every registered arbiter and sends the code through `stop_tx.take()`;
`Register` inserts, `Deregister` removes; `newArb` = Register enqueued before `new` returns; `fin` =
Deregister enqueued after the loop; `sysSend` = `stop_with_code` sends `Exit(code)`; `runResult`. -/
def sourceShapeC09 : Bool :=
  Src.rtExitStopsAll && Src.rtExitSendsCodeOnce && Src.rtRegisterInserts && Src.rtDeregisterRemoves &&
  Src.rtCtrlLoopsUntilPending && Src.rtRunZeroIsOk && Src.rtRunUsesRunWithCode &&
  Src.rtRunWithCodeBlocksOnOneshot && Src.rtStopSendsExit && Src.rtThreadLocalsBeforeRegister &&
  Src.rtRegisterBeforeReady && Src.rtReadyBeforeRun && Src.rtDeregisterAfterRun && Src.rtNewWaitsForReady &&
  Src.rtRunnerStopEnds && Src.rtHandleStopSends && Src.rtJoinJoinsThread &&
  Src.rtSysArbRegisteredFirst && Src.rtDeregisterOwnId && Src.rtRegisterOwnId &&
  Src.rtRegisterOnlyInserts && Src.rtDeregisterOnlyRemoves

/-- `runner` rule: `Stop` ends the loop, `Execute` is `spawn_local`ed (started later, by `task`), a
closed channel ends it; `send` rule: `spawn`/`spawn_fn`/`stop` are one `tx.send(..).is_ok()` *and
nothing else* (`…OnlySends`: whoever sends — another thread or a task on the arbiter itself — the
command goes through the channel). -/
def sourceShapeC10 : Bool :=
  Src.rtRunnerLoopsUntilPending && Src.rtRunnerClosedEnds && Src.rtRunnerStopEnds &&
  Src.rtRunnerExecuteSpawnsLocal && Src.rtHandleSpawnSends && Src.rtHandleSpawnFnIsSpawn &&
  Src.rtHandleStopSends && Src.rtArbiterSpawnSends && Src.rtArbiterStopSends && Src.rtJoinJoinsThread &&
  Src.rtThreadLocalsBeforeRegister && Src.rtReadyBeforeRun && Src.rtDeregisterAfterRun &&
  Src.rtInNewSystemSetsHandle && Src.rtInNewSystemSpawnsRunner && Src.rtConstructSetsCurrent &&
  Src.rtSetCurrentOverwrites && Src.rtArbThreadSetsHandle && Src.rtCurrentReadsHandle &&
  Src.rtSysArbRegisteredFirst &&
  Src.rtHandleSpawnOnlySends && Src.rtHandleSpawnFnOnlySpawn && Src.rtHandleStopOnlySends &&
  Src.rtArbiterSpawnOnlySends && Src.rtArbiterSpawnFnOnlySpawn && Src.rtArbiterStopOnlySends &&
  Src.rtJoinOnlyJoins

end ActixNet.Rt
