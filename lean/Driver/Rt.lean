import Driver.Util
import ActixNet.Model.Rt
/-!
Engine `rt` (C09, C10): membership tie for `actix-rt` on real threads.

The harness (harness/src/bin/rt.rs) builds a scenario line by line, runs it against the real
`System`/`Arbiter` and rewrites `go …` into `observe … || <observed log>`.  For `observe`, this
driver builds a *witness schedule* from the scenario and the observed choice points (which code won
a race, which prefix of the tasks started, from which command on `spawn` reported false), **runs
the model `ActixNet.Rt.step` on it** and prints the normalised verdict computed from the model's
final state — iff that equals the verdict normalised from the observed log; otherwise
`not-a-model-behaviour: …`.  Since the C09/C10 theorems hold for every schedule of the model, a log
that violates a property can never be reproduced.

The scenario grammar and validity rules mirror `feed` in rt.rs exactly (`bad-op` on both sides).
-/
namespace Driver.Rt
open Driver ActixNet.Rt

inductive C10Cmd where
  | spawn (arb task : Nat)
  | stop (arb : Nat)
  | wait (task : Nat)
  deriving Repr, Inhabited

/-- one step of a piece of straight-line client code (c09): `stop_with_code c` / `Arbiter::new` (kind) -/
inductive BAct where
  | stop (c : Int)
  | new (kind : String)
  /-- `x`: stop the system arbiter (no command for the controller) -/
  | sysArbStop
  deriving Repr, Inhabited, BEq

structure Entry where
  origin : String
  actions : List BAct
  seq : Bool
  deriving Repr, Inhabited

def BAct.isStop : BAct → Bool
  | .stop _ => true
  | _ => false

def BAct.isNew : BAct → Bool
  | .new _ => true
  | _ => false

def Entry.news (e : Entry) : Nat := (e.actions.filter (·.isNew)).length
def Entry.hasStop (e : Entry) : Bool := e.actions.any (·.isStop)

structure State where
  proto : Nat := 0
  done : Bool := false
  kinds : List String := []
  /-- `stop` / `batch` lines: origin, actions issued back to back, seq -/
  entries : List Entry := []
  hasBatch : Bool := false
  /-- c09: the system arbiter hosts a feeding task (no effect on the message-level behaviours) -/
  sysfeed : Bool := false
  /-- c09: arbiters stopped and joined, in this order, once all of them exist -/
  retire : List Nat := []
  /-- c09: the system thread has that many always-runnable local tasks (no effect at message level) -/
  sysload : Bool := false
  /-- c09: the arbiter whose process-wide number equals the system id (ids are arbitrary in the model) -/
  align : Option Nat := none
  /-- c10: number of command targets (arbiters incl. the system arbiter) -/
  narb : Nat := 0
  /-- c10: the target that is the system arbiter -/
  sysIdx : Option Nat := none
  /-- c10: the thread hosted that many Systems before (kept alive?) -/
  host : Option (Nat × Bool) := none
  cmds : List C10Cmd := []
  nlines : Nat := 0
  ntask : Nat := 0
  taskArb : List Nat := []
  /-- per task: none = not a gate, some opened -/
  taskGate : List (Option Bool) := []
  /-- per task: a `wait` line for it exists -/
  taskWaited : List Bool := []
  /-- `late` lines: target, first of its two task numbers -/
  lates : List (Nat × Nat) := []
  /-- targets whose owner object went into a `selfjoin` task (they cannot be joined from outside) -/
  selfJoined : List Nat := []
  /-- `Arbiter::new` targets with a `blocking` task -/
  blocked : List Nat := []
  /-- `runner plain|block`: the System's runner is not run but dropped (without a stop) — which sends
      nothing to any arbiter, so the witness schedules are the same -/
  runnerMode : Bool := false
  dropsys : Bool := false
  /-- the `stopother` task (target, task number): it stops ANOTHER System, which is not part of this model -/
  stopother : Option (Nat × Nat) := none
  stopped : List Bool := []
  deriving Inhabited

def maxLines : Nat := 24
def maxTasks : Nat := 2400

def init : State := {}

/-! ### parsing (same grammar as rt.rs) -/

def nat? (s : String) : Option Nat :=
  if s.length = 0 ∨ s.length > 6 ∨ !s.all Char.isDigit then none else s.toNat?

/-- an `i32`: optional '-', 1..10 digits, value in range (exit codes: the whole range is in play) -/
def int? (s : String) : Option Int :=
  let mag (d : String) : Option Nat :=
    if d.length = 0 ∨ d.length > 10 ∨ !d.all Char.isDigit then none else d.toNat?
  let v : Option Int := match s.toList with
    | '-' :: r => (mag (String.ofList r)).map fun n => -(Int.ofNat n)
    | _ => (mag s).map Int.ofNat
  v.bind fun i => if -2147483648 ≤ i ∧ i ≤ 2147483647 then some i else none

def stripPre (p s : String) : Option String :=
  let pl := p.toList
  let sl := s.toList
  if sl.take pl.length == pl then some (String.ofList (sl.drop pl.length)) else none

def prefixedNat? (p s : String) : Option Nat := (stripPre p s).bind nat?

def kindOk (s : String) : Bool :=
  ["fn", "fut", "pend", "yield", "sleep", "panic", "fnpanic", "block", "gate", "selfjoin", "blocking", "pendown", "stopother"].contains s

def showInt (i : Int) : String := if i < 0 then "-" ++ toString i.natAbs else toString i.natAbs

/-- value of `key=` in a log -/
def field (ws : List String) (key : String) : Option String :=
  ws.findSome? fun w => stripPre (key ++ "=") w

def commaList (s : String) : List String := if s == "-" then [] else s.splitOn ","

/-! ### running the model -/

def rep (n : Nat) (a : Act) : List Act := List.replicate n a

/-- `send`, returning the value the call returns in the model -/
def doSend (s : ActixNet.Rt.State) (i : Nat) (c : Cmd) : ActixNet.Rt.State × Bool :=
  let s' := step s (.send i c)
  (s', s'.rets.getLast? == some true && s'.rets.length == s.rets.length + 1)

def countTrue (l : List Bool) : Nat := (l.filter id).length

/-! ### C09 -/

/-- an action in the system queue order: (entry, position in the entry, action, model id of the arbiter
a `new` creates) -/
abbrev QAct := Nat × Nat × BAct × Nat

def interleavings {α : Type} : List α → List α → List (List α)
  | [], ys => [ys]
  | xs, [] => [xs]
  | x :: xs, y :: ys =>
    (interleavings xs (y :: ys)).map (x :: ·) ++ (interleavings (x :: xs) ys).map (y :: ·)
termination_by xs ys => xs.length + ys.length

/-- the queue orders the director's protocol allows: a `seq` entry is issued after everything in front
of it has been acknowledged; the others race with everything since the last such barrier -/
def queueOrders (es : List (Bool × List QAct)) : List (List QAct) :=
  let cands := es.zipIdx.foldl (fun (cs : List (List QAct × List QAct)) (x : (Bool × List QAct) × Nat) =>
      let ((seq, acts), i) := x
      if i > 0 && seq then cs.map fun (f, o) => (f ++ o, acts)
      else cs.flatMap fun (f, o) => (interleavings o acts).map fun o' => (f, o')) [([], [])]
  cands.map fun (f, o) => f ++ o

/-- the per-kind set-up right after `Arbiter::new` (guard task; early stop; busy task) -/
def setUp (s : ActixNet.Rt.State) (i : Nat) (kind : String) (windDown : Bool) : ActixNet.Rt.State × List Bool :=
  let s := step s (.newArb i)
  let (s, _) := doSend s i (.exec (9000 + i))
  match kind with
  | "early" =>
    let (s, r) := doSend s i .stop
    -- the early arbiter may wind down and deregister before the Exit
    (if windDown then run s ([.runner i, .runner i, .close i, .fin i]) else s, [r])
  | "done" =>
    -- stopped and joined before anything else happens: wound down, `Deregister` queued
    let (s, r) := doSend s i .stop
    (run s [.runner i, .runner i, .close i, .fin i], [r])
  | "busy" =>
    let (s, _) := doSend s i (.exec (8000 + i))
    (run s [.runner i, .runner i, .task i, .task i], [])
  | _ => (s, [])

/-- witness schedule for a C09 scenario: the actions in the given queue order, after which the
controller handles `h` more commands and is dropped with the system's runtime.
Returns the state, the early-stop / post-spawn return values and, per arbiter created by a batch, whether
its loop ended without the harness's help. -/
def runC09 (kinds : List String) (origins : List String) (q : List QAct) (lateIds : List Nat) (variant h : Nat)
    (retire : List Nat := []) :
    ActixNet.Rt.State × List Bool × List Bool × List Bool :=
  let n := kinds.length
  let idx := List.range n
  let (s, early) := idx.foldl (fun (acc : ActixNet.Rt.State × List Bool) i =>
      let (s, r) := setUp acc.1 i (kinds.getD i "") (variant % 2 == 0)
      (s, acc.2 ++ r)) (ActixNet.Rt.init, [])
  -- `retire`: stopped and joined — wound down, `Deregister` queued — in this order, all arbiters existing
  let (s, early) := retire.foldl (fun (acc : ActixNet.Rt.State × List Bool) i =>
      let (s, r) := doSend acc.1 i .stop
      (run s (rep 8 (.runner i) ++ [.close i, .fin i]), acc.2 ++ [r])) (s, early)
  let s := run s (rep (2 * n + 3) .ctrl)
  -- the actions, in the chosen queue order; an entry issued from an arbiter's thread is a task there
  let (s, _) := q.foldl (fun (acc : ActixNet.Rt.State × List Nat) (x : QAct) =>
      let (s, begun) := acc
      let (e, _, a, id) := x
      let s := if begun.contains e then s else
        match prefixedNat? "arb:" (origins.getD e "") with
        | some k =>
          let (s, _) := doSend s k (.exec (7000 + e))
          run s (rep 4 (.runner k) ++ rep 4 (.task k))
        | none => s
      let s := match a with
        | .stop c => step s (.sysSend c)
        | .new kind => (setUp s id kind false).1
        | .sysArbStop => (doSend s sysArbId .stop).1
      (s, e :: begun)) (s, [])
  let s := run s (rep h .ctrl)
  -- arbiters created by the batch: drain; not ended = an orphan, which the harness stops itself
  let (s, alone) := lateIds.foldl (fun (acc : ActixNet.Rt.State × List Bool) i =>
      let s := run acc.1 (rep 8 (.runner i))
      let e := (s.arbs i).ended
      let s := if e then s else (doSend s i .stop).1
      (run s (rep 2 (.runner i) ++ [.close i, .fin i]), acc.2 ++ [e])) (s, [])
  -- every arbiter drains its channel, closes, deregisters
  let s := idx.foldl (fun (s : ActixNet.Rt.State) i => run s (rep 8 (.runner i) ++ [.close i, .fin i])) s
  let (s, post) := idx.foldl (fun (acc : ActixNet.Rt.State × List Bool) i =>
      let (s, r) := doSend acc.1 i (.exec (6000 + i))
      (s, acc.2 ++ [r])) (s, [])
  (s, early, post, alone)

def verdictC09 (kinds : List String) (modeRun : Bool) (s : ActixNet.Rt.State) (early post : List Bool)
    (letters : List String) : String :=
  let n := kinds.length
  let idx := List.range n
  let code := match runWithCode s with | some c => showInt c | none => "hang"
  let res := if !modeRun then "-" else match runResult s with
    | some .ok => "ok" | some (.err _) => "err" | none => "hang"
  let joinable := idx.filter fun i => kinds[i]? != some "dropped"
  let joined := joinable.filter fun i => joinReturns s i
  let ended := idx.filter fun i => (s.arbs i).ended
  let batch := if letters.isEmpty then "-" else ",".intercalate letters
  s!"code={code} res={res} joins={joined.length}/{joinable.length} ended={ended.length}/{n} early={countTrue early}/{early.length} post={countTrue post}/{n} batch={batch}"

/-- the harness's normalisation of an observed C09 log, and the per-batch-arbiter letters -/
def observedC09 (kinds : List String) (log : List String) : Option (String × List String) := do
  let code ← field log "code"
  let res ← field log "res"
  let joins := commaList (← field log "joins")
  let ended := commaList (← field log "ended")
  let early := commaList (← field log "early")
  let post := commaList (← field log "post")
  let batch ← field log "batch"
  let n := kinds.length
  let joinable := (joins.filter (· != "-")).length
  some (s!"code={code} res={res} joins={(joins.filter (· == "ok")).length}/{joinable} ended={(ended.filter (· == "1")).length}/{n} early={(early.filter (· == "1")).length}/{early.length} post={(post.filter (· == "1")).length}/{n} batch={batch}",
    commaList batch)

def observeC09 (st : State) (modeRun : Bool) (j : Nat) (log : List String) : String :=
  match observedC09 st.kinds log with
  | none => "not-a-model-behaviour: unreadable log"
  | some (obs, letters) =>
    let n := st.kinds.length
    let origins := st.entries.map (·.origin)
    -- did the entry that creates arbiters run at all?  (all of it or nothing: it is one poll)
    let nlate := (st.entries.map (·.news)).sum
    let absent := nlate > 0 && letters.all (· == "-")
    -- tag the actions; arbiters created by the batch get the ids n, n+1, …
    let tagged : List (Bool × List QAct) := st.entries.zipIdx.map fun (e, ei) =>
      let acts := if absent && e.news > 0 then [] else e.actions
      let (qs, _) := acts.zipIdx.foldl (fun (acc : List QAct × Nat) (x : BAct × Nat) =>
          match x.1 with
          | .new _ => (acc.1 ++ [(ei, x.2, x.1, acc.2)], acc.2 + 1)
          | _ => (acc.1 ++ [(ei, x.2, x.1, 0)], acc.2)) ([], n)
      (e.seq, qs)
    let lateIds := if absent then [] else (List.range nlate).map (· + n)
    let cands : List String := (queueOrders tagged).flatMap fun q0 =>
      -- (`x` puts nothing into the controller's queue: the halting points count its commands only)
      let q := q0.filter fun x => x.2.2.1 != BAct.sysArbStop
      -- the controller runs at least until it has handled the first Exit, and one poll handles
      -- everything that was queued by the thread it shares (system thread) before that poll
      let firstStop := (q.findIdx? fun x => x.2.2.1.isStop).getD q.length
      let batchEnd (ei : Nat) : Nat :=
        (q.zipIdx.foldl (fun (m : Nat) (x : QAct × Nat) => if x.1.1 == ei then x.2 + 1 else m) 0)
      let winner := (q[firstStop]?).map (·.1)
      let hmin := st.entries.zipIdx.foldl (fun (m : Nat) (x : Entry × Nat) =>
          let (e, ei) := x
          let sameThread := e.origin == "sys-pre" || (e.origin == "sys-task" && winner == some ei)
          if sameThread then max m (batchEnd ei) else m) (firstStop + 1)
      let hs := (List.range (q.length + 1)).filter (· ≥ min hmin q.length)
      hs.map fun h =>
        let (s, early, post, alone) := runC09 st.kinds origins q0 lateIds j h st.retire
        let ls := if absent then List.replicate nlate "-" else alone.map fun e => if e then "e" else "o"
        verdictC09 st.kinds modeRun s early post ls
    if cands.contains obs then obs
    else "not-a-model-behaviour: observed [" ++ obs ++ "] model allows [" ++ " | ".intercalate cands.eraseDups ++ "]"

/-! ### C10 -/

/-- number of commands runner must receive so that `k` executes have been received (never past a stop) -/
def recvCount : List Cmd → Nat → Nat
  | [], _ => 0
  | _, 0 => 0
  | .stop :: _, _ => 0
  | .exec _ :: r, k + 1 => 1 + recvCount r k

/-- arbiter `a` runs to its end: receives so that `k` tasks are spawned, starts them, drains, closes.
The system arbiter's futures may start after its loop has ended (they are the system thread's). -/
def block (s : ActixNet.Rt.State) (a k : Nat) : ActixNet.Rt.State :=
  let sent := (s.arbs a).sent
  if (s.arbs a).sys then
    run s (rep (sent.length + 1) (.runner a) ++ rep k (.task a) ++ [.close a])
  else
    let m := recvCount sent k
    run s (rep m (.runner a) ++ rep k (.task a) ++ rep (sent.length + 1) (.runner a) ++ [.close a])

/-- model id of command target `a` -/
def mid (sysIdx : Option Nat) (a : Nat) : Nat := if sysIdx == some a then sysArbId else a

def preCount (cmds : List C10Cmd) (a : Nat) : Nat :=
  let rec go : List C10Cmd → Nat → Nat
    | [], n => n
    | .spawn b _ :: r, n => if b = a then go r (n + 1) else go r n
    | .stop b :: r, n => if b = a then n else go r n
    | .wait _ :: r, n => go r n
  go cmds 0

structure W10 where
  s : ActixNet.Rt.State
  closed : List Nat := []
  rets : List Bool := []

def runC10 (narb : Nat) (sysIdx : Option Nat) (cmds : List C10Cmd) (obsRets : List Bool) (ks : List Nat) :
    ActixNet.Rt.State × List Bool × List Bool :=
  let idx := List.range narb
  let m := mid sysIdx
  -- `newArb` of the system arbiter's id is a no-op: it exists from `init` on
  let s0 := run (run ActixNet.Rt.init (idx.map fun a => .newArb (m a))) (rep (narb + 1) .ctrl)
  let closeIf (w : W10) (a : Nat) : W10 :=
    if w.closed.contains a then w else { w with s := block w.s (m a) (ks.getD a 0), closed := a :: w.closed }
  let (w, _) := cmds.foldl (fun (acc : W10 × List Bool) c =>
      let (w, obs) := acc
      match c with
      | .wait _ => (w, obs)
      | .spawn a t =>
        let w := if obs.head? == some false then closeIf w a else w
        let (s, r) := doSend w.s (m a) (.exec t)
        ({ w with s := s, rets := r :: w.rets }, obs.drop 1)
      | .stop a =>
        let w := if obs.head? == some false then closeIf w a else w
        let (s, r) := doSend w.s (m a) .stop
        ({ w with s := s, rets := r :: w.rets }, obs.drop 1)) (({ s := s0 } : W10), obsRets)
  let w := idx.foldl closeIf w
  let s := run w.s (idx.map (fun a => .fin (m a)) ++ rep narb .ctrl)
  let (s, post) := idx.foldl (fun (acc : ActixNet.Rt.State × List Bool) a =>
      let (s, r1) := doSend acc.1 (m a) (.exec 5000)
      let (s, r2) := doSend s (m a) .stop
      (s, acc.2 ++ [r1, r2])) (s, [])
  (s, w.rets.reverse, post)

def bits (l : List Bool) : String :=
  if l.isEmpty then "-" else String.ofList (l.map fun b => if b then '1' else '0')

def waitsOf (cmds : List C10Cmd) : List Nat :=
  cmds.filterMap fun c => match c with | .wait t => some t | _ => none

def nreal (st : State) : Nat := st.narb - (if st.sysIdx.isSome then 1 else 0)

def verdictC10 (st : State) (s : ActixNet.Rt.State) (rets post : List Bool) (tdObs : List String := []) : String :=
  let idx := List.range st.narb
  let m := mid st.sysIdx
  let per := idx.map fun a => s!"a{a}:started={((s.arbs (m a)).started).length}/{preCount st.cmds a}"
  let ws := waitsOf st.cmds
  let wok := ws.filter fun t => (s.arbs (m (st.taskArb.getD t 0))).started.contains t
  let joined := idx.filter fun a => joinReturns s (m a) && !st.selfJoined.contains a
  let sysgone := if st.sysIdx.isSome then (if (s.arbs sysArbId).gone then "1" else "0") else "-"
  " ".intercalate per ++
    s!" rets={bits rets} waits={wok.length}/{ws.length} joins={joined.length}/{nreal st - st.selfJoined.length} sysgone={sysgone} post={countTrue post}/{2 * st.narb} ids=ok once=ok late=0"
    ++ " owner=" ++ (if st.lates.isEmpty then "-" else ",".intercalate (st.lates.map fun (a, t) =>
      -- a future, a function and a stop through the owner object, after everything else
      let (s1, r1) := doSend s (m a) (.exec t)
      let (s2, r2) := doSend s1 (m a) (.exec (t + 1))
      let (_, r3) := doSend s2 (m a) .stop
      bits [r1, r2, r3]))
    -- `blocking` targets: sends made once the loop's futures have been dropped, while the thread winds down
    -- (`---`: the harness had nothing to tell that moment by — no `pend` future had started there)
    ++ " teardown=" ++ (
      let bl := idx.filter st.blocked.contains
      if bl.isEmpty then "-" else ",".intercalate (bl.zipIdx.map fun (a, k) =>
        if tdObs.getD k "" == "---" then "---" else
          let (s1, r1) := doSend s (m a) (.exec 5001)
          let (s2, r2) := doSend s1 (m a) .stop
          let (_, r3) := doSend s2 (m a) (.exec 5002)
          bits [r1, r2, r3]))
    -- the other System is stopped (its `run` returns the code) iff the `stopother` task started
    ++ " other=" ++ (match st.stopother with
      | none => "-"
      | some (a, t) => if (s.arbs (m a)).started.contains t then "77" else "idle")

/-- `a0:t3` -/
def parseStart (w : String) : Option (Nat × Nat) :=
  match w.splitOn ":" with
  | [a, t] => match prefixedNat? "a" a, prefixedNat? "t" t with
    | some a, some t => some (a, t)
    | _, _ => none
  | _ => none

def observedC10 (st : State) (log : List String) : Option (String × List Bool × List (Nat × Nat) × List String) := do
  let retsS ← field log "rets"
  let rets := if retsS == "-" then [] else retsS.toList.map (· == '1')
  let starts ← (commaList (← field log "starts")).mapM parseStart
  let waits := commaList (← field log "waits")
  let joins := commaList (← field log "joins")
  let sysgone ← field log "sysgone"
  let post := (commaList (← field log "post")).flatMap fun p => p.toList
  let ids ← field log "ids"
  let once ← field log "once"
  let late ← field log "late"
  let owner ← field log "owner"
  let teardown ← field log "teardown"
  let other ← field log "other"
  let idx := List.range st.narb
  let per := idx.map fun a => s!"a{a}:started={(starts.filter (·.1 == a)).length}/{preCount st.cmds a}"
  let wok := waits.filter fun w => (w.splitOn ":").getLast? == some "1"
  let v := " ".intercalate per ++
    s!" rets={bits rets} waits={wok.length}/{waits.length} joins={(joins.filter (· == "ok")).length}/{nreal st - st.selfJoined.length} sysgone={sysgone} post={(post.filter (· == '1')).length}/{2 * st.narb} ids={ids} once={if once == "1" then "ok" else "bad"} late={late} owner={owner} teardown={teardown} other={other}"
  some (v, rets, starts, commaList teardown)

def observeC10 (st : State) (log : List String) : String :=
  match observedC10 st log with
  | none => "not-a-model-behaviour: unreadable log"
  | some (obs, rets, starts, tdObs) =>
    let idx := List.range st.narb
    let ks := idx.map fun a => (starts.filter (·.1 == a)).length
    let (s, mrets, post) := runC10 st.narb st.sysIdx st.cmds rets ks
    let v := verdictC10 st s mrets post tdObs
    let sameOrder := idx.all fun a =>
      (s.arbs (mid st.sysIdx a)).started == (starts.filter (·.1 == a)).map (·.2)
    if v == obs && sameOrder then v
    else if v == obs then
      "not-a-model-behaviour: start order " ++ ",".intercalate (starts.map fun (a, t) => s!"a{a}:t{t}") ++
        " but the model starts " ++ " ".intercalate (idx.map fun a => s!"a{a}:{(s.arbs (mid st.sysIdx a)).started}")
    else "not-a-model-behaviour: observed [" ++ obs ++ "] model allows [" ++ v ++ "]"

def identC10 (narb : Nat) (host : Option (Nat × Bool)) : String :=
  let idx := List.range narb
  let s := run ActixNet.Rt.init (idx.map .newArb)
  -- thread-locals: the system's thread after the Systems it hosted before (system ids 100.., their
  -- system arbiters 200..) and this one (id 0, arbiter `sysArbId`); arbiter `a`'s own thread
  let hist : List TAct := match host with
    | none => []
    | some (n, keep) => (List.range n).flatMap fun i =>
        [TAct.newSystem (100 + i) (200 + i)] ++ (if keep then [] else [TAct.dropRunner])
  let sysTls := TLS.run {} (hist ++ [.newSystem 0 sysArbId])
  let current (a : Nat) : Option Nat × Option Nat :=
    if a == sysArbId then (sysTls.handle, sysTls.current)
    else let t := TLS.run {} [.arbThread 0 a]; (t.handle, t.current)
  -- parent task on each arbiter and on the system arbiter; the child is sent through
  -- `Arbiter::current()`, i.e. to the arbiter the thread-local of the parent's thread names
  let s := (idx ++ [sysArbId]).foldl (fun s a =>
    let s := run s [.send a (.exec 0), .runner a, .task a]
    match (current a).1 with
    | some c => run s [.send c (.exec 1), .runner c, .task c]
    | none => s) s
  let ok := (idx ++ [sysArbId]).all fun a => (s.arbs a).started == [0, 1] && (current a).2 == some 0
  let s := idx.foldl (fun s a => run s [.send a .stop, .runner a, .close a, .fin a]) s
  let joined := idx.filter fun a => joinReturns s a
  let hostS := match host with
    | none => "0"
    | some (n, keep) => s!"{n}{if keep then "k" else "d"}"
  s!"ident={if ok then "ok" else "bad"} n={narb} host={hostS} joins={joined.length}/{narb}"

/-! ### the line protocol -/

def splitObserve (ws : List String) : List String × List String :=
  let head := ws.takeWhile (· != "||")
  (head, (ws.drop (head.length + 1)))

/-- where an entry is issued from (`foreign`: stops only) -/
def originOk (st : State) (o : String) (foreignOk : Bool) : Bool :=
  -- (`osys` / `oarb`: a task on an arbiter of another System — for this system a thread that is not its own)
  o == "sys-pre" || o == "sys-task" || (foreignOk && (o == "foreign" || o == "osys" || o == "oarb")) ||
    (match prefixedNat? "arb:" o with
     | some k => k < st.kinds.length && st.kinds[k]? != some "early" && st.kinds[k]? != some "done"
         && !((st.kinds.getD k "").startsWith "backlog") && !st.retire.contains k
     | none => false)

/-- at most three entries; an entry on the system thread in front of `run` cannot be made to wait for the
acknowledgement of one that needs the system to be running -/
def entryOk (st : State) (o : String) (seq : Bool) : Bool :=
  let i := st.entries.length
  if i ≥ 3 then false else
  let k := if i > 0 && seq then i
    else ((List.range i).reverse.find? fun j => j ≥ 1 && (st.entries.getD j default).seq).getD 0
  !(o == "sys-pre" && (st.entries.take k).any (·.origin == "sys-task"))

/-- `own` | `h1` | `h2` | `t<g>` | `c<g>` (sent by gate task `g`: waited for, still closed; `c` = through
`Arbiter::current()`, so only to the gate task's own arbiter) -/
def viaOkAt (st : State) (target : Nat) (s : String) : Bool :=
  if s == "own" || s == "h1" || s == "h2" then true else
  let chk (g : Nat) (cur : Bool) : Bool :=
    g < st.ntask && st.taskGate.getD g none == some false && st.taskWaited.getD g false &&
      (!cur || st.taskArb.getD g 0 == target)
  match prefixedNat? "t" s, prefixedNat? "c" s with
  | some g, _ => chk g false
  | _, some g => chk g true
  | _, _ => false

def step (st : State) (line : String) : State × String :=
  let ws := words line
  match ws with
  | "case" :: rest =>
    let proto := if rest[1]? == some "c09" then 9 else if rest[1]? == some "c10" then 10 else 0
    ({ proto := proto }, "ok")
  | _ =>
  if st.done then (st, "bad-op") else
  -- `go …` (no log available: nothing to check) is answered like the harness would only by accident;
  -- the orchestrator always sends the rewritten `observe … || log` line
  let (ws, log) := match ws with
    | "observe" :: r => let (h, l) := splitObserve r; ("go" :: h, l)
    | _ => (ws, [])
  match st.proto, ws with
  | 9, ["arb", k] =>
    -- `backlog:N`: N commands queued behind the held task
    let backlogN := match (stripPre "backlog:" k).bind nat? with | some q => 1 ≤ q && q ≤ 1600 | none => false
    if (["early", "dropped", "running", "busy", "done", "feeding", "backlog"].contains k || backlogN) && st.kinds.length < 6
        && st.entries.isEmpty && st.align.isNone && st.retire.isEmpty then
      ({ st with kinds := st.kinds ++ [k] }, s!"ok a{st.kinds.length}")
    else (st, "bad-op")
  | 9, "retire" :: rest =>
    match rest.mapM nat? with
    | some ks =>
      let live (k : Nat) : Bool := k < st.kinds.length &&
        (st.kinds[k]? == some "running" || st.kinds[k]? == some "busy" || st.kinds[k]? == some "feeding")
      if ks.isEmpty || !st.retire.isEmpty || !st.entries.isEmpty || !ks.all live || ks.eraseDups.length != ks.length then
        (st, "bad-op")
      else ({ st with retire := ks }, "ok")
    | none => (st, "bad-op")
  | 9, ["sysload", q] =>
    match nat? q with
    | some q => if q ≤ 2000 && !st.sysload && st.entries.isEmpty then ({ st with sysload := true }, "ok") else (st, "bad-op")
    | none => (st, "bad-op")
  | 9, ["sysfeed"] =>
    if st.sysfeed || !st.entries.isEmpty then (st, "bad-op") else ({ st with sysfeed := true }, "ok")
  | 9, ["align", k] =>
    match nat? k with
    | some k =>
      if k < st.kinds.length && st.entries.isEmpty && st.align.isNone then ({ st with align := some k }, "ok")
      else (st, "bad-op")
    | none => (st, "bad-op")
  | 9, "stop" :: o :: c :: rest =>
    let seq? : Option Bool := match rest with
      | [] => some true | ["seq"] => some true | ["race"] => some false | _ => none
    match originOk st o true, int? c, seq? with
    | true, some code, some seq =>
      if !entryOk st o seq then (st, "bad-op")
      else ({ st with entries := st.entries ++ [{ origin := o, actions := [.stop code], seq := seq }] }, "ok")
    | _, _, _ => (st, "bad-op")
  | 9, "batch" :: o :: rest =>
    let (items, seq) := match rest.getLast? with
      | some "seq" => (rest.dropLast, true)
      | some "race" => (rest.dropLast, false)
      | _ => (rest, true)
    let acts? : Option (List BAct) := items.mapM fun it =>
      match it with
      | "nr" => some (.new "running") | "nb" => some (.new "busy") | "nf" => some (.new "feeding") | "nk" => some (.new "backlog")
      | "nd" => some (.new "dropped") | "ne" => some (.new "early")
      | "x" => some .sysArbStop
      | _ => match (stripPre "nk:" it).bind nat? with
        | some q => if 1 ≤ q && q ≤ 1600 then some (.new "backlog") else none
        | none => ((stripPre "s" it).bind int?).map .stop
    match originOk st o true, acts? with
    | true, some acts =>
      let e : Entry := { origin := o, actions := acts, seq := seq }
      if items.isEmpty || items.length > 5 || st.hasBatch || e.news > 2
          || (e.news > 0 && (st.align.isSome || o == "foreign" || o == "osys" || o == "oarb")) || !entryOk st o seq then (st, "bad-op")
      else
        let ids := String.join ((List.range e.news).map fun i => s!" a{st.kinds.length + i}")
        ({ st with entries := st.entries ++ [e], hasBatch := true }, "ok" ++ ids)
    | _, _ => (st, "bad-op")
  | 9, ["go", m, j] =>
    -- `block`: the system is driven by `block_on` (which polls the controller like `run` does: it was spawned
    -- on the system's LocalSet at construction) and `run_with_code` is called afterwards — the same
    -- behaviours as `code`; no arbiters created by a batch in this mode
    match (m == "run" || m == "code" || (m == "block" && st.entries.all (·.news == 0))), prefixedNat? "j=" j with
    | true, some j =>
      if !st.entries.any (·.hasStop) then (st, "bad-op")
      else ({ st with done := true }, observeC09 st (m == "run") j log)
    | _, _ => (st, "bad-op")
  | 10, ["runner", m] =>
    -- (`stopped`: `System::stop()` handled first, the arbiters created afterwards — registered behind the last
    -- Exit, so no Stop is ever sent to them: the same schedules)
    if !(m == "plain" || m == "block" || m == "stopped") || st.runnerMode || st.host.isSome || st.narb > 0 || st.nlines > 0 then
      (st, "bad-op")
    else ({ st with runnerMode := true }, "ok")
  | 10, ["dropsys"] =>
    if !st.runnerMode || st.dropsys || st.narb == 0 || st.nlines ≥ maxLines then (st, "bad-op")
    else ({ st with dropsys := true, nlines := st.nlines + 1 }, "ok")
  | 10, ["host", n, mode] =>
    match nat? n, (mode == "kept" || mode == "dropped") with
    | some n, true =>
      if 1 ≤ n && n ≤ 3 && st.host.isNone && st.narb == 0 && st.nlines == 0 && !st.runnerMode then
        ({ st with host := some (n, mode == "kept") }, "ok")
      else (st, "bad-op")
    | _, _ => (st, "bad-op")
  | 10, ["arb"] =>
    if nreal st ≥ 2 || st.nlines > 0 then (st, "bad-op")
    else ({ st with narb := st.narb + 1, stopped := st.stopped ++ [false] }, s!"ok a{st.narb}")
  | 10, ["sysarb"] =>
    if st.sysIdx.isSome || st.nlines > 0 || st.runnerMode then (st, "bad-op")
    else ({ st with narb := st.narb + 1, sysIdx := some st.narb, stopped := st.stopped ++ [false] }, s!"ok a{st.narb}")
  | 10, ["spawn", a, via, kind] =>
    match nat? a, kindOk kind with
    | some a, true =>
      let sj := kind == "selfjoin"
      if a ≥ st.narb || st.nlines ≥ maxLines || st.ntask ≥ maxTasks || !viaOkAt st a via then (st, "bad-op")
      else if sj && (st.sysIdx == some a || st.selfJoined.contains a || st.lates.any (·.1 == a)) then (st, "bad-op")
      else if kind == "blocking" && st.sysIdx == some a then (st, "bad-op")
      else if kind == "stopother" && st.stopother.isSome then (st, "bad-op")
      else ({ st with stopother := if kind == "stopother" then some (a, st.ntask) else st.stopother,
                      blocked := if kind == "blocking" && !st.blocked.contains a then st.blocked ++ [a] else st.blocked,
                      selfJoined := if sj then st.selfJoined ++ [a] else st.selfJoined, cmds := st.cmds ++ [.spawn a st.ntask], ntask := st.ntask + 1, nlines := st.nlines + 1,
                      taskArb := st.taskArb ++ [a],
                      taskGate := st.taskGate ++ [if kind == "gate" then some false else none],
                      taskWaited := st.taskWaited ++ [false] }, s!"ok t{st.ntask}")
    | _, _ => (st, "bad-op")
  | 10, ["spawnn", a, via, kind, n] =>
    match nat? a, kindOk kind, nat? n with
    | some a, true, some n =>
      if a ≥ st.narb || st.nlines ≥ maxLines || n < 2 || n > 1600 || st.ntask + n > maxTasks || kind == "gate"
          || kind == "selfjoin" || kind == "blocking" || kind == "pendown" || kind == "stopother" || !viaOkAt st a via then
        (st, "bad-op")
      else
        let ts := (List.range n).map (· + st.ntask)
        ({ st with cmds := st.cmds ++ ts.map (fun t => .spawn a t), ntask := st.ntask + n, nlines := st.nlines + 1,
                   taskArb := st.taskArb ++ List.replicate n a,
                   taskGate := st.taskGate ++ List.replicate n none,
                   taskWaited := st.taskWaited ++ List.replicate n false }, s!"ok t{st.ntask}..t{st.ntask + n - 1}")
    | _, _, _ => (st, "bad-op")
  | 10, ["stop", a, via] =>
    match nat? a with
    | some a =>
      if a ≥ st.narb || st.nlines ≥ maxLines || !viaOkAt st a via then (st, "bad-op")
      else ({ st with cmds := st.cmds ++ [.stop a], nlines := st.nlines + 1, stopped := st.stopped.set a true }, "ok")
    | none => (st, "bad-op")
  | 10, ["wait", t] =>
    match prefixedNat? "t" t with
    | some t =>
      let arb := st.taskArb.getD t 0
      -- a closed gate sent earlier to the same target holds everything behind it
      let held := (List.range t).any fun g => st.taskArb.getD g 0 == arb && st.taskGate.getD g none == some false
      let isLate := st.lates.any fun l => t == l.2 || t == l.2 + 1
      if t ≥ st.ntask || st.stopped.getD arb true || st.nlines ≥ maxLines || held || isLate then (st, "bad-op")
      else ({ st with cmds := st.cmds ++ [.wait t], nlines := st.nlines + 1,
                      taskWaited := st.taskWaited.set t true }, "ok")
    | none => (st, "bad-op")
  | 10, ["open", t] =>
    match prefixedNat? "t" t with
    | some t =>
      if t ≥ st.ntask || st.taskGate.getD t none != some false || st.nlines ≥ maxLines then (st, "bad-op")
      else ({ st with nlines := st.nlines + 1, taskGate := st.taskGate.set t (some true) }, "ok")
    | none => (st, "bad-op")
  | 10, ["late", a, w] =>
    match nat? a, (w == "dir" || w == "sys") with
    | some a, true =>
      if a ≥ st.narb || st.sysIdx == some a || st.nlines ≥ maxLines || st.ntask + 2 > maxTasks
          || st.lates.any (·.1 == a) || (w == "sys" && (st.sysIdx.isSome || st.runnerMode)) || st.selfJoined.contains a then (st, "bad-op")
      else ({ st with nlines := st.nlines + 1, lates := st.lates ++ [(a, st.ntask)], ntask := st.ntask + 2,
                      taskArb := st.taskArb ++ [a, a], taskGate := st.taskGate ++ [none, none],
                      taskWaited := st.taskWaited ++ [false, false] }, s!"ok t{st.ntask} t{st.ntask + 1}")
    | _, _ => (st, "bad-op")
  | 10, ["go", j] =>
    match prefixedNat? "j=" j with
    | some _ =>
      if st.narb == 0 || st.stopped.any (!·) then (st, "bad-op")
      else ({ st with done := true }, observeC10 st log)
    | none => (st, "bad-op")
  | 10, ["ident"] =>
    if st.sysIdx.isSome || st.nlines > 0 || st.runnerMode then (st, "bad-op")
    else ({ st with done := true }, identC10 st.narb st.host)
  | 10, ["sysarbgone", a, v] =>
    if !(a == "aligned" || a == "plain") || !(v == "early" || v == "alive") then (st, "bad-op")
    else
      -- the model: one worker (whatever its number); `early`: it stops, winds down, deregisters; the Exit is
      -- handled: the system arbiter — registered under its own key — gets a Stop, its loop ends, it is gone
      let s := run ActixNet.Rt.init ([.newArb 0] ++ rep 2 .ctrl)
      let s := if v == "early" then run s ([.send 0 .stop, .runner 0, .close 0, .fin 0, .ctrl]) else s
      let s := run s ([.sysSend 0] ++ rep 3 .ctrl ++ [.runner sysArbId, .close sysArbId] ++
        rep 2 (.runner 0) ++ [.close 0, .fin 0])
      let (_, r) := doSend s sysArbId (.exec 1)
      (st, s!"sysarbgone={if !r && (s.arbs sysArbId).gone then 1 else 0} worker={if joinReturns s 0 then "joined" else "running"}")
  | 10, ["syslive", r] =>
    match nat? r with
    | some r =>
      if r < 1 || r > 200 then (st, "bad-op")
      else
        -- three constructions per round; a System whose `run` has returned gives nothing back to the counter
        let ids := fetchAdds 0 (3 * r)
        (st, s!"syslive={if ids.eraseDups.length == ids.length then "distinct" else "bad"} rounds={r}")
    | none => (st, "bad-op")
  | 10, ["sysids", t, r] =>
    match nat? t, nat? r with
    | some t, some r =>
      if t < 2 || t > 8 || r < 1 || r > 1000 then (st, "bad-op")
      else
        -- the ids the constructions get from the (linearised) counter
        let ids := fetchAdds 0 (t * r)
        (st, s!"sysids={if ids.eraseDups.length == ids.length then "distinct" else "bad"} threads={t} rounds={r}")
    | _, _ => (st, "bad-op")
  | 10, ["blockon", v, p, x] =>
    match nat? p, int? x with
    | some p, some x =>
      if !(v == "rt" || v == "sys" || v == "spawn") || p > 1000 then (st, "bad-op")
      else
        -- `spawn`: the outer future additionally waits for the JoinHandle of the spawned one
        let f : Fut Int := { pend := if v == "spawn" then p + 1 else p, out := x }
        (st, match blockOn f with | some o => s!"out={showInt o}" | none => "hang")
    | _, _ => (st, "bad-op")
  | _, _ => (st, "bad-op")

end Driver.Rt
