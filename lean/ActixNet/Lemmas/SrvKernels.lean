import ActixNet.Generated.Src
/-!
Semantic characterisations of the **generated** actix-server kernels (T1).  Everything proved about
the `Srv` model goes through these lemmas, so a changed comparison in worker.rs / accept.rs changes
the generated definition and makes the corresponding lemma (and every theorem above it) fail.
Proved with `simp`/`omega` from the meaning of the expression, not by syntactic equality.
-/
namespace ActixNet.SrvKernels
open ActixNet

/-- the counter starts at 1 (it is biased by one) -/
theorem wcInit_eq : Src.wcInit = 1 := by unfold Src.wcInit; omega

/-- `inc()` reports "still available" unless the old raw value equals the limit, i.e. unless the
worker now has `limit` connections in progress -/
theorem incStill_iff (old L : Nat) : Src.wcIncStill old L = true ↔ old ≠ L := by
  unfold Src.wcIncStill; simp only [decide_eq_true_eq, bne_iff_ne, ne_eq, decide_not, Bool.not_eq_true', decide_eq_false_iff_not] <;> omega

/-- `dec()` reports "crossed the limit" exactly for the release that takes a saturated worker
(raw value `L + 1`, i.e. `L` connections in progress) below the limit -/
theorem decCrossed_iff (old L : Nat) (h : 1 ≤ old) : Src.wcDecCrossed old L = true ↔ old = L + 1 := by
  unfold Src.wcDecCrossed; simp only [decide_eq_true_eq, beq_iff_eq] <;> omega

theorem wcTotal_eq (raw : Nat) : Src.wcTotal raw = raw - 1 := by unfold Src.wcTotal; omega

end ActixNet.SrvKernels
