import ActixNet.Generated.Src
/-!
# Model: `ServerWorker::poll` (actix-server/src/worker.rs)

One call of `<ServerWorker as Future>::poll` is the big-step function `pollW`: the `Stop` handler at
the top (`stopPhase`), then the arm of `WorkerState`: `Unavailable` (one `check_readiness` sweep),
`Restarting` (poll the factory future), `Shutdown` (drain + release the queued connections, wait for
the tick, reply) and `Available` (the `loop { check_readiness; recv; call }`, `availLoop`).
The self-recursion `self.poll(cx)` takes fuel; running out of it is the sticky fault `.fuel`
(`Lemmas/Worker.lean` proves it unreachable when the fuel covers the scripts).

* Services are scripted: `poll_ready` of service `i` answers the next element of its readiness
  script (arbitrary list over `Pending | Ready | Err`; `Ready` for ever once the script is used up).
  A factory future is `Pending^k` then `Ok`/`Err`; the incarnations a factory will produce are listed
  in `Svc.future`.
* Every Rust panic that matters is a sticky `fault`: the factory future resolving to `Err`
  (`unwrap_or_else(panic!)`), `services[msg.token]` out of bounds, and the arithmetic underflow of
  `Counter::total()` / `Counter::dec()` when the shared counter is read at raw value 0 (only possible
  inside window W1, between `send` and `inc_counter` of the accept thread).
* Time is virtual (`now`, ms). The timings and comparisons of the shutdown arm are the T1 kernels
  `Src.wkTickFirstMs`, `Src.wkTickNextMs`, `Src.wkTimedOut`, `Src.wcTotal`, `Src.wcInit`.
* Everything the worker does is appended to `log`.
-/
namespace ActixNet.Worker
open ActixNet

/-- a connection: (id, listener token) -/
abbrev Conn := Nat × Nat

/-- result of `Service::poll_ready` -/
inductive Rd where | pending | ready | err
deriving DecidableEq, Repr

/-- `WorkerServiceStatus` -/
inductive Status where | available | unavailable | failed | restarting | stopping | stopped
deriving DecidableEq, Repr

/-- an incarnation a factory will produce: the factory future answers `Pending` `fpend` times, then
`Ok(service with readiness script `script`)` if `fok`, else `Err` -/
structure Inc where
  fpend : Nat := 0
  fok : Bool := true
  script : List Rd := []
deriving DecidableEq, Repr

structure Svc where
  status : Status := .unavailable
  script : List Rd := []      -- what `poll_ready` of the current incarnation will still answer
  inc : Nat := 0              -- incarnation number of the service object in `services[i]`
  future : List Inc := []     -- incarnations `factories[i].create()` will produce, in order
deriving Repr

inductive Fault where
  | fuel            -- the self-recursion of `poll` did not terminate within the fuel
  | factoryErr      -- `panic!("Can not restart {:?} service")`
  | badToken        -- `this.services[msg.token]` out of bounds
  | underflow       -- `Counter::total()` / `dec()` computed `0 - 1` (window W1)
deriving DecidableEq, Repr

/-- result of polling a factory future -/
inductive FacRes where | pending | ok | err
deriving DecidableEq, Repr

inductive Ev where
  | enter                                   -- a call of `ServerWorker::poll` starts
  | pollReady (i inc : Nat) (r : Rd)        -- `services[i].service.poll_ready` of incarnation `inc` answered `r`
  | call (tok inc : Nat) (c : Conn)         -- `services[tok].service.call((guard, io))`
  | createService (i : Nat)                 -- `factories[i].create()`
  | facPoll (i : Nat) (r : FacRes)          -- the factory future was polled
  | released (c : Conn)                     -- Shutdown arm: connection taken from the channel and dropped with a guard
  | dropped (c : Conn)                      -- still in the channel when the worker future ended
  | reply (k : Nat) (b : Bool)              -- `tx.send(b)` on the reply channel of stop number `k`
  | replyGone (k : Nat)                     -- the reply sender of stop `k` was dropped without a value
  | armTimer (t : Nat)                      -- the shutdown tick timer was set to fire at `t`
  | done                                    -- `Poll::Ready(())`
deriving DecidableEq, Repr

inductive WState where
  | available
  | unavailable
  | restarting (tok fpend : Nat) (fok : Bool) (script : List Rd)
  | shutdown (timerAt startFrom tx : Nat)
deriving DecidableEq, Repr

structure St where
  n : Nat                           -- number of services
  svc : Nat → Svc
  timeout : Nat                     -- `shutdown_timeout` (ms)
  state : WState := .unavailable
  queue : List Conn := []           -- `conn_rx`: sent, not yet received
  chanOpen : Bool := true           -- an accept-side sender of `conn_rx` exists
  stopQ : List (Nat × Bool) := []   -- `stop_rx`: (stop number, graceful)
  stopOpen : Bool := true           -- a server-side sender of `stop_rx` exists
  raw : Nat := Src.wcInit           -- raw value of the shared counter
  now : Nat := 0
  inflight : List Conn := []        -- handed to a service, guard alive
  sent : List Conn := []            -- ghost: every connection ever put into the channel, in order
  nextConn : Nat := 0
  nextStop : Nat := 0
  finished : Bool := false          -- the worker future returned `Ready` (and was dropped)
  stopWaker : Bool := false         -- the task waker is registered in `stop_rx`
  connWaker : Bool := false         -- the task waker is registered in `conn_rx`
  log : List Ev := []
  fault : Option Fault := none

def upd {α : Type} (f : Nat → α) (i : Nat) (v : α) : Nat → α := fun j => if j = i then v else f j

def emit (s : St) (es : List Ev) : St := { s with log := s.log ++ es }

def setFault (s : St) (f : Fault) : St := { s with fault := some f }

/-- the next answer of `poll_ready` and the rest of the script -/
def nextRd : List Rd → Rd × List Rd
  | [] => (.ready, [])
  | r :: t => (r, t)

def Status.polled (st : Status) : Bool := st == .available || st == .unavailable

/-- result of `check_readiness` -/
inductive Sweep where
  | ok (ready : Bool)
  | err (i : Nat)
deriving DecidableEq, Repr

def statusOf : Rd → Status
  | .ready => .available
  | .pending => .unavailable
  | .err => .failed

/-- the answer `poll_ready` of service `i` gives next -/
def rdOf (s : St) (i : Nat) : Rd := (nextRd (s.svc i).script).1

/-- one `srv.service.poll_ready(cx)` with the status update of `check_readiness` -/
def readyStep (s : St) (i : Nat) : St :=
  { s with svc := upd s.svc i { (s.svc i) with script := (nextRd (s.svc i).script).2, status := statusOf (rdOf s i) }, log := s.log ++ [.pollReady i (s.svc i).inc (rdOf s i)] }

/-- `check_readiness` from service `i` on, `k` services to go (worker.rs:514-554) -/
def sweepFrom (s : St) (i : Nat) (ready : Bool) : Nat → St × Sweep
  | 0 => (s, .ok ready)
  | k + 1 =>
    if (s.svc i).status.polled then
      match rdOf s i with
      | .ready => sweepFrom (readyStep s i) (i + 1) ready k
      | .pending => sweepFrom (readyStep s i) (i + 1) false k
      | .err => (readyStep s i, .err i)
    else sweepFrom s (i + 1) ready k

def sweep (s : St) : St × Sweep := sweepFrom s 0 true s.n

/-- `restart_service(idx, factory_id)`: `factory.create()`; the next incarnation of `future` (a
factory whose list is used up produces an always-ready service at once) -/
def restartService (s : St) (i : Nat) : St :=
  let sv := s.svc i
  let nx := sv.future.headD {}
  let s1 := emit s [.createService i]
  { s1 with svc := upd s.svc i { sv with status := .restarting, future := sv.future.tail }, state := .restarting i nx.fpend nx.fok nx.script }

/-- `ServerWorker::shutdown(force)` -/
def markStopped (force : Bool) (sv : Svc) : Svc :=
  if sv.status = .available then { sv with status := if force then .stopped else .stopping } else sv

def shutdownSvcs (s : St) (force : Bool) : St := { s with svc := fun i => markStopped force (s.svc i) }

def goneEvs : List (Nat × Bool) → List Ev
  | [] => []
  | (k, _) :: t => .replyGone k :: goneEvs t

def stateTx : WState → List Ev
  | .shutdown _ _ tx => [.replyGone tx]
  | _ => []

/-- the future returned `Ready(())` and is dropped: the reply senders it still holds (the one of the
`Shutdown` state, unless `replied`, and those of unreceived `Stop` messages) and the connections
still in the channel are dropped -/
def finish (s : St) (replied : Bool) : St :=
  let gone := (if replied then [] else stateTx s.state) ++ goneEvs s.stopQ
  let s1 := emit s ([.done] ++ gone ++ s.queue.map .dropped)
  { s1 with finished := true, queue := [], stopQ := [] }

/-- the `Stop` handler at the top of `poll` (worker.rs:601-623); `true` = `poll` returns here -/
def stopPhase (s : St) : St × Bool :=
  match s.stopQ with
  | [] => ({ s with stopWaker := true }, false)
  | (k, graceful) :: rest =>
    let s0 := { s with stopQ := rest }
    if s0.raw = 0 then (setFault (emit s0 [.replyGone k]) .underflow, true)   -- the unwinding drops `tx`
    else if Src.wcTotal s0.raw = 0 then (finish (emit s0 [.reply k true]) false, true)
    else if graceful then
      let s1 := shutdownSvcs s0 false
      let t := s1.now + Src.wkTickFirstMs
      ({ (emit s1 (stateTx s1.state ++ [.armTimer t])) with state := .shutdown t s1.now k }, false)
    else (finish (emit (shutdownSvcs s0 true) [.reply k false]) false, true)

/-- what the `Available` loop ended with -/
inductive LoopRes where
  | pending          -- `conn_rx` is empty: `Poll::Pending`
  | closed           -- `conn_rx` is closed and empty: `Poll::Ready(())`
  | toUnavailable    -- some service is not ready
  | restart (i : Nat)
  | fault
deriving DecidableEq, Repr

/-- the loop of the `Available` arm over the channel contents `q` (worker.rs:698-723) -/
def availLoop (s : St) : List Conn → St × LoopRes
  | [] =>
    match sweep s with
    | (s1, .err i) => ({ s1 with queue := [] }, .restart i)
    | (s1, .ok false) => ({ s1 with queue := [] }, .toUnavailable)
    | (s1, .ok true) =>
      if s1.chanOpen then ({ s1 with queue := [], connWaker := true }, .pending) else ({ s1 with queue := [] }, .closed)
  | c :: q =>
    match sweep s with
    | (s1, .err i) => ({ s1 with queue := c :: q }, .restart i)
    | (s1, .ok false) => ({ s1 with queue := c :: q }, .toUnavailable)
    | (s1, .ok true) =>
      if c.2 < s1.n then
        availLoop { (emit s1 [.call c.2 (s1.svc c.2).inc c]) with inflight := s1.inflight ++ [c], queue := q } q
      else (setFault { s1 with queue := c :: q } .badToken, .fault)

/-- dropping `(conn, guard)`: `Counter::dec` (`fetch_sub(1) - 1 == limit` underflows at raw 0) -/
def release (s : St) : List Conn → St
  | [] => { s with queue := [] }
  | c :: q =>
    if s.raw = 0 then setFault { s with queue := c :: q } .underflow
    else release { (emit s [.released c]) with raw := s.raw - 1 } q

/-- the `while let Poll::Ready(Some(conn)) = conn_rx.poll_recv(cx)` loop of the `Shutdown` arm: every
queued connection is released; an open, empty channel registers the task waker -/
def drained (s : St) : St :=
  if (release s s.queue).chanOpen then { (release s s.queue) with connWaker := true } else release s s.queue

/-- the `Shutdown` arm (worker.rs:663-695) -/
def shutdownArm (s : St) (timerAt startFrom tx : Nat) : St :=
  if (release s s.queue).fault.isSome then release s s.queue
  else if (drained s).now < timerAt then drained s
  else if (drained s).raw = 0 then setFault (drained s) .underflow
  else if Src.wcTotal (drained s).raw = 0 then finish (emit (drained s) [.reply tx true]) true
  else if Src.wkTimedOut ((drained s).now - startFrom) (drained s).timeout then finish (emit (drained s) [.reply tx false]) true
  else { (emit (drained s) [.armTimer ((drained s).now + Src.wkTickNextMs)]) with state := .shutdown ((drained s).now + Src.wkTickNextMs) startFrom tx }

/-- `Restarting` arm, factory future resolved `Ok((token, service))` (`token == token_new` holds by
construction: factory `i` builds services for token `i`): `services[token].created(service)` -/
def created (s : St) (tok : Nat) (script : List Rd) : St :=
  let sv := s.svc tok
  { s with svc := upd s.svc tok { sv with status := .unavailable, script := script, inc := sv.inc + 1 }, state := .unavailable }

/-- the `None` arm of the `Available` loop: the accept thread is gone (it drops its handles when it stops).
**Behaviour demanded by C06** (finding F8; `fixes/C06-worker-waits-for-stop-after-accept-exit.patch`): that is
not by itself a command to stop — the `Stop` channel is looked at again: a `Stop` is handled exactly as at the
top of `poll` (and, if the worker goes on, `self.poll(cx)`), an empty open channel makes the worker wait,
a closed one (the server is gone as well) ends it.  The original tree returned `Poll::Ready(())` here
unconditionally, killing the connections in progress whenever the accept thread's exit overtook the
`Stop` message. -/
def closedArm (s : St) : St × Bool :=
  match s.stopQ with
  | [] => if s.stopOpen then ({ s with stopWaker := true }, false) else (finish s false, false)
  | _ :: _ => ((stopPhase s).1, !(stopPhase s).2)

/-- the arm of `match this.state` (worker.rs:625-724); `true` = the arm ends in `self.poll(cx)` -/
def arm (s : St) : St × Bool :=
  match s.state with
  | .unavailable =>
    match sweep s with
    | (s1, .ok true) => ({ s1 with state := .available }, true)
    | (s1, .ok false) => (s1, false)
    | (s1, .err i) => (restartService s1 i, true)
  | .restarting tok fp fok script =>
    match fp with
    | k + 1 => ({ (emit s [.facPoll tok .pending]) with state := .restarting tok k fok script }, false)
    | 0 =>
      if fok then (created (emit s [.facPoll tok .ok]) tok script, true)
      else (setFault (emit s [.facPoll tok .err]) .factoryErr, false)
  | .shutdown timerAt startFrom tx => (shutdownArm s timerAt startFrom tx, false)
  | .available =>
    match availLoop s s.queue with
    | (s1, .pending) => (s1, false)
    | (s1, .closed) => closedArm s1
    | (s1, .toUnavailable) => ({ s1 with state := .unavailable }, true)
    | (s1, .restart i) => (restartService s1 i, true)
    | (s1, .fault) => (s1, false)

/-- one pass through the body of `poll`: the `Stop` handler, then the arm -/
def body (s : St) : St × Bool :=
  if (stopPhase s).2 || (stopPhase s).1.fault.isSome then ((stopPhase s).1, false) else arm (stopPhase s).1

/-- one call of `ServerWorker::poll`; `fuel` bounds the self-recursion -/
def pollW : Nat → St → St
  | 0, s => setFault s .fuel
  | f + 1, s => if (body s).2 then pollW f (body s).1 else (body s).1

/-! ### the environment: accept thread, server, services finishing, the clock -/

/-- actions of the other threads that may also run *inside* a `poll`, between the look at the `Stop`
channel and the state arm (the worker thread can be preempted there) -/
inductive EnvOp where
  | conn (tok : Nat)        -- accept thread: `send` then `inc_counter`
  | send (tok : Nat)        -- accept thread: `send` only (window W1 opens)
  | inc                     -- accept thread: `inc_counter` (window W1 closes)
  | closeChan               -- the accept thread exits: its handle is dropped
  | closeStop               -- the server drops its handle
  | stop (graceful : Bool)  -- server: `WorkerHandleServer::stop(graceful)`
  | finish (id : Nat)       -- a service drops the connection with id `id` (guard drop: `dec`)
deriving DecidableEq, Repr

inductive Op where
  | conn (tok : Nat)        -- accept thread: `send` then `inc_counter`
  | send (tok : Nat)        -- accept thread: `send` only (window W1 opens)
  | inc                     -- accept thread: `inc_counter` (window W1 closes)
  | closeChan               -- the accept-side handle is dropped
  | closeStop               -- the server-side handle is dropped
  | stop (graceful : Bool)  -- server: `WorkerHandleServer::stop(graceful)`
  | finish (id : Nat)       -- a service drops the connection with id `id` (guard drop: `dec`)
  | advance (ms : Nat)
  | poll (fuel : Nat)
  | pollY (fuel : Nat) (acts : List EnvOp)   -- one `poll` during which `acts` happen right after the look at the `Stop` channel
deriving DecidableEq, Repr

def EnvOp.toOp : EnvOp → Op
  | .conn t => .conn t | .send t => .send t | .inc => .inc | .closeChan => .closeChan | .closeStop => .closeStop
  | .stop g => .stop g | .finish id => .finish id

/-- observation of one op (what the harness sees besides the log) -/
inductive Res where
  | ok
  | bad                     -- not applicable: rejected, state unchanged
  | conn (id : Nat) (woke : Bool)
  | refused                 -- `send` failed: the worker is gone
  | closed (woke : Bool)
  | stop (k : Nat) (woke : Bool)
  | advanced (woke : Bool)  -- the tick timer fired and woke the task
  | polled
  | polledY (rs : List Res)
deriving Repr

def timerFires (s : St) (now' : Nat) : Bool :=
  match s.state with
  | .shutdown t _ _ => !s.finished && decide (s.now < t) && decide (t ≤ now')
  | _ => false

def step (s : St) : Op → St × Res
  | .conn tok =>
    if s.fault.isSome || !s.chanOpen then (s, .bad)
    else if s.finished then (s, .refused)
    else
      let c : Conn := (s.nextConn, tok)
      ({ s with queue := s.queue ++ [c], sent := s.sent ++ [c], raw := s.raw + 1, nextConn := s.nextConn + 1, connWaker := false }, .conn c.1 s.connWaker)
  | .send tok =>
    if s.fault.isSome || !s.chanOpen then (s, .bad)
    else if s.finished then (s, .refused)
    else
      let c : Conn := (s.nextConn, tok)
      ({ s with queue := s.queue ++ [c], sent := s.sent ++ [c], nextConn := s.nextConn + 1, connWaker := false }, .conn c.1 s.connWaker)
  | .inc => if s.fault.isSome || !s.chanOpen then (s, .bad) else ({ s with raw := s.raw + 1 }, .ok)
  | .closeChan =>
    if s.fault.isSome || !s.chanOpen then (s, .bad)
    else ({ s with chanOpen := false, connWaker := false }, .closed (s.connWaker && !s.finished))
  | .closeStop =>
    if s.fault.isSome || !s.stopOpen then (s, .bad)
    else ({ s with stopOpen := false, stopWaker := false }, .closed (s.stopWaker && !s.finished))
  | .stop g =>
    if s.fault.isSome || !s.stopOpen then (s, .bad)
    else if s.finished then (emit { s with nextStop := s.nextStop + 1 } [.replyGone s.nextStop], .stop s.nextStop false)
    else ({ s with stopQ := s.stopQ ++ [(s.nextStop, g)], nextStop := s.nextStop + 1, stopWaker := false }, .stop s.nextStop s.stopWaker)
  | .finish id =>
    if s.fault.isSome || s.raw = 0 then (s, .bad)
    else if s.inflight.any (fun c => c.1 == id) then
      ({ s with inflight := s.inflight.filter (fun c => c.1 != id), raw := s.raw - 1 }, .ok)
    else (s, .bad)
  | .advance ms =>
    if s.fault.isSome then (s, .bad)
    else ({ s with now := s.now + ms }, .advanced (timerFires s (s.now + ms)))
  | .poll fuel =>
    if s.fault.isSome || s.finished then (s, .bad)
    else (pollW fuel (emit s [.enter]), .polled)
  | .pollY _ _ => (s, .bad)   -- see `stepY` (kept apart: `step` is not recursive)

/-- the actions of other threads, in order; their results -/
def runEnv (s : St) : List EnvOp → St × List Res
  | [] => (s, [])
  | a :: as => ((runEnv (step s a.toOp).1 as).1, (step s a.toOp).2 :: (runEnv (step s a.toOp).1 as).2)

/-- one `poll` in which the worker thread is overtaken by `acts` between its look at the `Stop` channel and
the state arm (first pass through `poll` only; the re-entries `self.poll(cx)` run undisturbed) -/
def pollY (fuel : Nat) (acts : List EnvOp) (s : St) : St × List Res :=
  if (stopPhase s).2 || (stopPhase s).1.fault.isSome then ((stopPhase s).1, [])
  else if (arm (runEnv (stopPhase s).1 acts).1).2 then (pollW fuel (arm (runEnv (stopPhase s).1 acts).1).1, (runEnv (stopPhase s).1 acts).2)
  else ((arm (runEnv (stopPhase s).1 acts).1).1, (runEnv (stopPhase s).1 acts).2)

def stepY (s : St) : Op → St × Res
  | .pollY fuel acts =>
    if s.fault.isSome || s.finished then (s, .bad)
    else ((pollY fuel acts (emit s [.enter])).1, .polledY (pollY fuel acts (emit s [.enter])).2)
  | o => step s o

def run (s : St) : List Op → St
  | [] => s
  | o :: os => run (stepY s o).1 os

structure Cfg where
  n : Nat
  timeout : Nat
  svcs : Nat → Svc

/-- state after `ServerWorker::start`: every service created once, status `Unavailable` -/
def init (cfg : Cfg) : St :=
  { n := cfg.n, timeout := cfg.timeout, svc := fun i => { (cfg.svcs i) with status := .unavailable, inc := 0 } }

/-! ### the shutdown timing, functionally (C06 `stop_completes`)

The environment is a script `fin`: for every connection in progress when the worker takes the
`Stop`, the time (absolute, ms) at which it ends, or `none` if it never does. -/

/-- connections of the script still in progress at time `t` (one that ends at `t` has ended) -/
def unfinished (fin : List (Option Nat)) (t : Nat) : Nat :=
  (fin.filter fun o => match o with | none => true | some x => decide (t < x)).length

/-- the `k`-th tick (`k ≥ 1`) of a shutdown started at `t0`, the worker being polled when its timer fires -/
def tickTime (t0 k : Nat) : Nat := t0 + Src.wkTickFirstMs + (k - 1) * Src.wkTickNextMs

/-- the tick loop of the `Shutdown` arm from tick `k` on (`f` further ticks): (reply time, reply value) -/
def tickLoop (T t0 : Nat) (fin : List (Option Nat)) : Nat → Nat → Nat × Bool
  | k, 0 => (tickTime t0 k, false)
  | k, f + 1 =>
    if unfinished fin (tickTime t0 k) = 0 then (tickTime t0 k, true)
    else if Src.wkTimedOut (tickTime t0 k - t0) T then (tickTime t0 k, false)
    else tickLoop T t0 fin (k + 1) f

/-- number of the tick at which `shutdown_timeout` has certainly elapsed -/
def lastTick (T : Nat) : Nat := (T + Src.wkTickNextMs - 1) / Src.wkTickNextMs + 1

/-- when and what a worker that takes a graceful `Stop` at `t0` replies -/
def replyTime (T t0 : Nat) (fin : List (Option Nat)) : Nat × Bool :=
  if unfinished fin t0 = 0 then (t0, true) else tickLoop T t0 fin 1 (lastTick T)

/-- the environment at a tick: the clock is at `t`, the counter counts the connections still in progress -/
def envTick (s : St) (t : Nat) (fin : List (Option Nat)) : St := { s with now := t, raw := Src.wcInit + unfinished fin t }

/-- poll the worker at every tick from tick `k` on until it finishes (at most `f` ticks) -/
def runTicks (fin : List (Option Nat)) (start : Nat) : St → Nat → Nat → St
  | s, _, 0 => s
  | s, k, f + 1 =>
    if (pollW 1 (envTick s (tickTime start k) fin)).finished then pollW 1 (envTick s (tickTime start k) fin)
    else runTicks fin start (pollW 1 (envTick s (tickTime start k) fin)) (k + 1) f

end ActixNet.Worker
