import ActixNet.Generated.Src
/-!
# Model: `ServerInner::run` / `handle_cmd`, `ServerHandle` and `map_signal` (actix-server/src/server.rs, handle.rs)

The server future is a sequential process over the command channel: `run` takes the commands in
channel order and hands each to `handle_cmd`; after a `Stop` has been handled (`stopping`) the loop
ends, `run` returns `Ok(())` (the `Server` future resolves) and everything it owns is dropped — in
particular the receiving end of the command channel with every command still in it, so the one-shot
ack sender inside each of them is dropped and the future that waits for it resolves as well.

`handle_cmd(Stop)` blocks at two kinds of points: `join_all(workers_stop).await` (only if graceful;
released when every worker's reply receiver resolves — by a reply or because the worker dropped the
sender) and `accept_handle.join()` (released when the accept thread, which has been sent
`WakerInterest::Stop`, returns).  In this sequential model a blocking point is an event
(`awaitWorker w`, `joinAccept`); that each is eventually released is what `Model/Worker.lean`
(every `Stop` is answered or dropped, and the tick loop is bounded) and C08 (the accept thread
never spins or dies) provide.
-/
namespace ActixNet.ServerCmd
open ActixNet

inductive Interest where | pause | resume | stop | worker (idx : Nat)
deriving DecidableEq, Repr

/-- `ServerCommand` (the ack channel is identified by a number; `force_system_stop` is not modelled) -/
inductive Cmd where
  | pause (ack : Nat)
  | resume (ack : Nat)
  | stop (graceful : Bool) (completion : Option Nat)
  | workerFaulted (idx : Nat)
deriving DecidableEq, Repr

inductive Ev where
  | wake (i : Interest)               -- `waker_queue.wake(i)`
  | ack (a : Nat)                     -- `tx.send(())` on ack channel `a`
  | ackDropped (a : Nat)              -- the sender of ack channel `a` was dropped unsent: the waiting future resolves too
  | stopWorker (w : Nat) (g : Bool)   -- `worker.stop(graceful)`
  | awaitWorker (w : Nat)             -- `join_all`: worker `w`'s reply receiver resolved
  | joinAccept                        -- the accept thread was joined (it has exited)
  | restartWorker (idx : Nat)
  | returned                          -- `ServerInner::run` returned `Ok(())`: the `Server` future resolves
deriving DecidableEq, Repr

structure St where
  workers : List Nat                  -- indices of `worker_handles`
  stopping : Bool := false
  returned : Bool := false
  panicked : Bool := false            -- `assert!(worker_handles.iter().any(..))` failed
  log : List Ev := []
deriving Repr

def emit (s : St) (es : List Ev) : St := { s with log := s.log ++ es }

def ackEv : Option Nat → List Ev
  | some a => [.ack a]
  | none => []

/-- the events of `handle_cmd(Stop { graceful, completion })`, in program order (server.rs:242-281).

**Order demanded by C06** (finding F7): `Stop` is sent to every worker *before* the accept thread is told
to stop.  When the accept thread exits it drops its worker handles, which closes the workers'
connection channels; a worker that observes the closed channel before its `Stop` finishes at once
(worker.rs `None => return Poll::Ready(())`) and the connections it is serving die — also on a
graceful stop, whose `join_all` then sees only dropped reply senders and completes immediately.  The
original tree wakes the accept thread first; `fixes/C06-stop-workers-before-accept.patch` swaps the two
statements.  `Props/C06.source_shape` checks the order against the source on every run. -/
def stopEvs (workers : List Nat) (graceful : Bool) (completion : Option Nat) : List Ev :=
  workers.map (.stopWorker · graceful) ++ [.wake .stop] ++ (if graceful then workers.map .awaitWorker else []) ++
    [.joinAccept] ++ ackEv completion

/-- `handle_cmd` -/
def handle (s : St) : Cmd → St
  | .pause a => emit s [.wake .pause, .ack a]
  | .resume a => emit s [.wake .resume, .ack a]
  | .stop g comp => { (emit s (stopEvs s.workers g comp)) with stopping := true }
  | .workerFaulted idx =>
    if idx ∈ s.workers then emit s [.restartWorker idx, .wake (.worker idx)] else { s with panicked := true }

/-- the ack channel inside a command -/
def Cmd.ack? : Cmd → Option Nat
  | .pause a => some a
  | .resume a => some a
  | .stop _ c => c
  | .workerFaulted _ => none

/-- dropping the command channel with `cs` still in it -/
def droppedAcks (cs : List Cmd) : List Ev := cs.filterMap fun c => c.ack?.map .ackDropped

/-- `ServerInner::run` over the commands in the channel, in order.  An empty channel whose senders
are alive makes the loop wait (nothing happens, `returned` stays false). -/
def runLoop (s : St) : List Cmd → St
  | [] => s
  | c :: cs =>
    if (handle s c).panicked then handle s c
    else if (handle s c).stopping then { (emit (handle s c) (droppedAcks cs ++ [.returned])) with returned := true }
    else runLoop (handle s c) cs

/-- `ServerInner::map_signal` (the `graceful` flag comes from the source through T1) -/
def cmdOfSignal (sig : Src.Signal) : Cmd := .stop (Src.mapSignalGraceful sig) none

/-! ### the handle: commands are sent when the method is *called* (handle.rs:25-55) -/

inductive Call where
  | pause | resume
  | stop (graceful : Bool)
  | signal (sig : Src.Signal)
  | faulted (idx : Nat)
deriving DecidableEq, Repr

structure Sys where
  cmds : List Cmd := []     -- the command channel
  nextAck : Nat := 0

/-- calling a `ServerHandle` method / a signal arriving: the command is in the channel when the call returns;
the returned future (ack number) only waits for the ack -/
def call (y : Sys) : Call → Sys × Option Nat
  | .pause => ({ cmds := y.cmds ++ [.pause y.nextAck], nextAck := y.nextAck + 1 }, some y.nextAck)
  | .resume => ({ cmds := y.cmds ++ [.resume y.nextAck], nextAck := y.nextAck + 1 }, some y.nextAck)
  | .stop g => ({ cmds := y.cmds ++ [.stop g (some y.nextAck)], nextAck := y.nextAck + 1 }, some y.nextAck)
  | .signal sig => ({ y with cmds := y.cmds ++ [cmdOfSignal sig] }, none)
  | .faulted idx => ({ y with cmds := y.cmds ++ [.workerFaulted idx] }, none)

def calls (y : Sys) : List Call → Sys
  | [] => y
  | c :: cs => calls (call y c).1 cs

/-- a server with workers `0..n-1`, after the calls `cs` were made, run to quiescence -/
def serve (n : Nat) (cs : List Call) : St := runLoop { workers := List.range n } (calls {} cs).cmds

end ActixNet.ServerCmd
