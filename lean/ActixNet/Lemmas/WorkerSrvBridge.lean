import ActixNet.Lemmas.Worker
import ActixNet.Model.Srv
/-!
# Bridge: the worker model (`ActixNet.Worker`) refines the per-worker environment of the accept-loop model (`ActixNet.Srv`)

The accept-loop model sees a worker only through the record `Srv.Wk {idx, alive, queue, inflight, c, tokp}` and lets
the environment act on it by `sendPrim`, `incPrim`, `recv`, `finishNow` and `die`. `absW` reads that record off a state
of the worker model; `Sim` says one state is reached from another by a finite sequence of those actions (`applyActs`,
whose clauses are shown equal to `Srv`'s own definitions by the `srv_*` equations). Every piece of `ServerWorker::poll`
and every environment op of the worker model is such a sequence — for whole polls and whole histories too.
-/
namespace ActixNet.Bridge
open ActixNet

/-- the actions on one worker record the accept-loop model knows: the accept thread's `send` / `inc`, and the
worker's `recv` (take the head of the channel), `finish` (drop a guard: `finishNow`, the worker model has no W2
window) and `die` (the receiving end of the channel goes away) -/
inductive WAct where
  | send (c : Srv.Conn) | inc | recv | finish (id : Nat) | die
deriving Repr, DecidableEq

/-- what each action does to the record (the equations `srv_*` below show these are `Srv`'s own definitions) -/
def applyAct (W : Srv.Wk) : WAct → Srv.Wk
  | .send c => { W with queue := W.queue ++ [c] }
  | .inc => { W with c := W.c + 1 }
  | .recv =>
    if W.alive then
      match W.queue with
      | [] => W
      | c :: q => { W with queue := q, inflight := W.inflight ++ [c] }
    else W
  | .finish id =>
    match W.inflight.find? (fun c => c.1 = id) with
    | none => W
    | some c => { W with inflight := W.inflight.eraseP (fun x => x.1 == c.1), c := W.c - 1 }
  | .die => if W.alive then { W with alive := false, queue := [] } else W

def applyActs (W : Srv.Wk) : List WAct → Srv.Wk
  | [] => W
  | a :: as => applyActs (applyAct W a) as

theorem applyActs_append (W : Srv.Wk) (as bs : List WAct) : applyActs W (as ++ bs) = applyActs (applyActs W as) bs := by
  induction as generalizing W with
  | nil => rfl
  | cons a as ih => simp [applyActs, ih]

/-! ### these are `Srv`'s definitions -/

theorem setAvail_wk (s : Srv.St) (idx : Nat) (v : Bool) : (Srv.setAvail s idx v).wk = s.wk := by
  unfold Srv.setAvail; split <;> rfl

theorem srv_send (s : Srv.St) (w : Nat) (c : Srv.Conn) : (Srv.sendPrim s w c).wk w = applyAct (s.wk w) (.send c) := by
  simp [Srv.sendPrim, Srv.upd, applyAct]

theorem srv_inc (cfg : Srv.Cfg) (s : Srv.St) (w idx : Nat) : (Srv.incPrim cfg s w idx).wk w = applyAct (s.wk w) .inc := by
  unfold Srv.incPrim
  simp only []
  split
  · simp [Srv.upd, applyAct]
  · rw [setAvail_wk]; simp [Srv.upd, applyAct]

theorem srv_recv (cfg : Srv.Cfg) (s : Srv.St) (w : Nat) (hw : w < s.nWk) :
    (Srv.envStep cfg s (.recv w)).1.wk w = applyAct (s.wk w) .recv := by
  simp only [Srv.envStep, hw, if_true, applyAct]
  cases ha : (s.wk w).alive <;> simp
  cases hq : (s.wk w).queue <;> simp [Srv.upd]

theorem srv_finish (cfg : Srv.Cfg) (s : Srv.St) (w id : Nat) (hw : w < s.nWk) :
    (Srv.envStep cfg s (.finishNow w (some id))).1.wk w = applyAct (s.wk w) (.finish id) := by
  simp only [Srv.envStep, hw, if_true, applyAct, Srv.pickInflight]
  cases hf : (s.wk w).inflight.find? (fun c => c.1 = id) with
  | none => simp
  | some c =>
    simp only []
    split <;> simp [Srv.pushWq, Srv.upd]

/-- … and the notification: `Srv`'s `crossed` is the generated `Src.wcDecCrossed` on the counter before the release -/
theorem srv_finish_crossed (cfg : Srv.Cfg) (s : Srv.St) (w id : Nat) (hw : w < s.nWk) (c : Srv.Conn)
    (hf : (s.wk w).inflight.find? (fun c => c.1 = id) = some c) :
    (Srv.envStep cfg s (.finishNow w (some id))).2 = .dec (Src.wcDecCrossed (s.wk w).c cfg.limit) := by
  simp [Srv.envStep, hw, Srv.pickInflight, hf]

theorem srv_die (cfg : Srv.Cfg) (s : Srv.St) (w : Nat) (hw : w < s.nWk) :
    (Srv.envStep cfg s (.die w)).1.wk w = applyAct (s.wk w) .die := by
  simp only [Srv.envStep, hw, if_true, applyAct]
  cases ha : (s.wk w).alive <;> simp [Srv.upd]


/-! ### the worker model, seen by the accept side -/

/-- the record the accept-loop model keeps of a worker, read off a state of the worker model -/
def absW (idx : Nat) (s : Worker.St) : Srv.Wk :=
  { idx := idx, alive := !s.finished, queue := s.queue, inflight := s.inflight, c := s.raw, tokp := 0 }

/-- ids of the connections the worker holds (in progress or queued) are distinct and were handed out already -/
structure DB (s : Worker.St) : Prop where
  dist : ((s.inflight ++ s.queue).map (·.1)).Nodup
  bound : ∀ c ∈ s.inflight ++ s.queue, c.1 < s.nextConn

/-- `s'` is what the accept-loop model computes from `s` by a finite sequence of its worker actions -/
structure Sim (s s' : Worker.St) : Prop where
  acts : DB s → ∃ acts, ∀ idx, applyActs (absW idx s) acts = absW idx s'
  db : DB s → DB s'

theorem Sim.refl (s : Worker.St) : Sim s s := ⟨fun _ => ⟨[], fun _ => rfl⟩, id⟩

theorem Sim.trans {a b c : Worker.St} (h1 : Sim a b) (h2 : Sim b c) : Sim a c := by
  refine ⟨fun hd => ?_, fun hd => h2.db (h1.db hd)⟩
  obtain ⟨as1, e1⟩ := h1.acts hd
  obtain ⟨as2, e2⟩ := h2.acts (h1.db hd)
  exact ⟨as1 ++ as2, fun idx => by rw [applyActs_append, e1, e2]⟩

/-- what the accept side can see of the worker -/
def coreQ (s : Worker.St) := (s.queue, s.inflight, s.raw, s.finished, s.nextConn)

theorem Sim.of_same {s s' : Worker.St} (h : coreQ s' = coreQ s) : Sim s s' := by
  simp only [coreQ, Prod.mk.injEq] at h
  obtain ⟨h1, h2, h3, h4, h5⟩ := h
  refine ⟨fun _ => ⟨[], fun idx => ?_⟩, fun hd => ⟨by rw [h1, h2]; exact hd.dist, by rw [h1, h2, h5]; exact hd.bound⟩⟩
  simp [applyActs, absW, h1, h2, h3, h4]

theorem DB.of_sub {s s' : Worker.St} (hd : DB s) (hs : (s'.inflight ++ s'.queue).Sublist (s.inflight ++ s.queue))
    (hn : s'.nextConn = s.nextConn) : DB s' :=
  ⟨(hs.map (·.1)).nodup hd.dist, fun c hc => hn ▸ hd.bound c (hs.subset hc)⟩

/-- `recv` × n: the worker takes connections from the head of its channel, one at a time, in order -/
theorem applyActs_recvs (cs : List Srv.Conn) : ∀ (W : Srv.Wk) (q : List Srv.Conn), W.alive = true → W.queue = cs ++ q →
    applyActs W (List.replicate cs.length .recv) = { W with queue := q, inflight := W.inflight ++ cs } := by
  induction cs with
  | nil => intro W q _ hq; cases W; simp_all [applyActs]
  | cons c cs ih =>
    intro W q ha hq
    have h1 : applyAct W .recv = { W with queue := cs ++ q, inflight := W.inflight ++ [c] } := by
      simp [applyAct, ha, hq]
    simp only [List.length_cons, List.replicate_succ, applyActs]
    rw [h1, ih { W with queue := cs ++ q, inflight := W.inflight ++ [c] } q ha rfl]; simp

theorem find_last {l : List Srv.Conn} {c : Srv.Conn} (h : ∀ x ∈ l, x.1 ≠ c.1) :
    (l ++ [c]).find? (fun x => x.1 = c.1) = some c ∧ (l ++ [c]).eraseP (fun x => x.1 == c.1) = l := by
  induction l with
  | nil => simp
  | cons a t ih =>
    have ha : a.1 ≠ c.1 := h a (by simp)
    obtain ⟨i1, i2⟩ := ih (fun x hx => h x (by simp [hx]))
    constructor
    · simp [ha, i1]
    · simp [ha, i2]

/-- `recv; finish` per released connection: the `Shutdown` arm takes a queued connection and drops it with its guard -/
theorem applyActs_release (cs : List Srv.Conn) : ∀ (W : Srv.Wk) (q : List Srv.Conn), W.alive = true → W.queue = cs ++ q →
    ((W.inflight ++ cs).map (·.1)).Nodup →
    applyActs W (cs.flatMap fun c => [.recv, .finish c.1]) = { W with queue := q, c := W.c - cs.length } := by
  induction cs with
  | nil => intro W q _ hq _; cases W; simp_all [applyActs]
  | cons c cs ih =>
    intro W q ha hq hnd
    have hfresh : ∀ x ∈ W.inflight, x.1 ≠ c.1 := by
      intro x hx he
      simp only [List.map_append, List.map_cons] at hnd
      have := (List.nodup_append.1 hnd).2.2 x.1 (List.mem_map.2 ⟨x, hx, rfl⟩) c.1 (by simp)
      exact this he
    obtain ⟨f1, f2⟩ := find_last hfresh
    have h1 : applyAct W .recv = { W with queue := cs ++ q, inflight := W.inflight ++ [c] } := by
      simp [applyAct, ha, hq]
    have h2 : applyAct { W with queue := cs ++ q, inflight := W.inflight ++ [c] } (.finish c.1) = { W with queue := cs ++ q, c := W.c - 1 } := by
      simp only [applyAct, f1, f2]
    have hnd' : ((W.inflight ++ cs).map (·.1)).Nodup := by
      simp only [List.map_append, List.map_cons] at hnd ⊢
      exact (List.Sublist.append_left (List.sublist_cons_self _ _) _).nodup hnd
    simp only [List.flatMap_cons, List.cons_append, List.nil_append, applyActs]
    rw [h1, h2, ih { W with queue := cs ++ q, c := W.c - 1 } q ha rfl hnd']
    simp [Nat.sub_sub, Nat.add_comm]


open ActixNet.Worker in
/-- the future finishes: the receiving end of the channel goes away, what is still queued is dropped — `die` -/
theorem Sim.of_finish {s : Worker.St} (hf : s.finished = false) (b : Bool) : Sim s (Worker.finish s b) := by
  refine ⟨fun _ => ⟨[.die], fun idx => ?_⟩, fun hd => hd.of_sub ?_ rfl⟩
  · simp [applyActs, applyAct, absW, hf, Worker.finish, Worker.emit]
  · show (s.inflight ++ []).Sublist _
    simp

open ActixNet.Worker in
theorem Sim.of_release {s : Worker.St} (hf : s.finished = false) : Sim s (release s s.queue) := by
  obtain ⟨hc, cs, _, h3, h4, _⟩ := release_spec s.queue s
  simp only [core3, Prod.mk.injEq] at hc
  obtain ⟨c1, c2, c3, c4, c5, c6, c7, c8, c9, c10, c11, c12, c13, c14⟩ := hc
  have hsub : ((release s s.queue).inflight ++ (release s s.queue).queue).Sublist (s.inflight ++ s.queue) := by
    rw [c8]; conv => rhs; rw [h3]
    exact List.Sublist.append_left (List.sublist_append_right _ _) _
  refine ⟨fun hd => ⟨cs.flatMap fun c => [.recv, .finish c.1], fun idx => ?_⟩, fun hd => hd.of_sub hsub c10⟩
  have hnd : (((absW idx s).inflight ++ cs).map (·.1)).Nodup := by
    have := hd.dist
    rw [h3, ← List.append_assoc] at this
    simp only [List.map_append] at this ⊢
    exact (List.nodup_append.1 this).1
  rw [applyActs_release cs (absW idx s) (release s s.queue).queue (by simp [absW, hf]) (by show s.queue = _; exact h3) hnd]
  simp only [absW, c8, c12]
  congr 1
  omega

open ActixNet.Worker in
theorem drained_coreQ (s : Worker.St) : coreQ (drained s) = coreQ (release s s.queue) := by
  unfold drained; split <;> rfl

theorem Sim.congr {s a b : Worker.St} (h : Sim s a) (hab : coreQ b = coreQ a) : Sim s b := h.trans (Sim.of_same hab)

open ActixNet.Worker in
theorem Sim.of_shutdownArm {s : Worker.St} (hf : s.finished = false) (t sf tx : Nat) : Sim s (shutdownArm s t sf tx) := by
  have hr := Sim.of_release hf
  have hd := hr.congr (drained_coreQ s)
  have hdf := drained_finished s
  cases hfl : (release s s.queue).fault.isSome with
  | true => rw [shutdownArm_fault t sf tx hfl]; exact hr
  | false =>
    by_cases c1 : (drained s).now < t
    · rw [shutdownArm_pending sf tx hfl c1]; exact hd
    · by_cases c2 : (drained s).raw = 0
      · rw [shutdownArm_underflow sf tx hfl c1 c2]; exact hd.congr rfl
      · by_cases c3 : Src.wcTotal (drained s).raw = 0
        · rw [shutdownArm_true sf tx hfl c1 c2 c3]
          exact (hd.congr (b := emit (drained s) [.reply tx true]) rfl).trans (Sim.of_finish (s := emit (drained s) [.reply tx true]) (hdf.trans hf) true)
        · cases c4 : Src.wkTimedOut ((drained s).now - sf) (drained s).timeout with
          | true =>
            rw [shutdownArm_false tx hfl c1 c2 c3 c4]
            exact (hd.congr (b := emit (drained s) [.reply tx false]) rfl).trans (Sim.of_finish (s := emit (drained s) [.reply tx false]) (hdf.trans hf) true)
          | false => rw [shutdownArm_rearm tx hfl c1 c2 c3 c4]; exact hd.congr rfl

open ActixNet.Worker in
theorem Sim.of_stopPhase {s : Worker.St} (hf : s.finished = false) : Sim s (stopPhase s).1 := by
  cases hq : s.stopQ with
  | nil => rw [stopPhase_nil hq]; exact Sim.of_same rfl
  | cons a rest =>
    obtain ⟨k, g⟩ := a
    by_cases h0 : s.raw = 0
    · rw [stopPhase_underflow hq h0]; exact Sim.of_same rfl
    · by_cases h1 : Src.wcTotal s.raw = 0
      · rw [stopPhase_idle hq h0 h1]
        exact (Sim.of_same (s := s) (s' := emit { s with stopQ := rest } [.reply k true]) rfl).trans (Sim.of_finish (s := emit { s with stopQ := rest } [.reply k true]) hf false)
      · cases g with
        | false =>
          rw [stopPhase_forced hq h0 h1]
          exact (Sim.of_same (s := s) (s' := emit (shutdownSvcs { s with stopQ := rest } true) [.reply k false]) rfl).trans (Sim.of_finish (s := emit (shutdownSvcs { s with stopQ := rest } true) [.reply k false]) hf false)
        | true => rw [stopPhase_graceful hq h0 h1]; exact Sim.of_same rfl

open ActixNet.Worker in
theorem Sim.of_sweep {s s1 : Worker.St} {r : Sweep} (h : sweep s = (s1, r)) : Sim s s1 := by
  have hc := sweep_n h
  simp only [core, Prod.mk.injEq] at hc
  obtain ⟨c1, c2, c3, c4, c5, c6, c7, c8, c9, c10, c11, c12, c13, c14, c15, c16⟩ := hc
  exact Sim.of_same (by simp only [coreQ, Prod.mk.injEq]; exact ⟨c4, c9, c7, c13, c11⟩)

open ActixNet.Worker in
/-- the `Available` loop: `recv` once per connection it hands to a service, from the head of the channel, in order -/
theorem Sim.of_availLoop {s : Worker.St} (hp : AllPolled s) (hf : s.finished = false) : Sim s (availLoop s s.queue).1 := by
  obtain ⟨k1, _, ⟨tr, cs, last, _, _, g3, g4, _⟩, _, _, _, _⟩ := availLoop_spec s.queue s hp
  simp only [core2, Prod.mk.injEq] at k1
  obtain ⟨c1, c2, c3, c4, c5, c6, c7, c8, c9, c10, c11, c12⟩ := k1
  have hsub : ((availLoop s s.queue).1.inflight ++ (availLoop s s.queue).1.queue).Sublist (s.inflight ++ s.queue) := by
    rw [g4, List.append_assoc]; conv => rhs; rw [g3]
    exact List.Sublist.refl _
  refine ⟨fun _ => ⟨List.replicate cs.length .recv, fun idx => ?_⟩, fun hd => hd.of_sub hsub c9⟩
  rw [applyActs_recvs cs (absW idx s) (availLoop s s.queue).1.queue (by simp [absW, hf]) (by show s.queue = _; exact g3)]
  simp only [absW, g4, c6, c11]


open ActixNet.Worker in
theorem Sim.of_closedArm {s : Worker.St} (hf : s.finished = false) : Sim s (closedArm s).1 := by
  rcases closedArm_cases s with ⟨_, _, e⟩ | ⟨_, _, e⟩ | ⟨_, e⟩ <;> rw [e]
  · exact Sim.of_same rfl
  · exact Sim.of_finish hf false
  · exact Sim.of_stopPhase hf

open ActixNet.Worker in
theorem Sim.of_arm {s : Worker.St} (hg : Good s) (hf : s.finished = false) : Sim s (arm s).1 := by
  have hsv := hg.svc
  unfold SvcOK at hsv
  rw [hf] at hsv; simp only [Bool.false_eq_true, false_or] at hsv
  cases hst : s.state with
  | unavailable =>
    rcases hsw : sweep s with ⟨s1, r⟩
    have hp := Sim.of_sweep hsw
    cases r with
    | ok b => cases b with
      | true => rw [arm_unavail_true hst hsw]; exact hp.congr rfl
      | false => rw [arm_unavail_false hst hsw]; exact hp
    | err i => rw [arm_unavail_err hst hsw]; exact hp.congr rfl
  | restarting tok fp fok sc =>
    cases fp with
    | succ k => rw [arm_restarting_pending hst]; exact Sim.of_same rfl
    | zero => cases fok with
      | true => rw [arm_restarting_ok hst]; exact Sim.of_same rfl
      | false => rw [arm_restarting_err hst]; exact Sim.of_same rfl
  | shutdown t sf tx => rw [arm_shutdown hst]; exact Sim.of_shutdownArm hf t sf tx
  | available =>
    rw [hst] at hsv
    have hp := Sim.of_availLoop hsv hf
    have hc2 := availLoop_core2 s.queue s
    rcases hal : availLoop s s.queue with ⟨s1, r⟩
    rw [hal] at hp hc2
    simp only [core2, Prod.mk.injEq] at hc2
    have hfin : s1.finished = false := hc2.2.2.2.2.2.2.2.2.2.2.1.trans hf
    cases r with
    | pending => rw [arm_avail_pending hst hal]; exact hp
    | fault => rw [arm_avail_fault hst hal]; exact hp
    | toUnavailable => rw [arm_avail_unavail hst hal]; exact hp.congr rfl
    | restart i => rw [arm_avail_restart hst hal]; exact hp.congr rfl
    | closed => rw [arm_avail_closed hst hal]; exact hp.trans (Sim.of_closedArm hfin)

open ActixNet.Worker in
theorem Sim.of_body {s : Worker.St} (hg : Good s) (hf : s.finished = false) : Sim s (body s).1 := by
  unfold body
  split
  · exact Sim.of_stopPhase hf
  · rename_i hc
    simp only [Bool.or_eq_true, not_or, Bool.not_eq_true] at hc
    exact (Sim.of_stopPhase hf).trans (Sim.of_arm hg.stopPhase ((stopPhase_finished s hc.1).trans hf))

open ActixNet.Worker in
/-- **one whole `poll`** is a finite sequence of `recv` / `finish` / `die` on the accept side's record of the worker -/
theorem Sim.of_pollW (f : Nat) : ∀ (s : Worker.St), Good s → s.finished = false → Sim s (pollW f s) := by
  induction f with
  | zero => intro s _ _; exact Sim.of_same rfl
  | succ f ih =>
    intro s hg hf
    simp only [pollW]
    obtain ⟨g1, g2⟩ := hg.body hf
    split
    · rename_i hb; exact (Sim.of_body hg hf).trans (ih _ g1 (g2 hb))
    · exact Sim.of_body hg hf

theorem filter_eq_eraseP {l : List Srv.Conn} {id : Nat} {c : Srv.Conn} (hnd : (l.map (·.1)).Nodup)
    (hf : l.find? (fun x => x.1 = id) = some c) : l.filter (fun x => x.1 != id) = l.eraseP (fun x => x.1 == c.1) := by
  induction l with
  | nil => simp at hf
  | cons a t ih =>
    simp only [List.map_cons, List.nodup_cons] at hnd
    by_cases ha : a.1 = id
    · have hc : c = a := by simp [List.find?, ha] at hf; exact hf.symm
      subst hc
      have hno : ∀ x ∈ t, x.1 ≠ id := by
        intro x hx he; exact hnd.1 (List.mem_map.2 ⟨x, hx, by rw [he, ha]⟩)
      have hfil : t.filter (fun x => x.1 != id) = t := by
        rw [List.filter_eq_self]; intro x hx; simpa using hno x hx
      simp [List.filter_cons, List.eraseP_cons, ha, hfil]
    · have hf' : t.find? (fun x => x.1 = id) = some c := by simpa [List.find?, ha] using hf
      have hcid : c.1 = id := by have := List.find?_some hf'; simpa using this
      have hac : (a.1 == c.1) = false := by rw [hcid]; simpa using ha
      simp [List.filter_cons, List.eraseP_cons, ha, hac, ih hnd.2 hf']

open ActixNet.Worker in
/-- the accept thread's and the services' actions, one by one -/
theorem Sim.of_envStep {s : Worker.St} (op : Op) (hnp : ∀ f, op ≠ .poll f) : Sim s (step s op).1 := by
  cases op with
  | poll f => exact absurd rfl (hnp f)
  | pollY f a => exact Sim.refl s
  | closeChan => simp only [step]; split <;> first | exact Sim.refl s | exact Sim.of_same rfl
  | closeStop => simp only [step]; split <;> first | exact Sim.refl s | exact Sim.of_same rfl
  | advance ms => simp only [step]; split <;> first | exact Sim.refl s | exact Sim.of_same rfl
  | stop g =>
    simp only [step]; split
    · exact Sim.refl s
    · split <;> exact Sim.of_same rfl
  | inc =>
    simp only [step]; split
    · exact Sim.refl s
    · exact ⟨fun _ => ⟨[.inc], fun idx => by simp [applyActs, applyAct, absW]⟩, fun hd => ⟨hd.dist, hd.bound⟩⟩
  | conn tok =>
    simp only [step]; split
    · exact Sim.refl s
    · split
      · exact Sim.refl s
      · refine ⟨fun _ => ⟨[.send (s.nextConn, tok), .inc], fun idx => by simp [applyActs, applyAct, absW]⟩, fun hd => ⟨?_, ?_⟩⟩
        · show ((s.inflight ++ (s.queue ++ [(s.nextConn, tok)])).map (·.1)).Nodup
          rw [← List.append_assoc, List.map_append]
          refine List.nodup_append.2 ⟨hd.dist, by simp, ?_⟩
          intro a ha b hb
          simp at hb; subst hb
          obtain ⟨x, hx, rfl⟩ := List.mem_map.1 ha
          exact Nat.ne_of_lt (hd.bound x hx)
        · intro c hc
          have : c ∈ (s.inflight ++ s.queue) ++ [(s.nextConn, tok)] := by simpa [List.append_assoc] using hc
          simp only [List.mem_append, List.mem_singleton] at this
          show c.1 < s.nextConn + 1
          rcases this with h | rfl
          · exact Nat.lt_succ_of_lt (hd.bound c (by simpa using h))
          · exact Nat.lt_succ_self _
  | send tok =>
    simp only [step]; split
    · exact Sim.refl s
    · split
      · exact Sim.refl s
      · refine ⟨fun _ => ⟨[.send (s.nextConn, tok)], fun idx => by simp [applyActs, applyAct, absW]⟩, fun hd => ⟨?_, ?_⟩⟩
        · show ((s.inflight ++ (s.queue ++ [(s.nextConn, tok)])).map (·.1)).Nodup
          rw [← List.append_assoc, List.map_append]
          refine List.nodup_append.2 ⟨hd.dist, by simp, ?_⟩
          intro a ha b hb
          simp at hb; subst hb
          obtain ⟨x, hx, rfl⟩ := List.mem_map.1 ha
          exact Nat.ne_of_lt (hd.bound x hx)
        · intro c hc
          have : c ∈ (s.inflight ++ s.queue) ++ [(s.nextConn, tok)] := by simpa [List.append_assoc] using hc
          simp only [List.mem_append, List.mem_singleton] at this
          show c.1 < s.nextConn + 1
          rcases this with h | rfl
          · exact Nat.lt_succ_of_lt (hd.bound c (by simpa using h))
          · exact Nat.lt_succ_self _
  | finish id =>
    simp only [step]; split
    · exact Sim.refl s
    · split
      · rename_i hany
        have hsub : (s.inflight.filter (fun c => c.1 != id) ++ s.queue).Sublist (s.inflight ++ s.queue) :=
          List.Sublist.append_right (List.filter_sublist) _
        refine ⟨fun hd => ⟨[.finish id], fun idx => ?_⟩, fun hd => hd.of_sub hsub rfl⟩
        obtain ⟨c, hc, hcid⟩ := List.any_eq_true.1 hany
        have hcid' : c.1 = id := by simpa using hcid
        have hnd : (s.inflight.map (·.1)).Nodup := by
          have := hd.dist; rw [List.map_append] at this; exact (List.nodup_append.1 this).1
        cases hf : s.inflight.find? (fun x => x.1 = id) with
        | none =>
          have := List.find?_eq_none.1 hf c hc
          simp [hcid'] at this
        | some c' =>
          simp only [applyActs, applyAct, absW, hf]
          rw [filter_eq_eraseP hnd hf]
      · exact Sim.refl s


open ActixNet.Worker in
theorem Sim.of_runEnv (acts : List EnvOp) : ∀ (s : Worker.St), Sim s (runEnv s acts).1 := by
  induction acts with
  | nil => intro s; exact Sim.refl s
  | cons a as ih =>
    intro s
    exact (Sim.of_envStep a.toOp (by intro f; cases a <;> simp [EnvOp.toOp])).trans (ih _)

open ActixNet.Worker in
/-- **every step of the worker model** — each environment op, a whole `poll`, a `poll` overtaken by other threads'
actions — is a finite sequence of the accept-loop model's actions on its record of that worker -/
theorem Sim.of_stepY {s : Worker.St} (hg : Good s) (op : Op) : Sim s (stepY s op).1 := by
  have henter : Sim s (emit s [.enter]) := Sim.of_same rfl
  have hgenter : Good (emit s [.enter]) := ⟨hg.svc, hg.lg.plain (s' := emit s [.enter]) [.enter] (by intro e he; simp at he; subst he; exact ⟨rfl, rfl, rfl, rfl⟩) rfl rfl rfl rfl⟩
  cases op with
  | poll fuel =>
    simp only [stepY, step]
    split
    · exact Sim.refl s
    · rename_i hc
      simp only [Bool.or_eq_true, not_or, Bool.not_eq_true] at hc
      exact henter.trans (Sim.of_pollW fuel _ hgenter hc.2)
  | pollY fuel acts =>
    simp only [stepY]
    split
    · exact Sim.refl s
    · rename_i hc
      simp only [Bool.or_eq_true, not_or, Bool.not_eq_true] at hc
      have hf0 : (emit s [.enter]).finished = false := hc.2
      unfold pollY
      have h1 := henter.trans (Sim.of_stopPhase hf0)
      split
      · exact h1
      · rename_i hc2
        simp only [Bool.or_eq_true, not_or, Bool.not_eq_true] at hc2
        have hf1 : (stopPhase (emit s [.enter])).1.finished = false := (stopPhase_finished _ hc2.1).trans hf0
        have hg2 := Good.runEnv acts _ hgenter.stopPhase
        have hf2 : (runEnv (stopPhase (emit s [.enter])).1 acts).1.finished = false := by rw [runEnv_finished]; exact hf1
        have h3 := (h1.trans (Sim.of_runEnv acts _)).trans (Sim.of_arm hg2 hf2)
        obtain ⟨g1, g2⟩ := hg2.arm hf2
        split
        · rename_i hb; exact h3.trans (Sim.of_pollW fuel _ g1 (g2 hb))
        · exact h3
  | _ => exact Sim.of_envStep _ (by intro f; simp)

open ActixNet.Worker in
theorem DB.init (cfg : Cfg) : DB (Worker.init cfg) :=
  ⟨by show (([] ++ [] : List Conn).map (·.1)).Nodup; simp, by intro c hc; have : c ∈ ([] ++ [] : List Conn) := hc; simp at this⟩

open ActixNet.Worker in
theorem DB.run (ops : List Op) : ∀ (s : Worker.St), DB s → Good s → DB (run s ops) := by
  induction ops with
  | nil => intro s h _; exact h
  | cons o os ih => intro s h hg; exact ih _ ((Sim.of_stepY hg o).db h) (hg.stepY o)

open ActixNet.Worker in
/-- whole histories: the accept side's view after the history is what its own model computes from an action sequence -/
theorem sim_run (ops : List Op) : ∀ (s : Worker.St), DB s → Good s →
    ∃ acts, ∀ idx, applyActs (absW idx s) acts = absW idx (run s ops) := by
  induction ops with
  | nil => intro s _ _; exact ⟨[], fun _ => rfl⟩
  | cons o os ih =>
    intro s hd hg
    have hs := Sim.of_stepY hg o
    obtain ⟨a1, e1⟩ := hs.acts hd
    obtain ⟨a2, e2⟩ := ih _ (hs.db hd) (hg.stepY o)
    exact ⟨a1 ++ a2, fun idx => by rw [applyActs_append, e1]; exact e2 idx⟩

/-! ### a worker that is not shutting down only ever `recv`s -/

open ActixNet.Worker in
/-- `s'` differs from `s` (as the accept side sees it) by `taken` connections taken from the head of the channel
and handed to services, in that order; the counter is untouched -/
def Takes (s s' : Worker.St) (taken : List Srv.Conn) : Prop :=
  s.queue = taken ++ s'.queue ∧ s'.inflight = s.inflight ++ taken ∧ s'.raw = s.raw ∧ s'.finished = s.finished ∧
  ∃ evs, s'.log = s.log ++ evs ∧ callsOf evs = taken

open ActixNet.Worker in
theorem Takes.same {s s' : Worker.St} (h : coreQ s' = coreQ s) (evs : List Ev) (hl : s'.log = s.log ++ evs)
    (hc : callsOf evs = []) : Takes s s' [] := by
  simp only [coreQ, Prod.mk.injEq] at h
  exact ⟨by simp [h.1], by simp [h.2.1], h.2.2.1, h.2.2.2.1, evs, hl, hc⟩

open ActixNet.Worker in
theorem Takes.trans {a b c : Worker.St} {t1 t2 : List Srv.Conn} (h1 : Takes a b t1) (h2 : Takes b c t2) : Takes a c (t1 ++ t2) := by
  obtain ⟨a1, a2, a3, a4, e1, l1, c1⟩ := h1
  obtain ⟨b1, b2, b3, b4, e2, l2, c2⟩ := h2
  exact ⟨by rw [a1, b1]; simp, by rw [b2, a2]; simp, b3.trans a3, b4.trans a4, e1 ++ e2, by rw [l2, l1]; simp,
    by rw [callsOf_append, c1, c2]⟩

open ActixNet.Worker in
theorem arm_running_takes {s : Worker.St} (hg : Good s) (hr : Running s) : ∃ taken, Takes s (arm s).1 taken := by
  obtain ⟨hf, hns, hq, ho⟩ := hr
  have hsv := hg.svc
  unfold SvcOK at hsv
  rw [hf] at hsv; simp only [Bool.false_eq_true, false_or] at hsv
  cases hst : s.state with
  | shutdown t sf tx => exact absurd hst (hns t sf tx)
  | unavailable =>
    rw [hst] at hsv
    rcases h : sweep s with ⟨s1, r⟩
    have hc := sweep_n h
    simp only [core, Prod.mk.injEq] at hc
    obtain ⟨c1, c2, c3, c4, c5, c6, c7, c8, c9, c10, c11, c12, c13, c14, c15, c16⟩ := hc
    have hq5 : coreQ s1 = coreQ s := by simp only [coreQ, Prod.mk.injEq]; exact ⟨c4, c9, c7, c13, c11⟩
    cases r with
    | ok b =>
      obtain ⟨_, evs, d, e, _⟩ := sweep_ok_spec h hsv
      cases b with
      | true => rw [arm_unavail_true hst h]; exact ⟨[], Takes.same (s' := { s1 with state := .available }) hq5 evs d (callsOf_PR e.isPR)⟩
      | false => rw [arm_unavail_false hst h]; exact ⟨[], Takes.same hq5 evs d (callsOf_PR e.isPR)⟩
    | err i =>
      obtain ⟨_, _, _, evs, inc, d, e⟩ := sweep_err_spec h hsv
      rw [arm_unavail_err hst h]
      refine ⟨[], Takes.same (s' := restartService s1 i) hq5 (evs ++ [.pollReady i inc .err] ++ [.createService i])
        (by rw [(restartService_frame s1 i).1, d]; simp) ?_⟩
      rw [callsOf_append, callsOf_append, callsOf_PR e.isPR]; rfl
  | restarting tok fp fok sc =>
    cases fp with
    | succ k => rw [arm_restarting_pending hst]; exact ⟨[], Takes.same rfl [.facPoll tok .pending] rfl rfl⟩
    | zero => cases fok with
      | true => rw [arm_restarting_ok hst]; exact ⟨[], Takes.same rfl [.facPoll tok .ok] rfl rfl⟩
      | false => rw [arm_restarting_err hst]; exact ⟨[], Takes.same rfl [.facPoll tok .err] rfl rfl⟩
  | available =>
    rw [hst] at hsv
    have hsp := availLoop_spec s.queue s hsv
    have hso := availLoop_stopOpen s.queue s
    rcases hal : availLoop s s.queue with ⟨s1, r⟩
    rw [hal] at hsp hso
    obtain ⟨k1, _, ⟨tr, cs, last, g1, g2, g3, g4, g5, g6, _⟩, _, _, _, _⟩ := hsp
    simp only [core2, Prod.mk.injEq] at k1
    obtain ⟨c1, c2, c3, c4, c5, c6, c7, c8, c9, c10, c11, c12⟩ := k1
    have hlast : callsOf last = [] := by
      by_cases hrr : ∃ i, r = .restart i
      · obtain ⟨i, hi⟩ := hrr
        obtain ⟨evs, inc, e1, e2⟩ := g5 i hi
        rw [e1, callsOf_append, callsOf_PR e2.isPR]; rfl
      · exact callsOf_PR (g6 (fun i hi => hrr ⟨i, hi⟩)).isPR
    have h1 : Takes s s1 cs := ⟨g3, g4, c6, c11, tr ++ last, by rw [g1]; simp, by rw [callsOf_append, g2.callsOf, hlast]; simp⟩
    have hsame : ∀ (s2 : Worker.St) (evs : List Ev), coreQ s2 = coreQ s1 → s2.log = s1.log ++ evs → callsOf evs = [] → ∃ taken, Takes s s2 taken :=
      fun s2 evs hc hl hn => ⟨cs ++ [], h1.trans (Takes.same hc evs hl hn)⟩
    cases r with
    | pending => rw [arm_avail_pending hst hal]; exact ⟨cs, h1⟩
    | fault => rw [arm_avail_fault hst hal]; exact ⟨cs, h1⟩
    | toUnavailable => rw [arm_avail_unavail hst hal]; exact hsame _ [] rfl (by simp) rfl
    | restart i => rw [arm_avail_restart hst hal]; exact hsame _ [.createService i] rfl (restartService_frame s1 i).1 rfl
    | closed =>
      rw [arm_avail_closed hst hal, closedArm_nil_open (c5.trans hq) (hso.trans ho)]
      exact hsame _ [] rfl (by simp) rfl

open ActixNet.Worker in
/-- **a `poll` of a worker that is not shutting down is a sequence of `recv`s** — it takes the connections it hands to
services from the head of its channel, one at a time, in order, and touches nothing else the accept side can see -/
theorem pollW_running_takes (f : Nat) : ∀ (s : Worker.St), Good s → Running s → ∃ taken, Takes s (pollW f s) taken := by
  induction f with
  | zero => intro s _ _; exact ⟨[], Takes.same rfl [] (by simp [pollW, setFault]) rfl⟩
  | succ f ih =>
    intro s hg hr
    have hr0 : Running { s with stopWaker := true } := hr
    have hg0 : Good { s with stopWaker := true } := ⟨hg.svc, hg.lg.guarded, hg.lg.fifo, hg.lg.pairs⟩
    have h0 : Takes s { s with stopWaker := true } [] := Takes.same rfl [] (by simp) rfl
    simp only [pollW]
    unfold body
    rw [stopPhase_nil hr.2.2.1]
    by_cases hfl : s.fault.isSome = true
    · simp only [hfl, Bool.or_true, if_true]
      exact ⟨[], h0⟩
    · simp only [hfl, Bool.or_self, if_false, Bool.false_eq_true]
      obtain ⟨t1, ht1⟩ := arm_running_takes hg0 hr0
      split
      · obtain ⟨ra, _⟩ := arm_running hg0 hr0
        obtain ⟨g1, _⟩ := hg0.arm hr0.1
        obtain ⟨t2, ht2⟩ := ih _ g1 ra
        exact ⟨[] ++ t1 ++ t2, (h0.trans ht1).trans ht2⟩
      · exact ⟨[] ++ t1, h0.trans ht1⟩

open ActixNet.Worker in
theorem Takes.recvs {s s' : Worker.St} {taken : List Srv.Conn} (h : Takes s s' taken) (hf : s.finished = false) (idx : Nat) :
    applyActs (absW idx s) (List.replicate taken.length .recv) = absW idx s' := by
  obtain ⟨a1, a2, a3, a4, _⟩ := h
  rw [applyActs_recvs taken (absW idx s) s'.queue (by simp [absW, hf]) (by show s.queue = _; exact a1)]
  simp only [absW, a2, a3, a4]


open ActixNet.Worker in
/-- the `Shutdown` arm's drain, explicitly: `recv` then `finish` for every connection it releases, in queue order -/
theorem release_is_recv_finish {s : Worker.St} (hf : s.finished = false) (hd : DB s) :
    ∃ cs, s.queue = cs ++ (release s s.queue).queue ∧ (release s s.queue).log = s.log ++ cs.map .released ∧
      ∀ idx, applyActs (absW idx s) (cs.flatMap fun c => [.recv, .finish c.1]) = absW idx (release s s.queue) := by
  obtain ⟨hc, cs, h2, h3, h4, _⟩ := release_spec s.queue s
  simp only [core3, Prod.mk.injEq] at hc
  obtain ⟨c1, c2, c3, c4, c5, c6, c7, c8, c9, c10, c11, c12, c13, c14⟩ := hc
  refine ⟨cs, h3, h2, fun idx => ?_⟩
  have hnd : (((absW idx s).inflight ++ cs).map (·.1)).Nodup := by
    have := hd.dist
    rw [h3, ← List.append_assoc] at this
    simp only [List.map_append] at this ⊢
    exact (List.nodup_append.1 this).1
  rw [applyActs_release cs (absW idx s) (release s s.queue).queue (by simp [absW, hf]) (by show s.queue = _; exact h3) hnd]
  simp only [absW, c8, c12]
  congr 1
  omega

end ActixNet.Bridge
