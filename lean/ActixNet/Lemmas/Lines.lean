import ActixNet.Model.Lines
import ActixNet.Lemmas.Utf8
/-! Helper lemmas for the `LinesCodec` model (property theorems are in `Props/C15.lean`). -/
namespace ActixNet.Lines
open ActixNet.Utf8

theorem tryUtf8_eq_piece (b : Bytes) : tryUtf8 b = piece b := rfl

theorem piece_ne_none (b : Bytes) : piece b ≠ .none := by
  unfold piece; split <;> simp

theorem valid_nil : valid [] = true := rfl

/-- every byte string either has no LF or splits at its first LF -/
theorem lf_split (s : Bytes) : LF ∉ s ∨ ∃ a t, s = a ++ LF :: t ∧ LF ∉ a := by
  induction s with
  | nil => left; simp
  | cons b t ih =>
    by_cases hb : b = LF
    · right; exact ⟨[], t, by simp [hb], by simp⟩
    · rcases ih with h | ⟨a, t', rfl, ha⟩
      · left; simp [h]; exact fun h => hb h.symm
      · right; exact ⟨b :: a, t', by simp, by simp [ha]; exact fun h => hb h.symm⟩

theorem findLf_of_not_mem (a : Bytes) (h : LF ∉ a) : findLf a = none := by
  induction a with
  | nil => rfl
  | cons b t ih =>
    simp only [List.mem_cons, not_or] at h
    have hb : ¬ b = LF := fun e => h.1 e.symm
    simp [findLf, hb, ih h.2]

theorem findLf_split (a t : Bytes) (h : LF ∉ a) : findLf (a ++ LF :: t) = some a.length := by
  induction a with
  | nil => simp [findLf]
  | cons b a ih =>
    simp only [List.mem_cons, not_or] at h
    have hb : ¬ b = LF := fun e => h.1 e.symm
    simp [findLf, hb, ih h.2]

theorem splitOnLf_ne_nil (s : Bytes) : splitOnLf s ≠ [] := by
  induction s with
  | nil => simp [splitOnLf]
  | cons b t ih =>
    simp only [splitOnLf]; split
    · simp
    · split <;> simp

theorem splitOnLf_of_not_mem (a : Bytes) (h : LF ∉ a) : splitOnLf a = [a] := by
  induction a with
  | nil => rfl
  | cons b t ih =>
    simp only [List.mem_cons, not_or] at h
    have hb : ¬ b = LF := fun e => h.1 e.symm
    simp [splitOnLf, hb, ih h.2]

theorem splitOnLf_split (a t : Bytes) (h : LF ∉ a) :
    splitOnLf (a ++ LF :: t) = a :: splitOnLf t := by
  induction a with
  | nil => simp [splitOnLf]
  | cons b a ih =>
    simp only [List.mem_cons, not_or] at h
    have hb : ¬ b = LF := fun e => h.1 e.symm
    simp [splitOnLf, hb, ih h.2]

/-- the complete (LF-terminated) lines of `s` and its unterminated tail -/
def linesOf (s : Bytes) : List Bytes := (splitOnLf s).dropLast
def tailOf (s : Bytes) : Bytes := (splitOnLf s).getLastD []

theorem linesOf_split (a t : Bytes) (h : LF ∉ a) : linesOf (a ++ LF :: t) = a :: linesOf t := by
  unfold linesOf
  rw [splitOnLf_split a t h]
  cases hs : splitOnLf t with
  | nil => exact absurd hs (splitOnLf_ne_nil t)
  | cons x xs => simp [List.dropLast]

theorem tailOf_split (a t : Bytes) (h : LF ∉ a) : tailOf (a ++ LF :: t) = tailOf t := by
  unfold tailOf
  rw [splitOnLf_split a t h]
  cases hs : splitOnLf t with
  | nil => exact absurd hs (splitOnLf_ne_nil t)
  | cons x xs => simp [List.getLastD]

theorem linesOf_of_not_mem (a : Bytes) (h : LF ∉ a) : linesOf a = [] := by
  simp [linesOf, splitOnLf_of_not_mem a h]

theorem tailOf_of_not_mem (a : Bytes) (h : LF ∉ a) : tailOf a = a := by
  simp [tailOf, splitOnLf_of_not_mem a h]

theorem tailOf_no_lf_aux : ∀ (n : Nat) (s : Bytes), s.length < n → LF ∉ tailOf s := by
  intro n
  induction n with
  | zero => intro s h; omega
  | succ n ih =>
    intro s hs
    rcases lf_split s with h | ⟨a, t, rfl, ha⟩
    · rw [tailOf_of_not_mem s h]; exact h
    · rw [tailOf_split a t ha]
      exact ih t (by simp at hs; omega)

theorem tailOf_no_lf (s : Bytes) : LF ∉ tailOf s := tailOf_no_lf_aux (s.length + 1) s (by omega)

theorem splitSpec_eq (s : Bytes) :
    splitSpec s = (linesOf s).map (fun l => piece (stripCr l)) ++
      (if stripCr (tailOf s) = [] then [] else [piece (stripCr (tailOf s))]) := rfl

/-- `decode` on a buffer without LF asks for more data and leaves the buffer alone -/
theorem decode_no_lf (a : Bytes) (h : LF ∉ a) : decode a = (.none, a) := by
  unfold decode
  split
  · rfl
  · rw [findLf_of_not_mem a h]

/-- `decode` on a buffer with an LF yields the first line, CR-stripped and validated -/
theorem decode_split (a t : Bytes) (h : LF ∉ a) :
    decode (a ++ LF :: t) = (piece (stripCr a), t) := by
  unfold decode
  have hne : (a ++ LF :: t).isEmpty = false := by cases a <;> simp
  rw [hne, findLf_split a t h]
  have htake : (a ++ LF :: t).take a.length = a := by simp
  have hdrop : List.drop 1 (List.drop a.length (a ++ LF :: t)) = t := by simp
  simp only [Bool.false_eq_true, ↓reduceIte, htake, hdrop]
  cases hl : a.getLast? with
  | none =>
    have : a = [] := by simpa using hl
    subst this
    simp [stripCr, piece, valid_nil]
  | some x =>
    by_cases hx : x = 13
    · subst hx
      simp only [tryUtf8_eq_piece, stripCr, CR, List.dropLast_eq_take]
      simp [hl]
    · have hs : stripCr a = a := by
        simp only [stripCr, CR, hl]; simp [hx]
      rw [hs]
      split
      · rename_i heq; simp at heq; exact absurd heq hx
      · rename_i heq; simp at heq
      · simp [tryUtf8_eq_piece]

theorem decodeLoop_spec : ∀ (fuel : Nat) (s : Bytes), s.length < fuel →
    decodeLoop fuel s = ((linesOf s).map (fun l => piece (stripCr l)), tailOf s) := by
  intro fuel
  induction fuel with
  | zero => intro s h; omega
  | succ n ih =>
    intro s hs
    rcases lf_split s with h | ⟨a, t, rfl, ha⟩
    · simp [decodeLoop, decode_no_lf s h, linesOf_of_not_mem s h, tailOf_of_not_mem s h]
    · have hlen : t.length < n := by simp at hs; omega
      rw [decodeLoop, decode_split a t ha]
      have hp := piece_ne_none (stripCr a)
      rw [linesOf_split a t ha, tailOf_split a t ha]
      generalize hpe : piece (stripCr a) = p at hp
      cases p with
      | none => exact absurd rfl hp
      | ok x => simp [ih t hlen, hpe]
      | err => simp [ih t hlen, hpe]

/-- `decode_eof` on a tail without LF -/
theorem decodeEof_tail (a : Bytes) (h : LF ∉ a) :
    decodeEof a = if stripCr a = [] then (.none, a) else
      (piece (stripCr a), if a.getLast? = some CR then [CR] else []) := by
  unfold decodeEof
  rw [decode_no_lf a h]
  simp only
  by_cases he : a = []
  · subst he; simp [stripCr]
  · have hne : a.isEmpty = false := by cases a <;> simp_all
    rw [hne]
    simp only [Bool.false_eq_true, ↓reduceIte]
    cases hl : a.getLast? with
    | none => simp at hl; exact absurd hl he
    | some x =>
      by_cases hx : x = 13
      · subst hx
        obtain ⟨b, rfl⟩ := List.getLast?_eq_some_iff.mp hl
        have hstrip : stripCr (b ++ [13]) = b := by simp [stripCr, CR]
        simp only [hstrip]
        simp [CR, tryUtf8_eq_piece]
        by_cases hb : b = []
        · simp [hb]
        · simp [hb]
      · have hs : stripCr a = a := by simp only [stripCr, CR, hl]; simp [hx]
        rw [hs]
        have hcr : ¬ (some x = some CR) := by simp [CR, hx]
        simp only [he, hcr, if_false]
        split
        · rename_i heq; simp at heq; exact absurd heq hx
        · simp [hne, tryUtf8_eq_piece]

theorem eofLoop_tail (n : Nat) (a : Bytes) (h : LF ∉ a) :
    (eofLoop (n + 2) a).1 = if stripCr a = [] then [] else [piece (stripCr a)] := by
  rw [eofLoop, decodeEof_tail a h]
  by_cases hs : stripCr a = []
  · simp [hs]
  · simp only [hs, if_false]
    have hp := piece_ne_none (stripCr a)
    have hrest : ∀ r : Bytes, (r = [CR] ∨ r = []) → (eofLoop (n + 1) r).1 = [] := by
      intro r hr
      have hlf : LF ∉ r := by rcases hr with rfl | rfl <;> simp [LF, CR]
      have hst : stripCr r = [] := by rcases hr with rfl | rfl <;> simp [stripCr, CR]
      rw [eofLoop, decodeEof_tail r hlf]; simp [hst]
    have hr := hrest (if a.getLast? = some CR then [CR] else []) (by split <;> simp)
    generalize hpe : piece (stripCr a) = p at hp
    cases p with
    | none => exact absurd rfl hp
    | ok x => simp [hr]
    | err => simp [hr]

theorem decodeAll_eq_splitSpec (s : Bytes) : decodeAll s = splitSpec s := by
  unfold decodeAll
  rw [decodeLoop_spec (s.length + 1) s (by omega), splitSpec_eq]
  simp only
  rw [eofLoop_tail _ _ (tailOf_no_lf s)]

/-- encoding a sequence of strings into an empty buffer -/
def encodeAll (xs : List Bytes) : Bytes := xs.foldl (fun dst x => encode x dst) []

theorem encodeAll_eq_aux (xs : List Bytes) (d : Bytes) :
    xs.foldl (fun dst x => encode x dst) d = d ++ (xs.map (· ++ [LF])).flatten := by
  induction xs generalizing d with
  | nil => simp
  | cons x xs ih => simp [List.foldl, encode]

theorem encodeAll_eq (xs : List Bytes) : encodeAll xs = (xs.map (· ++ [LF])).flatten := by
  simp [encodeAll, encodeAll_eq_aux]

theorem stripCr_of_not_cr (x : Bytes) (h : x.getLast? ≠ some CR) : stripCr x = x := by
  simp [stripCr, h]

theorem linesOf_encoded (xs : List Bytes) (h : ∀ x ∈ xs, LF ∉ x) :
    linesOf ((xs.map (· ++ [LF])).flatten) = xs ∧ tailOf ((xs.map (· ++ [LF])).flatten) = [] := by
  induction xs with
  | nil => simp [linesOf, tailOf, splitOnLf]
  | cons x xs ih =>
    have hx : LF ∉ x := h x (by simp)
    have ih' := ih (fun y hy => h y (by simp [hy]))
    simp only [List.map_cons, List.flatten_cons, List.append_assoc, List.singleton_append]
    rw [linesOf_split x _ hx, tailOf_split x _ hx]
    exact ⟨by rw [ih'.1], ih'.2⟩

/-- a result other than `Ok(None)` is unaffected by bytes appended later and consumes input -/
theorem decode_stable (b rest : Bytes) (r : Res) (h : decode b = (r, rest)) (hr : r ≠ .none) :
    (∀ e, decode (b ++ e) = (r, rest ++ e)) ∧ rest.length < b.length := by
  rcases lf_split b with hn | ⟨a, t, rfl, ha⟩
  · rw [decode_no_lf b hn] at h; simp at h; exact absurd h.1.symm hr
  · rw [decode_split a t ha] at h
    simp only [Prod.mk.injEq] at h
    obtain ⟨h1, h2⟩ := h
    subst h1 h2
    refine ⟨fun e => ?_, by simp; omega⟩
    have : a ++ LF :: t ++ e = a ++ LF :: (t ++ e) := by simp
    rw [this, decode_split a (t ++ e) ha]

theorem piece_ok_valid (l x : Bytes) (h : piece l = .ok x) : x = l ∧ valid l = true := by
  unfold piece at h; split at h
  · simp at h; exact ⟨h.symm, ‹_›⟩
  · simp at h

theorem splitSpec_split (a t : Bytes) (h : LF ∉ a) :
    splitSpec (a ++ LF :: t) = piece (stripCr a) :: splitSpec t := by
  rw [splitSpec_eq, splitSpec_eq, linesOf_split a t h, tailOf_split a t h]; simp

theorem decodeEof_split (a t : Bytes) (h : LF ∉ a) :
    decodeEof (a ++ LF :: t) = (piece (stripCr a), t) := by
  unfold decodeEof
  rw [decode_split a t h]
  have hp := piece_ne_none (stripCr a)
  generalize piece (stripCr a) = p at hp
  cases p with
  | none => exact absurd rfl hp
  | ok x => rfl
  | err => rfl

/-- `decode_eof` alone, on a buffer that still holds complete lines, yields the reference split -/
theorem eofLoop_spec : ∀ (fuel : Nat) (s : Bytes), s.length + 2 ≤ fuel →
    (eofLoop fuel s).1 = splitSpec s := by
  intro fuel
  induction fuel with
  | zero => intro s h; omega
  | succ n ih =>
    intro s hs
    rcases lf_split s with h | ⟨a, t, rfl, ha⟩
    · obtain ⟨m, rfl⟩ : ∃ m, n = m + 1 := ⟨n - 1, by omega⟩
      rw [eofLoop_tail m s h, splitSpec_eq, linesOf_of_not_mem s h, tailOf_of_not_mem s h]; simp
    · have hlen : t.length + 2 ≤ n := by simp at hs; omega
      rw [eofLoop, decodeEof_split a t ha, splitSpec_split a t ha]
      have hp := piece_ne_none (stripCr a)
      generalize hpe : piece (stripCr a) = p at hp
      cases p with
      | none => exact absurd rfl hp
      | ok x => simp [ih t hlen]
      | err => simp [ih t hlen]

theorem eofAll_eq_splitSpec (s : Bytes) : eofAll s = splitSpec s :=
  eofLoop_spec _ s (Nat.le_refl _)

theorem lines_append_aux : ∀ (n : Nat) (x y : Bytes), x.length < n →
    linesOf (x ++ y) = linesOf x ++ linesOf (tailOf x ++ y) ∧
    tailOf (x ++ y) = tailOf (tailOf x ++ y) := by
  intro n
  induction n with
  | zero => intro x y h; omega
  | succ n ih =>
    intro x y hx
    rcases lf_split x with h | ⟨a, t, rfl, ha⟩
    · simp [linesOf_of_not_mem x h, tailOf_of_not_mem x h]
    · have hlen : t.length < n := by simp at hx; omega
      have e : a ++ LF :: t ++ y = a ++ LF :: (t ++ y) := by simp
      rw [e, linesOf_split a (t ++ y) ha, tailOf_split a (t ++ y) ha, linesOf_split a t ha,
        tailOf_split a t ha]
      obtain ⟨h1, h2⟩ := ih t y hlen
      exact ⟨by rw [h1]; simp, h2⟩

theorem lines_append (x y : Bytes) :
    linesOf (x ++ y) = linesOf x ++ linesOf (tailOf x ++ y) ∧
    tailOf (x ++ y) = tailOf (tailOf x ++ y) := lines_append_aux (x.length + 1) x y (by omega)

/-- one codec instance fed in pieces yields the lines of the whole; the tail of the whole is left -/
theorem chunked_eq : ∀ (ps : List Bytes) (buf : Bytes), LF ∉ buf →
    chunked buf ps = ((linesOf (buf ++ ps.flatten)).map (fun l => piece (stripCr l)),
      tailOf (buf ++ ps.flatten)) := by
  intro ps
  induction ps with
  | nil => intro buf h; simp [chunked, linesOf_of_not_mem buf h, tailOf_of_not_mem buf h]
  | cons p ps ih =>
    intro buf h
    simp only [chunked]
    rw [decodeLoop_spec _ (buf ++ p) (by omega)]
    simp only
    rw [ih (tailOf (buf ++ p)) (tailOf_no_lf _)]
    have e : buf ++ (p :: ps).flatten = (buf ++ p) ++ ps.flatten := by simp
    obtain ⟨h1, h2⟩ := lines_append (buf ++ p) ps.flatten
    rw [e, h1, h2]; simp

theorem chunkedAll_eq_splitSpec (pieces : List Bytes) : chunkedAll pieces = splitSpec pieces.flatten := by
  unfold chunkedAll
  rw [chunked_eq pieces [] (by simp)]
  simp only [List.nil_append]
  rw [eofLoop_tail _ _ (tailOf_no_lf _), splitSpec_eq]

theorem chunkedEof_eq_splitSpec (pieces : List Bytes) : chunkedEof pieces = splitSpec pieces.flatten := by
  unfold chunkedEof
  rw [chunked_eq pieces.dropLast [] (by simp), eofAll_eq_splitSpec]
  simp only [List.nil_append]
  have hfl : pieces.flatten = pieces.dropLast.flatten ++ pieces.getLastD [] := by
    cases h : pieces.getLast? with
    | none => have : pieces = [] := by simpa using h
              subst this; simp
    | some l =>
      obtain ⟨q, rfl⟩ := List.getLast?_eq_some_iff.mp h
      simp
  obtain ⟨h1, h2⟩ := lines_append pieces.dropLast.flatten (pieces.getLastD [])
  rw [hfl, splitSpec_eq (pieces.dropLast.flatten ++ _), h1, h2, splitSpec_eq]
  simp

end ActixNet.Lines
