#!/bin/sh
# tools/seed_queue.sh <Cxx> <crate> [prop]: confirm round-2 seeds 3 and 4 of a property, one after the other
P=$1; CR=$2; PR=${3:-$1}
for n in 3 4; do
  [ -f /tmp/seed2/$P/out/patch-$n.diff ] || { echo "no patch-$n for $P" > /verif/.build/sc-$P-$n.log; continue; }
  SEEDROOT=/tmp/seed2 /verif/tools/seed_confirm.sh $P $n $CR $PR > /verif/.build/sc-$P-$n.log 2>&1
done
