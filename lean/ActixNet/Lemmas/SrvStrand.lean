import ActixNet.Lemmas.SrvListen
/-!
# No listener is ever stranded (C05)

`SInv s`: every listener that is out of the poll set has a reason that will bring it back — the
server is paused (`Resume` registers every listener), or the listener has a back-off deadline
(`process_timeout` registers it when the deadline has passed).  Preserved by every operation of every
history (`run_si`), up to the iteration that processes `Stop`.
`TInv s`: every listener with a back-off deadline has the poll time-out armed, so the accept thread
wakes up by itself and `process_timeout` gets to run (`run_tinv`).
-/
namespace ActixNet.Srv
open ActixNet

def SInvV (v : LView) : Prop :=
  ∀ l, l < v.nLst → v.reg l = false → v.paused = true ∨ (v.dl l).isSome = true

def SInv (s : St) : Prop := SInvV (lview s)

theorem sinv_of_eq {s s'} (h : lview s' = lview s) (g : SInv s) : SInv s' := by unfold SInv at *; rw [h]; exact g

theorem registerAllFrom_other (ls : List Nat) : ∀ (s : St) (l : Nat), l ∉ ls →
    (registerAllFrom s ls).lst l = s.lst l := by
  induction ls with
  | nil => intro s l _; rfl
  | cons a as ih =>
    intro s l hl
    simp only [registerAllFrom]
    rw [ih _ l (fun h => hl (List.mem_cons_of_mem _ h))]
    have : l ≠ a := fun h => hl (h ▸ List.mem_cons_self)
    simp only [register]; split
    · simp [upd, this]
    · simp [upd, this]

theorem registerAllFrom_registers (ls : List Nat) (hnd : ls.Nodup) : ∀ (s : St) (l : Nat), l ∈ ls →
    ((registerAllFrom s ls).lst l).registered = true ∧ ((registerAllFrom s ls).lst l).backlog = (s.lst l).backlog ∧
    ((registerAllFrom s ls).lst l).linked = (s.lst l).linked ∧ ((registerAllFrom s ls).lst l).deadline = none := by
  induction ls with
  | nil => intro s l h; cases h
  | cons a as ih =>
    intro s l hl
    have hnd' := List.nodup_cons.mp hnd
    simp only [registerAllFrom]
    rcases List.mem_cons.mp hl with rfl | hl'
    · rw [registerAllFrom_other as _ l hnd'.1]
      simp only [register]; split
      · rename_i h; simp [upd] at h ⊢; exact h
      · simp [upd]
    · have := ih hnd'.2 (register { s with lst := upd s.lst a { s.lst a with deadline := none } } a) l hl'
      have hne : l ≠ a := fun h => hnd'.1 (h ▸ hl')
      have hsame : (register { s with lst := upd s.lst a { s.lst a with deadline := none } } a).lst l = s.lst l := by
        simp only [register]; split
        · simp [upd, hne]
        · simp [upd, hne]
      rw [hsame] at this; exact this

theorem register_lview' (s : St) (l : Nat) :
    lview (register s l) = ⟨upd (lview s).reg l true, (lview s).dl, (lview s).paused, (lview s).nLst⟩ := by
  unfold register; simp only; split
  · rename_i h
    simp only [lview]; congr 1
    funext v; by_cases hv : v = l
    · subst hv; simp [upd, h]
    · simp [upd, hv]
  · simp only [lview]; congr 1 <;> (funext v; by_cases hv : v = l <;> simp [upd, hv])

theorem setDeadline_lview (s : St) (l : Nat) (d : Option Nat) :
    lview { s with lst := upd s.lst l { s.lst l with deadline := d } } =
      ⟨(lview s).reg, upd (lview s).dl l d, (lview s).paused, (lview s).nLst⟩ := by
  simp only [lview]; congr 1 <;> (funext v; by_cases hv : v = l <;> simp [upd, hv])

theorem backoff_sinv (s : St) (l : Nat) (d t : Nat) (h : SInv s) :
    SInv (setTimeout { (deregister s l) with lst := upd (deregister s l).lst l { (deregister s l).lst l with deadline := some d } } t) := by
  have hv : lview (setTimeout { (deregister s l) with lst := upd (deregister s l).lst l { (deregister s l).lst l with deadline := some d } } t) =
      ⟨upd (lview s).reg l false, upd (lview s).dl l (some d), (lview s).paused, (lview s).nLst⟩ := by
    have : ∀ (x : St) (t : Nat), lview (setTimeout x t) = lview x := by
      intro x t; unfold setTimeout; split
      · split <;> rfl
      · rfl
    rw [this]
    simp only [lview, deregister]
    congr 1 <;> (funext v; by_cases hv : v = l <;> simp [upd, hv])
  unfold SInv; rw [hv]
  intro l' hl' hr
  by_cases hl : l' = l
  · subst hl; right; simp [upd]
  · simp only [upd, hl, ↓reduceIte] at hr ⊢; exact h l' hl' hr

theorem accept_sinv (cfg : Cfg) : ∀ (fuel : Nat) (s : St) (l : Nat), SInv s → SInv (accept cfg fuel s l) := by
  intro fuel; induction fuel with
  | zero => intro s l h; exact sinv_of_eq rfl h
  | succ f ih =>
    intro s l h
    simp only [accept]
    split
    · exact h
    · split
      · exact h
      · have h0 : SInv (yieldPt cfg s) := sinv_of_eq (yieldPt_lview cfg s) h
        have h1 : SInv (acceptSys (yieldPt cfg s) l).1 := sinv_of_eq (acceptSys_lview _ l) h0
        generalize acceptSys (yieldPt cfg s) l = r at h1
        obtain ⟨s1, res⟩ := r
        cases res with
        | conn c => exact ih _ l (sinv_of_eq (acceptOne_lview cfg _ s1 c) h1)
        | wouldBlock => exact h1
        | connErr => exact ih _ l h1
        | otherErr => exact backoff_sinv s1 l _ _ h1

theorem acceptAllFrom_sinv (cfg : Cfg) : ∀ (ls : List Nat) (s : St), SInv s → SInv (acceptAllFrom cfg s ls) := by
  intro ls; induction ls with
  | nil => intro s h; exact h
  | cons l ls ih => intro s h; simp only [acceptAllFrom]; exact ih _ (accept_sinv cfg _ s l h)

theorem acceptAll_sinv (cfg : Cfg) {s : St} (h : SInv s) : SInv (acceptAll cfg s) := acceptAllFrom_sinv cfg _ s h

theorem pause_sinv (s : St) (hl : LInv s) : SInv (deregisterAll { s with paused := true }) := by
  obtain ⟨_, _, i3, _⟩ := deregisterAllFrom_lview (List.range s.nLst) { s with paused := true } (fun l d hd => hl.dd l d hd)
  intro l _ _
  left
  simp only [lview, deregisterAll]
  rw [i3]

theorem resume_sinv (s : St) : SInv (registerAllFrom { s with paused := false } (List.range s.nLst)) := by
  obtain ⟨_, _, _, i4⟩ := registerAllFrom_lview (List.range s.nLst) { s with paused := false }
  intro l hl hr
  simp only [lview] at hl hr
  rw [i4] at hl
  have := (registerAllFrom_registers (List.range s.nLst) List.nodup_range { s with paused := false } l (List.mem_range.mpr hl)).1
  rw [this] at hr; cases hr

theorem processTimeoutFrom_sinv (now : Nat) : ∀ (ls : List Nat) (s : St), SInv s → SInv (processTimeoutFrom s now ls) := by
  intro ls; induction ls with
  | nil => intro s h; exact h
  | cons l ls ih =>
    intro s h
    simp only [processTimeoutFrom]
    split
    · exact ih _ h
    · rename_i inst hdl
      apply ih
      have setT : ∀ (x : St) (t : Nat), lview (setTimeout x t) = lview x := by
        intro x t; unfold setTimeout; split
        · split <;> rfl
        · rfl
      split
      · apply sinv_of_eq (s := s) _ h
        rw [setT]
        simp only [lview]
        congr 1 <;> (funext v; by_cases hv : v = l <;> simp [upd, hv, hdl])
      · split
        · -- expired and not paused: the listener is registered again
          unfold SInv
          rw [register_lview', setDeadline_lview]
          intro l' hl' hr
          by_cases hll : l' = l
          · subst hll; simp [upd] at hr
          · simp only [upd, hll, ↓reduceIte] at hr ⊢
            exact h l' hl' hr
        · -- expired while paused
          rename_i hnp
          have hp : s.paused = true := by simpa using hnp
          intro l' _ _
          left; exact hp

theorem processTimeout_sinv (s : St) (h : SInv s) : SInv (processTimeout s) := by
  unfold processTimeout; split
  · exact h
  · exact processTimeoutFrom_sinv _ _ _ (sinv_of_eq rfl h)


theorem handleWaker_sinv (cfg : Cfg) : ∀ (fuel : Nat) (s : St), LInv s → SInv s →
    (handleWaker cfg fuel s).2 = false → SInv (handleWaker cfg fuel s).1 := by
  intro fuel; induction fuel with
  | zero => intro s _ h _; exact sinv_of_eq rfl h
  | succ f ih =>
    intro s hl h
    simp only [handleWaker]
    split
    · intro _; exact h
    · have l0 : LInv (yieldPt cfg s) := linv_of_eq (yieldPt_lview cfg s) hl
      have h0 : SInv (yieldPt cfg s) := sinv_of_eq (yieldPt_lview cfg s) h
      generalize yieldPt cfg s = s0 at l0 h0 ⊢
      cases hwq : s0.wq with
      | nil => intro _; exact h0
      | cons i q =>
        simp only
        have l1 : LInv { s0 with wq := q } := linv_of_eq (s := s0) rfl l0
        have h1 : SInv { s0 with wq := q } := sinv_of_eq (s := s0) rfl h0
        cases i with
        | workerAvail idx =>
          have l2 : LInv (wakePrim { s0 with wq := q } idx) := linv_of_eq (wakePrim_lview _ idx) l1
          have h2 : SInv (wakePrim { s0 with wq := q } idx) := sinv_of_eq (wakePrim_lview _ idx) h1
          simp only
          split
          · exact ih _ (acceptAll_linv cfg l2) (acceptAll_sinv cfg h2)
          · exact ih _ l2 h2
        | worker w =>
          have l2 : LInv (addWorker { s0 with wq := q } w) := linv_of_eq (addWorker_lview _ w) l1
          have h2 : SInv (addWorker { s0 with wq := q } w) := sinv_of_eq (addWorker_lview _ w) h1
          simp only
          split
          · exact ih _ (acceptAll_linv cfg l2) (acceptAll_sinv cfg h2)
          · exact ih _ l2 h2
        | pause =>
          simp only
          split
          · exact ih _ (pause_linv _ l1) (pause_sinv _ l1)
          · exact ih _ l1 h1
        | resume =>
          simp only
          split
          · exact ih _ (acceptAll_linv cfg (resume_linv _ l1)) (acceptAll_sinv cfg (resume_sinv { s0 with wq := q }))
          · exact ih _ l1 h1
        | stop =>
          simp only
          split <;> (intro hx; cases hx)

theorem pollEvents_sinv (cfg : Cfg) : ∀ (order : List Ev) (s : St), LInv s → SInv s →
    (pollEvents cfg s order).2 = false → SInv (pollEvents cfg s order).1 := by
  intro order; induction order with
  | nil => intro s _ h _; exact h
  | cons e es ih =>
    intro s hl h
    simp only [pollEvents]
    cases e with
    | waker =>
      simp only
      have lw := handleWaker_linv cfg (wakerFuel s) s hl
      have hw := handleWaker_sinv cfg (wakerFuel s) s hl h
      generalize handleWaker cfg (wakerFuel s) s = r at lw hw
      obtain ⟨s1, ex⟩ := r
      simp only at lw hw ⊢
      cases ex with
      | true => simp
      | false => simp only [Bool.false_eq_true, ↓reduceIte]; exact ih _ lw (hw rfl)
    | listener l => exact ih _ (accept_linv cfg _ s l hl) (accept_sinv cfg _ s l h)

/-- what holds between operations: the accept loop has exited (`Stop`), or no listener is stranded -/
def SI (s : St) : Prop := s.exited = true ∨ SInv s

theorem poll_si (cfg : Cfg) {s : St} (hl : LInv s) (h : SI s) (order : List Ev) (sched : List (List EnvAct)) :
    SI (poll cfg s order sched) := by
  unfold poll
  split
  · exact h
  · rename_i hc
    have hne : s.exited = false := by
      cases he : s.exited with
      | false => rfl
      | true => simp [he] at hc
    have h' : SInv s := by
      rcases h with h | h
      · rw [hne] at h; cases h
      · exact h
    have hce : lview (clearEdges { s with sched := sched, yields := 0 }) = lview s := by
      simp only [lview, clearEdges]
      congr 1 <;> (funext l; split <;> rfl)
    have l0 : LInv (clearEdges { s with sched := sched, yields := 0 }) := linv_of_eq hce hl
    have h0 : SInv (clearEdges { s with sched := sched, yields := 0 }) := sinv_of_eq hce h'
    have h1 := pollEvents_sinv cfg order _ l0 h0
    generalize (pollEvents cfg (clearEdges { s with sched := sched, yields := 0 }) order) = r at h1
    unfold pollFinish
    split
    · left; rfl
    · rename_i hx
      right
      have : r.2 = false := by simpa using hx
      exact sinv_of_eq (s := processTimeout r.1) rfl (processTimeout_sinv _ (h1 this))

theorem envStep_exited (cfg : Cfg) (s : St) (a : EnvAct) : (envStep cfg s a).1.exited = s.exited := by
  cases a <;> simp only [envStep, pushWq] <;> repeat' split
  all_goals rfl

theorem runEnv_exited (cfg : Cfg) : ∀ (as : List EnvAct) (s : St), (runEnv cfg s as).exited = s.exited := by
  intro as; induction as with
  | nil => intro s; rfl
  | cons a as ih => intro s; simp only [runEnv]; rw [ih]; exact envStep_exited cfg s a

theorem runEnv_si (cfg : Cfg) (as : List EnvAct) (s : St) (h : SI s) : SI (runEnv cfg s as) := by
  rcases h with h | h
  · left; rw [runEnv_exited]; exact h
  · right; exact sinv_of_eq (runEnv_lview cfg as s) h

theorem step_si (cfg : Cfg) {s : St} (hl : LInv s) (h : SI s) (op : Op) : SI (Srv.step cfg s op) := by
  cases op with
  | env a => exact runEnv_si cfg [a] s h
  | poll order sched => exact poll_si cfg hl h order sched
  | finishW2 w c order =>
    simp only [Srv.step]
    have l1 : LInv { (envStep cfg s (.finish w c)).1 with acts := (envStep cfg s (.finish w c)).1.acts ++ [(envStep cfg s (.finish w c)).2] } :=
      linv_of_eq (s := (envStep cfg s (.finish w c)).1) rfl (linv_of_eq (envStep_lview cfg s _) hl)
    have h1 : SI { (envStep cfg s (.finish w c)).1 with acts := (envStep cfg s (.finish w c)).1.acts ++ [(envStep cfg s (.finish w c)).2] } := by
      rcases h with h | h
      · left; show (envStep cfg s (.finish w c)).1.exited = true; rw [envStep_exited]; exact h
      · right; exact sinv_of_eq (s := (envStep cfg s (.finish w c)).1) rfl (sinv_of_eq (envStep_lview cfg s _) h)
    split
    · exact runEnv_si cfg _ _ (poll_si cfg l1 h1 order [])
    · exact h1

theorem run_si (cfg : Cfg) : ∀ (ops : List Op) (s : St), LInv s → SI s → SI (run cfg s ops) := by
  intro ops; induction ops with
  | nil => intro s _ h; exact h
  | cons op ops ih => intro s hl h; simp only [run]; exact ih _ (step_linv cfg hl op) (step_si cfg hl h op)

theorem init_si (cfg : Cfg) (kinds : List Kind) : SI (init cfg kinds) := by
  right
  intro l _ hr
  simp [lview, init] at hr


/-! ### every pending back-off has the poll time-out armed -/

/-- a listener that is backing off has the accept thread's poll time-out armed, so the thread wakes
up by itself and `process_timeout` runs -/
def TInv (s : St) : Prop := ∀ l, l < s.nLst → (s.lst l).deadline.isSome = true → s.timeout.isSome = true

/-- `s'` has the same deadlines, listeners and time-out as `s` -/
def TEq (s s' : St) : Prop := lview s' = lview s ∧ s'.timeout = s.timeout

theorem TEq.tinv {s s'} (e : TEq s s') (h : TInv s) : TInv s' := by
  intro l hl hd
  have h1 : s'.nLst = s.nLst := congrArg LView.nLst e.1
  have h2 : (s'.lst l).deadline = (s.lst l).deadline := congrFun (congrArg LView.dl e.1) l
  rw [e.2]; exact h l (h1 ▸ hl) (h2 ▸ hd)
theorem TEq.refl (s : St) : TEq s s := ⟨rfl, rfl⟩
theorem TEq.trans {a b c : St} (h1 : TEq a b) (h2 : TEq b c) : TEq a c := ⟨h2.1.trans h1.1, h2.2.trans h1.2⟩

theorem envStep_timeout (cfg : Cfg) (s : St) (a : EnvAct) : (envStep cfg s a).1.timeout = s.timeout := by
  cases a <;> simp only [envStep, pushWq] <;> repeat' split
  all_goals rfl
theorem runEnv_timeout (cfg : Cfg) : ∀ (as : List EnvAct) (s : St), (runEnv cfg s as).timeout = s.timeout := by
  intro as; induction as with
  | nil => intro s; rfl
  | cons a as ih => intro s; simp only [runEnv]; rw [ih]; exact envStep_timeout cfg s a
theorem yieldPt_teq (cfg : Cfg) (s : St) : TEq s (yieldPt cfg s) := by
  refine ⟨yieldPt_lview cfg s, ?_⟩
  unfold yieldPt; split
  · rfl
  · rw [runEnv_timeout]
theorem setAvail_timeout (s : St) (i : Nat) (v : Bool) : (setAvail s i v).timeout = s.timeout := by
  unfold setAvail; split <;> rfl
theorem setNext_timeout (s : St) : (setNext s).timeout = s.timeout := by unfold setNext; split <;> rfl
theorem incPrim_timeout (cfg : Cfg) (s : St) (w i : Nat) : (incPrim cfg s w i).timeout = s.timeout := by
  unfold incPrim; simp only; split
  · rfl
  · rw [setAvail_timeout]
theorem sendFail_timeout (s : St) (w : Nat) (c : Conn) : (sendFail s w c).1.timeout = s.timeout := by
  have h : (removeNext s w).timeout = s.timeout := by unfold removeNext; simp only; rw [setAvail_timeout]
  unfold sendFail; simp only
  split
  · exact h
  · split <;> exact h
theorem sendConnection_timeout (cfg : Cfg) (s : St) (c : Conn) : (sendConnection cfg s c).1.timeout = s.timeout := by
  unfold sendConnection
  split
  · rfl
  · split
    · rfl
    · split
      · rw [setNext_timeout, incPrim_timeout, (yieldPt_teq cfg _).2]; rfl
      · exact sendFail_timeout s _ c
theorem forcedSend_timeout (cfg : Cfg) : ∀ (fuel : Nat) (s : St) (c : Conn), (forcedSend cfg fuel s c).timeout = s.timeout := by
  intro fuel; induction fuel with
  | zero => intro s c; rfl
  | succ f ih =>
    intro s c
    simp only [forcedSend]
    have h1 := sendConnection_timeout cfg s c
    generalize sendConnection cfg s c = r at h1
    obtain ⟨s1, b⟩ := r
    cases b with
    | true => exact h1
    | false => simp only [Bool.false_eq_true, ↓reduceIte]; rw [ih s1 c]; exact h1
theorem acceptOne_timeout (cfg : Cfg) : ∀ (fuel : Nat) (s : St) (c : Conn), (acceptOne cfg fuel s c).timeout = s.timeout := by
  intro fuel; induction fuel with
  | zero => intro s c; rfl
  | succ f ih =>
    intro s c
    simp only [acceptOne]
    split
    · rfl
    · split
      · rfl
      · rename_i w _
        split
        · have h1 := sendConnection_timeout cfg s c
          generalize sendConnection cfg s c = r at h1
          obtain ⟨s1, b⟩ := r
          cases b with
          | true => exact h1
          | false => simp only [Bool.false_eq_true, ↓reduceIte]; rw [ih s1 c]; exact h1
        · have h2 : (setNext (setAvail s (s.wk w).idx false)).timeout = s.timeout := by
            rw [setNext_timeout, setAvail_timeout]
          split
          · rw [forcedSend_timeout]; exact h2
          · rw [ih]; exact h2
theorem acceptSys_timeout (s : St) (l : Nat) : (acceptSys s l).1.timeout = s.timeout := by
  unfold acceptSys; simp only
  split
  · rename_i e es _
    cases e with
    | kind k => simp only; split
                · rfl
                · split <;> rfl
    | emfile => rfl
  · split <;> rfl

theorem setTimeout_some (s : St) (d : Nat) : (setTimeout s d).timeout.isSome = true := by
  unfold setTimeout; split
  · split <;> simp_all
  · rfl

theorem setTimeout_lview (x : St) (t : Nat) : lview (setTimeout x t) = lview x := by
  unfold setTimeout; split
  · split <;> rfl
  · rfl

theorem accept_tinv (cfg : Cfg) : ∀ (fuel : Nat) (s : St) (l : Nat), TInv s → TInv (accept cfg fuel s l) := by
  intro fuel; induction fuel with
  | zero => intro s l h; exact TEq.tinv (s := s) ⟨rfl, rfl⟩ h
  | succ f ih =>
    intro s l h
    simp only [accept]
    split
    · exact h
    · split
      · exact h
      · have h0 : TInv (yieldPt cfg s) := (yieldPt_teq cfg s).tinv h
        have h1 : TInv (acceptSys (yieldPt cfg s) l).1 := TEq.tinv ⟨acceptSys_lview _ l, acceptSys_timeout _ l⟩ h0
        generalize acceptSys (yieldPt cfg s) l = r at h1
        obtain ⟨s1, res⟩ := r
        cases res with
        | conn c => exact ih _ l (TEq.tinv ⟨acceptOne_lview cfg _ s1 c, acceptOne_timeout cfg _ s1 c⟩ h1)
        | wouldBlock => exact h1
        | connErr => exact ih _ l h1
        | otherErr =>
          intro l' _ _
          exact setTimeout_some _ _

theorem acceptAllFrom_tinv (cfg : Cfg) : ∀ (ls : List Nat) (s : St), TInv s → TInv (acceptAllFrom cfg s ls) := by
  intro ls; induction ls with
  | nil => intro s h; exact h
  | cons l ls ih => intro s h; simp only [acceptAllFrom]; exact ih _ (accept_tinv cfg _ s l h)
theorem acceptAll_tinv (cfg : Cfg) {s : St} (h : TInv s) : TInv (acceptAll cfg s) := acceptAllFrom_tinv cfg _ s h


theorem register_t (s : St) (l : Nat) : (register s l).timeout = s.timeout ∧ (register s l).nLst = s.nLst ∧
    ∀ j, ((register s l).lst j).deadline = (s.lst j).deadline := by
  unfold register; simp only; split
  · exact ⟨rfl, rfl, fun _ => rfl⟩
  · refine ⟨rfl, rfl, fun j => ?_⟩
    by_cases hj : j = l <;> simp [upd, hj]

theorem deregister_t (s : St) (l : Nat) : (deregister s l).timeout = s.timeout ∧ (deregister s l).nLst = s.nLst ∧
    ∀ j, ((deregister s l).lst j).deadline = (s.lst j).deadline := by
  refine ⟨rfl, rfl, fun j => ?_⟩
  by_cases hj : j = l <;> simp [deregister, upd, hj]

/-- `deregister_all` / the `Resume` arm only ever clear deadlines and leave the time-out alone -/
theorem deregisterAllFrom_t : ∀ (ls : List Nat) (s : St),
    (deregisterAllFrom s ls).timeout = s.timeout ∧ (deregisterAllFrom s ls).nLst = s.nLst ∧
    ∀ j, ((deregisterAllFrom s ls).lst j).deadline.isSome = true → (s.lst j).deadline.isSome = true := by
  intro ls; induction ls with
  | nil => intro s; exact ⟨rfl, rfl, fun _ h => h⟩
  | cons l ls ih =>
    intro s
    simp only [deregisterAllFrom]
    have key : ∀ s2 : St, s2.timeout = s.timeout → s2.nLst = s.nLst →
        (∀ j, (s2.lst j).deadline.isSome = true → (s.lst j).deadline.isSome = true) →
        (deregisterAllFrom s2 ls).timeout = s.timeout ∧ (deregisterAllFrom s2 ls).nLst = s.nLst ∧
        ∀ j, ((deregisterAllFrom s2 ls).lst j).deadline.isSome = true → (s.lst j).deadline.isSome = true := by
      intro s2 a b c
      obtain ⟨i1, i2, i3⟩ := ih s2
      exact ⟨i1.trans a, i2.trans b, fun j hj => c j (i3 j hj)⟩
    have hclr : ∀ j, (({ s with lst := upd s.lst l { s.lst l with deadline := none } } : St).lst j).deadline.isSome = true →
        (s.lst j).deadline.isSome = true := by
      intro j hj
      by_cases hjl : j = l
      · subst hjl; simp [upd] at hj
      · simpa [upd, hjl] using hj
    split
    · obtain ⟨d1, d2, d3⟩ := deregister_t { s with lst := upd s.lst l { s.lst l with deadline := none } } l
      exact key _ d1 d2 (fun j hj => hclr j (by rw [d3 j] at hj; exact hj))
    · exact key _ rfl rfl hclr

theorem registerAllFrom_t : ∀ (ls : List Nat) (s : St),
    (registerAllFrom s ls).timeout = s.timeout ∧ (registerAllFrom s ls).nLst = s.nLst ∧
    ∀ j, ((registerAllFrom s ls).lst j).deadline.isSome = true → (s.lst j).deadline.isSome = true := by
  intro ls; induction ls with
  | nil => intro s; exact ⟨rfl, rfl, fun _ h => h⟩
  | cons l ls ih =>
    intro s
    simp only [registerAllFrom]
    obtain ⟨i1, i2, i3⟩ := ih (register { s with lst := upd s.lst l { s.lst l with deadline := none } } l)
    obtain ⟨r1, r2, r3⟩ := register_t { s with lst := upd s.lst l { s.lst l with deadline := none } } l
    refine ⟨i1.trans r1, i2.trans r2, fun j hj => ?_⟩
    have := i3 j hj
    rw [r3 j] at this
    by_cases hjl : j = l
    · subst hjl; simp [upd] at this
    · simpa [upd, hjl] using this

theorem setTimeout_t (s : St) (d : Nat) : (setTimeout s d).nLst = s.nLst ∧ (setTimeout s d).lst = s.lst := by
  unfold setTimeout; split
  · split <;> exact ⟨rfl, rfl⟩
  · exact ⟨rfl, rfl⟩

/-- the loop of `process_timeout`: whatever deadline it leaves in place has the time-out re-armed -/
theorem processTimeoutFrom_t (now : Nat) : ∀ (ls : List Nat) (s : St), ls.Nodup →
    (s.timeout.isSome = true → (processTimeoutFrom s now ls).timeout.isSome = true) ∧
    (processTimeoutFrom s now ls).nLst = s.nLst ∧
    (∀ j, j ∉ ls → ((processTimeoutFrom s now ls).lst j).deadline = (s.lst j).deadline) ∧
    (∀ j, j ∈ ls → ((processTimeoutFrom s now ls).lst j).deadline.isSome = true →
      (processTimeoutFrom s now ls).timeout.isSome = true) := by
  intro ls; induction ls with
  | nil => intro s _; exact ⟨id, rfl, fun _ _ => rfl, fun j hj => by cases hj⟩
  | cons l ls ih =>
    intro s hnd
    obtain ⟨hl, hnd'⟩ := List.nodup_cons.mp hnd
    simp only [processTimeoutFrom]
    -- generic continuation: `s2` is the state after handling `l`
    have key : ∀ s2 : St, (s.timeout.isSome = true → s2.timeout.isSome = true) → s2.nLst = s.nLst →
        (∀ j, j ≠ l → (s2.lst j).deadline = (s.lst j).deadline) →
        ((s2.lst l).deadline.isSome = true → s2.timeout.isSome = true) →
        (s.timeout.isSome = true → (processTimeoutFrom s2 now ls).timeout.isSome = true) ∧
        (processTimeoutFrom s2 now ls).nLst = s.nLst ∧
        (∀ j, j ∉ l :: ls → ((processTimeoutFrom s2 now ls).lst j).deadline = (s.lst j).deadline) ∧
        (∀ j, j ∈ l :: ls → ((processTimeoutFrom s2 now ls).lst j).deadline.isSome = true →
          (processTimeoutFrom s2 now ls).timeout.isSome = true) := by
      intro s2 a b c d
      obtain ⟨i1, i2, i3, i4⟩ := ih s2 hnd'
      refine ⟨fun h => i1 (a h), i2.trans b, fun j hj => ?_, fun j hj hd => ?_⟩
      · have hjl : j ≠ l := fun e => hj (e ▸ List.mem_cons_self)
        have hjls : j ∉ ls := fun e => hj (List.mem_cons_of_mem _ e)
        rw [i3 j hjls, c j hjl]
      · rcases List.mem_cons.mp hj with rfl | hjls
        · rw [i3 j hl] at hd
          exact i1 (d hd)
        · exact i4 j hjls hd
    split
    · rename_i hdl
      exact key s id rfl (fun _ _ => rfl) (fun h => by rw [hdl] at h; cases h)
    · rename_i inst hdl
      split
      · -- still backing off: deadline restored, time-out armed
        obtain ⟨t1, t2⟩ := setTimeout_t { ({ s with lst := upd s.lst l { s.lst l with deadline := none } } : St) with lst := upd ({ s with lst := upd s.lst l { s.lst l with deadline := none } } : St).lst l { ({ s with lst := upd s.lst l { s.lst l with deadline := none } } : St).lst l with deadline := some inst } } (inst - now)
        refine key _ (fun _ => setTimeout_some _ _) t1 (fun j hj => ?_) (fun _ => setTimeout_some _ _)
        rw [t2]; simp [upd, hj]
      · split
        · obtain ⟨r1, r2, r3⟩ := register_t { s with lst := upd s.lst l { s.lst l with deadline := none } } l
          refine key _ (fun h => by rw [r1]; exact h) r2 (fun j hj => by rw [r3 j]; simp [upd, hj]) (fun h => ?_)
          rw [r3 l] at h; simp [upd] at h
        · refine key _ id rfl (fun j hj => by simp [upd, hj]) (fun h => ?_)
          simp [upd] at h

theorem processTimeout_tinv (s : St) (h : TInv s) : TInv (processTimeout s) := by
  unfold processTimeout; split
  · exact h
  · obtain ⟨_, p2, _, p4⟩ := processTimeoutFrom_t s.now (List.range s.nLst) { s with timeout := none } List.nodup_range
    intro l hl hd
    rw [p2] at hl
    exact p4 l (List.mem_range.mpr hl) hd

theorem wakePrim_timeout (s : St) (i : Nat) : (wakePrim s i).timeout = s.timeout := by
  unfold wakePrim; split
  · exact setAvail_timeout _ _ _
  · rfl
theorem addWorker_timeout (s : St) (w : Nat) : (addWorker s w).timeout = s.timeout := by
  unfold addWorker; simp only; exact setAvail_timeout _ _ _

theorem handleWaker_tinv (cfg : Cfg) : ∀ (fuel : Nat) (s : St), TInv s → TInv (handleWaker cfg fuel s).1 := by
  intro fuel; induction fuel with
  | zero => intro s h; exact TEq.tinv (s := s) ⟨rfl, rfl⟩ h
  | succ f ih =>
    intro s h
    simp only [handleWaker]
    split
    · exact h
    · have h0 : TInv (yieldPt cfg s) := (yieldPt_teq cfg s).tinv h
      generalize yieldPt cfg s = s0 at h0 ⊢
      cases hwq : s0.wq with
      | nil => exact h0
      | cons i q =>
        simp only
        have h1 : TInv { s0 with wq := q } := TEq.tinv (s := s0) ⟨rfl, rfl⟩ h0
        have clr : ∀ (s2 s3 : St), TInv s2 → s3.timeout = s2.timeout → s3.nLst = s2.nLst →
            (∀ j, (s3.lst j).deadline.isSome = true → (s2.lst j).deadline.isSome = true) → TInv s3 := by
          intro s2 s3 h2 a b c l hl hd
          rw [a]; exact h2 l (b ▸ hl) (c l hd)
        cases i with
        | workerAvail idx =>
          have h2 : TInv (wakePrim { s0 with wq := q } idx) := TEq.tinv ⟨wakePrim_lview _ idx, wakePrim_timeout _ idx⟩ h1
          simp only
          split
          · exact ih _ (acceptAll_tinv cfg h2)
          · exact ih _ h2
        | worker w =>
          have h2 : TInv (addWorker { s0 with wq := q } w) := TEq.tinv ⟨addWorker_lview _ w, addWorker_timeout _ w⟩ h1
          simp only
          split
          · exact ih _ (acceptAll_tinv cfg h2)
          · exact ih _ h2
        | pause =>
          simp only
          split
          · obtain ⟨d1, d2, d3⟩ := deregisterAllFrom_t (List.range s0.nLst) { s0 with wq := q, paused := true }
            exact ih _ (clr { s0 with wq := q } _ h1 d1 d2 d3)
          · exact ih _ h1
        | resume =>
          simp only
          split
          · obtain ⟨d1, d2, d3⟩ := registerAllFrom_t (List.range s0.nLst) { s0 with wq := q, paused := false }
            exact ih _ (acceptAll_tinv cfg (clr { s0 with wq := q } _ h1 d1 d2 d3))
          · exact ih _ h1
        | stop =>
          simp only
          have hcl : ∀ t : St, TInv t → TInv (cleanupAll t) := fun t ht =>
            TEq.tinv ⟨cleanupAll_lview t, rfl⟩ ht
          split
          · obtain ⟨d1, d2, d3⟩ := deregisterAllFrom_t (List.range s0.nLst) { s0 with wq := q }
            exact hcl _ (clr { s0 with wq := q } _ h1 d1 d2 d3)
          · exact hcl _ h1

theorem pollEvents_tinv (cfg : Cfg) : ∀ (order : List Ev) (s : St), TInv s → TInv (pollEvents cfg s order).1 := by
  intro order; induction order with
  | nil => intro s h; exact h
  | cons e es ih =>
    intro s h
    simp only [pollEvents]
    cases e with
    | waker =>
      simp only
      have hw := handleWaker_tinv cfg (wakerFuel s) s h
      generalize handleWaker cfg (wakerFuel s) s = r at hw
      obtain ⟨s1, ex⟩ := r
      simp only at hw ⊢
      split
      · exact hw
      · exact ih _ hw
    | listener l => exact ih _ (accept_tinv cfg _ s l h)

theorem poll_tinv (cfg : Cfg) {s : St} (h : TInv s) (order : List Ev) (sched : List (List EnvAct)) :
    TInv (poll cfg s order sched) := by
  unfold poll
  split
  · exact h
  · have hce : lview (clearEdges { s with sched := sched, yields := 0 }) = lview s := by
      simp only [lview, clearEdges]
      congr 1 <;> (funext l; split <;> rfl)
    have h0 : TInv (clearEdges { s with sched := sched, yields := 0 }) := TEq.tinv ⟨hce, rfl⟩ h
    have h1 := pollEvents_tinv cfg order _ h0
    generalize (pollEvents cfg (clearEdges { s with sched := sched, yields := 0 }) order) = r at h1
    unfold pollFinish
    split
    · exact TEq.tinv (s := r.1) ⟨rfl, rfl⟩ h1
    · exact TEq.tinv (s := processTimeout r.1) ⟨rfl, rfl⟩ (processTimeout_tinv _ h1)

theorem step_tinv (cfg : Cfg) {s : St} (h : TInv s) (op : Op) : TInv (Srv.step cfg s op) := by
  cases op with
  | env a => exact TEq.tinv ⟨runEnv_lview cfg [a] s, runEnv_timeout cfg [a] s⟩ h
  | poll order sched => exact poll_tinv cfg h order sched
  | finishW2 w c order =>
    simp only [Srv.step]
    have h1 : TInv { (envStep cfg s (.finish w c)).1 with acts := (envStep cfg s (.finish w c)).1.acts ++ [(envStep cfg s (.finish w c)).2] } :=
      TEq.tinv (s := s) ⟨envStep_lview cfg s _, envStep_timeout cfg s _⟩ h
    split
    · exact TEq.tinv ⟨runEnv_lview cfg _ _, runEnv_timeout cfg _ _⟩ (poll_tinv cfg h1 order [])
    · exact h1

theorem run_tinv (cfg : Cfg) : ∀ (ops : List Op) (s : St), TInv s → TInv (run cfg s ops) := by
  intro ops; induction ops with
  | nil => intro s h; exact h
  | cons op ops ih => intro s h; simp only [run]; exact ih _ (step_tinv cfg h op)

theorem init_tinv (cfg : Cfg) (kinds : List Kind) : TInv (init cfg kinds) := by
  intro l _ hd; simp [init] at hd


end ActixNet.Srv
