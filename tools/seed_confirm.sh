#!/bin/sh
# tools/seed_confirm.sh <Cxx> <n> <crate> [prop-to-check]
# Confirms seed /tmp/seed/<Cxx>/out/patch-<n>.diff in a scratch worktree: demo passes unchanged, fails with
# the patch, the crate's own tests still pass with the patch; then runs ./check (isolated) against it.
# On success copies the seed to /verif/seeded/<Cxx>-<n>/ with a meta.json skeleton.
P=$1; N=$2; CRATE=$3; PROP=${4:-$P}
SRC=${SEEDROOT:-/tmp/seed}/$P/out
W=/tmp/sc/$P-$N
rm -rf $W; mkdir -p /tmp/sc
git -C /repo worktree add --detach $W HEAD >/dev/null 2>&1 || exit 9
export CARGO_TARGET_DIR=/tmp/sc/target-$CRATE CARGO_NET_OFFLINE=true
# FEATURES may be set in the environment, e.g. FEATURES="--features rustls-0_23,openssl"
DEMO=$(ls $SRC/demo-$N.* | head -1)
EXT=${DEMO##*.}
mkdir -p $W/$CRATE/tests
cp $DEMO $W/$CRATE/tests/seed_demo_$N.$EXT
cd $W
cargo test --offline -p $CRATE $FEATURES --test seed_demo_$N > /tmp/sc/$P-$N.unchanged.log 2>&1; R0=$?
git apply $SRC/patch-$N.diff || { echo "patch does not apply"; cd /; git -C /repo worktree remove --force $W >/dev/null 2>&1; exit 8; }
cargo test --offline -p $CRATE $FEATURES --test seed_demo_$N > /tmp/sc/$P-$N.patched.log 2>&1; R1=$?
rm -f $W/$CRATE/tests/seed_demo_$N.$EXT
# the existing suite runs the way the repository runs it (SUITEFEATURES, default: same flags as the demo)
cargo test --offline -p $CRATE ${SUITEFEATURES-$FEATURES} > /tmp/sc/$P-$N.suite.log 2>&1; R2=$?
cd /
git -C /repo worktree remove --force $W >/dev/null 2>&1
echo "seed $P-$N: demo unchanged rc=$R0 (want 0), demo patched rc=$R1 (want !=0), crate suite with patch rc=$R2 (want 0)"
/verif/tools/mutcheck.sh $SRC/patch-$N.diff $PROP > /tmp/sc/$P-$N.check.log 2>&1; R3=$?
echo "seed $P-$N: ./check $PROP rc=$R3 ; $(grep -c '^VIOLATION' /tmp/sc/$P-$N.check.log) VIOLATION lines; $(grep -c 'no-failing-input-found' /tmp/sc/$P-$N.check.log) without input"
grep -E "BROKEN|tier=" /tmp/sc/$P-$N.check.log | cut -c1-220 | head -6
if [ $R0 = 0 ] && [ $R1 != 0 ] && [ $R2 = 0 ]; then
  D=/verif/seeded/$P-$N; mkdir -p $D
  cp $SRC/patch-$N.diff $D/patch.diff; cp $DEMO $D/demo.$EXT
  sed -n '1,400p' $SRC/README.md > $D/README-from-seeder.md
  cat > $D/meta.json <<EOM
{
 "property": "$P",
 "checked_with": "$PROP",
 "crate": "$CRATE",
 "demo": "demo.$EXT (place at $CRATE/tests/seed_demo_$N.$EXT; cargo test --offline -p $CRATE --test seed_demo_$N)",
 "confirmed": {"demo_passes_unchanged": true, "demo_fails_with_patch": true, "crate_suite_passes_with_patch": true},
 "check_exit_code": $R3,
 "check_violation_lines": $(grep -c '^VIOLATION' /tmp/sc/$P-$N.check.log),
 "check_no_failing_input_found": $(grep -c 'no-failing-input-found' /tmp/sc/$P-$N.check.log),
 "ran": "tools/seed_confirm.sh $P $N $CRATE $PROP (scratch worktree + isolated ./check via tools/mutcheck.sh)"
}
EOM
  /verif/tools/seedmeta_keep.py $D
  echo "kept -> $D"
fi
