//! Engine `tls` (C18, C19): the real `actix-tls` acceptors and connectors driven through the line
//! protocol.  See `lean/Driver/Tls.lean` for the model side and `props/C18.json`, `props/C19.json`.
//!
//! C19 cases (`case <name> kind=conn eps=L4,C4,..`): real loopback listeners / closed ports, the real
//! `ResolverService`, `TcpConnectorService`, `ConnectorService`, custom `Resolve` impls that log
//! their calls, and (kind=tlsconn) the real rustls-0.23 / OpenSSL connector services against
//! in-process TLS servers with run-time generated certificates.
use std::{
    cell::RefCell,
    io::Write,
    net::{IpAddr, SocketAddr, TcpListener},
    rc::Rc,
    time::Duration,
};

use actix_service::Service;
use actix_tls::connect::{
    tcp::TcpConnector, ConnectError, ConnectInfo, Connector, Host, Resolve, Resolver,
};
use futures_core::future::LocalBoxFuture;
use vh::*;

mod conn {
    use super::*;

    /// endpoint kinds of a `kind=conn` case
    #[derive(Clone, Copy, PartialEq, Debug)]
    pub enum EpKind {
        L4,
        C4,
        L6,
        C6,
    }

    pub struct Ep {
        pub kind: EpKind,
        pub addr: SocketAddr,
        pub listener: Option<TcpListener>,
        /// closed port: a socket that is bound (so nobody else can get the port while the case
        /// runs) but never listens, so every connect is refused
        pub _reserved: Option<socket2::Socket>,
    }

    pub fn parse_kind(s: &str) -> Option<EpKind> {
        Some(match s {
            "L4" => EpKind::L4,
            "C4" => EpKind::C4,
            "L6" => EpKind::L6,
            "C6" => EpKind::C6,
            _ => return None,
        })
    }

    pub fn make_ep(kind: EpKind, taken: &[u16]) -> std::io::Result<Ep> {
        for _ in 0..50 {
            let ep = make_ep1(kind)?;
            // distinct port numbers inside one case (the two address families allocate independently)
            if !taken.contains(&ep.addr.port()) {
                return Ok(ep);
            }
        }
        Err(std::io::Error::new(std::io::ErrorKind::Other, "no distinct port"))
    }

    fn make_ep1(kind: EpKind) -> std::io::Result<Ep> {
        use socket2::{Domain, Socket, Type};
        let (bind, dom): (SocketAddr, Domain) = match kind {
            EpKind::L4 | EpKind::C4 => ("127.0.0.1:0".parse().unwrap(), Domain::IPV4),
            EpKind::L6 | EpKind::C6 => ("[::1]:0".parse().unwrap(), Domain::IPV6),
        };
        match kind {
            EpKind::L4 | EpKind::L6 => {
                let l = TcpListener::bind(bind)?;
                let addr = l.local_addr()?;
                l.set_nonblocking(true)?;
                Ok(Ep { kind, addr, listener: Some(l), _reserved: None })
            }
            _ => {
                let s = Socket::new(dom, Type::STREAM, None)?;
                s.bind(&bind.into())?;
                let addr = s.local_addr()?.as_socket().unwrap();
                Ok(Ep { kind, addr, listener: None, _reserved: Some(s) })
            }
        }
    }

    /// request type: either a `String` (the crate's own `Host for String`) or a custom `Host` impl
    #[derive(Clone, Debug)]
    pub enum HostReq {
        S(String),
        H(String, Option<u16>),
    }
    impl Host for HostReq {
        fn hostname(&self) -> &str {
            match self {
                HostReq::S(s) => Host::hostname(s),
                HostReq::H(h, _) => h,
            }
        }
        fn port(&self) -> Option<u16> {
            match self {
                HostReq::S(s) => Host::port(s),
                HostReq::H(_, p) => *p,
            }
        }
    }

    /// address template of a resolver script: endpoint, or ip + (fixed port | the port passed to lookup)
    #[derive(Clone, Debug)]
    pub enum AddrT {
        Fixed(SocketAddr),
        IpP(IpAddr),
    }

    pub struct ScriptResolver {
        pub script: Option<Vec<AddrT>>, // None = fail
        pub log: Rc<RefCell<Vec<(String, u16)>>>,
    }
    impl Resolve for ScriptResolver {
        fn lookup<'a>(
            &'a self,
            host: &'a str,
            port: u16,
        ) -> LocalBoxFuture<'a, Result<Vec<SocketAddr>, Box<dyn std::error::Error>>> {
            Box::pin(async move {
                self.log.borrow_mut().push((host.to_string(), port));
                tokio::task::yield_now().await; // exercise the Pending path of LookupCustom
                match &self.script {
                    None => Err("scripted resolver failure".into()),
                    Some(v) => Ok(v
                        .iter()
                        .map(|a| match a {
                            AddrT::Fixed(sa) => *sa,
                            AddrT::IpP(ip) => SocketAddr::new(*ip, port),
                        })
                        .collect()),
                }
            })
        }
    }

    pub struct Ctx {
        pub eps: Vec<Ep>,
    }

    impl Ctx {
        pub fn canon(&self, a: &SocketAddr) -> String {
            for (i, e) in self.eps.iter().enumerate() {
                if e.addr == *a {
                    return format!("e{i}");
                }
            }
            match a {
                SocketAddr::V4(v) => format!("{}:{}", v.ip(), self.canon_port(v.port())),
                SocketAddr::V6(v) => format!("[{}]:{}", v.ip(), self.canon_port(v.port())),
            }
        }
        /// a port number that is an endpoint's port is written `@<i>`
        pub fn canon_port(&self, p: u16) -> String {
            match self.eps.iter().position(|e| e.addr.port() == p) {
                Some(i) => format!("@{i}"),
                None => p.to_string(),
            }
        }
        /// `e<i>` | `ip:port` | `[v6]:port` | with `@i` for an endpoint's port
        pub fn parse_addr(&self, s: &str) -> Option<SocketAddr> {
            if let Some(i) = s.strip_prefix('e') {
                return self.eps.get(i.parse::<usize>().ok()?).map(|e| e.addr);
            }
            self.subst(s)?.parse().ok()
        }
        pub fn parse_addr_t(&self, s: &str) -> Option<AddrT> {
            if let Some(ip) = s.strip_suffix(":P") {
                let ip = ip.trim_start_matches('[').trim_end_matches(']');
                return Some(AddrT::IpP(ip.parse().ok()?));
            }
            self.parse_addr(s).map(AddrT::Fixed)
        }
        /// replace every `@<i>` by the decimal port of endpoint i, `~` alone is the empty string
        pub fn subst(&self, s: &str) -> Option<String> {
            if s == "~" {
                return Some(String::new());
            }
            let mut out = String::new();
            let cs: Vec<char> = s.chars().collect();
            let mut i = 0;
            while i < cs.len() {
                if cs[i] == '@' {
                    let mut j = i + 1;
                    while j < cs.len() && cs[j].is_ascii_digit() {
                        j += 1;
                    }
                    if j == i + 1 {
                        return None;
                    }
                    let k: usize = cs[i + 1..j].iter().collect::<String>().parse().ok()?;
                    out.push_str(&self.eps.get(k)?.addr.port().to_string());
                    i = j;
                } else {
                    out.push(cs[i]);
                    i += 1;
                }
            }
            Some(out)
        }
        /// drain the accept queues: number of connections each live listener received
        pub fn accepts(&self, expect: Option<usize>) -> Vec<Option<usize>> {
            let mut out: Vec<Option<usize>> = self.eps.iter().map(|e| e.listener.as_ref().map(|_| 0)).collect();
            let t0 = std::time::Instant::now();
            loop {
                for (i, e) in self.eps.iter().enumerate() {
                    if let Some(l) = &e.listener {
                        while let Ok((_s, _)) = l.accept() {
                            *out[i].as_mut().unwrap() += 1;
                        }
                    }
                }
                match expect {
                    // the connector reported a connection to listener `i`: its accept must show up
                    Some(i) if out.get(i).copied().flatten() == Some(0) && t0.elapsed() < Duration::from_secs(2) => {
                        std::thread::sleep(Duration::from_millis(2));
                    }
                    _ => break,
                }
            }
            out
        }
    }

    pub fn fmt_acc(v: &[Option<usize>]) -> String {
        let xs: Vec<String> = v.iter().map(|x| x.map(|n| n.to_string()).unwrap_or_else(|| "-".into())).collect();
        format!("[{}]", xs.join(","))
    }

    pub fn err_str(e: &ConnectError) -> String {
        match e {
            ConnectError::Resolver(_) => "resolver".into(),
            ConnectError::NoRecords => "norecords".into(),
            ConnectError::InvalidInput => "invalidinput".into(),
            ConnectError::Unresolved => "unresolved".into(),
            ConnectError::Io(e) => match e.raw_os_error() {
                Some(c) => format!("io:{c}"),
                None => format!("io:{:?}", e.kind()),
            },
        }
    }
}
use conn::*;

/// independent reference for one TCP connect (same socket calls as `connect/tcp.rs::connect`), used
/// by the T3 oracle only
async fn direct_connect(addr: SocketAddr, local: Option<IpAddr>) -> std::io::Result<tokio::net::TcpStream> {
    match local {
        Some(ip) => {
            let s = if ip.is_ipv4() { tokio::net::TcpSocket::new_v4()? } else { tokio::net::TcpSocket::new_v6()? };
            s.bind(SocketAddr::new(ip, 0))?;
            s.connect(addr).await
        }
        None => tokio::net::TcpStream::connect(addr).await,
    }
}

struct ConnOp {
    via: String,
    res: Option<Option<Vec<AddrT>>>, // None = default resolver; Some(None)=err; Some(Some(v))=ok
    host: HostReq,
    with: Option<SocketAddr>,
    steps: Vec<Step>,
}
enum Step {
    Port(u16),
    Addr(Option<SocketAddr>),
    Addrs(Vec<SocketAddr>),
    Local(IpAddr),
}

fn parse_conn_op(cx: &Ctx, ws: &[&str]) -> Option<ConnOp> {
    // conn <via> <res> <host> [steps..]
    if ws.len() < 4 {
        return None;
    }
    let via = ws[1].to_string();
    if !["full", "resolve", "tcp"].contains(&ws[1]) {
        return None;
    }
    let res = if ws[2].starts_with("dflt=") {
        None
    } else if ws[2] == "err" {
        Some(None)
    } else if let Some(l) = ws[2].strip_prefix("ok=") {
        let mut v = vec![];
        for a in l.split(';').filter(|x| !x.is_empty()) {
            v.push(cx.parse_addr_t(a)?);
        }
        Some(Some(v))
    } else {
        return None;
    };
    let host = if let Some(s) = ws[3].strip_prefix("s=") {
        HostReq::S(cx.subst(s)?)
    } else if let Some(s) = ws[3].strip_prefix("h=") {
        let (h, p) = s.rsplit_once(',')?;
        let p = if p == "-" { None } else { Some(cx.subst(p)?.parse::<u16>().ok()?) };
        HostReq::H(cx.subst(h)?, p)
    } else {
        return None;
    };
    let mut with = None;
    let mut steps = vec![];
    for (k, w) in ws[4..].iter().enumerate() {
        if let Some(a) = w.strip_prefix("with=") {
            if k != 0 {
                return None;
            }
            with = Some(cx.parse_addr(a)?);
        } else if let Some(p) = w.strip_prefix("port=") {
            steps.push(Step::Port(cx.subst(p)?.parse().ok()?));
        } else if let Some(a) = w.strip_prefix("addr=") {
            steps.push(Step::Addr(if a == "none" { None } else { Some(cx.parse_addr(a)?) }));
        } else if let Some(l) = w.strip_prefix("addrs=") {
            let mut v = vec![];
            for a in l.split(';').filter(|x| !x.is_empty()) {
                v.push(cx.parse_addr(a)?);
            }
            steps.push(Step::Addrs(v));
        } else if let Some(ip) = w.strip_prefix("local=") {
            steps.push(Step::Local(ip.parse().ok()?));
        } else {
            return None;
        }
    }
    Some(ConnOp { via, res, host, with, steps })
}

fn build_info(op: &ConnOp) -> (ConnectInfo<HostReq>, Option<IpAddr>) {
    let mut ci = match op.with {
        Some(a) => ConnectInfo::with_addr(op.host.clone(), a),
        None => ConnectInfo::new(op.host.clone()),
    };
    let mut local = None;
    for s in &op.steps {
        ci = match s {
            Step::Port(p) => ci.set_port(*p),
            Step::Addr(a) => ci.set_addr(*a),
            Step::Addrs(v) => ci.set_addrs(v.clone()),
            Step::Local(ip) => {
                local = Some(*ip);
                ci.set_local_addr(*ip)
            }
        };
    }
    (ci, local)
}

fn is_ip_literal(s: &str) -> Option<IpAddr> {
    s.parse().ok()
}

fn run_conn_op(rt: &tokio::runtime::Runtime, cx: &Ctx, op: &ConnOp, rep: &mut Report) -> String {
    let log = Rc::new(RefCell::new(vec![]));
    let resolver = match &op.res {
        None => Resolver::default(),
        Some(script) => Resolver::custom(ScriptResolver { script: script.clone(), log: log.clone() }),
    };
    let (ci, local) = build_info(op);
    // facts about the request, taken before it is consumed (inputs of the oracle)
    let preset: Vec<SocketAddr> = ci.addrs().collect();
    let hostname = ci.hostname().to_string();
    let eff_port = ci.port();
    let literal = is_ip_literal(&hostname);

    enum Out {
        Resolved(Vec<SocketAddr>, String, u16),
        Stream(SocketAddr, Option<IpAddr>, actix_rt::net::TcpStream),
        Err(ConnectError),
        Watchdog,
        Panic,
    }
    let via = op.via.clone();
    let r = catch(|| {
        rt.block_on(async {
            let fut = async {
                match via.as_str() {
                    "resolve" => match resolver.service().call(ci).await {
                        Ok(ci) => Out::Resolved(ci.addrs().collect(), ci.hostname().to_string(), ci.port()),
                        Err(e) => Out::Err(e),
                    },
                    "tcp" => match TcpConnector::default().service().call(ci).await {
                        Ok(c) => {
                            let (io, _) = c.into_parts();
                            Out::Stream(io.peer_addr().unwrap(), io.local_addr().ok().map(|a| a.ip()), io)
                        }
                        Err(e) => Out::Err(e),
                    },
                    _ => match Connector::new(resolver).service().call(ci).await {
                        Ok(c) => {
                            let (io, _) = c.into_parts();
                            Out::Stream(io.peer_addr().unwrap(), io.local_addr().ok().map(|a| a.ip()), io)
                        }
                        Err(e) => Out::Err(e),
                    },
                }
            };
            match tokio::time::timeout(Duration::from_secs(20), fut).await {
                Ok(o) => o,
                Err(_) => Out::Watchdog,
            }
        })
    })
    .unwrap_or(Out::Panic);

    let lookups = log.borrow().clone();
    let lk = if op.res.is_none() {
        "-".to_string()
    } else {
        format!("[{}]", lookups.iter().map(|(h, p)| format!("{}:{}", if h.is_empty() { "~" } else { h }, cx.canon_port(*p))).collect::<Vec<_>>().join(","))
    };
    let connected_to = match &r {
        Out::Stream(peer, _, _) => cx.eps.iter().position(|e| e.addr == *peer),
        _ => None,
    };
    let acc = cx.accepts(connected_to);
    let res = match &r {
        Out::Resolved(addrs, h, p) => format!(
            "ok addrs=[{}] host={} port={}",
            addrs.iter().map(|a| cx.canon(a)).collect::<Vec<_>>().join(";"),
            if h.is_empty() { "~" } else { h },
            cx.canon_port(*p)
        ),
        Out::Stream(peer, l, _) => match local {
            Some(_) => format!("ok peer={} local={}", cx.canon(peer), l.map(|x| x.to_string()).unwrap_or_else(|| "?".into())),
            None => format!("ok peer={}", cx.canon(peer)),
        },
        Out::Err(e) => format!("err {}", err_str(e)),
        Out::Watchdog => "watchdog".into(),
        Out::Panic => "panic".into(),
    };

    // ---------------- T3: the property, evaluated on the real behaviour ----------------
    let mut fails: Vec<String> = vec![];
    let mut fail = |m: String| fails.push(m);
    if matches!(r, Out::Panic | Out::Watchdog) {
        fail(format!("connector did not return: {res}"));
    }
    let goes_to_resolver = via != "tcp" && preset.is_empty() && literal.is_none();
    if op.res.is_some() {
        // (a) pre-set addresses are never re-resolved, (b) IP literals are not resolved
        if !goes_to_resolver && !lookups.is_empty() {
            fail(format!("resolver consulted ({lk}) although preset={} literal={}", preset.len(), literal.is_some()));
        }
        if goes_to_resolver && lookups != vec![(hostname.clone(), eff_port)] {
            fail(format!("resolver calls {lk}, expected exactly one for ({hostname},{eff_port})"));
        }
    }
    // expected final address list (None = the request fails before dialling)
    let expected_addrs: Result<Vec<SocketAddr>, &str> = if !preset.is_empty() {
        Ok(preset.clone())
    } else if via == "tcp" {
        Err("unresolved")
    } else if let Some(ip) = literal {
        Ok(vec![SocketAddr::new(ip, eff_port)])
    } else {
        match &op.res {
            Some(None) => Err("resolver"),
            Some(Some(v)) if v.is_empty() => Err("norecords"),
            Some(Some(v)) => Ok(v
                .iter()
                .map(|a| match a {
                    AddrT::Fixed(sa) => *sa,
                    AddrT::IpP(ip) => SocketAddr::new(*ip, eff_port),
                })
                .collect()),
            None => Err("?"), // OS resolver: not judged here beyond the correspondence
        }
    };
    match (&expected_addrs, &r) {
        (Err("?"), _) => {}
        (Err(want), Out::Err(e)) => {
            if err_str(e) != *want {
                fail(format!("expected error {want}, got {}", err_str(e)));
            }
        }
        (Err(want), _) => fail(format!("expected error {want}, got {res}")),
        (Ok(addrs), Out::Resolved(got, h, p)) => {
            if got != addrs || *h != hostname || *p != eff_port {
                fail(format!("resolver service returned {res}, expected addresses {:?}", addrs.iter().map(|a| cx.canon(a)).collect::<Vec<_>>()));
            }
        }
        (Ok(addrs), _) if via != "resolve" => {
            // ordered fallback: the reference dials each address independently, in order
            let mut first_ok = None;
            let mut last_err = None;
            for a in addrs {
                match rt.block_on(async { tokio::time::timeout(Duration::from_secs(20), direct_connect(*a, local)).await }) {
                    Ok(Ok(_s)) => {
                        first_ok = Some(*a);
                        break;
                    }
                    Ok(Err(e)) => last_err = Some(e),
                    Err(_) => {
                        rep.note("reference connect timed out; ordered-fallback oracle skipped for this op");
                        first_ok = None;
                        last_err = None;
                        break;
                    }
                }
            }
            let _ = cx.accepts(None); // discard the accepts caused by the reference dialling
            match (first_ok, last_err, &r) {
                (Some(a), _, Out::Stream(peer, l, _)) => {
                    if *peer != a {
                        fail(format!("connected to {} but the first connectable address in order is {}", cx.canon(peer), cx.canon(&a)));
                    }
                    if let (Some(want), Some(got)) = (local, l) {
                        if want != *got {
                            fail(format!("local address {got} but {want} was requested"));
                        }
                    }
                    // exactly one accept, at that listener; later (and earlier) listeners untouched
                    for (i, n) in acc.iter().enumerate() {
                        let want = if cx.eps[i].addr == a { 1 } else { 0 };
                        if let Some(n) = n {
                            if *n != want {
                                fail(format!("listener e{i} saw {n} connections, expected {want} (acc={})", fmt_acc(&acc)));
                            }
                        }
                    }
                }
                (Some(a), _, _) => fail(format!("address {} is connectable but the connector returned {res}", cx.canon(&a))),
                (None, Some(e), Out::Err(ConnectError::Io(got))) => {
                    if got.raw_os_error() != e.raw_os_error() || got.kind() != e.kind() {
                        fail(format!("all addresses fail: expected the last address's error {:?}, got {:?}", e.raw_os_error(), got.raw_os_error()));
                    }
                    if acc.iter().any(|n| matches!(n, Some(k) if *k > 0)) {
                        fail(format!("failed connect but a listener accepted: acc={}", fmt_acc(&acc)));
                    }
                }
                (None, Some(_), _) => fail(format!("all addresses fail but the connector returned {res}")),
                (None, None, _) => {}
            }
        }
        _ => fail(format!("unexpected result shape {res}")),
    }
    for m in fails {
        rep.t3("C19", &m);
    }
    drop(r);
    format!("lk={lk} res={res} acc={}", fmt_acc(&acc))
}

// ------------------------------------------------------------------------------------------------
// generator
// ------------------------------------------------------------------------------------------------

fn gen_c19(a: &Args, w: &mut dyn Write) {
    let mut rng = Rng::new(a.seed ^ 0xC19);
    let thorough = a.tier == "thorough";
    let dflt = {
        use std::net::ToSocketAddrs;
        let ips: Vec<String> = "localhost:0".to_socket_addrs().map(|i| i.map(|a| a.ip().to_string()).collect()).unwrap_or_default();
        format!("dflt={}", ips.join(";"))
    };
    let mut n = 0;
    // (1) every live/closed pattern of length 0..4, through the resolver, pre-set, and the bare TCP connector
    for len in 0..=4usize {
        for mask in 0..(1u32 << len) {
            for fam in 0..(if thorough { 3 } else { 2 }) {
                // fam 0: all v4; fam 1/2: random v4/v6 mix (makes the per-address errors differ under a local bind)
                let kinds: Vec<&str> = (0..len)
                    .map(|i| {
                        let live = mask >> i & 1 == 1;
                        let v6 = fam > 0 && rng.chance(1, 2);
                        match (live, v6) {
                            (true, false) => "L4",
                            (false, false) => "C4",
                            (true, true) => "L6",
                            (false, true) => "C6",
                        }
                    })
                    .collect();
                n += 1;
                writeln!(w, "case pat-{n} kind=conn eps={}", kinds.join(",")).unwrap();
                let list: Vec<String> = (0..len).map(|i| format!("e{i}")).collect();
                let l = list.join(";");
                let locals: &[&str] = if fam == 0 { &[""] } else { &["", " local=127.0.0.1", " local=::1"] };
                for loc in locals {
                    writeln!(w, "conn full ok={l} s=pat.test:80{loc}").unwrap();
                    writeln!(w, "conn full err s=pat.test:80 addrs={l}{loc}").unwrap();
                    writeln!(w, "conn tcp err s=pat.test addrs={l}{loc}").unwrap();
                    if len == 1 {
                        writeln!(w, "conn full err s=pat.test with=e0{loc}").unwrap();
                        writeln!(w, "conn tcp ok= h=pat.test,- addr=e0{loc}").unwrap();
                    }
                    writeln!(w, "conn resolve ok={l} s=pat.test:80{loc}").unwrap();
                }
            }
        }
    }
    // (1b) all addresses fail with *different* errors: the answer must be the LAST one's
    //      (IPv4-bound socket -> IPv6 target: 97; IPv6-bound -> IPv4 target: 22; refused: 111)
    writeln!(w, "case lasterr kind=conn eps=C4,C6,C4,C6,L4,L6").unwrap();
    for loc in ["127.0.0.1", "::1", "127.0.0.3"] {
        for l in ["e0;e1", "e1;e0", "e0;e1;e2", "e1;e0;e3", "e0;e1;e2;e3", "e3;e2;e1;e0", "e1;e1;e0", "e0;e0;e1", "e5;e0", "e4;e1", "e1;e4", "e0;e5"] {
            writeln!(w, "conn full ok={l} s=last.test:1 local={loc}").unwrap();
            writeln!(w, "conn tcp err s=last.test addrs={l} local={loc}").unwrap();
        }
    }
    // (2) host strings, ports, IP literals, precedence of request port / set_port / with_addr
    let hosts = [
        "lit.test", "lit.test:80", "lit.test:@0", "lit.test:+@0", "lit.test:0@0", "lit.test:false", "lit.test:false:false",
        "lit.test:", ":@0", "~", "lit.test:65535", "lit.test:65536", "lit.test:-1", "127.0.0.1", "127.0.0.1:@0", "127.0.0.1:@1",
        "127.0.0.1:x", "127.0.0.01:@0", "127.0.0.256:@0", "127.0.1:@0", "127.0.0.1.:@0", "127.0.0.2:@0", "localhost:@0", "localhost", "nx.invalid:@0",
        "LIT.test:@0", "lit.test:@0:@1", "127.0.0.1:@0:9",
    ];
    for (k, h) in hosts.iter().enumerate() {
        writeln!(w, "case host-{k} kind=conn eps=L4,C4,L6").unwrap();
        for res in ["ok=e0", "ok=127.0.0.1:P", "ok=127.0.0.1:P;e0", "ok=", "err", dflt.as_str()] {
            for steps in ["", " port=@0", " port=@1", " with=e0", " with=e1 port=@0", " addr=e0", " addrs=e1;e0 addr=none", " port=@1 port=@0"] {
                for via in ["full", "resolve"] {
                    // the OS resolver is only exercised for `localhost`, a name that cannot exist, and strict IPv4 literals
                    // (getaddrinfo also accepts inet_aton forms such as 127.0.1, which is outside the claim)
                    if res.starts_with("dflt") && !(h.starts_with("localhost") || h.starts_with("nx.invalid") || h.starts_with("127.0.0.1:@") || *h == "127.0.0.1" || h.starts_with("127.0.0.2:")) {
                        continue;
                    }
                    writeln!(w, "conn {via} {res} s={h}{steps}").unwrap();
                }
            }
        }
        writeln!(w, "conn tcp err s={h}").unwrap();
        writeln!(w, "conn tcp err s={h} port=@0").unwrap();
    }
    // custom Host impls: hostname and port independent of any string syntax (incl. an IPv6 literal)
    let hs = ["c.test,-", "c.test,@0", "c.test,@1", "127.0.0.1,@0", "127.0.0.1,-", "::1,@2", "::1,-", "::1,@0", "c.test:99,@0", "~,@0"];
    for (k, h) in hs.iter().enumerate() {
        writeln!(w, "case chost-{k} kind=conn eps=L4,C4,L6").unwrap();
        for res in ["ok=e0", "ok=::1:P;127.0.0.1:P", "ok=", "err"] {
            for steps in ["", " port=@0", " port=@2", " with=e2", " addrs=e1;e2;e0", " local=127.0.0.1", " local=::1 port=@2"] {
                for via in ["full", "resolve", "tcp"] {
                    writeln!(w, "conn {via} {res} h={h}{steps}").unwrap();
                }
            }
        }
    }
    // (3) random compositions
    let cases = if thorough { 3000 } else { 300 };
    let kinds = ["L4", "C4", "L6", "C6"];
    for c in 0..cases {
        let ne = rng.range(1, 5);
        let eps: Vec<&str> = (0..ne).map(|_| *rng.pick(&kinds)).collect();
        writeln!(w, "case rnd-{c} kind=conn eps={}", eps.join(",")).unwrap();
        let addr = |rng: &mut Rng| format!("e{}", rng.below(ne));
        let addrs = |rng: &mut Rng, max: usize| {
            let k = rng.below(max + 1);
            (0..k).map(|_| format!("e{}", rng.below(ne))).collect::<Vec<_>>().join(";")
        };
        for _ in 0..rng.range(2, 6) {
            let via = *rng.pick(&["full", "full", "full", "resolve", "tcp"]);
            let res = match rng.below(6) {
                0 => "err".to_string(),
                1 => "ok=".to_string(),
                2 => format!("ok=127.0.0.1:P;{}", addrs(&mut rng, 2)),
                _ => format!("ok={}", addrs(&mut rng, 4)),
            };
            let host = match rng.below(8) {
                0 => format!("s=127.0.0.1:@{}", rng.below(ne)),
                1 => "s=127.0.0.1".to_string(),
                2 => format!("h=::1,@{}", rng.below(ne)),
                3 => format!("s=r.test:@{}", rng.below(ne)),
                4 => format!("h=r.test,@{}", rng.below(ne)),
                5 => "s=r.test:bad".to_string(),
                _ => "s=r.test".to_string(),
            };
            let mut steps = String::new();
            if rng.chance(1, 6) {
                steps.push_str(&format!(" with={}", addr(&mut rng)));
            }
            for _ in 0..rng.below(3) {
                match rng.below(5) {
                    0 => steps.push_str(&format!(" port=@{}", rng.below(ne))),
                    1 => steps.push_str(&format!(" addr={}", if rng.chance(1, 4) { "none".to_string() } else { addr(&mut rng) })),
                    2 => steps.push_str(&format!(" addrs={}", addrs(&mut rng, 4))),
                    3 => steps.push_str(*rng.pick(&[" local=127.0.0.1", " local=::1", " local=127.0.0.2", " local=198.51.100.7"])),
                    _ => {}
                }
            }
            writeln!(w, "conn {via} {res} {host}{steps}").unwrap();
        }
        // malformed
        if rng.chance(1, 10) {
            writeln!(w, "{}", rng.pick(&["conn", "conn full", "conn x err s=a", "conn full ok=e9 s=a", "conn full err q=a", "conn full err s=a with", "conn full err s=a port=70000", "frob"])).unwrap();
        }
    }
}

fn gen(a: &Args) {
    let mut w = out_writer(&a.output);
    match a.prop.as_str() {
        "C19" => gen_c19(a, &mut *w),
        _ => {}
    }
    w.flush().unwrap();
}

// ------------------------------------------------------------------------------------------------
// run
// ------------------------------------------------------------------------------------------------

enum Case {
    None,
    Conn(Ctx),
}

fn run(a: &Args) {
    silence_panics();
    let mut rep = Report::new(&a.output);
    let rt = tokio::runtime::Builder::new_current_thread().enable_all().build().unwrap();
    let mut case = Case::None;
    for line in in_lines(&a.input) {
        let ws: Vec<&str> = line.split_whitespace().collect();
        let real: String = match ws.as_slice() {
            ["case", _name, rest @ ..] => {
                case = Case::None;
                let kv: std::collections::HashMap<&str, &str> = rest.iter().filter_map(|x| x.split_once('=')).collect();
                match kv.get("kind").copied() {
                    Some("conn") => {
                        let kinds: Option<Vec<EpKind>> = kv.get("eps").copied().unwrap_or("").split(',').filter(|x| !x.is_empty()).map(parse_kind).collect();
                        match kinds {
                            Some(ks) if ks.len() <= 8 && rest.len() == 2 => {
                                let mut taken = vec![];
                                let eps: std::io::Result<Vec<Ep>> = ks
                                    .into_iter()
                                    .map(|k| {
                                        let e = make_ep(k, &taken)?;
                                        taken.push(e.addr.port());
                                        Ok(e)
                                    })
                                    .collect();
                                match eps {
                                    Ok(eps) => {
                                        case = Case::Conn(Ctx { eps });
                                        "ok".into()
                                    }
                                    Err(e) => {
                                        rep.note(&format!("cannot set up endpoints: {e}"));
                                        "env-error".into()
                                    }
                                }
                            }
                            _ => "bad-op".into(),
                        }
                    }
                    _ => "bad-op".into(),
                }
            }
            ["conn", ..] => match &case {
                Case::Conn(cx) => match parse_conn_op(cx, &ws) {
                    Some(op) => run_conn_op(&rt, cx, &op, &mut rep),
                    None => "bad-op".into(),
                },
                _ => "bad-op".into(),
            },
            _ => "bad-op".into(),
        };
        rep.obs(&line, &real);
    }
    rep.finish();
}

fn main() {
    let a = parse_args();
    match a.cmd.as_str() {
        "gen" => gen(&a),
        "run" => run(&a),
        _ => {
            eprintln!("usage: tls gen|run ...");
            std::process::exit(2)
        }
    }
}
