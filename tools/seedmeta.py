#!/usr/bin/env python3
"""tools/seedmeta.py <Cxx-n> <what> <needs>: fill the descriptive fields of seeded/<Cxx-n>/meta.json"""
import json, sys
p = '/verif/seeded/%s/meta.json' % sys.argv[1]
d = json.load(open(p)); d['what'] = sys.argv[2]; d['needs'] = sys.argv[3]; d['round'] = 2 if sys.argv[1].split('-')[1] in ('3', '4') else 1
json.dump(d, open(p, 'w'), indent=1)
