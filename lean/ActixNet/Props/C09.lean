import ActixNet.Lemmas.Rt
/-!
# C09 — System stop delivers the exit code and stops every arbiter

Property theorems only, over the message-level model `ActixNet.Rt` (Model/Rt.lean).  A *schedule* is
an arbitrary list of labels `Act`: the client actions (`newArb`, `send`, `sysSend`) and the internal
steps of the controller and of every arbiter thread, in any interleaving.  Every theorem quantifies
over all schedules from `init` (`Arbiter::new` returning = the `newArb` step, after which
`Register` is in the system queue; "queue order" = order in the linearizable channel history).
`init` is the state `System::new()` returns in: the system arbiter (registered under `usize::MAX` =
`sysArbId`) exists and its `Register` heads the system queue.  Arbiter ids are arbitrary naturals —
the theorems hold whatever numbers the process-wide counters have handed out.

Trusted, not proved here (see props/C09.json `partial`): OS thread scheduling, tokio's mpsc / oneshot
/ `LocalSet`; the tie of this model to the real crate is the membership run of engine `rt`.
-/
namespace ActixNet.C09
open ActixNet.Rt

/-- **first code wins.** In every reachable state the one-shot has carried exactly the code of the
first `Exit` (in queue order) among the commands the controller has handled — nothing if there was
none, and never a second value. -/
theorem first_code_wins (tr : List Act) :
    (run init tr).sends =
      (firstExit ((run init tr).syssent.take (run init tr).sysDone)).toList :=
  (reach_init.run tr).code.sends_eq

/-- what `run_with_code` returns is the code of the first `Exit` in queue order -/
theorem run_with_code_is_first_exit (tr : List Act) :
    runWithCode (run init tr) = firstExit ((run init tr).syssent.take (run init tr).sysDone) := by
  unfold runWithCode; rw [first_code_wins]
  cases firstExit _ <;> rfl

/-- later `Exit`s send nothing: once a code was delivered, no continuation of the schedule (more
`stop_with_code` calls from any thread included) changes what `run_with_code` returns -/
theorem later_exits_send_nothing (tr tr' : List Act) (c : Int)
    (h : runWithCode (run init tr) = some c) : runWithCode (run init (tr ++ tr')) = some c := by
  rw [run_append]
  unfold runWithCode at h ⊢
  rw [sends_stable_run (reach_init.run tr).code (by intro hh; rw [hh] at h; cases h)]
  exact h

/-- the one-shot fires at most once -/
theorem at_most_one_send (tr : List Act) : (run init tr).sends.length ≤ 1 := by
  rw [first_code_wins]; cases firstExit _ <;> simp

/-- if the controller has handled an `Exit`, a code has been delivered -/
theorem exit_handled_delivers (tr : List Act) (p : Nat) (c : Int)
    (hp : (run init tr).syssent[p]? = some (SysCmd.exit c)) (hd : p < (run init tr).sysDone) :
    ∃ c', runWithCode (run init tr) = some c' := by
  rw [run_with_code_is_first_exit]
  generalize (run init tr).syssent = l at hp
  generalize (run init tr).sysDone = n at hd
  induction l generalizing p n with
  | nil => simp at hp
  | cons x r ih =>
    cases n with
    | zero => omega
    | succ n =>
      cases x with
      | exit c0 => exact ⟨c0, rfl⟩
      | register i =>
        cases p with
        | zero => simp at hp
        | succ p => simpa [firstExit] using ih p (by simpa using hp) n (by omega)
      | deregister i =>
        cases p with
        | zero => simp at hp
        | succ p => simpa [firstExit] using ih p (by simpa using hp) n (by omega)

/-- **`run` turns a non-zero code into an error** (system.rs:185-195) -/
theorem run_nonzero_is_err (s : State) (c : Int) :
    (runResult s = some (.err c) ↔ runWithCode s = some c ∧ c ≠ 0) ∧
    (runResult s = some .ok ↔ runWithCode s = some 0) := by
  unfold runResult
  cases h : runWithCode s with
  | none => simp
  | some c' =>
    by_cases h0 : c' = 0
    · subst h0; simp; intro h1; exact h1.symm
    · simp [h0]
      rintro rfl; exact h0

/-- **every live arbiter gets a `Stop`.**  If `Register i` precedes an `Exit` in the system queue
(`Arbiter::new` for `i` returned before that `stop_with_code` was issued) and the controller has
handled that `Exit`, then arbiter `i`'s loop has ended or a `Stop` is buffered in its channel. -/
theorem stop_enqueued_for_live (tr : List Act) (i r p : Nat) (c : Int)
    (hr : (run init tr).syssent[r]? = some (SysCmd.register i))
    (hp : (run init tr).syssent[p]? = some (SysCmd.exit c))
    (hrp : r < p) (hd : p < (run init tr).sysDone) :
    ((run init tr).arbs i).ended = true ∨ HasStop ((run init tr).arbs i) := by
  cases he : ((run init tr).arbs i).ended with
  | true => exact Or.inl rfl
  | false => exact Or.inr ((reach_init.run tr).reg.stop_queued r p i c hr hp hrp hd he)

/-- **… so its runner terminates and `join` returns.**  Under the same hypotheses, for every
continuation `tr1 ++ tr2` of the schedule — arbitrary interleaving with all other threads — in which
runner `i` takes as many steps as there are commands buffered in its channel (finitely many) during
`tr1`, and thread `i` then performs its two remaining steps (`close`, `fin`) somewhere in `tr2`:
the loop has ended after `tr1` and `join` on arbiter `i` returns after `tr2`.  (`i ≠ sysArbId` only
because the system arbiter has no thread to join; its loop ends too — `system_arbiter_stopped`.) -/
theorem all_live_arbiters_stopped (tr : List Act) (i r p : Nat) (c : Int) (hi : i ≠ sysArbId)
    (hr : (run init tr).syssent[r]? = some (SysCmd.register i))
    (hp : (run init tr).syssent[p]? = some (SysCmd.exit c))
    (hrp : r < p) (hd : p < (run init tr).sysDone)
    (tr1 tr2 : List Act)
    (hfair1 : ((run init tr).arbs i).sent.length ≤ ((run init tr).arbs i).recvd + runnerSteps i tr1)
    (hfair2 : [Act.close i, Act.fin i].Sublist tr2) :
    ((run (run init tr) tr1).arbs i).ended = true ∧
    joinReturns (run (run (run init tr) tr1) tr2) i = true := by
  have hended : ((run (run init tr) tr1).arbs i).ended = true := by
    rcases stop_enqueued_for_live tr i r p c hr hp hrp hd with he | ⟨k, hk, hs⟩
    · exact ended_mono_run he tr1
    · have hcr := (reach_init.run tr).reg.reg_created r i hr
      have hlt : k < ((run init tr).arbs i).sent.length := (List.getElem?_eq_some_iff.mp hs).1
      exact runner_terminates ⟨hs, hcr⟩ hk tr1 (by omega)
  have hns : ((run (run init tr) tr1).arbs i).sys = false := by
    rw [sys_run]; exact (reach_init.run tr).notsys hi
  exact ⟨hended, join_returns hended hns tr2 hfair2⟩

/-- **the system arbiter is stopped too.**  Once the controller has handled any `Exit`, the system
arbiter's loop has ended or a `Stop` is buffered in its channel, and (as for every arbiter) after as
many runner steps as it has commands buffered — under any interleaving — its loop has ended. -/
theorem system_arbiter_stopped (tr : List Act) (p : Nat) (c : Int)
    (hp : (run init tr).syssent[p]? = some (SysCmd.exit c)) (hd : p < (run init tr).sysDone)
    (tr1 : List Act)
    (hfair : ((run init tr).arbs sysArbId).sent.length ≤
      ((run init tr).arbs sysArbId).recvd + runnerSteps sysArbId tr1) :
    (((run init tr).arbs sysArbId).ended = true ∨ HasStop ((run init tr).arbs sysArbId)) ∧
    ((run (run init tr) tr1).arbs sysArbId).ended = true := by
  have hr := (reach_init.run tr).sysreg
  have hrp : 0 < p := by
    cases p with
    | zero => rw [hr] at hp; cases hp
    | succ p => omega
  have h1 := stop_enqueued_for_live tr sysArbId 0 p c hr hp hrp hd
  refine ⟨h1, ?_⟩
  rcases h1 with he | ⟨k, hk, hs⟩
  · exact ended_mono_run he tr1
  · have hcr := (reach_init.run tr).reg.reg_created 0 sysArbId hr
    have hlt : k < ((run init tr).arbs sysArbId).sent.length := (List.getElem?_eq_some_iff.mp hs).1
    exact runner_terminates ⟨hs, hcr⟩ hk tr1 (by omega)

/-- **already-stopped arbiters are deregistered and do not disturb anything.**  For an arbiter whose
`Deregister` is in the queue: its thread has finished; once the controller has handled the
`Deregister` it is no longer in the registry (so later `Exit`s do not even try to stop it); and no
step whatsoever — in particular an `Exit` handled while it is still registered, which sends `Stop`
into its closed channel — changes its state.  (All other C09 theorems quantify over schedules that
contain such arbiters.) -/
theorem deregistered_harmless (tr : List Act) (i d : Nat)
    (hdq : (run init tr).syssent[d]? = some (SysCmd.deregister i)) :
    joinReturns (run init tr) i = true ∧
    (d < (run init tr).sysDone → (run init tr).registered i = false) ∧
    ∀ a, (step (run init tr) a).arbs i = (run init tr).arbs i := by
  have hR := reach_init.run tr
  have hex := hR.reg.dereg_exited d i hdq
  exact ⟨hex, hR.reg.dereg_unreg d i hdq, exited_inert hR.all hex⟩

/-- **a stop reaches every arbiter registered in front of it — also a later stop, after the exit code
has long been delivered.**  For the history `stop(c1); Arbiter::new(); stop(c2)` (queue
`… Exit c1 … Register i … Exit c2 …`): once the controller has handled the second `Exit`, a code has
been delivered (decided by an `Exit` in front) *and* arbiter `i`'s loop has ended or a `Stop` is
buffered in its channel — the registry goes on being kept after the one-shot has fired. -/
theorem late_arbiter_stopped_by_later_exit (tr : List Act) (i q r p : Nat) (c1 c2 : Int)
    (hq : (run init tr).syssent[q]? = some (SysCmd.exit c1))
    (hr : (run init tr).syssent[r]? = some (SysCmd.register i))
    (hp : (run init tr).syssent[p]? = some (SysCmd.exit c2))
    (hqr : q < r) (hrp : r < p) (hd : p < (run init tr).sysDone) :
    (∃ c, runWithCode (run init tr) = some c) ∧
    (((run init tr).arbs i).ended = true ∨ HasStop ((run init tr).arbs i)) :=
  ⟨exit_handled_delivers tr q c1 hq (by omega), stop_enqueued_for_live tr i r p c2 hr hp hrp hd⟩

/-- **whatever was queued before the controller ran.**  Take any schedule — in particular one in
which the client queues a whole sequence of `stop_with_code` and `Arbiter::new` calls, in any order
and number, before the controller is polled for the first time — and let the controller then handle
the commands buffered in its queue (one poll does that: it loops until the channel is empty).  Then
every arbiter whose `Register` is in front of *some* `Exit` in the queue has ended or has a `Stop`
buffered, and the code delivered is that of the first `Exit` in the queue. -/
theorem queued_sequence_handled (tr : List Act) (i r p : Nat) (c : Int)
    (hr : (run init tr).syssent[r]? = some (SysCmd.register i))
    (hp : (run init tr).syssent[p]? = some (SysCmd.exit c)) (hrp : r < p) :
    let drain := List.replicate ((run init tr).syssent.length - (run init tr).sysDone) Act.ctrl
    (((run init (tr ++ drain)).arbs i).ended = true ∨ HasStop ((run init (tr ++ drain)).arbs i)) ∧
    runWithCode (run init (tr ++ drain)) = firstExit (run init tr).syssent := by
  intro drain
  have hle : (run init tr).sysDone ≤ (run init tr).syssent.length := (reach_init.run tr).code.done_le
  have hc := ctrl_catches_up ((run init tr).syssent.length - (run init tr).sysDone) (run init tr) (by omega)
  have hrun : run init (tr ++ drain) = run (run init tr) drain := run_append _ _ _
  have hlt : p < (run init tr).syssent.length := (List.getElem?_eq_some_iff.mp hp).1
  have hdone : (run init (tr ++ drain)).sysDone = (run init tr).syssent.length := by
    rw [hrun, hc.1]; omega
  have hsent : (run init (tr ++ drain)).syssent = (run init tr).syssent := by rw [hrun, hc.2]
  refine ⟨stop_enqueued_for_live (tr ++ drain) i r p c (by rw [hsent]; exact hr) (by rw [hsent]; exact hp)
    hrp (by rw [hdone]; exact hlt), ?_⟩
  rw [run_with_code_is_first_exit, hdone, hsent, List.take_length]

/-- **T1**: the decisive source lines still have the shape the model's rules were written from
(regenerated from /repo by tools/spans/rt.py on every check) -/
theorem source_shape : sourceShapeC09 = true := by decide

/-! ### non-vacuity: concrete schedules exercising the hypotheses -/

/-- two arbiters; arbiter 1 stopped early and fully deregistered; stop 7 then stop 9 -/
def demo : List Act :=
  [.newArb 0, .newArb 1, .send 1 .stop, .runner 1, .close 1, .fin 1,
   .send 0 (.exec 5), .runner 0, .task 0,
   .sysSend 7, .sysSend 9, .ctrl, .ctrl, .ctrl, .ctrl, .ctrl, .ctrl]

example : runWithCode (run init demo) = some 7 := by decide
example : (run init demo).sends = [7] := by decide
example : (run init demo).syssent =
    [.register sysArbId, .register 0, .register 1, .deregister 1, .exit 7, .exit 9] := by decide
example : (run init demo).sysDone = 6 := by decide
example : runResult (run init demo) = some (.err 7) := by decide
example : runResult (run init [.sysSend 0, .ctrl, .ctrl]) = some .ok := by decide
-- arbiter 0 is live (registered before the Exit, loop not ended) and has `Stop` buffered
example : ((run init demo).arbs 0).ended = false ∧ ((run init demo).arbs 0).sent = [.exec 5, .stop, .stop]
    ∧ ((run init demo).arbs 0).recvd = 1 := by decide
-- … and the continuation of `all_live_arbiters_stopped` exists
example : joinReturns (run (run (run init demo) [.runner 0]) [.close 0, .fin 0]) 0 = true := by decide
-- arbiter 1 was deregistered before the Exit: untouched, not registered
example : (run init demo).registered 1 = false ∧ ((run init demo).arbs 1).sent = [.stop] := by decide
-- an Exit handled while an ended arbiter is still registered (Deregister behind the Exit)
example : ((run init [.newArb 0, .send 0 .stop, .runner 0, .close 0, .sysSend 3, .fin 0, .ctrl, .ctrl, .ctrl, .ctrl]).arbs 0).sent
    = [.stop] := by decide
-- the system arbiter got its `Stop` with the first Exit (and another with the second); one runner
-- step ends its loop; it cannot be joined (`fin` is not enabled for it)
example : ((run init demo).arbs sysArbId).sent = [.stop, .stop] ∧ ((run init demo).arbs sysArbId).ended = false := by decide
example : ((run (run init demo) [.runner sysArbId]).arbs sysArbId).ended = true := by decide
example : joinReturns (run (run init demo) [.runner sysArbId, .close sysArbId, .fin sysArbId]) sysArbId = false := by decide
-- an arbiter whose process-wide number coincides with another id in play (here: 1 = the system's id
-- in a process whose first System hosted no arbiters) is registered, stopped and joined like any other
example : joinReturns (run init [.newArb 1, .newArb 2, .send 2 .stop, .runner 2, .close 2, .fin 2,
    .ctrl, .ctrl, .ctrl, .ctrl, .sysSend 3, .ctrl, .runner 1, .close 1, .fin 1]) 1 = true := by decide

-- the history of the round-2 finding: `stop 1; Arbiter::new; stop 2`, all queued before the controller's
-- first step (it has not even handled the system arbiter's Register); the controller then drains its queue
def lateDemo : List Act := [.sysSend 1, .newArb 0, .sysSend 2]
example : (run init lateDemo).sysDone = 0 ∧
    (run init lateDemo).syssent = [.register sysArbId, .exit 1, .register 0, .exit 2] := by decide
example : runWithCode (run init (lateDemo ++ List.replicate 4 .ctrl)) = some 1 := by decide
example : ((run init (lateDemo ++ List.replicate 4 .ctrl)).arbs 0).sent = [.stop] := by decide
-- … whereas an arbiter registered behind the last Exit is left alone (an orphan the client must stop)
example : ((run init ([.sysSend 1, .newArb 0] ++ List.replicate 3 .ctrl)).arbs 0).sent = [] := by decide
example : joinReturns (run init (lateDemo ++ List.replicate 4 .ctrl ++ [.runner 0, .close 0, .fin 0])) 0 = true := by
  decide

end ActixNet.C09
