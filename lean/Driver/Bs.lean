import ActixNet.Model.Utf8
import Driver.Util
/-! Engine `bs`: line protocol for the UTF-8 / ByteString model. -/
namespace Driver.Bs
open ActixNet.Utf8 ActixNet.ByteString Driver

def ordStr : Ordering → String | .lt => "lt" | .eq => "eq" | .gt => "gt"

def step (st : Store) (line : String) : Store × String :=
  match words line with
  | "case" :: _ => ([], "ok")
  | ["valid", h] => match parseHex h with
    | some bs => (st, if valid bs then "1" else "0")
    | none => (st, "bad-op")
  | ["tryfrom", h] => match parseHex h with
    | some bs => match ActixNet.ByteString.step st (.tryFrom bs) with
      | some st' => (st', s!"ok {st.length}")
      | none => (st, "err")
    | none => (st, "bad-op")
  | ["fromstr", h] => match parseHex h with
    | some bs => match ActixNet.ByteString.step st (.fromStr bs) with
      | some st' => (st', s!"ok {st.length}")
      | none => (st, "bad-op")   -- not a `str`: the harness cannot even issue it
    | none => (st, "bad-op")
  | ["split", k, i] => match k.toNat?, i.toNat? with
    | some k, some i =>
      if k < st.length then
        match ActixNet.ByteString.step st (.splitAt k i) with
        | some st' => (st', s!"ok {toHex (st'.getD st.length [])} {toHex (st'.getD (st.length + 1) [])}")
        | none => (st, "panic")
      else (st, "bad-op")
    | _, _ => (st, "bad-op")
  | ["slice", k, i, j] => match k.toNat?, i.toNat?, j.toNat? with
    | some k, some i, some j =>
      if k < st.length then
        match ActixNet.ByteString.step st (.sliceRef k i j) with
        | some st' => (st', s!"ok {toHex (st'.getD st.length [])}")
        | none => (st, "panic")
      else (st, "bad-op")
    | _, _, _ => (st, "bad-op")
  | ["clone", k] => match k.toNat? with
    | some k => match ActixNet.ByteString.step st (.clone k) with
      | some st' => (st', s!"ok {st.length}")
      | none => (st, "bad-op")
    | none => (st, "bad-op")
  | ["cmp", a, b] => match a.toNat?, b.toNat? with
    | some a, some b => match st[a]?, st[b]? with
      | some x, some y => (st, ordStr (cmpBytes x y))
      | _, _ => (st, "bad-op")
    | _, _ => (st, "bad-op")
  | ["get", k] => match k.toNat? with
    | some k => match st[k]? with
      | some x => (st, toHex x)
      | none => (st, "bad-op")
    | none => (st, "bad-op")
  | ["boundary", k, i] => match k.toNat?, i.toNat? with
    | some k, some i => match st[k]? with
      | some x => (st, if isBoundary x i then "1" else "0")
      | none => (st, "bad-op")
    | _, _ => (st, "bad-op")
  | _ => (st, "bad-op")

end Driver.Bs
