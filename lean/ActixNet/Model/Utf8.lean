/-!
# Model: UTF-8 validity and `ByteString` (bytestring/src/lib.rs)

Bytes are `Nat` (< 256 by construction in the driver).  `valid` is the model of
`core::str::from_utf8(..).is_ok()`; it is compared with the real function on every run (engine
`bs`).  Import-free so that the driver links as a `lean_exe`.
-/
namespace ActixNet.Utf8

def isCont (b : Nat) : Bool := decide (0x80 ≤ b ∧ b ≤ 0xBF)
def wf1 (b0 : Nat) : Bool := decide (b0 ≤ 0x7F)
def wf2 (b0 b1 : Nat) : Bool := decide (0xC2 ≤ b0 ∧ b0 ≤ 0xDF) && isCont b1
def wf3 (b0 b1 b2 : Nat) : Bool :=
  decide (0xE0 ≤ b0 ∧ b0 ≤ 0xEF ∧ (if b0 = 0xE0 then 0xA0 else 0x80) ≤ b1 ∧
          b1 ≤ (if b0 = 0xED then 0x9F else 0xBF)) && isCont b2
def wf4 (b0 b1 b2 b3 : Nat) : Bool :=
  decide (0xF0 ≤ b0 ∧ b0 ≤ 0xF4 ∧ (if b0 = 0xF0 then 0x90 else 0x80) ≤ b1 ∧
          b1 ≤ (if b0 = 0xF4 then 0x8F else 0xBF)) && isCont b2 && isCont b3

/-- Consume one well-formed UTF-8 sequence (Unicode Table 3-7); returns the rest. -/
def eat : List Nat → Option (List Nat)
  | [] => none
  | b0 :: t =>
    if wf1 b0 then some t else
    match t with
    | [] => none
    | b1 :: t1 =>
      if wf2 b0 b1 then some t1 else
      match t1 with
      | [] => none
      | b2 :: t2 =>
        if wf3 b0 b1 b2 then some t2 else
        match t2 with
        | [] => none
        | b3 :: t3 => if wf4 b0 b1 b2 b3 then some t3 else none

def validF : Nat → List Nat → Bool
  | _, [] => true
  | 0, _ :: _ => false
  | fuel + 1, b :: t => match eat (b :: t) with | none => false | some r => validF fuel r

/-- model of `str::from_utf8(bs).is_ok()` -/
def valid (bs : List Nat) : Bool := validF bs.length bs

/-- Rust's `str::is_char_boundary` (index past the end is not a boundary). -/
def isBoundary (bs : List Nat) (i : Nat) : Bool :=
  match bs.drop i with
  | [] => decide (i ≤ bs.length)
  | b :: _ => !isCont b

/-- byte-wise lexicographic order = `str`'s `Ord` -/
def cmpBytes : List Nat → List Nat → Ordering
  | [], [] => .eq
  | [], _ :: _ => .lt
  | _ :: _, [] => .gt
  | a :: as, b :: bs => if a < b then .lt else if b < a then .gt else cmpBytes as bs

/-! ### `Display`: what `Formatter::pad` does with a `str` (precision = maximal number of chars,
width = minimal number of chars, padded with the fill character on the side(s) the alignment says;
strings are left-aligned by default) -/

/-- number of chars (scalar values) of a valid UTF-8 byte string: bytes that are not continuation bytes -/
def charCount (bs : List Nat) : Nat := (bs.filter fun b => !isCont b).length

/-- the longest prefix with at most `p` chars -/
def takeChars : Nat → List Nat → List Nat
  | _, [] => []
  | p, b :: t =>
    if isCont b then b :: takeChars p t            -- continuation byte of a char already counted
    else match p with
      | 0 => []
      | p + 1 => b :: takeChars p t

inductive Align where | left | right | center
deriving DecidableEq, Repr

/-- pad `s` to at least `w` chars with the fill byte on the side(s) the alignment says -/
def padTo (s : List Nat) (w : Nat) (align : Align) (fill : Nat) : List Nat :=
  if w ≤ charCount s then s
  else match align with
    | .left => s ++ List.replicate (w - charCount s) fill
    | .right => List.replicate (w - charCount s) fill ++ s
    | .center => List.replicate ((w - charCount s) / 2) fill ++ s ++ List.replicate ((w - charCount s + 1) / 2) fill

/-- the precision part of `f.pad(s)`: at most `p` chars -/
def truncTo (bs : List Nat) : Option Nat → List Nat
  | none => bs
  | some p => takeChars p bs

/-- `f.pad(s)` with optional width and precision, fill byte `fill` (an ASCII character) -/
def fmtPad (bs : List Nat) (width prec : Option Nat) (align : Align) (fill : Nat) : List Nat :=
  match width with
  | none => truncTo bs prec
  | some w => padTo (truncTo bs prec) w align fill

end ActixNet.Utf8

namespace ActixNet.ByteString
open ActixNet.Utf8

/-- The safe API of `ByteString`, as operations on a store of byte strings.  `none` = the Rust
call panics / returns `Err`; the store is unchanged then. -/
inductive Op where
  | tryFrom (bs : List Nat)           -- every `TryFrom<…>` constructor
  | fromStr (bs : List Nat)           -- `From<&str|String|Box<str>>`: `bs` is a Rust `str` (see guard)
  | splitAt (k i : Nat)               -- `store[k].split_at(i)`; pushes both halves
  | sliceRef (k i j : Nat)            -- `store[k].slice_ref(&store[k][i..j])`
  | clone (k : Nat)
deriving Repr

abbrev Store := List (List Nat)

def step (st : Store) : Op → Option Store
  | .tryFrom bs => if valid bs then some (st ++ [bs]) else none
  | .fromStr bs => if valid bs then some (st ++ [bs]) else none  -- a `str` is valid by Rust's invariant
  | .splitAt k i =>
    match st[k]? with
    | none => none
    | some b => if isBoundary b i then some (st ++ [b.take i, b.drop i]) else none
  | .sliceRef k i j =>
    match st[k]? with
    | none => none
    | some b =>
      if i ≤ j && isBoundary b i && isBoundary b j then some (st ++ [(b.take j).drop i]) else none
  | .clone k => match st[k]? with | none => none | some b => some (st ++ [b])

/-- run a history; failed (panicking / `Err`) operations leave the store unchanged -/
def run (st : Store) : List Op → Store
  | [] => st
  | op :: ops => run ((step st op).getD st) ops

end ActixNet.ByteString
