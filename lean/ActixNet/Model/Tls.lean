import ActixNet.Generated.Src
/-!
# Model of the `actix-tls` acceptor services (C18)

Sources: actix-tls/src/accept/mod.rs (`MAX_CONN`, `MAX_CONN_COUNTER`, `DEFAULT_TLS_HANDSHAKE_TIMEOUT`),
accept/rustls_0_23.rs and accept/openssl.rs (`AcceptorService::{poll_ready, call}`, `AcceptFut::poll`;
the two files have the same shape), actix-utils/src/counter.rs (`Counter`, `CounterGuard`).

* `pollFut` is `AcceptFut::poll`: the handshake is polled first; only if it is pending is the timeout
  `Sleep` polled (`Ready` iff the deadline has been reached).
* `Svc` is the per-thread gate: the `Counter` (kernels `Src.ucInc / ucDec / ucAvailable`, regenerated
  from counter.rs by every check run) plus the accept futures that hold its guards.  A guard lives
  exactly as long as its future: `call` takes it, completion (the future is dropped by `.await`) or an
  explicit drop releases it.
* Times are milliseconds of the (virtual) clock.
* `Conn` is the *environment* of one accepted connection as the harness drives it (client flights
  delivered / garbage / close) and `hsPoll` what the TLS library's handshake answers to one poll in
  that environment — an assumption about rustls / OpenSSL that the correspondence run re-checks, not
  a proof obligation.  The theorems of `Props/C18.lean` quantify over arbitrary handshake behaviour.
Import-free apart from the generated kernels, so the driver links as a `lean_exe`.
-/
namespace ActixNet.Tls

/-- what one poll of the TLS library's handshake future returns -/
inductive HsPoll where
  | pending
  | ok
  | err
deriving DecidableEq, Repr

/-- resolution of an accept future: a working stream, `TlsError::Tls`, `TlsError::Timeout` -/
inductive Outcome where
  | ok
  | tlsErr
  | timeout
deriving DecidableEq, Repr

/-- `AcceptFut::poll` at virtual time `now`: handshake first, then the timeout sleep.
`none` = `Poll::Pending` -/
def pollFut (deadline now : Nat) (hs : HsPoll) : Option Outcome :=
  match hs with
  | .ok => some .ok
  | .err => some .tlsErr
  | .pending => if deadline ≤ now then some .timeout else none

/-- an executor polling the future at the given instants (ascending), the handshake answering
`hs t` when polled at `t`; result: outcome and the instant of resolution -/
def drive (deadline : Nat) (hs : Nat → HsPoll) : List Nat → Option (Outcome × Nat)
  | [] => none
  | t :: ts =>
    match pollFut deadline t (hs t) with
    | some o => some (o, t)
    | none => drive deadline hs ts

/-! ## Wakers of a pending accept future

A pending `AcceptFut::poll` leaves the caller's waker in two places: the transport the handshake waits
on and the timeout `Sleep`.  Both keep the waker of the **most recent** poll (the same shape as
`LocalWaker::register`), so a future that is polled from another task (moved, `select!`,
`FuturesUnordered`) is owned by that task from then on. -/

structure FutW where
  deadline : Nat
  /-- waker of the most recent pending poll (`none`: never polled) -/
  lastW : Option Nat := none
  wokenW : Nat → Bool := fun _ => false

/-- poll by task `w` at `now` -/
def FutW.poll (f : FutW) (w now : Nat) (hs : HsPoll) : FutW × Option Outcome :=
  match pollFut f.deadline now hs with
  | some o => (f, some o)
  | none => ({ f with lastW := some w, wokenW := fun j => if j = w then false else f.wokenW j }, none)

/-- the clock goes from `old` to `new`: a timer whose deadline lies in `(old, new]` fires and wakes the
registered waker -/
def FutW.tick (f : FutW) (old new : Nat) : FutW :=
  if old < f.deadline ∧ f.deadline ≤ new then
    match f.lastW with
    | some w => { f with wokenW := fun j => if j = w then true else f.wokenW j }
    | none => f
  else f

/-! ## The gate -/

def upd {α : Type} (f : Nat → α) (i : Nat) (v : α) : Nat → α := fun j => if j = i then v else f j

inductive FutSt where
  | absent
  | alive (deadline : Nat)
  | done
deriving DecidableEq, Repr

def FutSt.isAlive : FutSt → Bool
  | .alive _ => true
  | _ => false

/-- per-thread acceptor state: the shared `Counter` and the accept futures created by `call` -/
structure Svc where
  count : Nat := 0
  cap : Nat
  /-- `LocalWaker` holds the waker of the task that polled `poll_ready` -/
  registered : Bool := false
  /-- that waker has been woken (observable flag of the harness's counting waker) -/
  woken : Bool := false
  futs : Nat → FutSt := fun _ => .absent
  next : Nat := 0
  /-- handshake timeout (ms) -/
  tmo : Nat
  /-- which task's waker the `LocalWaker` holds: the task most recently answered "unavailable"
  (`LocalWaker::register` REPLACES whatever was stored) -/
  regW : Nat := 0
  /-- per-task wake flags (the harness polls readiness from several tasks = distinct wakers) -/
  wokenW : Nat → Bool := fun _ => false

/-- `AcceptorService::poll_ready` from task `w` (its own waker in `cx`): `self.conns.available(cx)`;
second component `true` = `Ready`.  An "unavailable" answer registers `w`'s waker, replacing the one
stored before; an "available" answer touches nothing.  The polling task's own wake flag is consumed. -/
def Svc.pollReadyW (s : Svc) (w : Nat) : Svc × Bool :=
  ({ s with registered := (Src.ucAvailable s.count s.cap s.registered).2, woken := false,
            regW := if (Src.ucAvailable s.count s.cap s.registered).1 then s.regW else w,
            wokenW := upd s.wokenW w false },
   (Src.ucAvailable s.count s.cap s.registered).1)

/-- `poll_ready` from task 0 -/
def Svc.pollReady (s : Svc) : Svc × Bool := s.pollReadyW 0

/-- `AcceptorService::call` at time `now` on a service whose handshake timeout is `tmo`: takes a guard
of the thread's counter (`conns.get()`), arms `sleep(tmo)`.  Every acceptor service built on a thread
holds a handle on the same `MAX_CONN_COUNTER`; only the timeout is the service's own. -/
def Svc.callT (s : Svc) (tmo now : Nat) : Svc :=
  { s with count := Src.ucInc s.count s.cap, futs := upd s.futs s.next (.alive (now + tmo)), next := s.next + 1 }

/-- `call` on the service the case was opened with (timeout `s.tmo`) -/
def Svc.call (s : Svc) (now : Nat) : Svc := s.callT s.tmo now

/-- drop of a `CounterGuard`: `dec`, which wakes the registered task iff the kernel says so -/
def Svc.release (s : Svc) : Svc :=
  if (Src.ucDec s.count s.cap false).2 then
    { s with count := (Src.ucDec s.count s.cap false).1, registered := false, woken := s.woken || s.registered,
             wokenW := if s.registered then upd s.wokenW s.regW true else s.wokenW }
  else { s with count := (Src.ucDec s.count s.cap false).1 }

/-- poll accept future `k` at `now` with the handshake answering `hs`; a resolved future is dropped
(that is what `.await` does), which releases its guard -/
def Svc.pollK (s : Svc) (k now : Nat) (hs : HsPoll) : Svc × Option Outcome :=
  match s.futs k with
  | .alive d =>
    match pollFut d now hs with
    | some o => ({ s.release with futs := upd s.futs k .done }, some o)
    | none => (s, none)
  | _ => (s, none)

/-- drop a pending accept future -/
def Svc.dropK (s : Svc) (k : Nat) : Svc :=
  match s.futs k with
  | .alive _ => { s.release with futs := upd s.futs k .done }
  | _ => s

/-- number of alive accept futures among the first `n` -/
def aliveBelow (f : Nat → FutSt) : Nat → Nat
  | 0 => 0
  | n + 1 => aliveBelow f n + (if (f n).isAlive then 1 else 0)

/-- handshakes in progress = accept futures created and neither resolved nor dropped -/
def Svc.inProgress (s : Svc) : Nat := aliveBelow s.futs s.next

inductive Op where
  | ready
  /-- `poll_ready` from task `w` -/
  | readyW (w : Nat)
  | call (now : Nat)
  /-- a call through another service of the same thread (built from another factory / a clone), whose
  handshake timeout is `tmo` -/
  | callT (tmo now : Nat)
  | poll (k now : Nat) (hs : HsPoll)
  | drop (k : Nat)
deriving Repr

def Svc.step (s : Svc) : Op → Svc
  | .ready => s.pollReady.1
  | .readyW w => (s.pollReadyW w).1
  | .call now => s.call now
  | .callT tmo now => s.callT tmo now
  | .poll k now hs => (s.pollK k now hs).1
  | .drop k => s.dropK k

def Svc.run (s : Svc) (ops : List Op) : Svc := ops.foldl Svc.step s

/-- the `Service` contract: `call` only while the gate is open -/
def Svc.contractOk (s : Svc) : Op → Prop
  | .call _ => s.count < s.cap
  | .callT _ _ => s.count < s.cap
  | _ => True

/-- an op history that respects the contract at every step -/
def Svc.Respects (s : Svc) : List Op → Prop
  | [] => True
  | op :: ops => s.contractOk op ∧ (s.step op).Respects ops

/-! ## The process-wide limit and the per-thread counters (accept/mod.rs)

`MAX_CONN` is ONE atomic for the whole process; `max_concurrent_tls_connect(n)` stores into it from
whatever thread it is called on.  `MAX_CONN_COUNTER` is a thread-local `Counter` created on a thread's
first use (its first `new_service`) with the value `MAX_CONN` has at that moment, and keeps that
capacity for the life of the thread. -/

structure Proc where
  /-- `MAX_CONN` -/
  maxConn : Nat := Src.tlsDefaultMaxConn
deriving Repr

/-- `max_concurrent_tls_connect(n)`, from any thread -/
def Proc.setMax (_p : Proc) (n : Nat) : Proc := { maxConn := n }

/-- the gate of a thread whose counter is created now (first `new_service` on that thread) -/
def Proc.newThread (p : Proc) (tmo : Nat) : Svc := { cap := p.maxConn, tmo := tmo }

/-! ## Acceptor factories: the configuration surface (`Acceptor::{new, set_handshake_timeout, clone}`,
`ServiceFactory::new_service`)

The TLS configuration (`ServerConfig` / `SslAcceptor`) is opaque here; what the property speaks about
is the handshake timeout a service ends up with and the counter it gates on.  The six acceptor
flavours (rustls 0.20–0.23, OpenSSL, native-tls) have the same shape. -/

/-- `Acceptor` -/
structure Acceptor where
  tmo : Nat
deriving DecidableEq, Repr

/-- `Acceptor::new`: `handshake_timeout: DEFAULT_TLS_HANDSHAKE_TIMEOUT` -/
def Acceptor.new : Acceptor := { tmo := Src.tlsDefaultHandshakeTimeoutMs }
/-- `Acceptor::set_handshake_timeout` -/
def Acceptor.setTimeout (a : Acceptor) (t : Nat) : Acceptor := { a with tmo := t }
/-- `impl Clone for Acceptor` (hand-written in every flavour): every field is copied -/
def Acceptor.clone (a : Acceptor) : Acceptor := { tmo := a.tmo }
/-- a clone of a clone of … (`n` times): worker copies, combinators that own clones -/
def Acceptor.clones : Nat → Acceptor → Acceptor
  | 0, a => a
  | n + 1, a => (Acceptor.clones n a).clone
/-- `ServiceFactory::new_service`: the service takes the factory's timeout as it is at that moment (and
a clone of the thread's counter handle); result = the service's handshake timeout -/
def Acceptor.newService (a : Acceptor) : Nat := a.tmo

/-- the factories and services of one thread, in order of creation -/
structure Cfg where
  facs : List Acceptor := []
  /-- handshake timeouts of the services built so far -/
  svcs : List Nat := []
deriving Repr

inductive FOp where
  | new
  | set (f t : Nat)
  | clone (f : Nat)
  | svc (f : Nat)
deriving Repr

def Cfg.step (c : Cfg) : FOp → Cfg
  | .new => { c with facs := c.facs ++ [Acceptor.new] }
  | .set f t =>
    match c.facs[f]? with
    | some a => { c with facs := c.facs.set f (a.setTimeout t) }
    | none => c
  | .clone f =>
    match c.facs[f]? with
    | some a => { c with facs := c.facs ++ [a.clone] }
    | none => c
  | .svc f =>
    match c.facs[f]? with
    | some a => { c with svcs := c.svcs ++ [a.newService] }
    | none => c

def Cfg.run (c : Cfg) (ops : List FOp) : Cfg := ops.foldl Cfg.step c

/-! ## Environment of one connection (assumption about the TLS libraries, tied by T2) -/

/-- A TLS 1.2 / 1.3 server handshake needs two complete client flights (ClientHello; then
[ClientKeyExchange, ChangeCipherSpec,] Finished).  The harness holds the client's output and delivers
it flight by flight, whole or in two parts. -/
structure Conn where
  /-- client flights produced so far -/
  produced : Nat := 0
  /-- an undelivered (remainder of a) flight is held back by the harness -/
  held : Bool := false
  /-- complete flights delivered to the server's transport -/
  delivered : Nat := 0
  /-- complete flights consumed by server polls -/
  seen : Nat := 0
  /-- garbage injected before the handshake bytes were complete -/
  spoiled : Bool := false
  /-- the peer has gone away (both directions): whatever was delivered, the server cannot send its
  own last flight any more -/
  closed : Bool := false
  /-- the accept future has been polled at least once (its wakers are registered) -/
  polled : Bool := false
  /-- the task (waker) that polled the accept future LAST: both the transport the handshake waits on and
  the timeout `Sleep` keep the waker of the most recent poll, replacing the one stored before -/
  lastW : Nat := 0
  /-- wake flags of the tasks that have polled the accept future -/
  wokenW : Nat → Bool := fun _ => false

/-- the task that owns the future (polled it last) has been woken -/
def Conn.woken (c : Conn) : Bool := c.wokenW c.lastW

/-- a wake-up through one of the future's registered wakers: it reaches the task that polled last -/
def Conn.wake (c : Conn) : Conn := { c with wokenW := upd c.wokenW c.lastW true }

/-- what the library's handshake answers when the accept future is polled -/
def Conn.hsPoll (c : Conn) : HsPoll :=
  if c.closed then .err else if 2 ≤ c.delivered then .ok else if c.spoiled then .err else .pending

/-- delivering bytes (or closing) wakes the accept future's task if it is parked on the transport -/
def Conn.ioWake (c : Conn) : Conn := if c.polled then c.wake else c

inductive FlightMode where | full | part | rest
deriving DecidableEq, Repr

/-- `cflight`: let the client react, then deliver its pending output; `true` = something was sent -/
def Conn.cflight (c : Conn) (m : FlightMode) : Conn × Bool :=
  let c1 := if !c.held && c.produced < 2 && c.seen == c.produced then { c with produced := c.produced + 1, held := true } else c
  if c1.held then
    match m with
    | .part => (c1.ioWake, true)
    | _ => ({ c1 with held := false, delivered := c1.delivered + 1 }.ioWake, true)
  else (c1, false)

def Conn.garbage (c : Conn) : Conn := { c with spoiled := true }.ioWake
def Conn.close (c : Conn) : Conn := { c with closed := true }.ioWake

/-- bookkeeping of a server poll by task `w`: its waker replaces the registered one, its own flag is consumed -/
def Conn.afterPoll (c : Conn) (w : Nat := 0) : Conn :=
  { c with seen := c.delivered, polled := true, lastW := w, wokenW := upd c.wokenW w false }

end ActixNet.Tls
