//! Engine `rt` (C09, C10): the real `actix_rt::{System, Arbiter}` on real OS threads.
//!
//! A case is a scenario built line by line (`arb …`, `stop …`, `spawn …`), executed by `go`.  Real
//! threads cannot be stepped, so the tie to the Lean model is *membership*: `go …` is rewritten in
//! the output to `observe … || <canonical observed log>` and the Lean driver answers with the same
//! normalised verdict iff the observed log is a behaviour of the model (it builds a witness schedule
//! and runs the model on it).  `observe … || …` is accepted as input too (the log part is ignored and
//! the scenario is run again), so replays and shrunk cases are ordinary op files.
//!
//! Every scenario runs its own `System` on a fresh thread; every blocking wait has a watchdog so a
//! hang is an observation (`hang`), never a hung check.
//!
//! Scenario dimensions beyond the obvious ones (they come from the property statements, which
//! quantify over *every* arbiter, *every* queue and *whatever* the process has done before):
//! * C09 `align K`: the process-wide counters are shifted beforehand (throw-away Systems / arbiters)
//!   so that arbiter K's process-wide number equals its system's id — the only way two ids in play
//!   can coincide; kind `done` = an arbiter stopped *and joined* before anything else happens.
//! * C10 `sysarb`: the system arbiter (`System::arbiter()`) as a command target; `gate` tasks hold
//!   an arbiter's thread so that a backlog builds up behind them and is found in one go; `spawnn`
//!   sends hundreds of commands (tokio's co-operative budget splits such a batch); `host N kept|dropped`:
//!   the OS thread has hosted N Systems before (thread-locals must be overwritten, not kept).
use std::{
    collections::HashMap,
    future::Future,
    io::Write,
    pin::Pin,
    sync::{
        atomic::{AtomicBool, AtomicUsize, Ordering},
        mpsc, Arc, Mutex, RwLock,
    },
    task::{Context, Poll},
    thread,
    time::{Duration, Instant},
};

use actix_rt::{Arbiter, ArbiterHandle, System};
use vh::*;

const WATCHDOG: Duration = Duration::from_secs(5);

/// System ids and arbiter numbers are process-wide counters.  Whoever creates Systems / arbiters
/// holds this lock shared; a scenario that *aligns* the counters holds it exclusively while it
/// measures, shifts and creates.
static ID_LOCK: RwLock<()> = RwLock::new(());
/// how long a scenario waits for `ID_LOCK` before it gives up (reported as `setup=blocked`, which is
/// not an oracle failure: it only happens behind a scenario that hangs while creating arbiters)
const LOCK_WAIT: Duration = Duration::from_secs(90);

// -------------------------------------------------------------------------------------------------
// scenario description (shared grammar with lean/Driver/Rt.lean — keep the validity rules identical)
// -------------------------------------------------------------------------------------------------

#[derive(Clone, Copy, PartialEq, Debug)]
enum Kind {
    Early,
    Dropped,
    Running,
    Busy,
    /// stopped and joined right after creation: has "already stopped" in the strongest sense
    Done,
}

#[derive(Clone, PartialEq, Debug)]
enum Origin {
    SysPre,
    SysTask,
    Foreign,
    Arb(usize),
}

#[derive(Clone, Debug)]
struct StopSpec {
    origin: Origin,
    code: i32,
    seq: bool,
}

#[derive(Clone, Copy, PartialEq, Debug)]
enum Via {
    Own,
    H1,
    H2,
}

#[derive(Clone, Copy, PartialEq, Debug)]
enum TaskKind {
    Fn,
    Fut,
    Pend,
    Yield,
    Sleep,
    Panic,
    FnPanic,
    Block,
    /// a function that holds the arbiter's thread until the director `open`s it (3 s at most)
    Gate,
}

#[derive(Clone, Debug)]
enum Cmd10 {
    /// `burst`: not the first command of a `spawnn` (no pause in front of it)
    Spawn { arb: usize, via: Via, kind: TaskKind, task: usize, burst: bool },
    Stop { arb: usize, via: Via },
    Wait { task: usize },
    Open { task: usize },
}

#[derive(Default)]
struct Scenario {
    proto: u8, // 9, 10, 0 = none
    done: bool,
    kinds: Vec<Kind>,
    stops: Vec<StopSpec>,
    /// c09: arbiter whose process-wide number is made equal to the system's id
    align: Option<usize>,
    /// c10: number of command targets (arbiters incl. the system arbiter)
    narb: usize,
    /// c10: index of the target that is the system arbiter
    sys_idx: Option<usize>,
    /// c10: the OS thread hosted this many Systems before (kept alive / dropped)
    host: Option<(usize, bool)>,
    cmds: Vec<Cmd10>,
    nlines: usize,
    ntask: usize,
    task_arb: Vec<usize>,
    /// c10: per task: None = not a gate, Some(opened)
    task_gate: Vec<Option<bool>>,
    stopped: Vec<bool>, // c10: a stop command exists for this arbiter
}

const MAX_LINES: usize = 24;
const MAX_TASKS: usize = 400;

fn parse_i32(s: &str) -> Option<i32> {
    // same grammar as the Lean driver: optional '-', then 1..6 digits
    let (neg, d) = match s.strip_prefix('-') {
        Some(r) => (true, r),
        None => (false, s),
    };
    if d.is_empty() || d.len() > 6 || !d.bytes().all(|b| b.is_ascii_digit()) {
        return None;
    }
    let v: i32 = d.parse().ok()?;
    Some(if neg { -v } else { v })
}

fn parse_nat(s: &str) -> Option<usize> {
    if s.is_empty() || s.len() > 6 || !s.bytes().all(|b| b.is_ascii_digit()) {
        return None;
    }
    s.parse().ok()
}

fn parse_prefixed(s: &str, p: &str) -> Option<usize> {
    parse_nat(s.strip_prefix(p)?)
}

// -------------------------------------------------------------------------------------------------
// helpers
// -------------------------------------------------------------------------------------------------

struct Guard(Arc<AtomicBool>);
impl Drop for Guard {
    fn drop(&mut self) {
        self.0.store(true, Ordering::SeqCst);
    }
}

fn jitter(rng: &mut Rng) {
    match rng.below(8) {
        0 | 1 => {}
        2 | 3 => thread::yield_now(),
        4 | 5 => thread::sleep(Duration::from_micros(20 + rng.below(300) as u64)),
        6 => thread::sleep(Duration::from_micros(300 + rng.below(1200) as u64)),
        _ => thread::sleep(Duration::from_micros(1000 + rng.below(3000) as u64)),
    }
}

fn wait_flag(f: &AtomicBool, d: Duration) -> bool {
    let t0 = Instant::now();
    while !f.load(Ordering::SeqCst) {
        if t0.elapsed() > d {
            return false;
        }
        thread::sleep(Duration::from_micros(200));
    }
    true
}

/// join with a watchdog: "ok" | "panicked" | "hang"
fn join_watchdog(arb: Arbiter, d: Duration) -> &'static str {
    let (tx, rx) = mpsc::channel();
    thread::spawn(move || {
        let r = arb.join();
        let _ = tx.send(r.is_ok());
    });
    match rx.recv_timeout(d) {
        Ok(true) => "ok",
        Ok(false) => "panicked",
        Err(_) => "hang",
    }
}

fn arb_number_of(name: &str) -> Option<usize> {
    name.rsplit("arbiter:").next()?.parse().ok()
}

/// process-wide number of a live arbiter (read from its thread's name)
fn arb_number(a: &Arbiter) -> Option<usize> {
    let (tx, rx) = mpsc::channel();
    a.spawn_fn(move || {
        let _ = tx.send(thread::current().name().map(|s| s.to_string()));
    });
    arb_number_of(&rx.recv_timeout(WATCHDOG).ok()??)
}

/// Shift the process-wide counters (caller holds `ID_LOCK` exclusively) so that, if the caller now
/// creates a System and then arbiters, the (k+1)-th of them gets a number equal to the System's id.
/// Done the way a program would get there: Systems and arbiters created — and gone — earlier on.
fn align_counters(k: usize) -> bool {
    let r0 = System::new();
    let s0 = System::current().id();
    let a = Arbiter::new();
    let n0 = arb_number(&a);
    a.stop();
    let _ = join_watchdog(a, WATCHDOG);
    let Some(n0) = n0 else { return false };
    let (next_sys, next_arb) = (s0 + 1, n0 + 1);
    let target = next_arb + k;
    if next_sys.abs_diff(target) > 20_000 {
        return false;
    }
    if next_sys <= target {
        // Systems that never ran
        for _ in next_sys..target {
            drop(System::new());
        }
    } else {
        // arbiters that came and went (under the throw-away System, which is still current)
        for _ in 0..(next_sys - target) {
            let a = Arbiter::new();
            a.stop();
            let _ = join_watchdog(a, WATCHDOG);
        }
    }
    drop(r0);
    true
}

struct YieldN(usize);
impl Future for YieldN {
    type Output = ();
    fn poll(mut self: Pin<&mut Self>, cx: &mut Context<'_>) -> Poll<()> {
        if self.0 == 0 {
            Poll::Ready(())
        } else {
            self.0 -= 1;
            cx.waker().wake_by_ref();
            Poll::Pending
        }
    }
}

// -------------------------------------------------------------------------------------------------
// C09
// -------------------------------------------------------------------------------------------------

struct ArbSlot {
    arb: Option<Arbiter>,
    handle: ArbiterHandle,
    ended: Arc<AtomicBool>,
    /// `done` arbiters: result of the join made right after creation
    joined: Option<&'static str>,
    /// thread name seen by the guard task (None: the guard never started)
    name: Arc<Mutex<Option<String>>>,
}

struct Out {
    log: String,
    verdict: String,
    t3: Vec<(String, String)>,
}

fn exec_c09(sc: &Scenario, mode_run: bool, jseed: u64) -> Out {
    let n = sc.kinds.len();
    let kinds = sc.kinds.clone();
    let stops = sc.stops.clone();
    let mut rng = Rng::new(jseed);

    // gates / acks, one per stop
    let mut gate_tx = vec![];
    let mut gate_rx = vec![];
    let mut ack_rx = vec![];
    let mut ack_tx = vec![];
    for _ in &stops {
        let (g, r) = tokio::sync::oneshot::channel::<()>();
        gate_tx.push(Some(g));
        gate_rx.push(Some(r));
        let (a, b) = mpsc::channel::<()>();
        ack_tx.push(a);
        ack_rx.push(b);
    }

    let (setup_tx, setup_rx) = mpsc::channel();
    let (locked_tx, locked_rx) = mpsc::channel::<()>();
    let (res_tx, res_rx) = mpsc::channel::<Result<i32, String>>();

    // issuers that live on the system thread
    let mut sys_issuers = vec![];
    for (i, s) in stops.iter().enumerate() {
        if matches!(s.origin, Origin::SysPre | Origin::SysTask) {
            sys_issuers.push((i, s.clone(), gate_rx[i].take().unwrap(), ack_tx[i].clone()));
        }
    }
    let mut rng_sys = Rng::new(jseed ^ 0x5151);
    let kinds2 = kinds.clone();
    let align = sc.align;
    thread::spawn(move || {
        // creation phase under the id lock (exclusive when the counters are being aligned)
        let excl = align.map(|_| ID_LOCK.write().unwrap_or_else(|e| e.into_inner()));
        let shared = if excl.is_none() { Some(ID_LOCK.read().unwrap_or_else(|e| e.into_inner())) } else { None };
        let shifted = align.map(align_counters).unwrap_or(false);
        let _ = locked_tx.send(());
        let runner = System::new();
        let sys = System::current();
        let mut slots = vec![];
        let mut early = vec![];
        // "immediate" flavour: the first stop, when it comes from the system thread before `run`,
        // is issued in the very next statement after the last `Arbiter::new()` returned — the
        // tightest race between that arbiter's `Register` and the `Exit`
        let immediate = jseed % 3 == 0
            && sys_issuers.first().map(|x| x.0 == 0 && x.1.origin == Origin::SysPre).unwrap_or(false);
        let mut immediate_done = false;
        let nk = kinds2.len();
        for (ki, k) in kinds2.iter().enumerate() {
            jitter(&mut rng_sys);
            let arb = Arbiter::new();
            if immediate && ki + 1 == nk {
                System::current().stop_with_code(sys_issuers[0].1.code);
                let _ = sys_issuers[0].3.send(());
                immediate_done = true;
            }
            let handle = arb.handle();
            let ended = Arc::new(AtomicBool::new(false));
            let g = Guard(ended.clone());
            let name = Arc::new(Mutex::new(None));
            let name2 = name.clone();
            handle.spawn(async move {
                let _g = g;
                *name2.lock().unwrap() = thread::current().name().map(|s| s.to_string());
                std::future::pending::<()>().await
            });
            let mut joined = None;
            let arb = match k {
                Kind::Early => {
                    jitter(&mut rng_sys);
                    early.push(arb.stop());
                    Some(arb)
                }
                Kind::Done => {
                    jitter(&mut rng_sys);
                    early.push(arb.stop());
                    joined = Some(join_watchdog(arb, WATCHDOG));
                    None
                }
                Kind::Dropped => {
                    drop(arb);
                    None
                }
                Kind::Running => Some(arb),
                Kind::Busy => {
                    let rounds = 3 + rng_sys.below(6);
                    let us = 100 + rng_sys.below(1500) as u64;
                    let timer = rng_sys.chance(1, 3);
                    handle.spawn(async move {
                        for _ in 0..rounds {
                            thread::sleep(Duration::from_micros(us));
                            if timer {
                                actix_rt::time::sleep(Duration::from_millis(2)).await;
                            } else {
                                YieldN(1).await;
                            }
                        }
                    });
                    Some(arb)
                }
            };
            slots.push(ArbSlot { arb, handle, ended, joined, name });
        }
        drop((shared, excl));
        let _ = setup_tx.send((sys.clone(), slots, early, shifted));
        for (i, s, gate, ack) in sys_issuers {
            if i == 0 && immediate_done {
                continue;
            }
            match s.origin {
                Origin::SysPre => {
                    // blocks the system thread until the director opens the gate
                    if gate.blocking_recv().is_err() {
                        let _ = res_tx.send(Err("gate-dropped".into()));
                        return;
                    }
                    jitter(&mut rng_sys);
                    System::current().stop_with_code(s.code);
                    let _ = ack.send(());
                }
                Origin::SysTask => {
                    let code = s.code;
                    sys.arbiter().spawn(async move {
                        let _ = gate.await;
                        System::current().stop_with_code(code);
                        let _ = ack.send(());
                    });
                }
                _ => {}
            }
        }
        let r = if mode_run {
            runner.run().map(|_| 0).map_err(|e| e.to_string())
        } else {
            runner.run_with_code().map_err(|e| format!("io:{e}"))
        };
        let _ = res_tx.send(r);
    });

    let mut t3 = vec![];
    // waiting for the id lock (other scenarios' creation phases, counters being shifted) is not part of
    // the scenario: the watchdog runs from the moment the lock is held
    if locked_rx.recv_timeout(LOCK_WAIT).is_err() {
        return Out { log: "setup=blocked".into(), verdict: "setup=blocked".into(), t3: vec![] };
    }
    let (sys, mut slots, early, shifted) = match setup_rx.recv_timeout(4 * WATCHDOG) {
        Ok(x) => x,
        Err(_) => {
            return Out {
                log: "setup=hang".into(),
                verdict: "setup=hang".into(),
                t3: vec![("C09".into(), "System::new / Arbiter::new did not return within the watchdog".into())],
            }
        }
    };

    // issuers on arbiter threads and foreign threads
    for (i, s) in stops.iter().enumerate() {
        let code = s.code;
        match s.origin {
            Origin::Arb(k) => {
                let gate = gate_rx[i].take().unwrap();
                let ack = ack_tx[i].clone();
                slots[k].handle.spawn(async move {
                    let _ = gate.await;
                    System::current().stop_with_code(code);
                    let _ = ack.send(());
                });
            }
            Origin::Foreign => {
                let gate = gate_rx[i].take().unwrap();
                let ack = ack_tx[i].clone();
                let sys = sys.clone();
                let mut r = Rng::new(jseed ^ (0x77 + i as u64));
                thread::spawn(move || {
                    let _ = gate.blocking_recv();
                    jitter(&mut r);
                    sys.stop_with_code(code);
                    let _ = ack.send(());
                });
            }
            _ => {}
        }
    }
    // open the gates: the first at once, the second at once (race) or after the first's ack (seq)
    jitter(&mut rng);
    let mut acked = vec![false; stops.len()];
    for i in 0..stops.len() {
        if i > 0 && stops[i].seq {
            acked[i - 1] = ack_rx[i - 1].recv_timeout(WATCHDOG).is_ok();
        } else if i > 0 {
            jitter(&mut rng);
        }
        if let Some(g) = gate_tx[i].take() {
            let _ = g.send(());
        }
    }

    let res = res_rx.recv_timeout(WATCHDOG);
    let (code_s, res_s): (String, String) = match &res {
        Err(_) => ("hang".into(), "hang".into()),
        Ok(Ok(c)) => (c.to_string(), "ok".into()),
        Ok(Err(e)) => {
            // `run` reports a non-zero code only through the error text
            match e.strip_prefix("Non-zero exit code: ").and_then(|c| c.trim().parse::<i32>().ok()) {
                Some(c) => (c.to_string(), "err".into()),
                None => (format!("error({})", e.replace(' ', "_")), "err".into()),
            }
        }
    };

    // joins / loop-ended guards / post spawns
    let mut joins = vec![];
    let mut hung = false;
    for s in slots.iter_mut() {
        match s.arb.take() {
            None => match s.joined {
                Some(r) => joins.push(r),
                None => joins.push("-"),
            },
            Some(a) => {
                let r = join_watchdog(a, if hung { Duration::from_millis(500) } else { WATCHDOG });
                hung |= r == "hang";
                joins.push(r);
            }
        }
    }
    let mut ended = vec![];
    for s in &slots {
        ended.push(wait_flag(&s.ended, if hung { Duration::from_millis(500) } else { WATCHDOG }));
    }
    let post: Vec<bool> = slots.iter().map(|s| s.handle.spawn_fn(|| {})).collect();

    // ---- T3: the property statement, directly on the observation ----
    let c1 = stops[0].code;
    let allowed: Vec<i32> = if stops.len() == 1 || stops[1].seq { vec![c1] } else { vec![c1, stops[1].code] };
    match &res {
        Err(_) => t3.push(("C09".into(), format!("run_with_code did not return within {WATCHDOG:?} after stop_with_code"))),
        Ok(_) => match code_s.parse::<i32>() {
            Ok(c) => {
                if !allowed.contains(&c) {
                    t3.push(("C09".into(), format!("returned code {c}, but the first stop issued had code {c1} (allowed {allowed:?})")));
                }
                if mode_run && (res_s == "ok") != (c == 0) {
                    t3.push(("C09".into(), format!("run() returned {res_s} for exit code {c}")));
                }
            }
            Err(_) => t3.push(("C09".into(), format!("run returned an unexpected error {code_s}"))),
        },
    }
    for (k, j) in joins.iter().enumerate() {
        if *j != "-" && *j != "ok" {
            t3.push(("C09".into(), format!("join of arbiter {k} ({:?}): {j}", kinds[k])));
        }
    }
    for (k, e) in ended.iter().enumerate() {
        if !e {
            t3.push(("C09".into(), format!("event loop of arbiter {k} ({:?}) did not end after the system stop", kinds[k])));
        }
    }
    if early.iter().any(|b| !b) {
        t3.push(("C09".into(), "stop() on a freshly created arbiter returned false".into()));
    }

    let b = |x: bool| if x { "1" } else { "0" };
    // was the requested coincidence of ids reached?  (1 / 0 / ? = the arbiter never ran a task)
    let aligned = match sc.align {
        None => "-".to_string(),
        Some(k) => match slots[k].name.lock().unwrap().as_deref().and_then(arb_number_of) {
            Some(nr) => format!("{}", b(shifted && nr == sys.id())),
            None => "?".to_string(),
        },
    };
    let log = format!(
        "code={} res={} joins={} ended={} early={} post={} aligned={aligned}",
        code_s,
        if mode_run { res_s.as_str() } else { "-" },
        if joins.is_empty() { "-".to_string() } else { joins.join(",") },
        if ended.is_empty() { "-".to_string() } else { ended.iter().map(|e| b(*e)).collect::<Vec<_>>().join(",") },
        if early.is_empty() { "-".to_string() } else { early.iter().map(|e| b(*e)).collect::<Vec<_>>().join(",") },
        if post.is_empty() { "-".to_string() } else { post.iter().map(|e| b(*e)).collect::<Vec<_>>().join(",") },
    );
    let joinable = joins.iter().filter(|j| **j != "-").count();
    let verdict = format!(
        "code={} res={} joins={}/{} ended={}/{} early={}/{} post={}/{}",
        code_s,
        if mode_run { res_s.as_str() } else { "-" },
        joins.iter().filter(|j| **j == "ok").count(),
        joinable,
        ended.iter().filter(|e| **e).count(),
        n,
        early.iter().filter(|e| **e).count(),
        early.len(),
        post.iter().filter(|e| **e).count(),
        n,
    );
    Out { log, verdict, t3 }
}

// -------------------------------------------------------------------------------------------------
// C10
// -------------------------------------------------------------------------------------------------

#[derive(Clone, Debug)]
struct StartRec {
    task: usize,
    seq: usize,
    thread: thread::ThreadId,
    name: String,
    sys_id: Option<usize>,
    has_arb: bool,
}

struct TaskLog {
    seq: AtomicUsize,
    recs: Mutex<Vec<StartRec>>,
    counts: Mutex<HashMap<usize, usize>>,
    /// drop flags of the `pend` futures: all of them must have been dropped when `join` returns
    guards: Mutex<Vec<(usize, Arc<AtomicBool>)>>,
    /// the senders that open the `gate` tasks
    gates: Mutex<HashMap<usize, mpsc::Sender<()>>>,
}

impl TaskLog {
    fn start(&self, task: usize) {
        let seq = self.seq.fetch_add(1, Ordering::SeqCst);
        let cur = thread::current();
        let rec = StartRec {
            task,
            seq,
            thread: cur.id(),
            name: cur.name().unwrap_or("").to_string(),
            sys_id: System::try_current().map(|s| s.id()),
            has_arb: Arbiter::try_current().is_some(),
        };
        self.recs.lock().unwrap().push(rec);
        *self.counts.lock().unwrap().entry(task).or_insert(0) += 1;
    }
    fn started(&self, task: usize) -> bool {
        self.counts.lock().unwrap().get(&task).copied().unwrap_or(0) > 0
    }
    fn open(&self, task: usize) {
        if let Some(tx) = self.gates.lock().unwrap().remove(&task) {
            let _ = tx.send(());
        }
    }
    fn open_all(&self) {
        for (_, tx) in self.gates.lock().unwrap().drain() {
            let _ = tx.send(());
        }
    }
}

fn do_spawn(h: &Sender10, kind: TaskKind, task: usize, log: Arc<TaskLog>) -> bool {
    macro_rules! sp {
        ($f:expr) => {
            match h {
                Sender10::Arb(a) => a.spawn($f),
                Sender10::Handle(a) => a.spawn($f),
            }
        };
    }
    macro_rules! spf {
        ($f:expr) => {
            match h {
                Sender10::Arb(a) => a.spawn_fn($f),
                Sender10::Handle(a) => a.spawn_fn($f),
            }
        };
    }
    match kind {
        TaskKind::Fn => spf!(move || log.start(task)),
        TaskKind::FnPanic => spf!(move || {
            log.start(task);
            panic!("task {task} panics")
        }),
        TaskKind::Fut => sp!(async move { log.start(task) }),
        TaskKind::Pend => {
            let flag = Arc::new(AtomicBool::new(false));
            log.guards.lock().unwrap().push((task, flag.clone()));
            let g = Guard(flag);
            sp!(async move {
                let _g = g;
                log.start(task);
                std::future::pending::<()>().await
            })
        }
        TaskKind::Yield => sp!(async move {
            log.start(task);
            YieldN(2).await;
        }),
        TaskKind::Sleep => sp!(async move {
            log.start(task);
            actix_rt::time::sleep(Duration::from_millis(1)).await;
        }),
        TaskKind::Panic => sp!(async move {
            log.start(task);
            panic!("task {task} panics")
        }),
        // keeps the arbiter's thread busy so that later commands pile up in its channel
        TaskKind::Block => spf!(move || {
            log.start(task);
            thread::sleep(Duration::from_micros(1500));
        }),
        // holds the arbiter's thread until the director opens the gate: everything sent meanwhile
        // is found by the arbiter's loop in one go
        TaskKind::Gate => {
            let (tx, rx) = mpsc::channel::<()>();
            log.gates.lock().unwrap().insert(task, tx);
            spf!(move || {
                log.start(task);
                let _ = rx.recv_timeout(Duration::from_secs(3));
            })
        }
    }
}

enum Sender10<'a> {
    Arb(&'a Arbiter),
    Handle(&'a ArbiterHandle),
}

enum HelperMsg {
    Spawn(usize, TaskKind, usize),
    Stop(usize),
    Quit,
}

struct Sys10 {
    sys: System,
    sys_thread: thread::ThreadId,
    arbs: Vec<Arbiter>,
    res_rx: mpsc::Receiver<Result<i32, String>>,
}

/// A System on a fresh OS thread, with `narb` arbiters.  `host = (n, kept)`: before that, the same
/// thread hosts `n` other Systems one after the other, each of which does a little work (a local task;
/// every other one also an arbiter that comes and goes); their runners are kept alive until the
/// thread ends, or dropped at once.
fn start_system(narb: usize, host: Option<(usize, bool)>) -> Result<Sys10, Out> {
    let fail = |what: &str, t3: bool| Out {
        log: format!("setup={what}"),
        verdict: format!("setup={what}"),
        t3: if t3 { vec![("C10".into(), "System::new / Arbiter::new did not return within the watchdog".into())] } else { vec![] },
    };
    let (setup_tx, setup_rx) = mpsc::channel();
    let (locked_tx, locked_rx) = mpsc::channel::<()>();
    let (res_tx, res_rx) = mpsc::channel();
    thread::spawn(move || {
        let mut kept = vec![];
        let lock = ID_LOCK.read().unwrap_or_else(|e| e.into_inner());
        let _ = locked_tx.send(());
        if let Some((n, keep)) = host {
            for i in 0..n {
                let r = System::new();
                let _ = r.block_on(async move { actix_rt::spawn(async move { i }).await });
                if i % 2 == 1 {
                    let a = Arbiter::new();
                    a.stop();
                    let _ = join_watchdog(a, WATCHDOG);
                }
                if keep {
                    kept.push(r);
                }
            }
        }
        let runner = System::new();
        let sys = System::current();
        let arbs: Vec<Arbiter> = (0..narb).map(|_| Arbiter::new()).collect();
        drop(lock);
        let _ = setup_tx.send((sys, thread::current().id(), arbs));
        let r = runner.run_with_code().map_err(|e| e.to_string());
        let _ = res_tx.send(r);
        drop(kept);
    });
    locked_rx.recv_timeout(LOCK_WAIT).map_err(|_| fail("blocked", false))?;
    let (sys, sys_thread, arbs) = setup_rx.recv_timeout(4 * WATCHDOG).map_err(|_| fail("hang", true))?;
    Ok(Sys10 { sys, sys_thread, arbs, res_rx })
}

fn short<T: std::fmt::Debug>(v: &[T]) -> String {
    if v.len() <= 16 {
        format!("{v:?}")
    } else {
        format!("{:?}… ({} in all)", &v[..16], v.len())
    }
}

fn exec_c10(sc: &Scenario, jseed: u64) -> Out {
    let narb = sc.narb; // targets
    let is_sys = |a: usize| sc.sys_idx == Some(a);
    let nreal = narb - sc.sys_idx.map_or(0, |_| 1);
    let mut rng = Rng::new(jseed);
    let mut t3: Vec<(String, String)> = vec![];
    let Sys10 { sys, sys_thread, arbs, res_rx } = match start_system(nreal, sc.host) {
        Ok(x) => x,
        Err(out) => return out,
    };
    let sys_id = sys.id();
    let log = Arc::new(TaskLog {
        seq: AtomicUsize::new(0),
        recs: Mutex::new(vec![]),
        counts: Mutex::new(HashMap::new()),
        guards: Mutex::new(vec![]),
        gates: Mutex::new(HashMap::new()),
    });
    // per target: the owner object (None for the system arbiter) and a handle
    let mut real = arbs.into_iter();
    let mut owners: Vec<Option<Arbiter>> = (0..narb).map(|a| if is_sys(a) { None } else { real.next() }).collect();
    let handles: Vec<ArbiterHandle> =
        owners.iter().map(|o| match o { Some(a) => a.handle(), None => sys.arbiter().clone() }).collect();

    // helper threads with cloned handles
    let mut helper_tx = vec![];
    let mut helper_ids = vec![];
    let (ack_tx, ack_rx) = mpsc::channel::<bool>();
    for _ in 0..2 {
        let (tx, rx) = mpsc::channel::<HelperMsg>();
        let hs = handles.clone();
        let log = log.clone();
        let ack = ack_tx.clone();
        let (id_tx, id_rx) = mpsc::channel();
        thread::spawn(move || {
            let _ = id_tx.send(thread::current().id());
            while let Ok(m) = rx.recv() {
                match m {
                    HelperMsg::Spawn(a, k, t) => {
                        let r = do_spawn(&Sender10::Handle(&hs[a]), k, t, log.clone());
                        let _ = ack.send(r);
                    }
                    HelperMsg::Stop(a) => {
                        let _ = ack.send(hs[a].stop());
                    }
                    HelperMsg::Quit => break,
                }
            }
        });
        helper_tx.push(tx);
        helper_ids.push(id_rx.recv().unwrap());
    }

    // the command sequence, in a global order fixed by this (director) thread
    let mut rets: Vec<bool> = vec![];
    let mut waits: Vec<(usize, bool)> = vec![];
    let profile = jseed % 3; // 0: burst (no pauses between commands), 1: pauses, 2: a pause now and then
    for c in &sc.cmds {
        let in_burst = matches!(c, Cmd10::Spawn { burst: true, .. });
        if !in_burst && (profile == 1 || (profile == 2 && rng.chance(1, 4))) {
            jitter(&mut rng);
        }
        match c {
            Cmd10::Spawn { arb, via, kind, task, .. } => {
                let r = match via {
                    Via::Own => match &owners[*arb] {
                        Some(a) => do_spawn(&Sender10::Arb(a), *kind, *task, log.clone()),
                        None => do_spawn(&Sender10::Handle(&handles[*arb]), *kind, *task, log.clone()),
                    },
                    Via::H1 | Via::H2 => {
                        let i = if *via == Via::H1 { 0 } else { 1 };
                        let _ = helper_tx[i].send(HelperMsg::Spawn(*arb, *kind, *task));
                        ack_rx.recv_timeout(WATCHDOG).unwrap_or(false)
                    }
                };
                rets.push(r);
            }
            Cmd10::Stop { arb, via } => {
                let r = match via {
                    Via::Own => match &owners[*arb] {
                        Some(a) => a.stop(),
                        None => handles[*arb].stop(),
                    },
                    Via::H1 | Via::H2 => {
                        let i = if *via == Via::H1 { 0 } else { 1 };
                        let _ = helper_tx[i].send(HelperMsg::Stop(*arb));
                        ack_rx.recv_timeout(WATCHDOG).unwrap_or(false)
                    }
                };
                rets.push(r);
            }
            Cmd10::Wait { task } => {
                let t0 = Instant::now();
                let mut ok = log.started(*task);
                while !ok && t0.elapsed() < Duration::from_secs(3) {
                    thread::sleep(Duration::from_micros(100));
                    ok = log.started(*task);
                }
                waits.push((*task, ok));
            }
            Cmd10::Open { task } => log.open(*task),
        }
    }
    log.open_all();
    for tx in &helper_tx {
        let _ = tx.send(HelperMsg::Quit);
    }

    // "join returns only after the loop has ended": when join has returned, (a) every `pend` future
    // that had STARTED on that arbiter has been dropped (the LocalSet that owns it is gone) and
    // (b) no task start is logged afterwards.  (A future still sitting in the channel is not covered:
    // tokio may keep a message whose send raced the receiver's drop alive until the last sender goes
    // — observed in 2 of 11 700 runs; that is below the level of this property.)
    let mut joins = vec![];
    let mut seq_at_join = vec![];
    let mut hung = false;
    let mut undropped = vec![];
    for ai in 0..narb {
        let Some(a) = owners[ai].take() else {
            joins.push("-");
            seq_at_join.push(usize::MAX);
            continue;
        };
        let r = join_watchdog(a, if hung { Duration::from_millis(500) } else { WATCHDOG });
        hung |= r == "hang";
        joins.push(r);
        seq_at_join.push(log.seq.load(Ordering::SeqCst));
        if r == "ok" {
            for (t, f) in log.guards.lock().unwrap().iter() {
                if sc.task_arb[*t] == ai && log.started(*t) && !f.load(Ordering::SeqCst) {
                    undropped.push(*t);
                }
            }
        }
    }
    // the system arbiter cannot be joined; its loop has ended when its channel refuses commands
    let mut sysgone = None;
    if let Some(si) = sc.sys_idx {
        let t0 = Instant::now();
        let mut gone = !handles[si].stop();
        while !gone && t0.elapsed() < WATCHDOG {
            thread::sleep(Duration::from_micros(200));
            gone = !handles[si].stop();
        }
        sysgone = Some(gone);
    }
    // once the arbiter is gone, spawn reports false
    let post: Vec<bool> = handles.iter().map(|h| h.spawn_fn(|| {})).collect();
    let post_stop: Vec<bool> = handles.iter().map(|h| h.stop()).collect();
    thread::sleep(Duration::from_micros(300));
    sys.stop();
    let sys_res = res_rx.recv_timeout(WATCHDOG);
    // the system's runtime is gone: the futures its LocalSet owned have been dropped
    if let (Some(si), Ok(_)) = (sc.sys_idx, &sys_res) {
        for (t, f) in log.guards.lock().unwrap().iter() {
            if sc.task_arb[*t] == si && log.started(*t) && !f.load(Ordering::SeqCst) {
                undropped.push(*t);
            }
        }
    }

    // ---- canonical log ----
    let recs = log.recs.lock().unwrap().clone();
    let counts = log.counts.lock().unwrap().clone();
    let mut by_arb: Vec<Vec<&StartRec>> = vec![vec![]; narb];
    let mut sorted: Vec<&StartRec> = recs.iter().collect();
    sorted.sort_by_key(|r| r.seq);
    for r in &sorted {
        by_arb[sc.task_arb[r.task]].push(r);
    }
    // thread identity
    let mut thr_ok = true;
    let mut thr_why = String::new();
    let mut arb_threads: Vec<Option<thread::ThreadId>> = vec![None; narb];
    for (a, rs) in by_arb.iter().enumerate() {
        for r in rs {
            match arb_threads[a] {
                None => arb_threads[a] = Some(r.thread),
                Some(t) if t != r.thread => {
                    thr_ok = false;
                    thr_why = format!("task {} of arbiter {a} ran on a different thread than an earlier task", r.task);
                }
                _ => {}
            }
            if is_sys(a) {
                if r.thread != sys_thread {
                    thr_ok = false;
                    thr_why = format!("task {} sent to the system arbiter did not run on the system's thread", r.task);
                }
                continue;
            }
            if !r.name.starts_with(&format!("actix-rt|system:{sys_id}|arbiter:")) {
                thr_ok = false;
                thr_why = format!("task {} ran on thread named {:?}", r.task, r.name);
            }
            if r.thread == sys_thread || r.thread == thread::current().id() || helper_ids.contains(&r.thread) {
                thr_ok = false;
                thr_why = format!("task {} ran on the system/director/helper thread", r.task);
            }
        }
    }
    for a in 0..narb {
        for b in 0..a {
            if arb_threads[a].is_some() && arb_threads[a] == arb_threads[b] {
                thr_ok = false;
                thr_why = format!("arbiters {a} and {b} ran tasks on the same thread");
            }
        }
    }
    let cur_ok = recs.iter().all(|r| r.has_arb);
    let sys_ok = recs.iter().all(|r| r.sys_id == Some(sys_id));
    let once_ok = counts.values().all(|c| *c <= 1);
    let late = !undropped.is_empty() || by_arb.iter().enumerate().any(|(a, rs)| rs.iter().any(|r| r.seq >= seq_at_join[a]));

    // ---- T3: the property statement on the observation ----
    for (a, rs) in by_arb.iter().enumerate() {
        // send order of this arbiter's executes, and which were sent before the first stop
        let mut order = vec![];
        let mut npre = 0;
        let mut seen_stop = false;
        for c in &sc.cmds {
            match c {
                Cmd10::Spawn { arb, task, .. } if *arb == a => {
                    order.push(*task);
                    if !seen_stop {
                        npre += 1;
                    }
                }
                Cmd10::Stop { arb, .. } if *arb == a => seen_stop = true,
                _ => {}
            }
        }
        let pre = &order[..npre];
        let started: Vec<usize> = rs.iter().map(|r| r.task).collect();
        let who = if is_sys(a) { format!("arbiter {a} (the system arbiter)") } else { format!("arbiter {a}") };
        // FIFO: started is a subsequence of the send order — in fact a prefix of it
        if started.len() > order.len() || started[..] != order[..started.len()] {
            t3.push(("C10".into(), format!("{who}: start order {} is not a prefix of the send order {}", short(&started), short(&order))));
        }
        let after: Vec<usize> = started.iter().copied().filter(|t| !pre.contains(t)).collect();
        if !after.is_empty() {
            t3.push(("C10".into(), format!("{who}: task(s) {} were sent after stop() and started", short(&after))));
        }
    }
    if !once_ok {
        let twice: Vec<usize> = counts.iter().filter(|(_, c)| **c > 1).map(|(t, _)| *t).collect();
        t3.push(("C10".into(), format!("a task started more than once: {}", short(&twice))));
    }
    if !thr_ok {
        t3.push(("C10".into(), format!("thread identity: {thr_why}")));
    }
    if !cur_ok {
        t3.push(("C10".into(), "Arbiter::try_current() was None inside a task".into()));
    }
    if !sys_ok {
        t3.push(("C10".into(), "System::current() inside a task is not the arbiter's system".into()));
    }
    for (t, ok) in &waits {
        if !ok {
            t3.push(("C10".into(), format!("task {t} sent to a live arbiter with no stop ahead of it never started")));
        }
    }
    for (a, j) in joins.iter().enumerate() {
        if *j != "ok" && *j != "-" {
            t3.push(("C10".into(), format!("join of arbiter {a}: {j}")));
        }
    }
    if sysgone == Some(false) {
        t3.push(("C10".into(), format!("the system arbiter still accepted commands {WATCHDOG:?} after stop()")));
    }
    if late {
        t3.push(("C10".into(), format!("join() returned before the loop had ended: a task started afterwards or pending futures {undropped:?} were still alive")));
    }
    if post.iter().any(|b| *b) || post_stop.iter().any(|b| *b) {
        t3.push(("C10".into(), format!("spawn/stop after the arbiter was joined returned true: spawn={post:?} stop={post_stop:?}")));
    }
    // a send may only fail once a stop is queued ahead of it
    {
        let mut seen_stop = vec![false; narb];
        let mut i = 0;
        for c in &sc.cmds {
            match c {
                Cmd10::Spawn { arb, .. } => {
                    if !rets[i] && !seen_stop[*arb] {
                        t3.push(("C10".into(), format!("spawn #{i} on live arbiter {arb} returned false")));
                    }
                    i += 1;
                }
                Cmd10::Stop { arb, .. } => {
                    if !rets[i] && !seen_stop[*arb] {
                        t3.push(("C10".into(), format!("stop #{i} on live arbiter {arb} returned false")));
                    }
                    seen_stop[*arb] = true;
                    i += 1;
                }
                _ => {}
            }
        }
    }
    if !matches!(sys_res, Ok(Ok(0))) {
        t3.push(("C10".into(), format!("system did not stop cleanly: {sys_res:?}")));
    }

    let b = |x: bool| if x { "1" } else { "0" };
    let starts: Vec<String> = sorted.iter().map(|r| format!("a{}:t{}", sc.task_arb[r.task], r.task)).collect();
    let ids = if thr_ok && cur_ok && sys_ok { "ok".to_string() } else { format!("bad(thr={},cur={},sys={})", b(thr_ok), b(cur_ok), b(sys_ok)) };
    let sysgone_s = match sysgone {
        None => "-",
        Some(g) => b(g),
    };
    let logline = format!(
        "rets={} starts={} waits={} joins={} sysgone={} post={} ids={} once={} late={}",
        if rets.is_empty() { "-".into() } else { rets.iter().map(|r| b(*r)).collect::<Vec<_>>().join("") },
        if starts.is_empty() { "-".into() } else { starts.join(",") },
        if waits.is_empty() { "-".into() } else { waits.iter().map(|(t, ok)| format!("t{t}:{}", b(*ok))).collect::<Vec<_>>().join(",") },
        joins.join(","),
        sysgone_s,
        post.iter().zip(&post_stop).map(|(x, y)| format!("{}{}", b(*x), b(*y))).collect::<Vec<_>>().join(","),
        ids,
        b(once_ok),
        b(late),
    );
    // normalised verdict (the Lean driver prints the same from the model's final state)
    let mut v = vec![];
    for (a, rs) in by_arb.iter().enumerate() {
        let pre = count_pre(sc, a);
        v.push(format!("a{a}:started={}/{}", rs.len(), pre));
    }
    v.push(format!("rets={}", if rets.is_empty() { "-".into() } else { rets.iter().map(|r| b(*r)).collect::<Vec<_>>().join("") }));
    v.push(format!("waits={}/{}", waits.iter().filter(|w| w.1).count(), waits.len()));
    v.push(format!("joins={}/{}", joins.iter().filter(|j| **j == "ok").count(), nreal));
    v.push(format!("sysgone={sysgone_s}"));
    v.push(format!("post={}/{}", post.iter().chain(post_stop.iter()).filter(|x| **x).count(), 2 * narb));
    v.push(format!("ids={ids}"));
    v.push(format!("once={}", if once_ok { "ok" } else { "bad" }));
    v.push(format!("late={}", b(late)));
    Out { log: logline, verdict: v.join(" "), t3 }
}

/// number of executes sent to arbiter `a` before its first stop
fn count_pre(sc: &Scenario, a: usize) -> usize {
    let mut n = 0;
    for c in &sc.cmds {
        match c {
            Cmd10::Spawn { arb, .. } if *arb == a => n += 1,
            Cmd10::Stop { arb, .. } if *arb == a => break,
            _ => {}
        }
    }
    n
}

/// `ident`: `Arbiter::current()` inside a task is a handle to *that* arbiter (a function sent through
/// it runs, and on the same thread), `System::current()` is the arbiter's system, and
/// `System::current().arbiter()` is the system arbiter (runs on the system thread) — for every
/// `Arbiter::new` arbiter and for the system arbiter itself, also when the system's thread has
/// hosted other Systems before (`host`).
fn exec_ident(sc: &Scenario) -> Out {
    let narb = sc.narb;
    let mut t3 = vec![];
    let Sys10 { sys, sys_thread, arbs, res_rx } = match start_system(narb, sc.host) {
        Ok(x) => x,
        Err(out) => return out,
    };
    let sys_id = sys.id();
    // (arbiter or usize::MAX for the system arbiter, probe, thread, System::current().id(), return of the send that created a follow-up probe)
    type Rec = (usize, &'static str, thread::ThreadId, Option<usize>);
    const SYS: usize = usize::MAX;
    let (tx, rx) = mpsc::channel::<Rec>();
    let sent_ok = Arc::new(AtomicBool::new(true));
    let here = || (thread::current().id(), System::try_current().map(|s| s.id()));
    for (a, arb) in arbs.iter().enumerate() {
        let tx = tx.clone();
        let sent_ok = sent_ok.clone();
        arb.spawn(async move {
            let (t, s) = here();
            let _ = tx.send((a, "parent", t, s));
            let tx2 = tx.clone();
            let r1 = Arbiter::current().spawn_fn(move || {
                let (t, s) = here();
                let _ = tx2.send((a, "child", t, s));
            });
            let tx3 = tx.clone();
            let r2 = System::current().arbiter().spawn_fn(move || {
                let (t, s) = here();
                let _ = tx3.send((a, "sysarb", t, s));
            });
            if !(r1 && r2) {
                sent_ok.store(false, Ordering::SeqCst);
            }
        });
    }
    {
        // the system arbiter itself: a task on it, and a function it sends through `Arbiter::current()`
        let tx = tx.clone();
        let sent_ok = sent_ok.clone();
        sys.arbiter().spawn(async move {
            let (t, s) = here();
            let _ = tx.send((SYS, "parent", t, s));
            let tx2 = tx.clone();
            let r = Arbiter::current().spawn_fn(move || {
                let (t, s) = here();
                let _ = tx2.send((SYS, "child", t, s));
            });
            if !r {
                sent_ok.store(false, Ordering::SeqCst);
            }
        });
    }
    let want = 3 * narb + 2;
    let mut recs: Vec<Rec> = vec![];
    let t0 = Instant::now();
    while recs.len() < want && t0.elapsed() < Duration::from_secs(3) {
        if let Ok(r) = rx.recv_timeout(Duration::from_millis(50)) {
            recs.push(r);
        }
    }
    let mut ok = true;
    let mut why = String::new();
    let mut threads = vec![];
    let get = |a: usize, w: &str| recs.iter().find(|r| r.0 == a && r.1 == w).cloned();
    let name = |a: usize| if a == SYS { "the system arbiter".to_string() } else { format!("arbiter {a}") };
    for a in (0..narb).chain([SYS]) {
        let (p, c) = (get(a, "parent"), get(a, "child"));
        let Some(p) = p else {
            ok = false;
            why = format!("a task sent to {} never ran", name(a));
            continue;
        };
        match c {
            None => {
                ok = false;
                why = format!("a function sent through Arbiter::current() from a task on {} never ran: Arbiter::current() is not that arbiter", name(a));
            }
            Some(c) => {
                if p.2 != c.2 {
                    ok = false;
                    why = format!("a function sent through Arbiter::current() on {} ran on another thread", name(a));
                }
                if c.3 != Some(sys_id) {
                    ok = false;
                    why = "System::current() differs from the arbiter's system".into();
                }
            }
        }
        if p.3 != Some(sys_id) {
            ok = false;
            why = "System::current() differs from the arbiter's system".into();
        }
        if a == SYS {
            if p.2 != sys_thread {
                ok = false;
                why = "a task sent to the system arbiter did not run on the system's thread".into();
            }
            continue;
        }
        match get(a, "sysarb") {
            None => {
                ok = false;
                why = "a function sent through System::current().arbiter() never ran".into();
            }
            Some(s) => {
                if s.2 != sys_thread {
                    ok = false;
                    why = "a function sent through System::current().arbiter() did not run on the system thread".into();
                }
                if s.3 != Some(sys_id) {
                    ok = false;
                    why = "System::current() differs from the arbiter's system".into();
                }
            }
        }
        if p.2 == sys_thread || threads.contains(&p.2) {
            ok = false;
            why = format!("arbiter {a} shares its thread with the system or another arbiter");
        }
        threads.push(p.2);
    }
    if !sent_ok.load(Ordering::SeqCst) {
        ok = false;
        why = format!("Arbiter::current().spawn_fn / System::current().arbiter().spawn_fn returned false inside a task of a live arbiter{}", if why.is_empty() { String::new() } else { format!(" ({why})") });
    }
    for a in &arbs {
        a.stop();
    }
    let mut j = 0;
    for a in arbs {
        if join_watchdog(a, WATCHDOG) == "ok" {
            j += 1;
        }
    }
    sys.stop();
    let _ = res_rx.recv_timeout(WATCHDOG);
    if !ok {
        t3.push(("C10".into(), format!("identity: {why}")));
    }
    if j != narb {
        t3.push(("C10".into(), "join after stop did not return".into()));
    }
    let host = match sc.host {
        None => "0".to_string(),
        Some((n, keep)) => format!("{n}{}", if keep { "k" } else { "d" }),
    };
    Out { log: String::new(), verdict: format!("ident={} n={narb} host={host} joins={j}/{narb}", if ok { "ok" } else { "bad" }), t3 }
}

fn new_system() -> actix_rt::SystemRunner {
    let _l = ID_LOCK.read().unwrap_or_else(|e| e.into_inner());
    System::new()
}

/// `blockon <variant> <pends> <value>`
fn exec_blockon(variant: &str, pends: usize, value: i32) -> Result<String, String> {
    let v = variant.to_string();
    let (tx, rx) = mpsc::channel();
    thread::spawn(move || {
        let r = catch(|| match v.as_str() {
            "rt" => actix_rt::Runtime::new().unwrap().block_on(async move {
                YieldN(pends).await;
                value
            }),
            "sys" => new_system().block_on(async move {
                YieldN(pends).await;
                value
            }),
            _ => new_system().block_on(async move {
                let h = actix_rt::spawn(async move {
                    YieldN(pends).await;
                    value
                });
                h.await.unwrap()
            }),
        });
        let _ = tx.send(r);
    });
    match rx.recv_timeout(WATCHDOG) {
        Ok(Ok(v)) => Ok(format!("out={v}")),
        Ok(Err(e)) => Err(format!("panic:{e}")),
        Err(_) => Err("hang".into()),
    }
}

// -------------------------------------------------------------------------------------------------
// line protocol
// -------------------------------------------------------------------------------------------------

/// result of feeding one line to the scenario builder
enum LineRes {
    Plain(String),
    GoC09 { mode_run: bool, j: u64, head: String },
    GoC10 { j: u64, head: String },
    Ident,
    BlockOn(String, usize, i32),
}

fn feed(sc: &mut Scenario, ws: &[&str]) -> LineRes {
    let bad = || LineRes::Plain("bad-op".into());
    if ws.first() == Some(&"case") {
        *sc = Scenario::default();
        sc.proto = match ws.get(2) {
            Some(&"c09") => 9,
            Some(&"c10") => 10,
            _ => 0,
        };
        return LineRes::Plain("ok".into());
    }
    if sc.done {
        return bad();
    }
    // `observe <head…> || <log…>` is `go <head…>`
    let ws: Vec<&str> = if ws.first() == Some(&"observe") {
        let cut = ws.iter().position(|w| *w == "||").unwrap_or(ws.len());
        let mut v = vec!["go"];
        v.extend_from_slice(&ws[1..cut]);
        v
    } else {
        ws.to_vec()
    };
    match (sc.proto, ws.as_slice()) {
        (9, ["arb", k]) => {
            let kind = match *k {
                "early" => Kind::Early,
                "dropped" => Kind::Dropped,
                "running" => Kind::Running,
                "busy" => Kind::Busy,
                "done" => Kind::Done,
                _ => return bad(),
            };
            if sc.kinds.len() >= 3 || !sc.stops.is_empty() || sc.align.is_some() {
                return bad();
            }
            sc.kinds.push(kind);
            LineRes::Plain(format!("ok a{}", sc.kinds.len() - 1))
        }
        (9, ["align", k]) => {
            // after the `arb` lines, before the stops, once
            match parse_nat(k) {
                Some(k) if k < sc.kinds.len() && sc.stops.is_empty() && sc.align.is_none() => {
                    sc.align = Some(k);
                    LineRes::Plain("ok".into())
                }
                _ => bad(),
            }
        }
        (9, ["stop", o, c, rest @ ..]) => {
            let origin = match *o {
                "sys-pre" => Origin::SysPre,
                "sys-task" => Origin::SysTask,
                "foreign" => Origin::Foreign,
                _ => match parse_prefixed(o, "arb:") {
                    Some(k) if k < sc.kinds.len() && sc.kinds[k] != Kind::Early && sc.kinds[k] != Kind::Done => Origin::Arb(k),
                    _ => return bad(),
                },
            };
            let Some(code) = parse_i32(c) else { return bad() };
            let seq = match rest {
                [] | ["seq"] => true,
                ["race"] => false,
                _ => return bad(),
            };
            if sc.stops.len() >= 2 {
                return bad();
            }
            // a pre-run stop cannot be sequenced after one that needs the system to be running
            if sc.stops.len() == 1 && seq && origin == Origin::SysPre && sc.stops[0].origin == Origin::SysTask {
                return bad();
            }
            sc.stops.push(StopSpec { origin, code, seq });
            LineRes::Plain("ok".into())
        }
        (9, ["go", m, j]) => {
            let mode_run = match *m {
                "run" => true,
                "code" => false,
                _ => return bad(),
            };
            let Some(j) = parse_prefixed(j, "j=") else { return bad() };
            if sc.stops.is_empty() {
                return bad();
            }
            sc.done = true;
            LineRes::GoC09 { mode_run, j: j as u64, head: format!("{m} j={j}") }
        }
        (10, ["host", n, mode]) => {
            let keep = match *mode {
                "kept" => true,
                "dropped" => false,
                _ => return bad(),
            };
            match parse_nat(n) {
                Some(n) if (1..=3).contains(&n) && sc.host.is_none() && sc.narb == 0 && sc.nlines == 0 => {
                    sc.host = Some((n, keep));
                    LineRes::Plain("ok".into())
                }
                _ => bad(),
            }
        }
        (10, ["arb"]) => {
            if sc.narb - sc.sys_idx.map_or(0, |_| 1) >= 2 || sc.nlines > 0 {
                return bad();
            }
            sc.narb += 1;
            sc.stopped.push(false);
            LineRes::Plain(format!("ok a{}", sc.narb - 1))
        }
        (10, ["sysarb"]) => {
            if sc.sys_idx.is_some() || sc.nlines > 0 {
                return bad();
            }
            sc.sys_idx = Some(sc.narb);
            sc.narb += 1;
            sc.stopped.push(false);
            LineRes::Plain(format!("ok a{}", sc.narb - 1))
        }
        (10, ["spawn", a, via, kind]) => {
            let (Some(a), Some(via), Some(kind)) = (parse_nat(a), parse_via(via), parse_kind(kind)) else { return bad() };
            if a >= sc.narb || sc.nlines >= MAX_LINES || sc.ntask >= MAX_TASKS {
                return bad();
            }
            let task = sc.ntask;
            sc.ntask += 1;
            sc.nlines += 1;
            sc.task_arb.push(a);
            sc.task_gate.push(if kind == TaskKind::Gate { Some(false) } else { None });
            sc.cmds.push(Cmd10::Spawn { arb: a, via, kind, task, burst: false });
            LineRes::Plain(format!("ok t{task}"))
        }
        (10, ["spawnn", a, via, kind, n]) => {
            let (Some(a), Some(via), Some(kind), Some(n)) = (parse_nat(a), parse_via(via), parse_kind(kind), parse_nat(n)) else { return bad() };
            if a >= sc.narb || sc.nlines >= MAX_LINES || !(2..=300).contains(&n) || sc.ntask + n > MAX_TASKS || kind == TaskKind::Gate {
                return bad();
            }
            sc.nlines += 1;
            let first = sc.ntask;
            for i in 0..n {
                let task = sc.ntask;
                sc.ntask += 1;
                sc.task_arb.push(a);
                sc.task_gate.push(None);
                sc.cmds.push(Cmd10::Spawn { arb: a, via, kind, task, burst: i > 0 });
            }
            LineRes::Plain(format!("ok t{first}..t{}", sc.ntask - 1))
        }
        (10, ["stop", a, via]) => {
            let (Some(a), Some(via)) = (parse_nat(a), parse_via(via)) else { return bad() };
            if a >= sc.narb || sc.nlines >= MAX_LINES {
                return bad();
            }
            sc.nlines += 1;
            sc.stopped[a] = true;
            sc.cmds.push(Cmd10::Stop { arb: a, via });
            LineRes::Plain("ok".into())
        }
        (10, ["wait", t]) => {
            let Some(t) = parse_prefixed(t, "t") else { return bad() };
            // only for a task with no stop ahead of it on its arbiter and no closed gate in front of it
            if t >= sc.ntask || sc.stopped[sc.task_arb[t]] || sc.nlines >= MAX_LINES {
                return bad();
            }
            if (0..t).any(|g| sc.task_arb[g] == sc.task_arb[t] && sc.task_gate[g] == Some(false)) {
                return bad();
            }
            sc.nlines += 1;
            sc.cmds.push(Cmd10::Wait { task: t });
            LineRes::Plain("ok".into())
        }
        (10, ["open", t]) => {
            let Some(t) = parse_prefixed(t, "t") else { return bad() };
            if t >= sc.ntask || sc.task_gate[t] != Some(false) || sc.nlines >= MAX_LINES {
                return bad();
            }
            sc.nlines += 1;
            sc.task_gate[t] = Some(true);
            sc.cmds.push(Cmd10::Open { task: t });
            LineRes::Plain("ok".into())
        }
        (10, ["go", j]) => {
            let Some(j) = parse_prefixed(j, "j=") else { return bad() };
            if sc.narb == 0 || sc.stopped.iter().any(|s| !s) {
                return bad();
            }
            sc.done = true;
            LineRes::GoC10 { j: j as u64, head: format!("j={j}") }
        }
        (10, ["ident"]) => {
            // the system arbiter is always probed; `arb` lines add `Arbiter::new` arbiters
            if sc.sys_idx.is_some() || sc.nlines > 0 {
                return bad();
            }
            sc.done = true;
            LineRes::Ident
        }
        (10, ["blockon", v, p, x]) => {
            let (Some(p), Some(x)) = (parse_nat(p), parse_i32(x)) else { return bad() };
            if !matches!(*v, "rt" | "sys" | "spawn") || p > 1000 {
                return bad();
            }
            LineRes::BlockOn(v.to_string(), p, x)
        }
        _ => bad(),
    }
}

fn parse_via(s: &str) -> Option<Via> {
    match s {
        "own" => Some(Via::Own),
        "h1" => Some(Via::H1),
        "h2" => Some(Via::H2),
        _ => None,
    }
}

fn parse_kind(s: &str) -> Option<TaskKind> {
    Some(match s {
        "fn" => TaskKind::Fn,
        "fut" => TaskKind::Fut,
        "pend" => TaskKind::Pend,
        "yield" => TaskKind::Yield,
        "sleep" => TaskKind::Sleep,
        "panic" => TaskKind::Panic,
        "fnpanic" => TaskKind::FnPanic,
        "block" => TaskKind::Block,
        "gate" => TaskKind::Gate,
        _ => return None,
    })
}

struct CaseOut {
    lines: Vec<(String, String)>,
    t3: Vec<(String, String)>,
}

fn run_case(lines: &[String]) -> CaseOut {
    let mut sc = Scenario::default();
    let mut out = CaseOut { lines: vec![], t3: vec![] };
    for line in lines {
        let ws: Vec<&str> = line.split_whitespace().collect();
        match feed(&mut sc, &ws) {
            LineRes::Plain(r) => out.lines.push((line.clone(), r)),
            LineRes::GoC09 { mode_run, j, head } => {
                let o = exec_c09(&sc, mode_run, j);
                out.lines.push((format!("observe {head} || {}", o.log), o.verdict));
                out.t3.extend(o.t3);
            }
            LineRes::GoC10 { j, head } => {
                let o = exec_c10(&sc, j);
                out.lines.push((format!("observe {head} || {}", o.log), o.verdict));
                out.t3.extend(o.t3);
            }
            LineRes::Ident => {
                let o = exec_ident(&sc);
                out.lines.push((line.clone(), o.verdict));
                out.t3.extend(o.t3);
            }
            LineRes::BlockOn(v, p, x) => match exec_blockon(&v, p, x) {
                Ok(r) => {
                    if r != format!("out={x}") {
                        out.t3.push(("C10".into(), format!("block_on returned {r}, the future's output is {x}")));
                    }
                    out.lines.push((line.clone(), r));
                }
                Err(e) => {
                    out.t3.push(("C10".into(), format!("block_on: {e}")));
                    out.lines.push((line.clone(), e));
                }
            },
        }
    }
    out
}

fn run(a: &Args) {
    silence_panics();
    let mut rep = Report::new(&a.output);
    // split into cases
    let mut cases: Vec<Vec<String>> = vec![];
    for line in in_lines(&a.input) {
        if line.trim().is_empty() || line.starts_with('#') {
            continue;
        }
        if line.starts_with("case") || cases.is_empty() {
            cases.push(vec![]);
        }
        cases.last_mut().unwrap().push(line);
    }
    let n = cases.len();
    let cases = Arc::new(cases);
    let next = Arc::new(AtomicUsize::new(0));
    let results: Arc<Mutex<HashMap<usize, CaseOut>>> = Arc::new(Mutex::new(HashMap::new()));
    let env_n = |k: &str, d: usize| std::env::var(k).ok().and_then(|s| s.parse().ok()).unwrap_or(d);
    let workers = env_n("VERIF_RT_WORKERS", 6);
    // A run against defective code spends a watchdog period on every hanging scenario.  Scenarios are
    // started in input order; no new one is started once enough of them have failed their oracle
    // (the orchestrator shrinks the first few only) or the time budget is used up.  The scenarios not
    // run are left out of the output (and named in a note); on sound code neither limit is reached.
    let max_fail = env_n("VERIF_RT_MAX_FAIL", 10);
    let budget = Duration::from_secs(env_n("VERIF_RT_BUDGET_S", 420) as u64);
    let t_start = Instant::now();
    let failed = Arc::new(AtomicUsize::new(0));
    let mut ths = vec![];
    for _ in 0..workers.max(1) {
        let (cases, next, results, failed) = (cases.clone(), next.clone(), results.clone(), failed.clone());
        ths.push(thread::spawn(move || loop {
            if failed.load(Ordering::SeqCst) >= max_fail || t_start.elapsed() > budget {
                break;
            }
            let i = next.fetch_add(1, Ordering::SeqCst);
            if i >= cases.len() {
                break;
            }
            // each scenario on its own fresh thread: System::new installs thread-locals
            let cs = cases.clone();
            let h = thread::spawn(move || run_case(&cs[i]));
            let out = h.join().unwrap_or_else(|_| CaseOut {
                lines: cases[i].iter().map(|l| (l.clone(), "harness-panic".to_string())).collect(),
                t3: vec![],
            });
            if !out.t3.is_empty() {
                failed.fetch_add(1, Ordering::SeqCst);
            }
            results.lock().unwrap().insert(i, out);
        }));
    }
    for t in ths {
        let _ = t.join();
    }
    let mut results = results.lock().unwrap();
    let mut skipped = 0;
    for i in 0..n {
        let Some(out) = results.remove(&i) else {
            skipped += 1;
            continue;
        };
        for (op, real) in &out.lines {
            rep.obs(op, real);
        }
        for (p, m) in &out.t3 {
            rep.t3(p, m);
        }
    }
    if skipped > 0 {
        rep.note(&format!(
            "{skipped} of {n} scenarios not run: {} scenarios had failed their oracle / {:.0?} elapsed (limits {max_fail} / {budget:?})",
            failed.load(Ordering::SeqCst),
            t_start.elapsed()
        ));
    }
    rep.finish();
    // leaked threads of hung scenarios must not keep the process alive
    std::process::exit(0);
}

// -------------------------------------------------------------------------------------------------
// generators
// -------------------------------------------------------------------------------------------------

const KINDS9: [&str; 5] = ["early", "dropped", "running", "busy", "done"];

fn write_c09(w: &mut dyn Write, name: &str, kinds: &[usize], align: Option<usize>, stops: &[(String, i32, &str)], mode: &str, j: u64) {
    writeln!(w, "case {name} c09").unwrap();
    for k in kinds {
        writeln!(w, "arb {}", KINDS9[*k]).unwrap();
    }
    if let Some(k) = align {
        writeln!(w, "align {k}").unwrap();
    }
    for (i, (o, c, m)) in stops.iter().enumerate() {
        if i == 0 {
            writeln!(w, "stop {o} {c}").unwrap();
        } else {
            writeln!(w, "stop {o} {c} {m}").unwrap();
        }
    }
    writeln!(w, "go {mode} j={j}").unwrap();
}

/// origins a stop can come from: the system thread before `run`, a task on it, a foreign thread, a
/// task on an arbiter whose loop is running
fn origins_for(kinds: &[usize]) -> Vec<String> {
    let mut v = vec!["sys-pre".to_string(), "sys-task".to_string(), "foreign".to_string()];
    for (k, kind) in kinds.iter().enumerate() {
        if *kind != 0 && *kind != 4 {
            v.push(format!("arb:{k}"));
        }
    }
    v
}

/// Directed scenarios (both tiers, in front): arbiters that stopped — and were joined — before the
/// stop while others live, with the process-wide counters shifted beforehand so that a live (or an
/// already stopped) arbiter's number equals the system's id.
fn directed_c09(w: &mut dyn Write, rng: &mut Rng, thorough: bool) {
    const E: usize = 0;
    const D: usize = 1;
    const R: usize = 2;
    const B: usize = 3;
    const X: usize = 4; // done
    let configs: [(&[usize], usize); 10] = [
        (&[R, X], 0),
        (&[X, R], 1),
        (&[R, E], 0),
        (&[B, X, R], 0),
        (&[X, R, B], 2),
        (&[D, X], 0),
        (&[E, D, R], 1),
        (&[R], 0),
        (&[X, X, R], 2),
        (&[X, R, R], 0),
    ];
    let mut n = 0;
    for (ci, (kinds, k)) in configs.iter().enumerate() {
        let origins = origins_for(kinds);
        let picks: Vec<usize> = if thorough { (0..origins.len()).collect() } else { vec![ci % 3, (ci + 1 + rng.below(2)) % origins.len()] };
        for oi in picks {
            let code = *rng.pick(&[0, 3, 7, -1]);
            let mut stops = vec![(origins[oi].clone(), code, "seq")];
            if n % 3 == 2 {
                stops.push(("foreign".to_string(), 9, if n % 2 == 0 { "seq" } else { "race" }));
            }
            let mode = if n % 2 == 0 { "code" } else { "run" };
            write_c09(w, &format!("d{n}"), kinds, Some(*k), &stops, mode, rng.next() % 1_000_000);
            n += 1;
        }
    }
}

fn gen_c09(a: &Args, w: &mut dyn Write) {
    let mut rng = Rng::new(a.seed ^ 0xC09);
    directed_c09(w, &mut rng, a.tier == "thorough");
    if a.tier == "thorough" {
        // the whole space: 0..3 arbiters × kinds × origin × code × 1–2 stops, 3 repetitions
        let mut n = 0;
        for rep in 0..3u64 {
            for na in 0..=3usize {
                for kc in 0..5usize.pow(na as u32) {
                    let kinds: Vec<usize> = (0..na).map(|i| (kc / 5usize.pow(i as u32)) % 5).collect();
                    let origins = origins_for(&kinds);
                    for (oi, o) in origins.iter().enumerate() {
                        for code in [0, 7] {
                            for two in [false, true] {
                                let mut stops = vec![(o.clone(), code, "seq")];
                                if two {
                                    let o2 = origins[(oi + 1 + rng.below(origins.len())) % origins.len()].clone();
                                    let m = if rng.chance(1, 2) { "seq" } else { "race" };
                                    if m == "seq" && o2 == "sys-pre" && o == "sys-task" {
                                        stops.push((o2, if code == 0 { 9 } else { 0 }, "race"));
                                    } else {
                                        stops.push((o2, if code == 0 { 9 } else { 0 }, m));
                                    }
                                }
                                let mode = if (n + rep as usize) % 2 == 0 { "code" } else { "run" };
                                // two thirds with an arbiter's number aligned to the system id, spread evenly
                                // (so the counters never drift far apart and shifting them stays cheap)
                                let align = if (n + rep as usize) % 3 == 0 || na == 0 { None } else { Some((rep as usize + kc + oi) % na) };
                                write_c09(w, &format!("x{n}"), &kinds, align, &stops, mode, rng.next() % 1_000_000);
                                n += 1;
                            }
                        }
                    }
                }
            }
        }
    } else {
        for n in 0..72 {
            let na = [0, 1, 2, 2, 3, 3][rng.below(6)];
            let kinds: Vec<usize> = (0..na).map(|_| rng.below(5)).collect();
            let origins = origins_for(&kinds);
            let o = rng.pick(&origins).clone();
            let code = *rng.pick(&[0, 7, 7, -3, 255]);
            let mut stops = vec![(o.clone(), code, "seq")];
            if rng.chance(1, 2) {
                let o2 = rng.pick(&origins).clone();
                let mut m = if rng.chance(1, 2) { "seq" } else { "race" };
                if m == "seq" && o2 == "sys-pre" && o == "sys-task" {
                    m = "race";
                }
                stops.push((o2, *rng.pick(&[0, 9, 1]), m));
            }
            let mode = if rng.chance(1, 2) { "code" } else { "run" };
            let align = if na > 0 && rng.chance(1, 3) { Some(rng.below(na)) } else { None };
            write_c09(w, &format!("q{n}"), &kinds, align, &stops, mode, rng.next() % 1_000_000);
        }
    }
    // malformed / not applicable: answered `bad-op` identically by both sides
    writeln!(w, "case bad1 c09\narb early\nstop arb:0 7\nstop arb:3 7\narb idle\ngo code j=1\nstop sys-pre x\nstop sys-task 1\nstop sys-pre 2 seq\nstop sys-pre 2 race\nstop foreign 3\narb running\ngo walk j=1\ngo code j=5\ngo code j=6").unwrap();
    writeln!(w, "case bad2 c09\narb running\narb running\narb running\narb running\nspawn 0 own fn\ngo code").unwrap();
    writeln!(w, "case bad3\narb running\nstop sys-pre 0\ngo code j=0").unwrap();
    writeln!(w, "case bad4 c09\nalign 0\narb done\nalign 1\nalign x\nalign 0\nalign 0\narb running\nstop arb:0 1\nstop foreign 1\nalign 0\ngo code j=2").unwrap();
}

const KINDS10: [&str; 8] = ["fn", "fut", "pend", "yield", "sleep", "panic", "fnpanic", "block"];
const VIAS: [&str; 3] = ["own", "h1", "h2"];

/// Directed C10 scenarios (both tiers, in front).
fn directed_c10(w: &mut dyn Write, rng: &mut Rng, n: &mut usize, thorough: bool) {
    let mut case = |w: &mut dyn Write, lines: &[String], rng: &mut Rng| {
        writeln!(w, "case d{} c10", *n).unwrap();
        *n += 1;
        for l in lines {
            writeln!(w, "{l}").unwrap();
        }
        if lines.last().map(|l| l.as_str()) != Some("ident") {
            writeln!(w, "go j={}", rng.next() % 1_000_000).unwrap();
        }
    };
    let s = |x: &str| x.to_string();
    // (1) the system arbiter as a target
    case(w, &[s("sysarb"), s("spawn 0 own fn"), s("wait t0"), s("stop 0 own")], rng);
    case(w, &[s("sysarb"), s("spawn 0 h1 fut"), s("spawn 0 own pend"), s("wait t1"), s("stop 0 h2"), s("spawn 0 own fn")], rng);
    // (2) a batch with a stop in it, found in one go by the system arbiter's loop
    for (pre, post) in [(0usize, 1usize), (1, 1), (2, 3)] {
        let mut l = vec![s("sysarb"), s("spawn 0 own gate"), s("wait t0")];
        for i in 0..pre {
            l.push(format!("spawn 0 {} {}", VIAS[(i + post) % 3], ["fn", "pend", "fut"][i % 3]));
        }
        l.push(format!("stop 0 {}", VIAS[pre % 3]));
        for i in 0..post {
            l.push(format!("spawn 0 {} {}", VIAS[i % 3], ["fn", "fut", "yield"][i % 3]));
        }
        l.push(s("open t0"));
        case(w, &l, rng);
    }
    // … with another arbiter alongside
    case(w, &[s("arb"), s("sysarb"), s("spawn 1 own gate"), s("spawn 0 own fn"), s("wait t1"), s("spawn 1 h1 fn"), s("stop 1 own"), s("spawn 1 own fn"), s("stop 0 h1"), s("open t0")], rng);
    // (3) long backlogs behind a held thread: k executes, the stop, m executes — found in one go
    // (tokio hands out at most 128 messages per poll, then the LocalSet runs a batch of tasks)
    let sizes: &[(usize, usize)] = if thorough { &[(0, 130), (1, 128), (5, 200), (30, 120), (60, 300), (100, 60), (130, 40), (200, 200)] } else { &[(5, 200), (30, 120), (100, 60)] };
    for (i, (k, m)) in sizes.iter().enumerate() {
        for tgt in ["arb", "sysarb"] {
            if tgt == "sysarb" && !thorough && i > 0 {
                continue;
            }
            let mut l = vec![s(tgt), s("spawn 0 own gate"), s("wait t0")];
            match k {
                0 => {}
                1 => l.push(s("spawn 0 own fn")),
                _ => l.push(format!("spawnn 0 {} fn {k}", VIAS[i % 3])),
            }
            l.push(format!("stop 0 {}", VIAS[(i + 1) % 3]));
            l.push(format!("spawnn 0 {} {} {m}", VIAS[(i + 2) % 3], ["fn", "fut"][i % 2]));
            l.push(s("open t0"));
            case(w, &l, rng);
        }
    }
    // (4) long queues racing the loop (nothing held)
    case(w, &[s("arb"), s("spawnn 0 own fn 250"), s("stop 0 h1"), s("spawnn 0 own fut 100")], rng);
    case(w, &[s("arb"), s("spawn 0 own block"), s("spawnn 0 h2 fn 150"), s("stop 0 own"), s("spawnn 0 own fn 150")], rng);
    case(w, &[s("sysarb"), s("spawn 0 own block"), s("spawnn 0 own fn 140"), s("stop 0 own"), s("spawnn 0 h1 fn 60")], rng);
    // (5) the 2nd, 3rd, 4th System an OS thread hosts
    for nh in 1..=3usize {
        for mode in ["dropped", "kept"] {
            let mut l = vec![format!("host {nh} {mode}")];
            for _ in 0..(nh % 3) {
                l.push(s("arb"));
            }
            l.push(s("ident"));
            case(w, &l, rng);
            if thorough || nh == 1 {
                case(w, &[format!("host {nh} {mode}"), s("sysarb"), s("arb"), s("spawn 0 own fn"), s("spawn 1 h1 fn"), s("wait t0"), s("wait t1"), s("stop 1 own"), s("spawn 0 h2 pend"), s("stop 0 own"), s("spawn 0 own fn")], rng);
            }
        }
    }
}

fn gen_c10(a: &Args, w: &mut dyn Write) {
    let mut rng = Rng::new(a.seed ^ 0xC10);
    let thorough = a.tier == "thorough";
    let mut n = 0;
    directed_c10(w, &mut rng, &mut n, thorough);
    // (1) seeded random sequences over the full alphabet: 1–2 arbiters and/or the system arbiter
    let count = if thorough { 800 } else { 90 };
    for _ in 0..count {
        writeln!(w, "case r{n} c10").unwrap();
        n += 1;
        if rng.chance(1, 8) {
            writeln!(w, "host {} {}", 1 + rng.below(3), if rng.chance(1, 2) { "kept" } else { "dropped" }).unwrap();
        }
        let with_sys = rng.chance(1, 3);
        let nreal = if with_sys { rng.below(3) } else { 1 + rng.below(2) };
        let narb = nreal + with_sys as usize;
        let sys_pos = rng.below(narb.max(1));
        for i in 0..narb {
            writeln!(w, "{}", if with_sys && i == sys_pos { "sysarb" } else { "arb" }).unwrap();
        }
        let len = rng.range(1, 10);
        let mut stopped = vec![false; narb];
        let mut held: Vec<Option<usize>> = vec![None; narb]; // closed gate on this target
        let mut tasks: Vec<usize> = vec![]; // task -> arb
        let style = [0, 0, 1, 2][rng.below(4)]; // 0: racing stops, 1: wait for the last task then stop, 2: mixed
        if rng.chance(1, 4) {
            // hold one target's thread: what follows piles up behind the gate
            let arb = rng.below(narb);
            writeln!(w, "spawn {arb} {} gate\nwait t0", VIAS[rng.below(3)]).unwrap();
            tasks.push(arb);
            held[arb] = Some(0);
        }
        for _ in 0..len {
            let arb = rng.below(narb);
            let via = VIAS[rng.below(3)];
            if rng.chance(1, 5) && style != 1 {
                writeln!(w, "stop {arb} {via}").unwrap();
                stopped[arb] = true;
            } else if rng.chance(1, 10) {
                let cnt = if rng.chance(1, 4) { rng.range(128, 200) } else { rng.range(2, 40) };
                if tasks.len() + cnt <= 380 {
                    writeln!(w, "spawnn {arb} {via} {} {cnt}", KINDS10[rng.below(2)]).unwrap();
                    tasks.extend(std::iter::repeat(arb).take(cnt));
                }
            } else {
                let kind = KINDS10[if rng.chance(1, 3) { rng.below(2) } else { rng.below(8) }];
                writeln!(w, "spawn {arb} {via} {kind}").unwrap();
                tasks.push(arb);
                if style == 2 && rng.chance(1, 4) && !stopped[arb] && held[arb].is_none() {
                    writeln!(w, "wait t{}", tasks.len() - 1).unwrap();
                }
            }
            if let Some(a) = (0..narb).find(|a| held[*a].is_some()) {
                if rng.chance(1, 6) {
                    writeln!(w, "open t{}", held[a].unwrap()).unwrap();
                    held[a] = None;
                }
            }
        }
        for arb in 0..narb {
            if !stopped[arb] {
                if style != 0 && held[arb].is_none() {
                    if let Some(t) = tasks.iter().rposition(|x| *x == arb) {
                        writeln!(w, "wait t{t}").unwrap();
                    }
                }
                writeln!(w, "stop {arb} {}", VIAS[rng.below(3)]).unwrap();
            }
        }
        if rng.chance(1, 3) {
            // commands racing the stop that was just sent
            let arb = rng.below(narb);
            writeln!(w, "spawn {arb} {} fn", VIAS[rng.below(3)]).unwrap();
        }
        if let Some(a) = (0..narb).find(|a| held[*a].is_some()) {
            if rng.chance(1, 2) {
                writeln!(w, "open t{}", held[a].unwrap()).unwrap();
            }
        }
        writeln!(w, "go j={}", rng.next() % 1_000_000).unwrap();
    }
    // (2) thorough: every sequence of length ≤ 5 over a 5-letter alphabet on an `Arbiter::new` arbiter
    // (3 repetitions) and of length ≤ 4 on the system arbiter behind a gate (one batch)
    if thorough {
        let alpha = ["spawn 0 own fn", "spawn 0 h1 pend", "spawn 0 h2 block", "stop 0 own", "stop 0 h1"];
        for rep in 0..4 {
            let sysrep = rep == 3;
            for len in 1..=(if sysrep { 4usize } else { 5 }) {
                for code in 0..5usize.pow(len as u32) {
                    let seq: Vec<usize> = (0..len).map(|i| (code / 5usize.pow(i as u32)) % 5).collect();
                    if sysrep {
                        writeln!(w, "case e{n} c10\nsysarb\nspawn 0 own gate\nwait t0").unwrap();
                    } else {
                        writeln!(w, "case e{n} c10\narb").unwrap();
                    }
                    n += 1;
                    for s in &seq {
                        writeln!(w, "{}", alpha[*s]).unwrap();
                    }
                    if !seq.iter().any(|s| *s >= 3) {
                        writeln!(w, "stop 0 own").unwrap();
                    }
                    if sysrep {
                        writeln!(w, "open t0").unwrap();
                    }
                    writeln!(w, "go j={}", rng.next() % 1_000_000).unwrap();
                }
            }
        }
    }
    // (3) identity and block_on
    for narb in 0..=2 {
        writeln!(w, "case ident{narb} c10").unwrap();
        for _ in 0..narb {
            writeln!(w, "arb").unwrap();
        }
        writeln!(w, "ident").unwrap();
    }
    writeln!(w, "case blockon c10").unwrap();
    for v in ["rt", "sys", "spawn"] {
        for p in [0, 1, 2, 7, 130] {
            writeln!(w, "blockon {v} {p} {}", (rng.next() % 2000) as i32 - 1000).unwrap();
        }
    }
    // malformed
    writeln!(w, "case bad1 c10\nspawn 0 own fn\narb\narb\narb\nspawn 2 own fn\nspawn 0 me fn\nspawn 0 own gn\nwait t0\nspawn 0 own fn\nstop 0 own\nwait t0\nwait t1\ngo j=1\nstop 1 h1\nblockon rt 1 x\nblockon tr 1 1\narb\ngo\ngo j=3\ngo j=4").unwrap();
    writeln!(w, "case bad2 c10\narb\nspawn 0 own fn\nident\narb early\nstop sys-pre 1").unwrap();
    writeln!(w, "case bad3 c10\nhost 0 kept\nhost 4 kept\nhost 1 gone\nhost 2 kept\nhost 1 dropped\nsysarb\nsysarb\narb\narb\narb\nident\nspawn 1 own gate\nspawn 1 own fn\nwait t1\nwait t0\nopen t1\nopen t0\nopen t0\nwait t1\nspawnn 1 own fn 1\nspawnn 1 own fn 301\nspawnn 1 own gate 5\nspawnn 1 h1 fn 3\nspawnn 0 own fut 300\nspawnn 0 own fut 100\nstop 0 own\nstop 1 own\ngo j=9\nstop 2 h2\ngo j=9").unwrap();
    writeln!(w, "case bad4 c10\narb\nhost 1 kept\nspawn 0 own fn\nsysarb\nstop 0 own\ngo j=1").unwrap();
}

fn gen(a: &Args) {
    let mut w = out_writer(&a.output);
    match a.prop.as_str() {
        "C09" => gen_c09(a, &mut *w),
        "C10" => gen_c10(a, &mut *w),
        _ => {
            gen_c09(a, &mut *w);
            gen_c10(a, &mut *w);
        }
    }
    w.flush().unwrap();
}

fn main() {
    let a = parse_args();
    match a.cmd.as_str() {
        "gen" => gen(&a),
        "run" => run(&a),
        _ => {
            eprintln!("usage: rt gen|run …");
            std::process::exit(2)
        }
    }
}
