import ActixNet.Lemmas.Rt
/-!
# C10 — arbiter commands run FIFO, at most once, on the arbiter's own thread

Property theorems only, over the message-level model `ActixNet.Rt` (Model/Rt.lean); every theorem
quantifies over all schedules (`run init tr` for an arbitrary label list `tr`, client actions
included).  `sent` is the linearised send history of arbiter `i`'s command channel (send order),
`started` the order in which its `LocalSet` polled spawned futures for the first time.

In the model a task *is started by arbiter `i`* iff it appears in `(arbs i).started`; the OS thread
is therefore by construction and is checked on the real runs by the harness (engine `rt`, `ids=ok`).
What `Arbiter::current()` / `System::current()` return is the content of two thread-locals, modelled
by `TLS` (`current_identifies_latest`; `ident` cases of the harness, also on threads that host their
2nd, 3rd … System).  Every theorem covers the system arbiter (`i = sysArbId`, present in `init`),
whose futures — unlike those of an `Arbiter::new` thread — may still start after its loop has ended.
`block_on_output` is glue over an abstract future and rests on the correspondence run.
-/
namespace ActixNet.C10
open ActixNet.Rt

/-- **nothing sent after `stop()` ever starts; what started is a prefix of what was sent before.**
The start order is a prefix of the executes that precede the first `Stop` in send order. -/
theorem nothing_after_stop (tr : List Act) (i : Nat) :
    ((run init tr).arbs i).started <+: execIds (preStop ((run init tr).arbs i).sent) := by
  have h := (reach_init.run tr).all i
  have h1 : ((run init tr).arbs i).started <+:
      execIds (preStop (((run init tr).arbs i).sent.take ((run init tr).arbs i).recvd)) := by
    rw [← h.queue_eq]; exact List.prefix_append _ _
  exact h1.trans (execIds_prefix (preStop_take_prefix _ _))

/-- **FIFO.** Tasks start in the order sent: the start order is a prefix of the send order. -/
theorem fifo_start (tr : List Act) (i : Nat) :
    ((run init tr).arbs i).started <+: execIds ((run init tr).arbs i).sent :=
  (nothing_after_stop tr i).trans (execIds_prefix (List.takeWhile_prefix _))

/-- **whoever sends it.**  `Act.send i c` is the one way a command reaches arbiter `i` — from the owner,
from a cloned handle on another thread, or from a task running on arbiter `i` itself
(`Arbiter::current().spawn(..)`); T1 facts `…OnlySends`.  A command `u` sent once a `Stop` is in the send
history never starts, whatever happens afterwards (further sends of any thread included). -/
theorem sent_after_stop_never_starts (tr tr' : List Act) (i u : Nat) (c : Cmd)
    (hstop : Cmd.stop ∈ ((run init tr).arbs i).sent)
    (hfresh : Cmd.exec u ∉ ((run init tr).arbs i).sent) :
    u ∉ ((run (step (run init tr) (.send i c)) tr').arbs i).started := by
  intro hu
  have hrun : run (step (run init tr) (.send i c)) tr' = run init (tr ++ (Act.send i c :: tr')) := by
    rw [run_append]; rfl
  rw [hrun] at hu
  have hpre : ((run init tr).arbs i).sent <+: ((run init (tr ++ (Act.send i c :: tr'))).arbs i).sent := by
    rw [run_append]; exact sent_prefix_run _ _ _
  obtain ⟨rest, hrest⟩ := hpre
  have h1 := (nothing_after_stop (tr ++ (Act.send i c :: tr')) i).subset hu
  rw [← hrest, preStop_append_of_mem hstop] at h1
  exact hfresh (preStop_subset _ _ (mem_execIds.mp h1))

/-- **at most once.** No task starts more often than it was sent; if every send carried a distinct
future (as in Rust, where a future is moved into `spawn`), no task starts twice. -/
theorem at_most_once (tr : List Act) (i t : Nat) :
    (((run init tr).arbs i).started.count t ≤ (execIds ((run init tr).arbs i).sent).count t) ∧
    ((execIds ((run init tr).arbs i).sent).Nodup → ((run init tr).arbs i).started.Nodup) :=
  ⟨(fifo_start tr i).sublist.count_le t, fun h => h.sublist (fifo_start tr i).sublist⟩

/-- **own thread.** A task started by arbiter `i` (on `i`'s thread) was sent to arbiter `i`. -/
theorem runs_on_own_thread (tr : List Act) (i t : Nat)
    (h : t ∈ ((run init tr).arbs i).started) : Cmd.exec t ∈ ((run init tr).arbs i).sent :=
  mem_execIds.mp ((fifo_start tr i).subset h)

/-- **`spawn` reports false once the arbiter is gone** (receiver dropped), and the command is not
enqueued; while the receiver is alive it reports true and the command is appended to the queue. -/
theorem spawn_false_when_gone (tr : List Act) (i : Nat) (c : Cmd)
    (hc : ((run init tr).arbs i).created = true) :
    (((run init tr).arbs i).gone = true →
      (step (run init tr) (.send i c)).rets = (run init tr).rets ++ [false] ∧
      (step (run init tr) (.send i c)).arbs i = (run init tr).arbs i) ∧
    (((run init tr).arbs i).gone = false →
      (step (run init tr) (.send i c)).rets = (run init tr).rets ++ [true] ∧
      ((step (run init tr) (.send i c)).arbs i).sent = ((run init tr).arbs i).sent ++ [c]) := by
  constructor
  · intro hg; simp [step, hc, hg, Arb.push]
  · intro hg; simp [step, hc, hg, Arb.push]

/-- **a later command starts later — also when a task on the arbiter itself sent it.**  Command `u`
(not sent before) is sent to the live arbiter `i` at some point — by any thread; in particular by a task
running on `i` while commands of other threads are still buffered in the channel.  If `u` has started in
some continuation, then everything sent to `i` before `u` has started before it, in the order sent. -/
theorem later_send_starts_later (tr tr' : List Act) (i u : Nat)
    (hc : ((run init tr).arbs i).created = true) (hg : ((run init tr).arbs i).gone = false)
    (hfresh : Cmd.exec u ∉ ((run init tr).arbs i).sent)
    (hu : u ∈ ((run (step (run init tr) (.send i (.exec u))) tr').arbs i).started) :
    execIds ((run init tr).arbs i).sent ++ [u] <+:
      ((run (step (run init tr) (.send i (.exec u))) tr').arbs i).started := by
  have hrun : run (step (run init tr) (.send i (.exec u))) tr' =
      run init (tr ++ (Act.send i (.exec u) :: tr')) := by rw [run_append]; rfl
  have hfifo := fifo_start (tr ++ (Act.send i (.exec u) :: tr')) i
  rw [← hrun] at hfifo
  have hstep := ((spawn_false_when_gone tr i (.exec u) hc).2 hg).2
  obtain ⟨rest, hrest⟩ := sent_prefix_run (step (run init tr) (.send i (.exec u))) tr' i
  rw [hstep] at hrest
  have hA : u ∉ execIds ((run init tr).arbs i).sent := fun h => hfresh (mem_execIds.mp h)
  rw [← hrest, execIds_append, execIds_append] at hfifo
  have hk := List.prefix_iff_eq_take.mp hfifo
  simp only [execIds] at hk
  rw [hk] at hu ⊢
  exact take_covers _ _ _ _ hA hu
/-- **`join` returns only after the loop has ended**: the runner returned, its receiver is dropped
(so `spawn` is false from here on), `Deregister` is in the system queue, and no task of this arbiter
starts in any continuation of the schedule. -/
theorem join_after_loop_end (tr : List Act) (i : Nat) (hj : joinReturns (run init tr) i = true) :
    ((run init tr).arbs i).ended = true ∧ ((run init tr).arbs i).gone = true ∧
    SysCmd.deregister i ∈ (run init tr).syssent ∧
    ∀ tr', ((run (run init tr) tr').arbs i).started = ((run init tr).arbs i).started := by
  have hR := reach_init.run tr
  have hg := (hR.all i).exited_gone hj
  have he := (hR.all i).gone_ended hg
  exact ⟨he, hg, hR.exit i hj, fun tr' => ended_frozen_run he ((hR.all i).exited_notsys hj) tr'⟩

/-- **`Arbiter::current()` / `System::current()` identify the arbiter and system the thread hosts
now** — whatever it hosted before.  After `System::new()` (system `sid`, system arbiter `aid`) or on
the thread of `Arbiter::new()` (arbiter `aid` of system `sid`), following an arbitrary history `h` of
earlier Systems / arbiters on the same OS thread and followed by any number of `SystemRunner` drops,
the thread-locals hold exactly `aid` and `sid`. -/
theorem current_identifies_latest (t : TLS) (h : List TAct) (sid aid k : Nat) :
    (TLS.run t (h ++ [.newSystem sid aid] ++ List.replicate k .dropRunner) =
      { handle := some aid, current := some sid }) ∧
    (TLS.run t (h ++ [.arbThread sid aid] ++ List.replicate k .dropRunner) =
      { handle := some aid, current := some sid }) := by
  have hd : ∀ (k : Nat) (u : TLS), TLS.run u (List.replicate k .dropRunner) = u := by
    intro k; induction k with
    | zero => intro u; rfl
    | succ k ih => intro u; simpa [List.replicate, TLS.run, TLS.step] using ih u
  constructor <;> (rw [TLS.run_append, TLS.run_append, hd]; rfl)

/-- **`System::current().id()` tells Systems apart**: the ids handed out by any number of `System`
constructions — concurrent ones included, the `fetch_add`s being linearised — are pairwise distinct
(so two live Systems, and the arbiters that carry a clone of their System, never report the same id). -/
theorem system_ids_distinct (c n : Nat) : (fetchAdds c n).Nodup ∧ ∀ x ∈ fetchAdds c n, c ≤ x := by
  induction n generalizing c with
  | zero => exact ⟨List.nodup_nil, fun _ h => by cases h⟩
  | succ n ih =>
    obtain ⟨hn, hge⟩ := ih (c + 1)
    refine ⟨List.nodup_cons.mpr ⟨fun h => ?_, hn⟩, fun x hx => ?_⟩
    · have := hge c h; omega
    · rcases List.mem_cons.mp hx with e | e
      · omega
      · have := hge x e; omega

/-- **`block_on` returns exactly its future's output** (glue: the future is abstracted to "pending
`pend` times, then `out`"; that the real `Runtime::block_on` behaves like this rests on the
correspondence run, `blockon` ops). -/
theorem block_on_output {α : Type} (f : Fut α) : blockOn f = some f.out :=
  blockOnFuel_spec f _ (Nat.lt_succ_self _)

/-- **T1**: the decisive source lines still have the shape the model's rules were written from
(regenerated from /repo by tools/spans/rt.py on every check) -/
theorem source_shape : sourceShapeC10 = true := by decide

/-! ### non-vacuity -/

/-- five commands, the third is `Stop`; the runner received two executes, one task has started -/
def demo : List Act :=
  [.newArb 0, .send 0 (.exec 10), .send 0 (.exec 11), .runner 0, .task 0, .send 0 .stop,
   .send 0 (.exec 12), .runner 0]

example : ((run init demo).arbs 0).sent = [.exec 10, .exec 11, .stop, .exec 12] := by decide
example : ((run init demo).arbs 0).started = [10] := by decide
example : execIds (preStop ((run init demo).arbs 0).sent) = [10, 11] := by decide
-- the batch effect of the real runner: 11 was spawned, then `Stop` was received: 11 never starts
example : ((run (run init demo) [.task 0, .runner 0, .task 0, .task 0]).arbs 0).started = [10, 11] := by decide
example : ((run (run init demo) [.runner 0, .task 0, .task 0, .runner 0, .task 0]).arbs 0).started = [10] := by decide
-- spawn racing stop: accepted (true) but never started; after `close` it is refused (false)
example : (run (run init demo) [.runner 0, .send 0 (.exec 13), .close 0, .send 0 (.exec 14)]).rets
    = [true, true, true, true, true, false] := by decide
example : joinReturns (run (run init demo) [.runner 0, .close 0, .fin 0]) 0 = true := by decide
example : blockOn ({ pend := 3, out := 42 } : Fut Nat) = some 42 := by decide
example : fetchAdds 5 4 = [5, 6, 7, 8] := by decide
-- a task on arbiter 0 (10, started) sends to its own arbiter while 11 — sent by another thread — is still
-- buffered: 12 queues behind 11; whichever way the run goes on, 12 starts after 10 and 11
def selfSend : List Act :=
  [.newArb 0, .send 0 (.exec 10), .runner 0, .task 0, .send 0 (.exec 11), .send 0 (.exec 12)]
example : ((run init selfSend).arbs 0).started = [10] ∧ ((run init selfSend).arbs 0).recvd = 1 ∧
    ((run init selfSend).arbs 0).sent = [.exec 10, .exec 11, .exec 12] := by decide
example : ((run (run init selfSend) [.runner 0, .runner 0, .task 0, .task 0]).arbs 0).started = [10, 11, 12] := by decide
-- … and with a `Stop` buffered instead (the owner called `stop()` while task 10 held the thread), 12 never starts
example : ((run init ([.newArb 0, .send 0 (.exec 10), .runner 0, .task 0, .send 0 .stop, .send 0 (.exec 12)] ++
    List.replicate 4 (.runner 0) ++ List.replicate 4 (.task 0))).arbs 0).started = [10] := by decide
-- the system arbiter: a future received before the `Stop` may start after the loop has ended (the
-- system thread's LocalSet goes on) — on an `Arbiter::new` thread it may not (second example) —
-- and a future sent after the `Stop` never starts on either
def sysDemo (i : Nat) : List Act :=
  [.newArb i, .send i (.exec 1), .send i .stop, .send i (.exec 2), .runner i, .runner i, .runner i,
   .task i, .task i]
example : ((run init (sysDemo sysArbId)).arbs sysArbId).ended = true ∧
    ((run init (sysDemo sysArbId)).arbs sysArbId).started = [1] := by decide
example : ((run init (sysDemo 0)).arbs 0).ended = true ∧ ((run init (sysDemo 0)).arbs 0).started = [] := by decide
-- a backlog found in one go (3 executes, Stop, 6 executes; the model is unbounded in the length): whatever the runner and the
-- LocalSet do with it, only the 3 in front can start
example : ((run init ([.newArb 0] ++ (List.range 3).map (fun t => .send 0 (.exec t)) ++ [.send 0 .stop] ++
      (List.range 6).map (fun t => .send 0 (.exec (100 + t))) ++
      List.replicate 10 (.runner 0) ++ List.replicate 10 (.task 0))).arbs 0).started = [] := by decide
example : ((run init ([.send sysArbId (.exec 0), .send sysArbId .stop] ++
      (List.range 6).map (fun t => .send sysArbId (.exec (100 + t))) ++
      List.replicate 10 (.runner sysArbId) ++ List.replicate 10 (.task sysArbId))).arbs sysArbId).started = [0] := by decide
-- the third System hosted by a thread that also ran an arbiter … is the one `current()` reports
example : TLS.run {} [.newSystem 0 10, .dropRunner, .newSystem 1 11, .newSystem 2 12] =
    { handle := some 12, current := some 2 } := by decide

end ActixNet.C10
