//! Engine `local`: the real `actix_utils::counter::Counter`, `local_waker::LocalWaker` (C17) and
//! `local_channel::mpsc` (C16) driven through the line protocol, with counting wakers.
//!
//! ```text
//! case <name> counter <cap>     acquire h | drop g | avail h w | clone h | total h
//! case <name> lw                reg w | wake | take
//! case <name> chan              send i x | clone i | dropS i | close i | poll w | rsender | dropR
//! ```
//! Every observation ends in ` woke=<ids>`: which of the counting wakers `0..NW` were woken by this
//! operation (ascending, with multiplicity; `-` = none).
//!
//! The T3 oracles below are written against the *property statements* with their own bookkeeping
//! (number of live guards, FIFO queue of accepted messages, "receiver returned Pending with waker w
//! and has not been woken since"); they do not look at the Lean model.
use std::{
    collections::{HashMap, VecDeque},
    io::Write,
    pin::Pin,
    sync::{
        atomic::{AtomicUsize, Ordering},
        Arc,
    },
    task::{Context, Poll, Wake, Waker},
};

use actix_utils::counter::{Counter, CounterGuard};
use futures_core::Stream;
use local_channel::mpsc;
use local_waker::LocalWaker;
use vh::*;

const NW: usize = 4;
/// T3 lines reported per (property, message shape); the rest is counted in a `#NOTE`
const T3_CAP: u64 = 4;

// ------------------------------------------------------------------------------------------------
// counting wakers
// ------------------------------------------------------------------------------------------------
struct CW(AtomicUsize);
impl Wake for CW {
    fn wake(self: Arc<Self>) {
        self.0.fetch_add(1, Ordering::SeqCst);
    }
    fn wake_by_ref(self: &Arc<Self>) {
        self.0.fetch_add(1, Ordering::SeqCst);
    }
}

struct Wakers {
    cws: Vec<Arc<CW>>,
    wakers: Vec<Waker>,
    seen: Vec<usize>,
}
impl Wakers {
    fn new() -> Self {
        let cws: Vec<Arc<CW>> = (0..NW).map(|_| Arc::new(CW(AtomicUsize::new(0)))).collect();
        let wakers = cws.iter().map(|c| Waker::from(c.clone())).collect();
        Wakers { cws, wakers, seen: vec![0; NW] }
    }
    /// wakers woken since the last call (ascending ids, with multiplicity)
    fn delta(&mut self) -> Vec<usize> {
        let mut v = vec![];
        for i in 0..NW {
            let now = self.cws[i].0.load(Ordering::SeqCst);
            for _ in self.seen[i]..now {
                v.push(i);
            }
            self.seen[i] = now;
        }
        v
    }
    fn id_of(&self, w: &Waker) -> Option<usize> {
        (0..NW).find(|&i| w.data() == Arc::as_ptr(&self.cws[i]) as *const ())
    }
}

fn woke_str(v: &[usize]) -> String {
    if v.is_empty() {
        " woke=-".into()
    } else {
        format!(" woke={}", v.iter().map(|x| x.to_string()).collect::<Vec<_>>().join(","))
    }
}

/// strict decimal (the Lean driver uses the same rule): 1..=9 ASCII digits
fn num(s: &str) -> Option<usize> {
    if s.is_empty() || s.len() > 9 || !s.bytes().all(|b| b.is_ascii_digit()) {
        return None;
    }
    s.parse().ok()
}

// ------------------------------------------------------------------------------------------------
// engines (real objects + the oracle's own bookkeeping)
// ------------------------------------------------------------------------------------------------
struct CounterEng {
    handles: Vec<Counter>,
    guards: Vec<Option<CounterGuard>>,
    // oracle
    cap: usize,
    live: usize,
    pend: Option<usize>,
}

struct LwEng {
    lw: LocalWaker,
    outstanding: Option<usize>,
}

struct ChanEng {
    senders: Vec<Option<mpsc::Sender<u32>>>,
    rx: Option<mpsc::Receiver<u32>>,
    // oracle
    queue: VecDeque<u32>,
    closed: bool,
    parked: Option<usize>,
}
impl ChanEng {
    fn n_senders(&self) -> usize {
        self.senders.iter().filter(|s| s.is_some()).count()
    }
}

enum Eng {
    Idle,
    Counter(CounterEng),
    Lw(LwEng),
    Chan(ChanEng),
}

struct T3 {
    counts: HashMap<String, u64>,
}
impl T3 {
    fn fail(&mut self, rep: &mut Report, prop: &str, msg: String) {
        let sig: String = format!(
            "{prop}:{}",
            msg.chars().map(|c| if c.is_ascii_digit() { '#' } else { c }).collect::<String>()
        );
        let n = self.counts.entry(sig).or_insert(0);
        *n += 1;
        if *n <= T3_CAP {
            rep.t3(prop, &msg);
        }
    }
}

fn run(a: &Args) {
    silence_panics();
    let mut rep = Report::new(&a.output);
    let mut t3 = T3 { counts: HashMap::new() };
    let mut wk = Wakers::new();
    let mut eng = Eng::Idle;
    for line in in_lines(&a.input) {
        let ws: Vec<&str> = line.split_whitespace().collect();
        let real: String = if ws.first() == Some(&"case") {
            // drop the old objects first; wakes caused by that belong to nobody
            eng = Eng::Idle;
            wk.delta();
            match ws.as_slice() {
                ["case", _, "counter", cap] => match num(cap) {
                    Some(cap) => {
                        eng = Eng::Counter(CounterEng {
                            handles: vec![Counter::new(cap)],
                            guards: vec![],
                            cap,
                            live: 0,
                            pend: None,
                        });
                        "ok".into()
                    }
                    None => "bad-op".into(),
                },
                ["case", _, "lw"] => {
                    eng = Eng::Lw(LwEng { lw: LocalWaker::new(), outstanding: None });
                    "ok".into()
                }
                ["case", _, "chan"] => {
                    let (tx, rx) = mpsc::channel::<u32>();
                    eng = Eng::Chan(ChanEng {
                        senders: vec![Some(tx)],
                        rx: Some(rx),
                        queue: VecDeque::new(),
                        closed: false,
                        parked: None,
                    });
                    "ok".into()
                }
                _ => "bad-op".into(),
            }
        } else {
            let r = catch(|| match &mut eng {
                Eng::Idle => None,
                Eng::Counter(e) => counter_op(e, &ws, &mut wk, &mut rep, &mut t3),
                Eng::Lw(e) => lw_op(e, &ws, &mut wk, &mut rep, &mut t3),
                Eng::Chan(e) => chan_op(e, &ws, &mut wk, &mut rep, &mut t3),
            });
            match r {
                Ok(Some(s)) => s,
                Ok(None) => "bad-op".into(),
                Err(m) => {
                    let prop = if matches!(eng, Eng::Chan(_)) { "C16" } else { "C17" };
                    t3.fail(&mut rep, prop, format!("operation `{line}` panicked: {m}"));
                    wk.delta();
                    "panic".into()
                }
            }
        };
        rep.obs(&line, &real);
    }
    drop(eng);
    let mut supp: Vec<(String, u64)> = t3.counts.iter().filter(|(_, n)| **n > T3_CAP).map(|(k, n)| (k.clone(), *n - T3_CAP)).collect();
    supp.sort();
    for (k, n) in supp {
        rep.note(&format!("{n} further oracle failures of the shape `{k}` not listed"));
    }
    rep.finish();
}

// ---- C17: Counter --------------------------------------------------------------------------------
fn counter_op(e: &mut CounterEng, ws: &[&str], wk: &mut Wakers, rep: &mut Report, t3: &mut T3) -> Option<String> {
    let mut expect_wake: Option<usize> = None;
    let head: String = match ws {
        ["acquire", h] => {
            let h = num(h).filter(|h| *h < e.handles.len())?;
            let g = e.handles[h].get();
            e.guards.push(Some(g));
            e.live += 1;
            format!("guard {}", e.guards.len() - 1)
        }
        ["drop", g] => {
            let g = num(g).filter(|g| *g < e.guards.len() && e.guards[*g].is_some())?;
            let guard = e.guards[g].take();
            drop(guard);
            // property: the drop that brings the count below the capacity wakes the task most
            // recently answered "unavailable"
            if e.live == e.cap {
                expect_wake = e.pend.take();
            }
            e.live -= 1;
            "dropped".into()
        }
        ["avail", h, w] => {
            let h = num(h).filter(|h| *h < e.handles.len())?;
            let w = num(w).filter(|w| *w < NW)?;
            let cx = Context::from_waker(&wk.wakers[w]);
            let b = e.handles[h].available(&cx);
            let want = e.live < e.cap;
            if b != want {
                t3.fail(rep, "C17", format!("available answered {b} with {} live guards and capacity {}", e.live, e.cap));
            }
            if !want {
                e.pend = Some(w);
            }
            format!("avail {}", b as u8)
        }
        ["clone", h] => {
            let h = num(h).filter(|h| *h < e.handles.len())?;
            let c = e.handles[h].clone();
            e.handles.push(c);
            format!("handle {}", e.handles.len() - 1)
        }
        ["total", h] => {
            let h = num(h).filter(|h| *h < e.handles.len())?;
            let n = e.handles[h].total();
            if n != e.live {
                t3.fail(rep, "C17", format!("total() is {n} with {} live guards", e.live));
            }
            format!("total {n}")
        }
        _ => return None,
    };
    let woke = wk.delta();
    let want: Vec<usize> = expect_wake.into_iter().collect();
    if woke != want {
        t3.fail(
            rep,
            "C17",
            format!(
                "`{}` with {} live guards after it (capacity {}): woke {:?}, the property demands {:?}",
                ws[0], e.live, e.cap, woke, want
            ),
        );
    }
    Some(head + &woke_str(&woke))
}

// ---- C17: LocalWaker -----------------------------------------------------------------------------
fn lw_op(e: &mut LwEng, ws: &[&str], wk: &mut Wakers, rep: &mut Report, t3: &mut T3) -> Option<String> {
    let mut expect_wake: Option<usize> = None;
    let head: String = match ws {
        ["reg", w] => {
            let w = num(w).filter(|w| *w < NW)?;
            let was = e.lw.register(&wk.wakers[w]);
            if was != e.outstanding.is_some() {
                t3.fail(rep, "C17", format!("register returned {was} but a waker was registered before: {}", e.outstanding.is_some()));
            }
            e.outstanding = Some(w);
            format!("registered {}", was as u8)
        }
        ["wake"] => {
            e.lw.wake();
            expect_wake = e.outstanding.take();
            "done".into()
        }
        ["take"] => {
            let got = e.lw.take();
            let id = got.as_ref().map(|w| wk.id_of(w));
            let want = e.outstanding.take();
            let shown = match id {
                None => "-".to_string(),
                Some(Some(i)) => i.to_string(),
                Some(None) => "?".to_string(),
            };
            if id.map(|x| x.map(|i| i as i64).unwrap_or(-1)) != want.map(|i| i as i64) {
                t3.fail(rep, "C17", format!("take returned waker {shown}, most recently registered: {want:?}"));
            }
            format!("took {shown}")
        }
        _ => return None,
    };
    let woke = wk.delta();
    let want: Vec<usize> = expect_wake.into_iter().collect();
    if woke != want {
        t3.fail(rep, "C17", format!("LocalWaker `{}`: woke {:?}, the property demands {:?}", ws[0], woke, want));
    }
    Some(head + &woke_str(&woke))
}

// ---- C16: local_channel::mpsc --------------------------------------------------------------------
fn chan_op(e: &mut ChanEng, ws: &[&str], wk: &mut Wakers, rep: &mut Report, t3: &mut T3) -> Option<String> {
    // Some(reason) when the property demands that the parked receiver is woken by this operation
    let mut must_wake: Option<&'static str> = None;
    let alive = |e: &ChanEng, i: usize| i < e.senders.len() && e.senders[i].is_some();
    let head: String = match ws {
        ["send", i, x] => {
            let i = num(i).filter(|i| alive(e, *i))?;
            let x = num(x)? as u32;
            let ok = e.senders[i].as_ref().unwrap().send(x).is_ok();
            let want_ok = e.rx.is_some() && !e.closed;
            if ok != want_ok {
                t3.fail(
                    rep,
                    "C16",
                    format!("send returned ok={ok} with receiver dropped={} closed={}", e.rx.is_none(), e.closed),
                );
            }
            if want_ok {
                e.queue.push_back(x);
                must_wake = Some("a send");
            }
            if ok { "ok".into() } else { "err".into() }
        }
        ["clone", i] => {
            let i = num(i).filter(|i| alive(e, *i))?;
            let s = e.senders[i].as_ref().unwrap().clone();
            e.senders.push(Some(s));
            format!("sender {}", e.senders.len() - 1)
        }
        ["dropS", i] => {
            let i = num(i).filter(|i| alive(e, *i))?;
            let s = e.senders[i].take();
            drop(s);
            if e.n_senders() == 0 {
                must_wake = Some("the drop of the last sender");
            }
            "dropped".into()
        }
        ["close", i] => {
            let i = num(i).filter(|i| alive(e, *i))?;
            e.senders[i].as_mut().unwrap().close();
            e.closed = true;
            must_wake = Some("close");
            "closed".into()
        }
        ["poll", w] => {
            let w = num(w).filter(|w| *w < NW)?;
            let rx = e.rx.as_mut()?;
            let mut cx = Context::from_waker(&wk.wakers[w]);
            let r = Pin::new(rx).poll_next(&mut cx);
            let shown = match &r {
                Poll::Ready(Some(x)) => format!("ready {x}"),
                Poll::Ready(None) => "ready none".into(),
                Poll::Pending => "pending".into(),
            };
            match e.queue.pop_front() {
                Some(front) => {
                    if r != Poll::Ready(Some(front)) {
                        t3.fail(rep, "C16", format!("poll returned `{shown}` but message {front} is the next in send order"));
                    }
                }
                None => {
                    if e.closed || e.n_senders() == 0 {
                        if r != Poll::Ready(None) {
                            t3.fail(
                                rep,
                                "C16",
                                format!(
                                    "poll returned `{shown}` on a drained channel that is closed={} with {} senders: the property demands `ready none`",
                                    e.closed,
                                    e.n_senders()
                                ),
                            );
                        }
                    } else if r != Poll::Pending {
                        t3.fail(rep, "C16", format!("poll returned `{shown}` on an empty open channel with {} senders", e.n_senders()));
                    }
                }
            }
            if r == Poll::Pending {
                e.parked = Some(w);
            }
            shown
        }
        ["rsender"] => {
            let s = e.rx.as_ref()?.sender();
            e.senders.push(Some(s));
            format!("sender {}", e.senders.len() - 1)
        }
        ["dropR"] => {
            let rx = e.rx.take()?;
            drop(rx);
            e.queue.clear();
            e.parked = None;
            "dropped".into()
        }
        _ => return None,
    };
    let woke = wk.delta();
    if let (Some(why), Some(w)) = (must_wake, e.parked) {
        if e.rx.is_some() {
            let n = woke.iter().filter(|x| **x == w).count();
            if n != 1 {
                t3.fail(
                    rep,
                    "C16",
                    format!("receiver parked with waker {w} (poll returned Pending) was woken {n} times by {why}; woke={woke:?}"),
                );
            }
            e.parked = None;
        }
    }
    if let Some(w) = e.parked {
        if woke.contains(&w) {
            e.parked = None;
        }
    }
    Some(head + &woke_str(&woke))
}

// ------------------------------------------------------------------------------------------------
// generators
// ------------------------------------------------------------------------------------------------

/// C17 exhaustive: every sequence of exactly `len` applicable operations over
/// {acquire, drop g, avail with waker 0..wakers, clone (at most `max_clones`)}; the newest handle
/// acquires, handle 0 is asked, `total` is read through the newest handle at the end.
/// `all_guards`: every live guard may be dropped; otherwise only the oldest and the newest one once
/// more than two are alive (guards are interchangeable clones of one `Rc`).
#[derive(Clone, Copy)]
struct CxCfg {
    cap: usize,
    len: usize,
    max_clones: usize,
    all_guards: bool,
    wakers: usize,
}
fn gen_counter_exhaustive(w: &mut dyn Write, cfg: CxCfg, n: &mut u64) {
    let CxCfg { cap, len, max_clones, all_guards, wakers } = cfg;
    struct St {
        ops: Vec<String>,
        live: Vec<usize>,
        next_guard: usize,
        handles: usize,
    }
    fn rec(w: &mut dyn Write, st: &mut St, cfg: CxCfg, n: &mut u64) {
        let CxCfg { cap, len, max_clones, all_guards, wakers } = cfg;
        if st.ops.len() == len {
            *n += 1;
            writeln!(w, "case cx{}-{} counter {cap}", cap, *n).unwrap();
            for o in &st.ops {
                writeln!(w, "{o}").unwrap();
            }
            writeln!(w, "total {}", st.handles - 1).unwrap();
            return;
        }
        // acquire
        st.ops.push(format!("acquire {}", st.handles - 1));
        st.live.push(st.next_guard);
        st.next_guard += 1;
        rec(w, st, cfg, n);
        st.next_guard -= 1;
        st.live.pop();
        st.ops.pop();
        // drop
        let cands: Vec<usize> = if all_guards || st.live.len() <= 2 {
            (0..st.live.len()).collect()
        } else {
            vec![0, st.live.len() - 1]
        };
        for k in cands {
            let g = st.live.remove(k);
            st.ops.push(format!("drop {g}"));
            rec(w, st, cfg, n);
            st.ops.pop();
            st.live.insert(k, g);
        }
        // avail
        for wk in 0..wakers {
            st.ops.push(format!("avail 0 {wk}"));
            rec(w, st, cfg, n);
            st.ops.pop();
        }
        // clone
        if st.handles - 1 < max_clones {
            st.ops.push(format!("clone {}", st.handles - 1));
            st.handles += 1;
            rec(w, st, cfg, n);
            st.handles -= 1;
            st.ops.pop();
        }
    }
    let mut st = St { ops: vec![], live: vec![], next_guard: 0, handles: 1 };
    let _ = (cap, len, max_clones, all_guards, wakers);
    rec(w, &mut st, cfg, n);
}

fn gen_lw_exhaustive(w: &mut dyn Write, len: usize, n: &mut u64) {
    let alpha = ["reg 0", "reg 1", "wake", "take"];
    let total = alpha.len().pow(len as u32);
    for mut k in 0..total {
        *n += 1;
        writeln!(w, "case lw-{} lw", *n).unwrap();
        for _ in 0..len {
            writeln!(w, "{}", alpha[k % alpha.len()]).unwrap();
            k /= alpha.len();
        }
    }
}

const JUNK: [&str; 10] = ["frob", "acquire", "drop x", "avail 0 9", "poll 7", "send 0", "close -1", "take 3", "reg 4", "total 0 0"];

fn gen_counter_random(w: &mut dyn Write, rng: &mut Rng, cases: usize, max_len: usize) {
    for c in 0..cases {
        let cap = rng.below(6);
        writeln!(w, "case cr-{c} counter {cap}").unwrap();
        let (mut live, mut next, mut handles): (Vec<usize>, usize, usize) = (vec![], 0, 1);
        for _ in 0..rng.range(4, max_len) {
            // bias towards hovering around the capacity, where the behaviour changes
            let r = rng.below(100);
            if r < 3 {
                writeln!(w, "{}", rng.pick(&JUNK)).unwrap();
            } else if r < 6 {
                // stale / unknown ids and handles: rejected identically by both sides
                let dead: Vec<usize> = (0..next + 2).filter(|g| !live.contains(g)).collect();
                if rng.chance(1, 2) {
                    writeln!(w, "drop {}", rng.pick(&dead)).unwrap();
                } else {
                    writeln!(w, "acquire {}", handles + rng.below(2)).unwrap();
                }
            } else if r < 36 && live.len() < cap + 3 {
                writeln!(w, "acquire {}", rng.below(handles)).unwrap();
                live.push(next);
                next += 1;
            } else if r < 62 && !live.is_empty() {
                let k = rng.below(live.len());
                writeln!(w, "drop {}", live.remove(k)).unwrap();
            } else if r < 88 {
                writeln!(w, "avail {} {}", rng.below(handles), rng.below(NW)).unwrap();
            } else if r < 93 && handles < 4 {
                writeln!(w, "clone {}", rng.below(handles)).unwrap();
                handles += 1;
            } else {
                writeln!(w, "total {}", rng.below(handles)).unwrap();
            }
        }
    }
}

fn gen_c17(a: &Args, w: &mut dyn Write) {
    let thorough = a.tier == "thorough";
    let mut n = 0u64;
    for cap in 0..=3 {
        // (1) every live guard droppable, one clone allowed, two wakers
        gen_counter_exhaustive(w, CxCfg { cap, len: if thorough { 7 } else { 6 }, max_clones: 1, all_guards: true, wakers: 2 }, &mut n);
        // (2) longer, no clone, oldest/newest guard only once three are alive
        gen_counter_exhaustive(w, CxCfg { cap, len: if thorough { 9 } else { 7 }, max_clones: 0, all_guards: false, wakers: 2 }, &mut n);
    }
    // (3) LocalWaker: all register/wake/take sequences with 2 wakers
    let mut m = 0u64;
    gen_lw_exhaustive(w, if thorough { 8 } else { 6 }, &mut m);
    // (4) random long histories, capacities 0..5, 4 wakers, clones, junk lines
    let mut rng = Rng::new(a.seed ^ 0x17);
    gen_counter_random(w, &mut rng, if thorough { 20000 } else { 1500 }, 40);
    eprintln!("C17 gen: {n} exhaustive counter cases, {m} LocalWaker cases");
}

/// C16 exhaustive: every sequence of exactly `len` applicable operations with at most
/// `max_senders` live senders.  `send` through every live sender, `dropS` of every live sender,
/// `clone`/`close` through the oldest live sender (which one is immaterial: they share the `Rc`),
/// `poll` with waker 0 or 1, `rsender`, `dropR`.
/// `sym` (deeper tier): senders are interchangeable clones of one `Rc`, so `send` goes through the
/// oldest live sender only and `dropS` drops the oldest or the newest one; `wakers` = number of
/// distinct wakers used by `poll`.
#[derive(Clone, Copy)]
struct ChCfg {
    len: usize,
    max_senders: usize,
    sym: bool,
    wakers: usize,
}
fn gen_chan_exhaustive(w: &mut dyn Write, cfg: ChCfg, n: &mut u64) {
    struct St {
        ops: Vec<String>,
        alive: Vec<usize>,
        next_sender: usize,
        rx: bool,
        msg: usize,
    }
    fn rec(w: &mut dyn Write, st: &mut St, cfg: ChCfg, n: &mut u64) {
        let ChCfg { len, max_senders, sym, wakers } = cfg;
        if st.ops.len() == len {
            *n += 1;
            writeln!(w, "case ch-{} chan", *n).unwrap();
            for o in &st.ops {
                writeln!(w, "{o}").unwrap();
            }
            return;
        }
        let alive = st.alive.clone();
        let mut dead_end = true;
        for &i in alive.iter().take(if sym { 1 } else { usize::MAX }) {
            dead_end = false;
            st.msg += 1;
            st.ops.push(format!("send {i} {}", st.msg));
            rec(w, st, cfg, n);
            st.ops.pop();
            st.msg -= 1;
        }
        for (k, &i) in alive.iter().enumerate() {
            if sym && k != 0 && k != alive.len() - 1 {
                continue;
            }
            st.ops.push(format!("dropS {i}"));
            st.alive.remove(k);
            rec(w, st, cfg, n);
            st.alive.insert(k, i);
            st.ops.pop();
        }
        if let Some(&i) = alive.first() {
            st.ops.push(format!("close {i}"));
            rec(w, st, cfg, n);
            st.ops.pop();
            if alive.len() < max_senders {
                st.ops.push(format!("clone {i}"));
                st.alive.push(st.next_sender);
                st.next_sender += 1;
                rec(w, st, cfg, n);
                st.next_sender -= 1;
                st.alive.pop();
                st.ops.pop();
            }
        }
        if st.rx {
            dead_end = false;
            for wk in 0..wakers {
                st.ops.push(format!("poll {wk}"));
                rec(w, st, cfg, n);
                st.ops.pop();
            }
            if alive.len() < max_senders {
                st.ops.push("rsender".into());
                st.alive.push(st.next_sender);
                st.next_sender += 1;
                rec(w, st, cfg, n);
                st.next_sender -= 1;
                st.alive.pop();
                st.ops.pop();
            }
            st.ops.push("dropR".into());
            st.rx = false;
            rec(w, st, cfg, n);
            st.rx = true;
            st.ops.pop();
        }
        if dead_end && !st.ops.is_empty() {
            // nothing is applicable any more (no sender, no receiver): emit the shorter sequence
            *n += 1;
            writeln!(w, "case ch-{} chan", *n).unwrap();
            for o in &st.ops {
                writeln!(w, "{o}").unwrap();
            }
        }
    }
    let mut st = St { ops: vec![], alive: vec![0], next_sender: 1, rx: true, msg: 0 };
    rec(w, &mut st, cfg, n);
}

fn gen_chan_random(w: &mut dyn Write, rng: &mut Rng, cases: usize, max_len: usize) {
    for c in 0..cases {
        writeln!(w, "case chr-{c} chan").unwrap();
        let (mut alive, mut next, mut rx, mut msg): (Vec<usize>, usize, bool, usize) = (vec![0], 1, true, 0);
        // per case: how eager this history is to close / drop things
        let closey = rng.below(12);
        for _ in 0..rng.range(4, max_len) {
            let r = rng.below(100);
            if r < 3 {
                writeln!(w, "{}", rng.pick(&JUNK)).unwrap();
            } else if r < 5 {
                writeln!(w, "send {} 0", next + rng.below(2)).unwrap(); // unknown sender
            } else if r < 35 && !alive.is_empty() {
                msg += 1;
                writeln!(w, "send {} {msg}", rng.pick(&alive)).unwrap();
            } else if r < 65 {
                writeln!(w, "poll {}", rng.below(NW)).unwrap(); // bad-op once the receiver is gone
            } else if r < 73 && !alive.is_empty() && alive.len() < 4 {
                writeln!(w, "clone {}", rng.pick(&alive)).unwrap();
                alive.push(next);
                next += 1;
            } else if r < 85 && !alive.is_empty() {
                let k = rng.below(alive.len());
                writeln!(w, "dropS {}", alive.remove(k)).unwrap();
            } else if r < 91 && rx && alive.len() < 4 {
                writeln!(w, "rsender").unwrap();
                alive.push(next);
                next += 1;
            } else if r < 91 + closey / 2 && !alive.is_empty() {
                writeln!(w, "close {}", rng.pick(&alive)).unwrap();
            } else if r < 92 + closey && rx && rng.chance(1, 3) {
                writeln!(w, "dropR").unwrap();
                rx = false;
            } else {
                writeln!(w, "poll {}", rng.below(2)).unwrap();
            }
        }
    }
}

fn gen_c16(a: &Args, w: &mut dyn Write) {
    let thorough = a.tier == "thorough";
    let mut n = 0u64;
    gen_chan_exhaustive(w, ChCfg { len: 6, max_senders: 3, sym: false, wakers: 2 }, &mut n);
    if thorough {
        gen_chan_exhaustive(w, ChCfg { len: 7, max_senders: 3, sym: true, wakers: 2 }, &mut n);
    }
    let mut rng = Rng::new(a.seed ^ 0x16);
    gen_chan_random(w, &mut rng, if thorough { 30000 } else { 2000 }, 40);
    eprintln!("C16 gen: {n} exhaustive channel cases");
}

fn gen(a: &Args) {
    let mut w = out_writer(&a.output);
    match a.prop.as_str() {
        "C17" => gen_c17(a, &mut w),
        "C16" => gen_c16(a, &mut w),
        p => {
            eprintln!("local: unknown property {p}");
            std::process::exit(2)
        }
    }
    w.flush().unwrap();
}

fn main() {
    let a = parse_args();
    match a.cmd.as_str() {
        "gen" => gen(&a),
        "run" => run(&a),
        _ => {
            eprintln!("usage: local gen|run …");
            std::process::exit(2)
        }
    }
}
