//! Engine `codec` (C13, C14, C15): the real `actix_codec::{Framed, LinesCodec, BytesCodec}` driven
//! through the line protocol.
use std::io::Write;

use actix_codec::{Decoder, Encoder, LinesCodec};
use bytes::BytesMut;
use vh::*;

// ------------------------------------------------------------------------------------------------
// C15: LinesCodec on a contiguous buffer
// ------------------------------------------------------------------------------------------------

/// alphabet of the exhaustive enumeration: `a`, CR, LF, the two bytes of `é`, and an invalid byte
const LINES_ALPHABET: [u8; 6] = [b'a', b'\r', b'\n', 0xC3, 0xA9, 0xFF];

fn all_strings(alphabet: &[u8], max_len: usize, f: &mut dyn FnMut(&[u8])) {
    fn rec(alphabet: &[u8], cur: &mut Vec<u8>, max_len: usize, f: &mut dyn FnMut(&[u8])) {
        f(cur);
        if cur.len() == max_len {
            return;
        }
        for &b in alphabet {
            cur.push(b);
            rec(alphabet, cur, max_len, f);
            cur.pop();
        }
    }
    rec(alphabet, &mut vec![], max_len, f);
}

#[derive(Clone, PartialEq, Debug)]
enum LineItem {
    Ok(Vec<u8>),
    Err,
}

fn item_list(xs: &[LineItem]) -> String {
    let v: Vec<String> = xs
        .iter()
        .map(|x| match x {
            LineItem::Ok(s) => format!("ok:{}", hex(s)),
            LineItem::Err => "err".to_string(),
        })
        .collect();
    format!("[{}]", v.join(","))
}

/// the independent reference: split at every LF, strip one trailing CR, validate; the final
/// unterminated segment (after stripping one CR) is yielded iff non-empty
fn lines_reference(s: &[u8]) -> Vec<LineItem> {
    fn strip(l: &[u8]) -> &[u8] {
        l.strip_suffix(b"\r").unwrap_or(l)
    }
    fn validate(l: &[u8]) -> LineItem {
        match std::str::from_utf8(l) {
            Ok(_) => LineItem::Ok(l.to_vec()),
            Err(_) => LineItem::Err,
        }
    }
    let mut segs: Vec<&[u8]> = s.split(|&b| b == b'\n').collect();
    let tail = segs.pop().unwrap_or(&[]);
    let mut out: Vec<LineItem> = segs.into_iter().map(|l| validate(strip(l))).collect();
    if !strip(tail).is_empty() {
        out.push(validate(strip(tail)));
    }
    out
}

/// real `LinesCodec`: `decode` until `None`, then `decode_eof` until `None`
fn lines_run(bytes: &[u8], rep: &mut Report) -> String {
    let mut codec = LinesCodec::default();
    let mut src = BytesMut::from(bytes);
    let mut dec = vec![];
    let mut eof = vec![];
    let mut spin = false;
    let conv = |r: std::io::Result<Option<String>>, rep: &mut Report| -> Option<LineItem> {
        match r {
            Ok(None) => None,
            Ok(Some(s)) => Some(LineItem::Ok(s.into_bytes())),
            Err(e) => {
                if e.kind() != std::io::ErrorKind::InvalidData {
                    rep.t3("C15", &format!("decode error of kind {:?}, expected InvalidData", e.kind()));
                }
                Some(LineItem::Err)
            }
        }
    };
    let bound = bytes.len() + 3;
    loop {
        if dec.len() > bound {
            spin = true;
            break;
        }
        match conv(codec.decode(&mut src), rep) {
            None => break,
            Some(x) => dec.push(x),
        }
    }
    let mid = hex(&src);
    loop {
        if eof.len() > bound {
            spin = true;
            break;
        }
        match conv(codec.decode_eof(&mut src), rep) {
            None => break,
            Some(x) => eof.push(x),
        }
    }
    // T3: decoder output vs the independent reference splitter
    let mut all = dec.clone();
    all.extend(eof.iter().cloned());
    let want = lines_reference(bytes);
    if all != want || spin {
        rep.t3(
            "C15",
            &format!("LinesCodec on {} yields {}{} but the reference splitter says {}", hex(bytes), item_list(&all), if spin { " (no end)" } else { "" }, item_list(&want)),
        );
    }
    format!("dec={} mid={} eof={} rest={}{}", item_list(&dec), mid, item_list(&eof), hex(&src), if spin { " spin" } else { "" })
}

fn lines_encode_all(items: &[String], rep: &mut Report) -> BytesMut {
    let mut codec = LinesCodec::default();
    let mut dst = BytesMut::new();
    let mut want: Vec<u8> = vec![];
    for it in items {
        if let Err(e) = codec.encode(it.as_str(), &mut dst) {
            rep.t3("C15", &format!("encode failed: {e}"));
        }
        want.extend_from_slice(it.as_bytes());
        want.push(b'\n');
    }
    if dst[..] != want[..] {
        rep.t3("C15", &format!("encode of {:?} gives {} expected item+LF each: {}", items, hex(&dst), hex(&want)));
    }
    dst
}

fn parse_strs(ws: &[&str]) -> Option<Vec<String>> {
    ws.iter().map(|h| unhex(h).and_then(|v| String::from_utf8(v).ok())).collect()
}

/// a random "text-like" byte string: lines with CR / LF / multi-byte chars, sometimes damaged
fn random_text(rng: &mut Rng, max_units: usize) -> Vec<u8> {
    let n = rng.below(max_units + 1);
    let mut v = vec![];
    for _ in 0..n {
        match rng.below(12) {
            0 | 1 => v.push(b'\n'),
            2 => v.push(b'\r'),
            3 => v.extend_from_slice(b"\r\n"),
            4 => v.extend_from_slice("é".as_bytes()),
            5 => v.extend_from_slice("€".as_bytes()),
            6 => v.extend_from_slice("😀".as_bytes()),
            7 => v.push(*rng.pick(&[0xFFu8, 0xC3, 0xA9, 0x80, 0xE2, 0xF0])),
            _ => v.push(b'a' + rng.below(26) as u8),
        }
    }
    v
}

fn gen_c15(a: &Args, w: &mut dyn Write) {
    let thorough = a.tier == "thorough";
    // (1) exhaustive: every byte string up to the bound over the alphabet
    let l = if thorough { 8 } else { 7 };
    let mut n = 0usize;
    all_strings(&LINES_ALPHABET, l, &mut |s| {
        if n % 8000 == 0 {
            writeln!(w, "case dec-exhaustive-le{l}-{}", n / 8000).unwrap();
        }
        n += 1;
        writeln!(w, "dec {}", hex(s)).unwrap();
    });
    // (2) round trip: all sequences of up to 3 strings; strings = all sequences of up to `u` units
    let units: [&[u8]; 4] = [b"a", b"\r", b"\n", "é".as_bytes()];
    let u = if thorough { 3 } else { 2 };
    let mut strs: Vec<Vec<u8>> = vec![];
    all_strings(&[0, 1, 2, 3], u, &mut |ix| strs.push(ix.iter().flat_map(|&i| units[i as usize].iter().copied()).collect()));
    let mut n = 0usize;
    let mut emit = |w: &mut dyn Write, op: &str, seq: &[&Vec<u8>]| {
        if n % 4000 == 0 {
            writeln!(w, "case roundtrip-{}", n / 4000).unwrap();
        }
        n += 1;
        let hs: Vec<String> = seq.iter().map(|s| hex(s)).collect();
        writeln!(w, "{op} {}", hs.join(" ")).unwrap();
    };
    emit(w, "rt", &[]);
    for x in &strs {
        emit(w, "rt", &[x]);
        emit(w, "enc", &[x]);
    }
    for x in &strs {
        for y in &strs {
            emit(w, "rt", &[x, y]);
        }
    }
    let third: Vec<&Vec<u8>> = strs.iter().filter(|s| s.len() <= if thorough { 3 } else { 4 }).collect();
    for x in &third {
        for y in &third {
            for z in &third {
                emit(w, "rt", &[x, y, z]);
            }
        }
    }
    // (3) random longer strings, and a malformed stream
    let mut rng = Rng::new(a.seed ^ 0x15);
    let cases = if thorough { 40000 } else { 4000 };
    for c in 0..cases {
        if c % 2000 == 0 {
            writeln!(w, "case lines-random-{}", c / 2000).unwrap();
        }
        let max_units = *rng.pick(&[12usize, 40, 200]);
        let s = random_text(&mut rng, max_units);
        match rng.below(10) {
            0 => {
                // round trip of the lines of a valid text
                let items: Vec<String> = String::from_utf8_lossy(&s).split('\n').map(|x| x.to_string()).collect();
                let hs: Vec<String> = items.iter().map(|s| hex(s.as_bytes())).collect();
                writeln!(w, "rt {}", hs.join(" ")).unwrap();
            }
            1 => writeln!(w, "rt {}", hex(&s)).unwrap(), // bad-op when not UTF-8
            2 => writeln!(w, "dec {}x", hex(&s)).unwrap(), // malformed hex
            _ => writeln!(w, "dec {}", hex(&s)).unwrap(),
        }
    }
}

fn step_c15(ws: &[&str], rep: &mut Report) -> Option<String> {
    Some(match ws {
        ["dec", hx] => match unhex(hx) {
            Some(bs) => lines_run(&bs, rep),
            None => "bad-op".into(),
        },
        ["enc", hs @ ..] => match parse_strs(hs) {
            Some(items) => hex(&lines_encode_all(&items, rep)),
            None => "bad-op".into(),
        },
        ["rt", hs @ ..] => match parse_strs(hs) {
            Some(items) => {
                let buf = lines_encode_all(&items, rep);
                let out = lines_run(&buf, rep);
                // T3 round-trip law
                if items.iter().all(|s| !s.contains('\n') && !s.ends_with('\r')) {
                    let want: Vec<LineItem> = items.iter().map(|s| LineItem::Ok(s.clone().into_bytes())).collect();
                    let mut codec = LinesCodec::default();
                    let mut src = buf.clone();
                    let mut got = vec![];
                    while let Ok(Some(s)) = codec.decode(&mut src) {
                        got.push(LineItem::Ok(s.into_bytes()));
                        if got.len() > items.len() + 2 {
                            break;
                        }
                    }
                    let tail = codec.decode_eof(&mut src);
                    if got != want || !matches!(tail, Ok(None)) {
                        rep.t3("C15", &format!("round trip of {:?} gives {} then {:?}", items, item_list(&got), tail.map(|o| o.map(|s| hex(s.as_bytes())))));
                    }
                }
                format!("buf={} {}", hex(&buf), out)
            }
            None => "bad-op".into(),
        },
        _ => return None,
    })
}

// ------------------------------------------------------------------------------------------------

fn gen(a: &Args) {
    let mut w = out_writer(&a.output);
    match a.prop.as_str() {
        "C15" => gen_c15(a, &mut *w),
        p => {
            eprintln!("codec: unknown property {p}");
            std::process::exit(2)
        }
    }
    w.flush().unwrap();
}

fn run(a: &Args) {
    silence_panics();
    let mut rep = Report::new(&a.output);
    for line in in_lines(&a.input) {
        let ws: Vec<&str> = line.split_whitespace().collect();
        let real: String = match ws.as_slice() {
            ["case", ..] => "ok".into(),
            _ => match catch(|| step_c15(&ws, &mut rep)) {
                Ok(Some(s)) => s,
                Ok(None) => "bad-op".into(),
                Err(_) => "panic".into(),
            },
        };
        rep.obs(&line, &real);
    }
    rep.finish();
}

fn main() {
    let a = parse_args();
    match a.cmd.as_str() {
        "gen" => gen(&a),
        "run" => run(&a),
        _ => {
            eprintln!("usage: codec gen|run --prop Cxx ...");
            std::process::exit(2)
        }
    }
}
