/-
  The shared connection counter under concurrency.  `Counter::inc` is ONE atomic `fetch_add(1)` and
  `Counter::dec` ONE atomic `fetch_sub(1)` (T1: spans `srv_counter_inc` / `srv_counter_dec` require exactly these
  calls), so every concurrent execution of the accept thread's increments and the worker threads' decrements is
  some interleaving of whole steps.  `applyOps` runs one such interleaving (`true` = inc, `false` = dec).
-/
namespace ActixNet.Counter

def applyOps (v : Nat) : List Bool → Nat
  | [] => v
  | true :: r => applyOps (v + 1) r
  | false :: r => applyOps (v - 1) r

/-- What the engine's `k-race v l n` op prints: `n` increments on one thread, `n` decrements on another, in the
    interleaving "all increments first" — by `interleaving_irrelevant` every other interleaving gives the same. -/
def race (v n : Nat) : Nat := applyOps v (List.replicate n true ++ List.replicate n false)

end ActixNet.Counter
