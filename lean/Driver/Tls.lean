import ActixNet.Model.Connect
import ActixNet.Model.Tls
import Driver.Util
/-! Engine `tls`: line protocol for the connector model (C19) and the TLS acceptor model (C18).

`case <name> kind=conn eps=L4,C4,L6,C6,..` declares loopback endpoints (live listener / closed port,
IPv4 / IPv6).  Endpoint `i` is written `e<i>`; its port is written `@<i>` inside host strings and
ports (the harness substitutes the real ephemeral port, the driver the stand-in `40000+i`; outputs are
canonicalised back).  `conn <base>[:<path>] <res> <host> [from] [with=a] [steps..]`: `<path>` is the way the
service is obtained from its factory (`ActixNet.Connect.Path`, default `s`); hosts are `s=` (a `String`
request), `t=` (a `&'static str` request) or `h=<hostname>,<port|->` (a custom `Host` impl); `from` builds the
request with `ConnectInfo::from`.  The per-address connect behaviour (`connectEnv`) is the environment table
measured on this platform and re-checked by every correspondence run. -/
namespace Driver.Tls
open Driver ActixNet.Connect

/-! ### small string helpers (on `List Char`) -/

def splitOnChar (c : Char) (cs : List Char) : List (List Char) :=
  match cs with
  | [] => [[]]
  | x :: t =>
    match splitOnChar c t with
    | [] => [[x]]
    | g :: gs => if x = c then [] :: g :: gs else (x :: g) :: gs

def stripPrefix (p : String) (s : String) : Option String :=
  let pc := p.toList
  let sc := s.toList
  if sc.take pc.length = pc then some (String.ofList (sc.drop pc.length)) else none

def stripSuffix (p : String) (s : String) : Option String :=
  let pc := p.toList
  let sc := s.toList
  if pc.length ≤ sc.length ∧ sc.drop (sc.length - pc.length) = pc then some (String.ofList (sc.take (sc.length - pc.length))) else none

/-- last occurrence split (`str::rsplit_once`) -/
def rsplitOnce (c : Char) (s : String) : Option (String × String) :=
  let r := s.toList.reverse
  let suf := r.takeWhile (· ≠ c)
  if suf.length < r.length then
    some (String.ofList (r.drop (suf.length + 1)).reverse, String.ofList suf.reverse)
  else none

def allDigits (s : String) : Bool := !s.isEmpty && s.toList.all isDigit

inductive EpKind where | L4 | C4 | L6 | C6
deriving DecidableEq, Repr

def EpKind.live : EpKind → Bool | .L4 | .L6 => true | _ => false
def EpKind.v4 : EpKind → Bool | .L4 | .C4 => true | _ => false

def parseKind : String → Option EpKind
  | "L4" => some .L4 | "C4" => some .C4 | "L6" => some .L6 | "C6" => some .C6 | _ => none

def fakePort (i : Nat) : Nat := 40000 + i
def epAddr (i : Nat) (k : EpKind) : Addr := { ip := if k.v4 then "127.0.0.1" else "::1", port := fakePort i }

structure ConnCase where
  eps : List EpKind

def ConnCase.addrOf (c : ConnCase) (i : Nat) : Option Addr := (c.eps[i]?).map (epAddr i)

def ConnCase.epIndex (c : ConnCase) (a : Addr) : Option Nat :=
  (List.range c.eps.length).find? fun i => c.addrOf i == some a

/-- `@<i>` → stand-in port of endpoint `i`; a lone `~` is the empty string -/
def ConnCase.subst (c : ConnCase) (s : String) : Option String :=
  if s == "~" then some "" else
  let rec go (fuel : Nat) (cs : List Char) (acc : List Char) : Option (List Char) :=
    match fuel with
    | 0 => none
    | fuel + 1 =>
      match cs with
      | [] => some acc.reverse
      | '^' :: '_' :: t => go fuel t (' ' :: acc)     -- `^_` stands for a space
      | '@' :: t =>
        let ds := t.takeWhile isDigit
        if ds.isEmpty then none else
        match (String.ofList ds).toNat? with
        | some k => if k < c.eps.length then go fuel (t.drop ds.length) ((toString (fakePort k)).toList.reverse ++ acc) else none
        | none => none
      | x :: t => go fuel t (x :: acc)
  (go (s.length + 1) s.toList []).map String.ofList

def isV4 (ip : String) : Bool := isIpv4 ip.toList
def parseIpD (s : String) : Option String := if isV4 s || s == "::1" then some s else none

def ConnCase.canonPort (c : ConnCase) (p : Nat) : String :=
  if 40000 ≤ p ∧ p < 40000 + c.eps.length then s!"@{p - 40000}" else toString p

def ConnCase.canon (c : ConnCase) (a : Addr) : String :=
  match c.epIndex a with
  | some i => s!"e{i}"
  | none => if isV4 a.ip then s!"{a.ip}:{c.canonPort a.port}" else s!"[{a.ip}]:{c.canonPort a.port}"

/-- `e<i>` | `<ipv4>:<port>` | `[::1]:<port>` (after `@` substitution) -/
def ConnCase.parseAddr (c : ConnCase) (s : String) : Option Addr :=
  match stripPrefix "e" s with
  | some r => if allDigits r then r.toNat?.bind c.addrOf else none
  | none =>
    match c.subst s with
    | none => none
    | some s =>
      match rsplitOnce ':' s with
      | none => none
      | some (ip, p) =>
        if !(allDigits p) then none else
        match p.toNat? with
        | none => none
        | some pn =>
          if pn > 65535 then none
          else if isV4 ip then some { ip := ip, port := pn }
          else if ip == "[::1]" then some { ip := "::1", port := pn }
          else none

/-- resolver script entry: fixed address, or ip + "the port passed to lookup" -/
inductive AddrT where
  | fixed (a : Addr)
  | ipP (ip : String)

def ConnCase.parseAddrT (c : ConnCase) (s : String) : Option AddrT :=
  match stripSuffix ":P" s with
  | some ip =>
    let ip := if ip == "[::1]" then "::1" else ip
    (parseIpD ip).map AddrT.ipP
  | none => (c.parseAddr s).map AddrT.fixed

def AddrT.inst (p : Nat) : AddrT → Addr
  | .fixed a => a
  | .ipP ip => { ip := ip, port := p }

def parseList {α : Type} (f : String → Option α) (s : String) : Option (List α) :=
  ((s.splitOn ";").filter (· ≠ "")).mapM f

inductive Res where
  | dflt (ips : List String)
  | script (l : Option (List AddrT))   -- none = error

inductive Step where
  | port (p : Nat)
  | addr (a : Option Addr)
  | addrs (l : List Addr)
  | loc (ip : String)
  /-- `take`: `ConnectInfo::take_addrs()` -/
  | take

/-! ### `http::Uri` requests: `u=<uri>` (http 1), `v=<uri>` (http 0.2)

The op grammar is a subset of what `http::Uri` parses, written so that both sides agree on what is a
well-formed op without consulting the crate under test:
`<scheme>://<host>[:<port>][/<path>]` (absolute form), `<host>[:<port>]` (authority form, no scheme),
`/<path>` (no host: hostname `""`).  scheme = `[a-z][a-z0-9+.-]*` (≤ 64), host = `[a-z0-9.-]+` or `[::1]`
(brackets are part of the URI's host), port = canonical decimal ≤ 65535, path = lower-case letters, digits,
`.`, `_`, `-` and `/`. -/

def isLowerAlpha (c : Char) : Bool := decide ('a' ≤ c ∧ c ≤ 'z')
def isHostChar (c : Char) : Bool := isLowerAlpha c || isDigit c || c == '.' || c == '-'
def isSchemeChar (c : Char) : Bool := isLowerAlpha c || isDigit c || c == '+' || c == '.' || c == '-'
def isPathChar (c : Char) : Bool := isHostChar c || c == '/' || c == '_'

def parsePortCanon (cs : List Char) : Option Nat :=
  match cs with
  | [] => none
  | c :: t =>
    if !(cs.all isDigit) || (c == '0' && !t.isEmpty) || cs.length > 5 then none
    else match digitsVal cs 0 with
      | some n => if n ≤ 65535 then some n else none
      | none => none

/-- `<host>[:<port>]` -/
def parseAuthority (cs : List Char) : Option (String × Option Nat) :=
  let (h, rest) : List Char × List Char :=
    if cs.take 5 == "[::1]".toList then (cs.take 5, cs.drop 5)
    else (cs.takeWhile (· != ':'), cs.dropWhile (· != ':'))
  if h.isEmpty || !(h == "[::1]".toList || h.all isHostChar) then none else
  match rest with
  | [] => some (String.ofList h, none)
  | ':' :: p => (parsePortCanon p).map fun n => (String.ofList h, some n)
  | _ => none

def parseUri (s : String) : Option UriParts :=
  let cs := s.toList
  match cs with
  | [] => none
  | '/' :: _ => if cs.all isPathChar then some { scheme := none, host := none, port := none } else none
  | c0 :: _ =>
    let pre := cs.takeWhile (· != ':')
    let rest := cs.drop pre.length
    if rest.take 3 == "://".toList then
      let after := rest.drop 3
      let auth := after.takeWhile (· != '/')
      let path := after.drop auth.length
      if isLowerAlpha c0 && pre.all isSchemeChar && pre.length ≤ 64 && path.all isPathChar then
        (parseAuthority auth).map fun (h, p) => { scheme := some (String.ofList pre), host := some h, port := p }
      else none
    else (parseAuthority cs).map fun (h, p) => { scheme := none, host := some h, port := p }

/-- the request behind a host token: `s=` / `t=` strings, `u=` / `v=` URIs (the source's scheme table) -/
def hostOfToken (subst : String → Option String) (tok : String) : Option Host :=
  match (stripPrefix "s=" tok).orElse (fun _ => stripPrefix "t=" tok) with
  | some s => (subst s).map hostOfString
  | none =>
    match (stripPrefix "u=" tok).orElse (fun _ => stripPrefix "v=" tok) with
    | some s => ((subst s).bind parseUri).map (hostOfUri ActixNet.Src.tlsSchemePorts)
    | none => none

structure ConnOp where
  via : String
  /-- how the service is obtained from its factory (`via` = `<base>[:<path>]`, default `s`) -/
  path : Path := .s
  res : Res
  host : Host
  withA : Option Addr
  steps : List Step

def parseSteps (c : ConnCase) : List String → Option (List Step)
  | [] => some []
  | w :: ws =>
    let st : Option Step :=
      match stripPrefix "port=" w with
      | some p => ((c.subst p).bind fun p => parseU16 p.toList).map Step.port
      | none =>
      match stripPrefix "addrs=" w with
      | some l => (parseList c.parseAddr l).map Step.addrs
      | none =>
      match stripPrefix "addr=" w with
      | some a => if a == "none" then some (Step.addr none) else (c.parseAddr a).map (fun x => Step.addr (some x))
      | none =>
      match stripPrefix "local=" w with
      | some ip => (parseIpD ip).map Step.loc
      | none => if w == "take" then some Step.take else none
    match st, parseSteps c ws with
    | some s, some r => some (s :: r)
    | _, _ => none

/-- `<base>[:<path>]`: construction paths every connector has, plus the directly constructed
`ResolverService::custom(r)` (`k`, `kc`) for `resolve` -/
def parseVia (via : String) : Option (String × Path) :=
  let (base, path?) : String × Option Path :=
    match via.splitOn ":" with
    | [b] => (b, some Path.s)
    | [b, p] => (b, parsePath p)
    | _ => (via, none)
  match path? with
  | none => none
  | some p =>
    if !(base == "full" || base == "resolve" || base == "tcp") then none
    else if (p == .k || p == .kc) && base != "resolve" then none
    else some (base, p)

def parseConnOp (c : ConnCase) (ws : List String) : Option ConnOp :=
  match ws with
  | _ :: via0 :: res :: host :: rest =>
    match parseVia via0 with
    | none => none
    | some (via, path) =>
    let res? : Option Res :=
      match stripPrefix "dflt=" res with
      | some ips => some (Res.dflt ((ips.splitOn ";").filter (· ≠ "")))
      | none =>
        if res == "err" then some (Res.script none)
        else match stripPrefix "ok=" res with
          | some l => (parseList c.parseAddrT l).map (fun v => Res.script (some v))
          | none => none
    -- `s=` a `String` request, `t=` a `&'static str` request (same `Host` parsing), `h=` a custom `Host` impl
    let host? : Option Host :=
      match hostOfToken c.subst host with
      | some h => some h
      | none =>
        match stripPrefix "h=" host with
        | some s =>
          match rsplitOnce ',' s with
          | some (h, p) =>
            let p? : Option (Option Nat) :=
              if p == "-" then some none else ((c.subst p).bind fun p => parseU16 p.toList).map some
            match c.subst h, p? with
            | some h, some p => some { hostname := h, port := p }
            | _, _ => none
          | none => none
        | none => none
    -- `from` (first step): the request is made by `ConnectInfo::from(host)` instead of `ConnectInfo::new(host)`
    let rest := match rest with
      | "from" :: t => t
      | _ => rest
    let (withA?, rest') : Option (Option Addr) × List String :=
      match rest with
      | w :: t =>
        match stripPrefix "with=" w with
        | some a => ((c.parseAddr a).map some, t)
        | none => (some none, rest)
      | [] => (some none, [])
    match res?, host?, withA?, parseSteps c rest' with
    | some res, some host, some withA, some steps =>
      -- a `Default` path has no configured resolver: it goes with `dflt=` only; a directly constructed
      -- custom resolver service needs a script (the bare TCP connector has no resolver at all)
      let isDflt := match res with | .dflt _ => true | _ => false
      if via != "tcp" && path.isDefault && !isDflt then none
      else if (path == .k || path == .kc) && isDflt then none
      else some { via := via, path := path, res := res, host := host, withA := withA, steps := steps }
    | _, _, _, _ => none
  | _ => none

/-- the request and what each `take_addrs()` handed out -/
def buildReq (op : ConnOp) : Req × List (List Addr) :=
  let r0 := match op.withA with
    | some a => Req.withAddr op.host a
    | none => Req.new op.host
  op.steps.foldl (fun (acc : Req × List (List Addr)) s =>
    let (r, tk) := acc
    match s with
    | .port p => (r.setPort p, tk)
    | .addr a => (r.setAddr a, tk)
    | .addrs l => (r.setAddrs l, tk)
    | .loc ip => (r.setLocal ip, tk)
    | .take => (r.takeAddrs.1, tk ++ [r.takeAddrs.2])) (r0, [])

def lookupOf (res : Res) (h : String) (p : Nat) : Lookup :=
  match res with
  | .dflt ips => if h == "localhost" then .ok (ips.map fun ip => { ip := ip, port := p }) else .fail
  | .script none => .fail
  | .script (some l) => .ok (l.map (AddrT.inst p))

/-- Environment table (Linux loopback, measured; re-checked by every run): what one TCP connect does.
The stream is identified by (peer address, local bind ip). -/
def connectEnv (c : ConnCase) (loc : Option String) (a : Addr) : Except Nat (Addr × Option String) :=
  let byKind : Except Nat (Addr × Option String) :=
    match (c.epIndex a).bind (c.eps[·]?) with
    | some k => if k.live then .ok (a, loc) else .error 111     -- ECONNREFUSED
    | none => .error 111
  match loc with
  | none => byKind
  | some l =>
    if !(((l.toList.take 4 == "127.".toList) && isV4 l) || l == "::1") then .error 99   -- EADDRNOTAVAIL (bind)
    else if isV4 l && !(isV4 a.ip) then .error 97    -- EAFNOSUPPORT
    else if !(isV4 l) && isV4 a.ip then .error 22    -- EINVAL
    else byKind

def errStr : ConnectError → String
  | .resolver => "resolver"
  | .noRecords => "norecords"
  | .invalidInput => "invalidinput"
  | .unresolved => "unresolved"
  | .io e => s!"io:{e}"

def showHost (h : String) : String := if h.isEmpty then "~" else h

def runConn (c : ConnCase) (op : ConnOp) : String :=
  let (r, taken) := buildReq op
  -- the resolver the service ends up with along its construction path
  let dfl : Res := match op.res with | .dflt ips => .dflt ips | _ => .dflt []
  let lookup := lookupOf (op.path.build dfl op.res).cfg
  let out : Option (List (String × Nat) × String × Option Addr) :=
    if op.via == "resolve" then
      let rs := resolve parseIpD lookup r
      match rs.result with
      | .ok r' => some (rs.lookups,
          s!"ok addrs=[{";".intercalate (r'.addr.toList.map c.canon)}] host={showHost r'.hostname} port={c.canonPort r'.effPort}", none)
      | .error e => some (rs.lookups, s!"err {errStr e}", none)
    else
      let cf : Option (Connected (Addr × Option String)) :=
        if op.via == "tcp" then
          (dial (connectEnv c r.localAddr) r.addr).map fun d => { result := d.result, lookups := [], tried := d.tried }
        else connectFull parseIpD lookup (connectEnv c) r
      match cf with
      | none => none
      | some cf =>
        match cf.result with
        | .ok (peer, loc) =>
          let l := match loc with | some ip => s!" local={ip}" | none => ""
          some (cf.lookups, s!"ok peer={c.canon peer}{l}", some peer)
        | .error e => some (cf.lookups, s!"err {errStr e}", none)
  match out with
  | none => "panic"
  | some (lks, res, peer) =>
    let lk := match op.res with
      | .dflt _ => "-"
      | _ => "[" ++ ",".intercalate (lks.map fun (h, p) => s!"{showHost h}:{c.canonPort p}") ++ "]"
    let acc := (List.range c.eps.length).map fun i =>
      match c.eps[i]? with
      | some k => if k.live then (if peer.isSome && peer == c.addrOf i then "1" else "0") else "-"
      | none => "-"
    let tk := if taken.isEmpty then "" else
      " taken=" ++ "|".intercalate (taken.map fun l => "[" ++ ";".intercalate (l.map c.canon) ++ "]")
    s!"lk={lk} res={res} acc=[{",".intercalate acc}]{tk}"

def kvGet (k : String) (ws : List String) : Option String :=
  (ws.filterMap fun w =>
    match splitOnChar '=' w.toList with
    | a :: b :: rest => if String.ofList a == k then some (String.ofList ("=".toList.intercalate (b :: rest))) else none
    | _ => none).getLast?

/-! ### C18: acceptor cases

`case <name> kind=acc max=<n|default> tmo=<ms|default>`; ops `ready [w]` (readiness asked by task `w` = 0..2,
distinct wakers; `r=<mask>`: bit `w` set = task `w` has been woken), `call <r|o> <r13|r12|o13|o12>`,
`poll k [w]` (the accept future polled from task `w` = 0..2, default 0; `w=<mask>` / `woken=[k,k.1,k.2,..]`
show which of these tasks have been woken), `drop k`, `cflight k full|part|rest`, `garbage k <kind>`, `close k`, `advance ms`, `run ms`,
`setmax n` (`max_concurrent_tls_connect(n)` after this thread's counter exists) / `probe` (the limit a freshly
spawned thread gets), `fnew` / `fset f ms` / `fclone f` / `fsvc f` (acceptor factories of this thread: `Acceptor::new`,
`set_handshake_timeout`, `clone`, `ServiceFactory::new_service`), `call <r|o> <cli> s` (through service `s`),
`echo k n seed`, `xfer k <s2c|c2s|both> n seed cap rchunk <d|b> <all|chunk|cflush|vec> <flush|shut> <exact|small>`
(payload over an accepted stream through a back-pressuring / short-reading / buffering transport; the
pass-through model answers `ok`; after `shut` the connection carries no further payload),
`rdy k <r|p> <r|p>` (the transport's read/write readiness answers, passed through unchanged).
Virtual time in ms. -/

instance : Inhabited ActixNet.Tls.Conn := ⟨{}⟩

def canonNat (s : String) : Option Nat :=
  match s.toNat? with
  | some n => if toString n == s then some n else none
  | none => none

open ActixNet.Tls in
structure AccCase where
  svc : Svc
  /-- acceptor factories and the services built from them on this thread; factory 0 / service 0 are the
  ones the case header builds (`Acceptor::new`, `set_handshake_timeout(tmo)`, `new_service`) -/
  cfg : Cfg
  /-- the process-wide `MAX_CONN` (what a thread created now gets); the case's own thread keeps `svc.cap` -/
  proc : Proc := {}
  conns : Array Conn := #[]
  results : Array (Option Outcome) := #[]
  /-- connections whose stream was shut down by a transfer -/
  fin : Array Bool := #[]
  now : Nat := 0

namespace AccCase
open ActixNet.Tls

def outcomeStr : Outcome → String
  | .ok => "ok" | .tlsErr => "tlserr" | .timeout => "timeout"

def b01 (b : Bool) : String := if b then "1" else "0"

/-- which readiness tasks have been woken: bit `w` for task `w` (tasks 0..2) -/
def rMask (s : Svc) : String :=
  toString ((if s.wokenW 0 then 1 else 0) + (if s.wokenW 1 then 2 else 0) + (if s.wokenW 2 then 4 else 0))

def alive (c : AccCase) (k : Nat) : Bool := k < c.conns.size && (c.svc.futs k).isAlive

def deadline (c : AccCase) (k : Nat) : Nat :=
  match c.svc.futs k with
  | .alive d => d
  | _ => 0

/-- connection `k` has an accepted stream that has not been shut down -/
def usable (c : AccCase) (k : Nat) : Bool :=
  k < c.results.size && c.results[k]! == some Outcome.ok && !(c.fin[k]?.getD false)

/-- which of the tasks that polled accept future `k` have been woken: bit `w` for task `w` (tasks 0..2) -/
def wMask (cn : Conn) : String :=
  toString ((if cn.wokenW 0 then 1 else 0) + (if cn.wokenW 1 then 2 else 0) + (if cn.wokenW 2 then 4 else 0))

/-- poll future `k` (must be alive) from task `w` (default: the task that polled it last, initially 0) -/
def pollOne (c : AccCase) (k : Nat) (w? : Option Nat := none) : AccCase × Option Outcome :=
  let conn := c.conns[k]!
  let (svc', o) := c.svc.pollK k c.now conn.hsPoll
  ({ c with svc := svc', conns := c.conns.set! k (conn.afterPoll (w?.getD conn.lastW)),
            results := match o with | some r => c.results.set! k (some r) | none => c.results }, o)

def wokenList (c : AccCase) : String :=
  let ks := ((List.range c.conns.size).filter fun k => c.alive k).flatMap fun k =>
    let cn := c.conns[k]!
    (if cn.wokenW 0 then [toString k] else []) ++ (if cn.wokenW 1 then [s!"{k}.1"] else []) ++ (if cn.wokenW 2 then [s!"{k}.2"] else [])
  let xs := ks ++ (if c.svc.wokenW 0 then ["r"] else []) ++ (if c.svc.wokenW 1 then ["r1"] else [])
    ++ (if c.svc.wokenW 2 then ["r2"] else [])
  "[" ++ ",".intercalate xs ++ "]"

/-- timers: a parked future whose deadline lies in `(old, new]` is woken — through the waker of its LAST poll -/
def tick (c : AccCase) (new : Nat) : AccCase :=
  let conns := (List.range c.conns.size).foldl (fun (cs : Array Conn) k =>
    let cn := cs[k]!
    if c.alive k && cn.polled && c.now < c.deadline k && c.deadline k ≤ new then cs.set! k cn.wake else cs) c.conns
  { c with conns := conns, now := new }

/-- executor discipline: every future is polled by the task that owns it (the one that polled it last) whenever
that task has been woken (or the future was never polled) -/
def sweep (c : AccCase) (done : List String) : AccCase × List String :=
  (List.range c.conns.size).foldl (fun (acc : AccCase × List String) k =>
    let (c, done) := acc
    if c.alive k && (c.conns[k]!.woken || !c.conns[k]!.polled) then
      let (c', o) := c.pollOne k
      match o with
      | some r => (c', done ++ [s!"{k}:{outcomeStr r}@{c.now}"])
      | none => (c', done)
    else (c, done)) (c, done)

def runMs (c : AccCase) : Nat → List String → AccCase × List String
  | 0, done => (c, done)
  | n + 1, done =>
    let c1 := c.tick (c.now + 1)
    let (c2, done2) := c1.sweep done
    runMs c2 n done2

def step (c : AccCase) (ws : List String) : AccCase × String :=
  match ws with
  | ["ready"] =>
    let (svc', a) := c.svc.pollReady
    ({ c with svc := svc' }, if a then "ready" else "pending")
  | ["ready", w] =>
    -- readiness asked by task `w` (its own waker)
    match (canonNat w).filter (· < 3) with
    | some w =>
      let (svc', a) := c.svc.pollReadyW w
      ({ c with svc := svc' }, if a then "ready" else "pending")
    | none => (c, "bad-op")
  | ["call", lib, cli] =>
    if (lib == "r" || lib == "o") && (cli == "r13" || cli == "r12" || cli == "o13" || cli == "o12") then
      ({ c with svc := c.svc.call c.now, conns := c.conns.push {}, results := c.results.push none, fin := c.fin.push false }, s!"ok {c.conns.size}")
    else (c, "bad-op")
  | ["call", lib, cli, sv] =>
    -- through service `sv` of this thread: same counter, that service's timeout
    match (canonNat sv).bind (c.cfg.svcs[·]?) with
    | some tmo =>
      if (lib == "r" || lib == "o") && (cli == "r13" || cli == "r12" || cli == "o13" || cli == "o12") then
        ({ c with svc := c.svc.callT tmo c.now, conns := c.conns.push {}, results := c.results.push none, fin := c.fin.push false }, s!"ok {c.conns.size}")
      else (c, "bad-op")
    | none => (c, "bad-op")
  | ["setmax", n] =>
    -- `max_concurrent_tls_connect(n)` on this thread, whose counter exists already: no effect here
    match (canonNat n).filter (· ≤ 300) with
    | some n => ({ c with proc := c.proc.setMax n }, "ok")
    | none => (c, "bad-op")
  | ["probe"] =>
    -- a freshly spawned thread: its counter is created with the current process-wide limit
    (c, s!"limit={(c.proc.newThread 0).cap}")
  | ["fnew"] =>
    if c.cfg.facs.length < 8 then ({ c with cfg := c.cfg.step .new }, s!"ok f={c.cfg.facs.length}") else (c, "bad-op")
  | ["fset", f, ms] =>
    match canonNat f, canonNat ms with
    | some f, some ms =>
      if f < c.cfg.facs.length && 1 ≤ ms && ms ≤ 20000 then ({ c with cfg := c.cfg.step (.set f ms) }, "ok") else (c, "bad-op")
    | _, _ => (c, "bad-op")
  | ["fclone", f] =>
    match canonNat f with
    | some f =>
      if f < c.cfg.facs.length && c.cfg.facs.length < 8 then ({ c with cfg := c.cfg.step (.clone f) }, s!"ok f={c.cfg.facs.length}") else (c, "bad-op")
    | none => (c, "bad-op")
  | ["fsvc", f] =>
    match canonNat f with
    | some f =>
      if f < c.cfg.facs.length && c.cfg.svcs.length < 8 then ({ c with cfg := c.cfg.step (.svc f) }, s!"ok s={c.cfg.svcs.length}") else (c, "bad-op")
    | none => (c, "bad-op")
  | ["poll", k] =>
    match k.toNat? with
    | some k =>
      if c.alive k then
        let (c', o) := c.pollOne k (some 0)
        (c', s!"{match o with | some r => outcomeStr r | none => "pending"} r={rMask c'.svc}")
      else (c, "bad-op")
    | none => (c, "bad-op")
  | ["poll", k, w] =>
    -- the accept future polled from task `w` (its own waker): it is that task's from now on
    match k.toNat?, (canonNat w).filter (· < 3) with
    | some k, some w =>
      if c.alive k then
        let (c', o) := c.pollOne k (some w)
        (c', s!"{match o with | some r => outcomeStr r | none => "pending"} r={rMask c'.svc}")
      else (c, "bad-op")
    | _, _ => (c, "bad-op")
  | ["drop", k] =>
    match k.toNat? with
    | some k =>
      if c.alive k then
        let svc' := c.svc.dropK k
        ({ c with svc := svc' }, s!"ok r={rMask svc'}")
      else (c, "bad-op")
    | none => (c, "bad-op")
  | ["cflight", k, mode] =>
    let m? : Option FlightMode := match mode with
      | "full" => some .full | "part" => some .part | "rest" => some .rest | _ => none
    match k.toNat?, m? with
    | some k, some m =>
      if c.alive k && !c.conns[k]!.spoiled && !c.conns[k]!.closed then
        let (cn, sent) := c.conns[k]!.cflight m
        ({ c with conns := c.conns.set! k cn }, s!"{if sent then "sent" else "nothing"} w={wMask cn}")
      else (c, "bad-op")
    | _, _ => (c, "bad-op")
  | ["garbage", k, kind] =>
    match k.toNat? with
    | some k =>
      if c.alive k && !c.conns[k]!.spoiled && !c.conns[k]!.closed && c.conns[k]!.delivered < 2 && (kind == "http" || kind == "zero" || kind == "ff" || kind == "rnd") then
        let cn := c.conns[k]!.garbage
        ({ c with conns := c.conns.set! k cn }, s!"ok w={wMask cn}")
      else (c, "bad-op")
    | none => (c, "bad-op")
  | ["close", k] =>
    match k.toNat? with
    | some k =>
      if c.alive k && !c.conns[k]!.spoiled && !c.conns[k]!.closed then
        let cn := c.conns[k]!.close
        ({ c with conns := c.conns.set! k cn }, s!"ok w={wMask cn}")
      else (c, "bad-op")
    | none => (c, "bad-op")
  | ["advance", ms] =>
    match ms.toNat? with
    | some ms =>
      if ms ≤ 20000 then
        let c' := c.tick (c.now + ms)
        (c', s!"t={c'.now} woken={c'.wokenList}")
      else (c, "bad-op")
    | none => (c, "bad-op")
  | ["run", ms] =>
    match ms.toNat? with
    | some ms =>
      if ms ≤ 20000 then
        let (c0, d0) := c.sweep []
        let (c', done) := c0.runMs ms d0
        (c', s!"t={c'.now} done=[{",".intercalate done}] r={rMask c'.svc}")
      else (c, "bad-op")
    | none => (c, "bad-op")
  | ["echo", k, n, seed] =>
    match k.toNat?, n.toNat?, seed.toNat? with
    | some k, some n, some _ =>
      if c.usable k && n ≤ 1048576 then (c, "ok") else (c, "bad-op")
    | _, _, _ => (c, "bad-op")
  | ["xfer", k, dir, n, seed, cap, rc, tb, w, fin, r] =>
    match k.toNat?, canonNat n, canonNat seed, canonNat cap, canonNat rc with
    | some k, some n, some seed, some cap, some rc =>
      if c.usable k && n ≤ 1048576 && seed < 18446744073709551616 && cap ≤ 4194304 && rc ≤ 4194304
          && (dir == "s2c" || dir == "c2s" || dir == "both") && (tb == "d" || tb == "b")
          && (w == "all" || w == "chunk" || w == "cflush" || w == "vec")
          && (fin == "flush" || fin == "shut") && (r == "exact" || r == "small") then
        -- a pass-through stream delivers every byte whatever the transport's pace: the observation is `ok`
        ({ c with fin := if fin == "shut" then c.fin.set! k true else c.fin }, "ok")
      else (c, "bad-op")
    | _, _, _, _, _ => (c, "bad-op")
  | ["rdy", k, a, b] =>
    match k.toNat? with
    | some k =>
      if c.usable k && (a == "r" || a == "p") && (b == "r" || b == "p") then
        (c, s!"rd={if a == "p" then "pending" else "ready"} wr={if b == "p" then "pending" else "ready"}")
      else (c, "bad-op")
    | none => (c, "bad-op")
  | _ => (c, "bad-op")

end AccCase

def parseAccHeader (rest : List String) : Option AccCase :=
  -- optional 4th field `set=main|self`: the thread `max_concurrent_tls_connect(max)` is called on (the harness
  -- main thread before the case's thread exists / the case's thread before its first service): same model
  let setOk := (rest.length == 3 && (kvGet "set" rest).isNone) ||
    (rest.length == 4 && (kvGet "set" rest == some "main" || kvGet "set" rest == some "self"))
  if !setOk || kvGet "kind" rest != some "acc" then none else
  let max? : Option Nat := match kvGet "max" rest with
    | some "default" => some ActixNet.Src.tlsDefaultMaxConn
    | some m => (canonNat m).filter (· ≤ 300)
    | none => none
  let tmo? : Option Nat := match kvGet "tmo" rest with
    | some "default" => some ActixNet.Src.tlsDefaultHandshakeTimeoutMs
    | some t => (canonNat t).filter (fun x => 1 ≤ x ∧ x ≤ 20000)
    | none => none
  match max?, tmo? with
  | some m, some t =>
    -- `Acceptor::new` (+ `set_handshake_timeout` unless `tmo=default`), then `new_service`
    some { svc := ({ maxConn := m } : ActixNet.Tls.Proc).newThread t,
           proc := { maxConn := m },
           cfg := (match kvGet "tmo" rest with
             | some "default" => ActixNet.Tls.Cfg.run {} [.new, .svc 0]
             | _ => ActixNet.Tls.Cfg.run {} [.new, .set 0 t, .svc 0]) }
  | _, _ => none

/-! ### engine -/

inductive Case where
  | none
  | conn (c : ConnCase)
  | acc (c : AccCase)
  | tlsconn

/-! ### C19, TLS step: `tconn <lib r|o> <srv r|o> <good|bad> n=<names> <host> <payload>` -/

def isIpD (s : String) : Bool := isV4 s || s == "::1"

/-- names the connector hands on to the library.  rustls: `ServerName::try_from`; OpenSSL takes any
name it can represent (1..255 bytes) — for the others the property demands an error, which is what the
model answers (`invalid-input`) -/
def validNameFor (lib : String) (h : String) : Bool :=
  if lib == "r" then validDnsName h || isIpD h
  else decide (1 ≤ h.utf8ByteSize ∧ h.utf8ByteSize ≤ 255)

def runTconn (ws : List String) : String :=
  match ws with
  | [_, lib0, srv, ca, names, host, payload] =>
    -- `<lib>[:<path>]`: `TlsConnector::service(config)` (default, `k`), or the factory `TlsConnector::new(config)`
    -- through `new_service` (`f`), with a clone of the factory (`cf`) or of the service (`fc`, `kc`)
    -- `#<slot>` (0..3) / `#<slot>c`: the call goes to the service instance kept in that slot of the case (built on
    -- first use along `<path>`, reused afterwards) / to a fresh clone of it.  A connector service holds nothing but
    -- its configuration, so the model's answer does not depend on the slot: every call is judged on its own.
    let (lib0, slotOk) : String × Bool :=
      match lib0.splitOn "#" with
      | [l] => (l, true)
      | [l, sl] => (l, sl == "0" || sl == "1" || sl == "2" || sl == "3" || sl == "0c" || sl == "1c" || sl == "2c" || sl == "3c")
      | _ => (lib0, false)
    if !slotOk then "bad-op" else
    let (lib, path?) : String × Option Path :=
      match lib0.splitOn ":" with
      | [l] => (l, some Path.k)
      | [l, p] => (l, (parsePath p).filter fun p => p == .k || p == .f || p == .cf || p == .fc || p == .kc)
      | _ => (lib0, none)
    if path?.isNone then "bad-op" else
    if !((lib == "r" || lib == "o") && (srv == "r" || srv == "o") && (ca == "good" || ca == "bad")) then "bad-op" else
    let c0 : ConnCase := { eps := [] }
    let host? : Option Host :=
      match hostOfToken c0.subst host with
      | some h => some h
      | none =>
        match stripPrefix "h=" host with
        | some s =>
          match rsplitOnce ',' s with
          | some (h, p) =>
            let p? : Option (Option Nat) := if p == "-" then some none else ((canonNat p).filter (· ≤ 65535)).map some
            match c0.subst h, p? with
            | some h, some p => some { hostname := h, port := p }
            | _, _ => none
          | none => none
        | none => none
    match host?, stripPrefix "n=" names, (canonNat payload).filter (· ≤ 65536) with
    | some h, some names, some _ =>
      let ns := (names.splitOn ";").filter (· ≠ "")
      -- the per-library reading of the name handed over (measured on the unchanged tree, `Connect.verifiedName`):
      -- rustls drops ONE trailing root dot and ignores certificate names ending in a dot, OpenSSL is exact
      let verify (cert : List String × Bool) (name : String) : Bool :=
        cert.2 && covers isIpD (certNamesFor lib cert.1) (verifiedName lib name)
      match tlsConnect (validNameFor lib) verify h (ns, ca == "good") with
      | .invalidInput => "err invalid-input io=0"
      | .handshakeError _ => "err handshake"
      | .established n =>
        let n := verifiedName lib n
        let sni := if isIpD n then "-" else if srv == "r" then lowerStr n else n
        s!"ok sni={sni} echo=ok"
    | _, _, _ => "bad-op"
  | _ => "bad-op"

structure State where
  case : Case := .none

def init : State := {}

def step (st : State) (line : String) : State × String :=
  match words line with
  | "case" :: _ :: rest =>
    match kvGet "kind" rest with
    | some "conn" =>
      let ks := parseList parseKind (((kvGet "eps" rest).getD "").replace "," ";")
      match ks with
      | some ks => if ks.length ≤ 8 ∧ rest.length = 2 then ({ case := .conn { eps := ks } }, "ok") else ({ case := .none }, "bad-op")
      | none => ({ case := .none }, "bad-op")
    | some "tlsconn" => if rest.length = 1 then ({ case := .tlsconn }, "ok") else ({ case := .none }, "bad-op")
    | some "acc" =>
      match parseAccHeader rest with
      | some c => ({ case := .acc c }, "ok")
      | none => ({ case := .none }, "bad-op")
    | _ => ({ case := .none }, "bad-op")
  | "conn" :: ws =>
    match st.case with
    | .conn c =>
      match parseConnOp c ("conn" :: ws) with
      | some op => (st, runConn c op)
      | none => (st, "bad-op")
    | _ => (st, "bad-op")
  | "tconn" :: ws =>
    match st.case with
    | .tlsconn => (st, runTconn ("tconn" :: ws))
    | _ => (st, "bad-op")
  | ws =>
    match st.case with
    | .acc c =>
      let (c', o) := c.step ws
      ({ case := .acc c' }, o)
    | _ => (st, "bad-op")

end Driver.Tls
