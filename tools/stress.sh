#!/bin/sh
# tools/stress.sh <rounds> <parallel>: run every claimed quick check repeatedly, several at a time (load), report non-zero exits
R=${1:-3}; J=${2:-6}
cd /verif; mkdir -p .build/stress; : > .build/stress/summary.log
for r in $(seq 1 $R); do
  ls props/C*.json | sed 's|props/||; s|.json||' | xargs -P $J -I{} sh -c "VERIF_SEED=$r ./check {} > .build/stress/{}-$r.log 2>&1; echo \"{} round=$r seed=$r rc=\$? \$(grep -E 'tier=quick' .build/stress/{}-$r.log | sed 's/.*wall=/wall=/')\" >> .build/stress/summary.log"
done
grep -v "rc=0" .build/stress/summary.log | head -20
echo "stress done: $(grep -c 'rc=0' .build/stress/summary.log) ok, $(grep -vc 'rc=0' .build/stress/summary.log) not ok"
