#!/usr/bin/env python3
"""regenerate the generated tables of DESIGN.md (between the BEGIN/END markers) from props/, evidence/ and seeded/"""
import glob, json, os, re
V = os.path.dirname(os.path.dirname(os.path.abspath(__file__)))

def props_table():
    rows = ["| id | engine | theorems (Props/Cxx.lean) | quick: cases / ops on the real code | partial |", "|----|--------|--------------------------|-----------------------------|---------|"]
    for p in sorted(glob.glob(os.path.join(V, "props", "C*.json"))):
        d = json.load(open(p))
        pid = d["id"]
        ev = {}
        try:
            ev = json.load(open(os.path.join(V, "evidence", pid + ".json")))["coverage"]
        except Exception:
            pass
        thms = [t.split(".")[-1] for t in ev.get("theorems", [])]
        rows.append("| %s | %s | %s | %s / %s | %s |" % (pid, d["engine"], ", ".join("`%s`" % t for t in thms), ev.get("cases", "?"), ev.get("evaluations", "?"), (d.get("partial") or "—").replace("|", "/")))
    return "\n".join(rows)

def seeds_table():
    rows = ["| seed | property | what the change does (from the seeder) | needs | ./check result |", "|------|----------|------------------------------------------|-------|----------------|"]
    for m in sorted(glob.glob(os.path.join(V, "seeded", "*", "meta.json"))):
        d = json.load(open(m))
        name = os.path.basename(os.path.dirname(m))
        res = d.get("result") or ("caught: %d VIOLATION line(s), %d without a failing input" % (d.get("check_violation_lines", 0), d.get("check_no_failing_input_found", 0)) if d.get("check_exit_code") else "NOT caught (check exit 0)")
        rows.append("| %s | %s (checked with %s) | %s | %s | %s |" % (name, d.get("property"), d.get("checked_with"), d.get("what", "see README-from-seeder.md").replace("|", "/"), d.get("needs", "see README-from-seeder.md").replace("|", "/"), res))
    return "\n".join(rows)

def main():
    p = os.path.join(V, "DESIGN.md")
    s = open(p).read()
    for name, fn in (("props-table", props_table), ("seeds-table", seeds_table)):
        b, e = "<!-- BEGIN:%s -->" % name, "<!-- END:%s -->" % name
        if b in s and e in s:
            s = s[:s.index(b) + len(b)] + "\n" + fn() + "\n" + s[s.index(e):]
    open(p, "w").write(s)

if __name__ == "__main__":
    main()
