import ActixNet.Lemmas.SrvInv
/-!
Dispatch-log lemmas for the accept-loop model: what `send_connection`, the forced-send loop and
`accept_one` do to the dispatch log, the handle list and the drop list — with worker deaths allowed
at every yield point (no fault-freedom assumption here).
-/
namespace ActixNet.Srv
open ActixNet

theorem envStep_dispatched (cfg : Cfg) (s : St) (a : EnvAct) : (envStep cfg s a).1.dispatched = s.dispatched := by
  cases a <;> simp only [envStep] <;> (repeat' split) <;> first | rfl | (simp [pushWq])

theorem runEnv_dispatched (cfg : Cfg) : ∀ (as : List EnvAct) (s : St), (runEnv cfg s as).dispatched = s.dispatched := by
  intro as; induction as with
  | nil => intro s; rfl
  | cons a as ih => intro s; simp only [runEnv]; rw [ih]; exact envStep_dispatched cfg s a

theorem yieldPt_dispatched (cfg : Cfg) (s : St) : (yieldPt cfg s).dispatched = s.dispatched := by
  unfold yieldPt; split
  · rfl
  · rw [runEnv_dispatched]

theorem envStep_handles (cfg : Cfg) (s : St) (a : EnvAct) : (envStep cfg s a).1.handles = s.handles := by
  cases a <;> simp only [envStep] <;> (repeat' split) <;> first | rfl | (simp [pushWq])

theorem runEnv_handles (cfg : Cfg) : ∀ (as : List EnvAct) (s : St), (runEnv cfg s as).handles = s.handles := by
  intro as; induction as with
  | nil => intro s; rfl
  | cons a as ih => intro s; simp only [runEnv]; rw [ih]; exact envStep_handles cfg s a

theorem yieldPt_handles (cfg : Cfg) (s : St) : (yieldPt cfg s).handles = s.handles := by
  unfold yieldPt; split
  · rfl
  · rw [runEnv_handles]

theorem setAvail_dispatched (s : St) (i : Nat) (v : Bool) : (setAvail s i v).dispatched = s.dispatched := by
  unfold setAvail; split <;> rfl
theorem setNext_dispatched (s : St) : (setNext s).dispatched = s.dispatched := by
  unfold setNext; split <;> rfl
theorem incPrim_dispatched (cfg : Cfg) (s : St) (w i : Nat) : (incPrim cfg s w i).dispatched = s.dispatched := by
  unfold incPrim; simp only; split
  · rfl
  · rw [setAvail_dispatched]
theorem removeNext_dispatched (s : St) (w : Nat) : (removeNext s w).dispatched = s.dispatched := by
  unfold removeNext; simp only; rw [setAvail_dispatched]

theorem swapRemove_length (l : List Nat) (i : Nat) : (swapRemove l i).length = l.length - 1 := by
  simp [swapRemove]

/-- what one `send_connection` does to the dispatch log and the no-worker drop list -/
theorem sendConnection_log (cfg : Cfg) (s : St) (c : Conn) (hnf : (sendConnection cfg s c).1.fault = none) :
    ((sendConnection cfg s c).2 = true ∧
        ((∃ w, s.handles[s.next]? = some w ∧ (s.wk w).alive = true ∧
            (sendConnection cfg s c).1.dispatched = s.dispatched ++ [(c, w)]) ∨
         ((sendConnection cfg s c).1.dispatched = s.dispatched ∧ (sendConnection cfg s c).1.handles = [] ∧
            c ∈ (sendConnection cfg s c).1.dropped))) ∨
    ((sendConnection cfg s c).2 = false ∧ (sendConnection cfg s c).1.dispatched = s.dispatched ∧
        (sendConnection cfg s c).1.handles.length < s.handles.length ∧
        ∃ w, s.handles[s.next]? = some w ∧ (s.wk w).alive = false) := by
  unfold sendConnection at hnf ⊢
  split at hnf
  · rename_i hf; simp at hnf; simp [hnf] at hf
  · rename_i hf
    simp only [hf, Bool.false_eq_true, ↓reduceIte]
    cases hh : s.handles[s.next]? with
    | none => simp [hh] at hnf
    | some w =>
      simp only [hh] at hnf ⊢
      by_cases hal : (s.wk w).alive = true
      · simp only [hal, ↓reduceIte]
        left
        refine ⟨trivial, Or.inl ⟨w, rfl, hal, ?_⟩⟩
        rw [setNext_dispatched, incPrim_dispatched, yieldPt_dispatched]; rfl
      · have hal' : (s.wk w).alive = false := by simpa using hal
        simp only [hal', Bool.false_eq_true, ↓reduceIte, sendFail]
        have hlen : (removeNext s w).handles.length < s.handles.length := by
          have hlt : s.next < s.handles.length := by
            have := List.getElem?_eq_some_iff.mp hh; exact this.1
          unfold removeNext setAvail
          simp only
          split <;> simp [swapRemove_length] <;> omega
        split
        · rename_i he
          left
          refine ⟨rfl, Or.inr ⟨by simp [removeNext_dispatched], by simpa using he, by simp⟩⟩
        · split
          · right; exact ⟨rfl, by simp [removeNext_dispatched], by simpa using hlen, w, rfl, hal'⟩
          · right; exact ⟨rfl, by simp [removeNext_dispatched], hlen, w, rfl, hal'⟩


/-- outcome of handing connection `c` to `accept_one`: dispatched exactly once to a worker that was
alive when it was sent, or dropped because no worker handle is left -/
def PlacedOnce (s r : St) (c : Conn) : Prop :=
  (∃ (s' : St) (w : Nat), s'.dispatched = s.dispatched ∧ s'.handles[s'.next]? = some w ∧ (s'.wk w).alive = true ∧
      r.dispatched = s.dispatched ++ [(c, w)]) ∨
  (r.dispatched = s.dispatched ∧ r.handles = [] ∧ c ∈ r.dropped)

theorem sendConnection_fault_of_fault (cfg : Cfg) (s : St) (c : Conn) (h : s.fault.isSome = true) :
    (sendConnection cfg s c).1 = s ∧ (sendConnection cfg s c).2 = true := by
  unfold sendConnection; simp [h]

theorem forcedSend_fault_of_fault (cfg : Cfg) : ∀ (fuel : Nat) (s : St) (c : Conn), s.fault.isSome = true →
    (forcedSend cfg fuel s c).fault.isSome = true := by
  intro fuel; cases fuel with
  | zero => intro s c _; rfl
  | succ f =>
    intro s c h
    simp only [forcedSend]
    obtain ⟨h1, h2⟩ := sendConnection_fault_of_fault cfg s c h
    rw [h2]; simp only [↓reduceIte]; rw [h1]; exact h

theorem forcedSend_log (cfg : Cfg) : ∀ (fuel : Nat) (s : St) (c : Conn), (forcedSend cfg fuel s c).fault = none →
    PlacedOnce s (forcedSend cfg fuel s c) c := by
  intro fuel
  induction fuel with
  | zero => intro s c h; simp [forcedSend] at h
  | succ f ih =>
    intro s c h
    simp only [forcedSend] at h ⊢
    cases hsc : sendConnection cfg s c with
    | mk s1 ok =>
      rw [hsc] at h
      simp only at h ⊢
      by_cases hok : ok = true
      · subst hok
        simp only [↓reduceIte] at h ⊢
        have hl := sendConnection_log cfg s c (by rw [hsc]; exact h)
        rw [hsc] at hl
        rcases hl with ⟨_, hl | hl⟩ | ⟨hf, _⟩
        · obtain ⟨w, hw, hal, hd⟩ := hl
          exact Or.inl ⟨s, w, rfl, hw, hal, hd⟩
        · exact Or.inr hl
        · simp at hf
      · have hok' : ok = false := by simpa using hok
        subst hok'
        simp only [Bool.false_eq_true, ↓reduceIte] at h ⊢
        have h1f : s1.fault = none := by
          cases hf : s1.fault with
          | none => rfl
          | some x =>
            have := forcedSend_fault_of_fault cfg f s1 c (by simp [hf])
            rw [h] at this; simp at this
        have hl := sendConnection_log cfg s c (by rw [hsc]; exact h1f)
        rw [hsc] at hl
        rcases hl with ⟨hf, _⟩ | ⟨_, hd, _, _⟩
        · simp at hf
        · have := ih s1 c h
          unfold PlacedOnce at this ⊢
          simp only at hd
          rw [hd] at this
          exact this

theorem acceptOne_fault_of_fault (cfg : Cfg) : ∀ (fuel : Nat) (s : St) (c : Conn), s.fault.isSome = true →
    (acceptOne cfg fuel s c).fault.isSome = true := by
  intro fuel; cases fuel with
  | zero => intro s c _; rfl
  | succ f => intro s c h; simp only [acceptOne, h, ↓reduceIte]

/-- **accept_one places each connection exactly once** (given that it terminates without a fault) -/
theorem acceptOne_log (cfg : Cfg) : ∀ (fuel : Nat) (s : St) (c : Conn), (acceptOne cfg fuel s c).fault = none →
    PlacedOnce s (acceptOne cfg fuel s c) c := by
  intro fuel
  induction fuel with
  | zero => intro s c h; simp [acceptOne] at h
  | succ f ih =>
    intro s c h
    simp only [acceptOne] at h ⊢
    split at h
    · rename_i hf; rw [h] at hf; simp at hf
    · rename_i hf
      simp only [hf, Bool.false_eq_true, ↓reduceIte] at ⊢
      cases hh : s.handles[s.next]? with
      | none => simp [hh] at h
      | some w =>
        simp only [hh] at h ⊢
        by_cases hav : s.avail (s.wk w).idx = true
        · simp only [hav, ↓reduceIte] at h ⊢
          cases hsc : sendConnection cfg s c with
          | mk s1 ok =>
            rw [hsc] at h
            simp only at h ⊢
            by_cases hok : ok = true
            · subst hok
              simp only [↓reduceIte] at h ⊢
              have hl := sendConnection_log cfg s c (by rw [hsc]; exact h)
              rw [hsc] at hl
              rcases hl with ⟨_, hl | hl⟩ | ⟨hf2, _⟩
              · obtain ⟨w', hw, hal, hd⟩ := hl
                exact Or.inl ⟨s, w', rfl, hw, hal, hd⟩
              · exact Or.inr hl
              · simp at hf2
            · have hok' : ok = false := by simpa using hok
              subst hok'
              simp only [Bool.false_eq_true, ↓reduceIte] at h ⊢
              have h1f : s1.fault = none := by
                cases hf1 : s1.fault with
                | none => rfl
                | some x =>
                  have := acceptOne_fault_of_fault cfg f s1 c (by simp [hf1])
                  rw [h] at this; simp at this
              have hl := sendConnection_log cfg s c (by rw [hsc]; exact h1f)
              rw [hsc] at hl
              rcases hl with ⟨hf2, _⟩ | ⟨_, hd, _, _⟩
              · simp at hf2
              · have := ih s1 c h
                unfold PlacedOnce at this ⊢
                simp only at hd
                rw [hd] at this
                exact this
        · have hav' : s.avail (s.wk w).idx = false := by simpa using hav
          simp only [hav', Bool.false_eq_true, ↓reduceIte] at h ⊢
          have hd : (setNext (setAvail s (s.wk w).idx false)).dispatched = s.dispatched := by
            rw [setNext_dispatched, setAvail_dispatched]
          split at h
          · rename_i hany
            simp only [hany, ↓reduceIte]
            have := forcedSend_log cfg _ _ c h
            unfold PlacedOnce at this ⊢
            rw [hd] at this; exact this
          · rename_i hany
            simp only [hany, ↓reduceIte]
            have := ih _ c h
            unfold PlacedOnce at this ⊢
            rw [hd] at this; exact this


end ActixNet.Srv
