import ActixNet.Model.Utf8
/-!
# Model: `LinesCodec` (actix-codec/src/lines.rs)

Bytes are `Nat` (< 256 by construction in the driver), as in `Model/Utf8.lean`.  `decode`,
`decodeEof` and `encode` are transcriptions of the Rust functions: the `BytesMut` argument is the
input list and the second component of the result is the buffer the Rust code leaves behind.
`String::from_utf8(..).is_ok()` is `Utf8.valid` (compared with the real function by engine `bs`).
-/
namespace ActixNet.Lines
open ActixNet.Utf8

abbrev Bytes := List Nat

def LF : Nat := 10
def CR : Nat := 13

/-- `Result<Option<String>, io::Error>`: `Ok(None)`, `Ok(Some(s))`, `Err(InvalidData)` -/
inductive Res where
  | none
  | ok (s : Bytes)
  | err
deriving Repr, DecidableEq, BEq

/-- `memchr(b'\n', src)`: index of the first LF -/
def findLf : Bytes → Option Nat
  | [] => none
  | b :: t => if b = LF then some 0 else (findLf t).map (· + 1)

/-- `try_into_utf8`: `String::from_utf8(buf.to_vec())`, error mapped to `InvalidData` -/
def tryUtf8 (buf : Bytes) : Res := if valid buf then .ok buf else .err

/-- `LinesCodec::decode` (lines.rs:33–63): result and the `src` that is left -/
def decode (src : Bytes) : Res × Bytes :=
  if src.isEmpty then (.none, src) else
  match findLf src with
  | none => (.none, src)
  | some len =>
    -- `let mut buf = src.split_to(len); src.advance(1);`
    let buf := src.take len
    let src' := (src.drop len).drop 1
    match buf.getLast? with
    | some 13 => (tryUtf8 (buf.take (len - 1)), src')   -- `buf.truncate(len - 1)`
    | none => (.ok [], src')                             -- line is empty
    | some _ => (tryUtf8 buf, src')

/-- `LinesCodec::decode_eof` (lines.rs:65–86) -/
def decodeEof (src : Bytes) : Res × Bytes :=
  match decode src with
  | (.err, src') => (.err, src')                          -- `self.decode(src)?`
  | (.ok frame, src') => (.ok frame, src')
  | (.none, src') =>
    if src'.isEmpty then (.none, src') else
    -- `Some(b'\r') => src.split_to(src.len() - 1)`, `_ => src.split()`
    let (buf, src'') := match src'.getLast? with
      | some 13 => (src'.take (src'.length - 1), src'.drop (src'.length - 1))
      | _ => (src', [])
    if buf.isEmpty then (.none, src'') else (tryUtf8 buf, src'')

/-- `LinesCodec::encode` (lines.rs:16–27): `dst.put_slice(item); dst.put_u8(b'\n')` -/
def encode (item : Bytes) (dst : Bytes) : Bytes := dst ++ item ++ [LF]

/-- call `decode` until it answers `Ok(None)`; collects `Ok(Some)`/`Err` results in order -/
def decodeLoop : Nat → Bytes → List Res × Bytes
  | 0, src => ([], src)
  | fuel + 1, src =>
    match decode src with
    | (.none, src') => ([], src')
    | (r, src') => let (rs, rest) := decodeLoop fuel src'; (r :: rs, rest)

/-- call `decode_eof` until it answers `Ok(None)` -/
def eofLoop : Nat → Bytes → List Res × Bytes
  | 0, src => ([], src)
  | fuel + 1, src =>
    match decodeEof src with
    | (.none, src') => ([], src')
    | (r, src') => let (rs, rest) := eofLoop fuel src'; (r :: rs, rest)

/-- what a consumer sees for the whole stream `s`: every result of `decode` until `None`, then
every result of `decode_eof` until `None` (this is what `Framed` does at end of stream).  The fuel
is never exhausted: every `Some`/`Err` consumes at least one byte. -/
def decodeAll (s : Bytes) : List Res :=
  let (xs, rest) := decodeLoop (s.length + 1) s
  xs ++ (eofLoop (rest.length + 2) rest).1

/-- ONE codec instance whose buffer grows in pieces (what `Framed` does between reads): after every
piece `decode` until `None`; results in order and the buffer that is left -/
def chunked : Bytes → List Bytes → List Res × Bytes
  | buf, [] => ([], buf)
  | buf, p :: ps =>
    let r := decodeLoop ((buf ++ p).length + 1) (buf ++ p)
    let r' := chunked r.2 ps
    (r.1 ++ r'.1, r'.2)

/-- … and at end of stream `decode_eof` until `None` -/
def chunkedAll (pieces : List Bytes) : List Res :=
  (chunked [] pieces).1 ++ (eofLoop ((chunked [] pieces).2.length + 2) (chunked [] pieces).2).1

/-- `decode_eof` until `None` directly on a buffer that may still hold complete lines (`decode` was
not called on it first) -/
def eofAll (s : Bytes) : List Res := (eofLoop (s.length + 2) s).1

/-- pieces as before, but the last piece is appended without a `decode` in between: `decode_eof`
meets the complete lines of the last piece itself -/
def chunkedEof (pieces : List Bytes) : List Res :=
  (chunked [] pieces.dropLast).1 ++ eofAll ((chunked [] pieces.dropLast).2 ++ pieces.getLastD [])

/-! ## Independent reference: split, strip, validate -/

/-- split at every LF (`n` LFs give `n + 1` segments, the last one is the unterminated tail) -/
def splitOnLf : Bytes → List Bytes
  | [] => [[]]
  | b :: t =>
    if b = LF then [] :: splitOnLf t
    else match splitOnLf t with
      | seg :: r => (b :: seg) :: r
      | [] => [[b]]

/-- strip exactly one trailing CR -/
def stripCr (l : Bytes) : Bytes := if l.getLast? = some CR then l.dropLast else l

def piece (l : Bytes) : Res := if valid l then .ok l else .err

/-- the specification: every LF-terminated segment is a line (one trailing CR stripped, validated);
the final unterminated segment, after stripping one trailing CR, is yielded iff it is non-empty -/
def splitSpec (s : Bytes) : List Res :=
  let segs := splitOnLf s
  (segs.dropLast.map fun l => piece (stripCr l)) ++
    (if stripCr (segs.getLastD []) = [] then [] else [piece (stripCr (segs.getLastD []))])

end ActixNet.Lines
