import ActixNet.Lemmas.Tls
/-!
# C18 — TLS acceptors bound handshake time and concurrency

Property theorems only.  `pollFut` is `AcceptFut::poll` (rustls 0.23 and OpenSSL acceptors have the
same shape), `Svc` the per-thread gate built on the regenerated `Counter` kernels.  The handshake is
an arbitrary function of time (`hs : Nat → HsPoll`) resp. an arbitrary answer per poll: the theorems
hold whatever the TLS library does.  What the library does, and that bytes pass the accepted stream
unchanged, is exercised by the correspondence run and **not proved** (see `partial` in
`props/C18.json`).  The two defaults are the T1-extracted constants.
-/
namespace ActixNet.C18
open ActixNet.Tls

/-! ### Handshake time is bounded by the timeout -/

/-- If the accept future is polled whenever it is woken — in particular at its deadline `T`, when the
timer wakes it — then it resolves, no later than `T`; every earlier poll found the handshake pending;
it answers `Timeout` only at `T` and only if the handshake was still pending then; and whenever the
handshake is ready at the resolving poll (also at `T` itself) the handshake's result is returned. -/
theorem resolves_by_deadline (T : Nat) (hs : Nat → HsPoll) (times : List Nat)
    (hsorted : times.Pairwise (· ≤ ·)) (hT : T ∈ times) :
    ∃ o t, drive T hs times = some (o, t) ∧ t ∈ times ∧ t ≤ T ∧
      (∀ t' ∈ times, t' < t → hs t' = .pending) ∧
      (o = .timeout ↔ (t = T ∧ hs T = .pending)) ∧
      (o = .ok ↔ hs t = .ok) ∧ (o = .tlsErr ↔ hs t = .err) := by
  cases hd : drive T hs times with
  | none => exact absurd (drive_none T hs times hd T hT) (pollFut_at_deadline_ne_none T (hs T))
  | some p =>
    obtain ⟨o, t⟩ := p
    obtain ⟨hmem, hpoll, hbefore⟩ := drive_some T hs times hsorted o t hd
    have hle : t ≤ T := by
      rcases Nat.lt_or_ge T t with hlt | hge
      · exact absurd (hbefore T hT hlt) (pollFut_at_deadline_ne_none T (hs T))
      · exact hge
    refine ⟨o, t, rfl, hmem, hle, ?_, ?_, ?_, ?_⟩
    · intro t' ht' hlt
      have := hbefore t' ht' hlt
      cases h : hs t' <;> simp [pollFut, h] at this
      rfl
    · cases h : hs t <;> simp [pollFut, h] at hpoll
      · obtain ⟨hTt, ho⟩ := hpoll
        have : t = T := by omega
        subst this; subst ho; simp [h]
      · subst hpoll; simp; intro ht; subst ht; simp [h]
      · subst hpoll; simp; intro ht; subst ht; simp [h]
    · cases h : hs t <;> simp [pollFut, h] at hpoll
      · obtain ⟨_, ho⟩ := hpoll; subst ho; simp
      · subst hpoll; simp
      · subst hpoll; simp
    · cases h : hs t <;> simp [pollFut, h] at hpoll
      · obtain ⟨_, ho⟩ := hpoll; subst ho; simp
      · subst hpoll; simp
      · subst hpoll; simp

/-- a poll before the deadline never answers `Timeout`, and a poll at or after the deadline never
stays pending -/
theorem poll_timeout_iff (T now : Nat) (h : HsPoll) :
    (pollFut T now h = some .timeout ↔ (h = .pending ∧ T ≤ now)) ∧
    (pollFut T now h = none ↔ (h = .pending ∧ now < T)) := by
  cases h <;> simp [pollFut] <;> omega

/-- The accept future may be polled by different tasks in turn (distinct wakers).  With a client that
stalls: whatever polls came before, once task `b` has polled it (pending, before the deadline) the
timeout wakes `b` — the task that polled LAST — and nobody else, and `b`'s next poll answers `Timeout`. -/
theorem timeout_wakes_last_poller (f : FutW) (polls : List (Nat × Nat)) (b tb old new : Nat)
    (htb : tb < f.deadline) (hold : old < f.deadline) (hnew : f.deadline ≤ new) :
    let f1 := polls.foldl (fun g p => (g.poll p.1 p.2 .pending).1) f
    let f2 := (f1.poll b tb .pending).1
    f2.lastW = some b ∧ (f2.tick old new).wokenW b = true ∧
    (∀ a, a ≠ b → (f2.tick old new).wokenW a = f2.wokenW a) ∧
    ((f2.tick old new).poll b new .pending).2 = some .timeout := by
  intro f1 f2
  have hd1 : f1.deadline = f.deadline := FutW.polls_deadline polls f
  have hp : pollFut f1.deadline tb .pending = none := by simp [pollFut, hd1]; omega
  have h2 : f2 = { f1 with lastW := some b, wokenW := fun j => if j = b then false else f1.wokenW j } := by
    simp [f2, FutW.poll, hp]
  have hcross : old < f2.deadline ∧ f2.deadline ≤ new := by rw [h2]; simp [hd1]; omega
  refine ⟨by rw [h2], ?_, ?_, ?_⟩
  · simp only [FutW.tick, hcross, and_self, if_true]; rw [h2]; simp
  · intro a ha
    simp only [FutW.tick, hcross, and_self, if_true]; rw [h2]; simp [ha]
  · have hdl : (f2.tick old new).deadline = f2.deadline := FutW.tick_deadline f2 old new
    have : pollFut (f2.tick old new).deadline new .pending = some .timeout := by
      simp [pollFut, hdl]; exact hcross.2
    simp [FutW.poll, this]

/-! ### The concurrency gate -/

/-- Guards live exactly as long as accept futures: after **any** history the counter equals the number
of accept futures created and neither resolved nor dropped; `call` adds one; a pending poll changes
nothing; a resolving poll or a drop of an alive future removes exactly that one. -/
theorem guard_lifetime (cap tmo : Nat) (ops : List Op) :
    let s := (Svc.init cap tmo).run ops
    s.count = s.inProgress ∧
    (∀ now, (s.call now).inProgress = s.inProgress + 1 ∧ (s.call now).futs s.next = .alive (now + s.tmo)) ∧
    (∀ k now hs, (s.pollK k now hs).2 = none → (s.pollK k now hs).1 = s) ∧
    (∀ k d now hs o, s.futs k = .alive d → (s.pollK k now hs).2 = some o →
        (s.pollK k now hs).1.inProgress + 1 = s.inProgress ∧ (s.pollK k now hs).1.futs k = .done) ∧
    (∀ k d, s.futs k = .alive d → (s.dropK k).inProgress + 1 = s.inProgress ∧ (s.dropK k).futs k = .done) := by
  intro s
  have g : Good s := good_run _ (good_init cap tmo) ops
  refine ⟨g.count_eq, ?_, ?_, ?_, ?_⟩
  · intro now
    have g' := good_step s g (.call now)
    have h1 := g'.count_eq
    simp only [Svc.step] at h1
    refine ⟨?_, by simp [Svc.call, Svc.callT]⟩
    have h2 : (s.call now).count = s.count + 1 := by simp [Svc.call, Svc.callT, ucInc_eq]
    have := g.count_eq
    omega
  · intro k now hs h
    simp only [Svc.pollK] at h ⊢
    split
    · rename_i d hk
      simp only [hk] at h
      split
      · rename_i o ho; simp [ho] at h
      · rfl
    · rfl
  · intro k d now hs o hk ho
    simp only [Svc.pollK, hk] at ho ⊢
    split
    · rename_i o' ho'
      exact ⟨endK_inProgress s g k d hk, by simp⟩
    · rename_i hn; simp [hn] at ho
  · intro k d hk
    simp only [Svc.dropK, hk]
    exact ⟨endK_inProgress s g k d hk, by simp⟩

/-- `poll_ready` is `Pending` exactly while the handshakes in progress have reached the maximum —
for callers that respect the `Service` contract (`call` only after `Ready`), which also keeps the
number of handshakes in progress within the maximum -/
theorem gate (cap tmo : Nat) (ops : List Op) (hr : (Svc.init cap tmo).Respects ops) :
    let s := (Svc.init cap tmo).run ops
    s.inProgress ≤ cap ∧ (s.pollReady.2 = false ↔ s.inProgress = cap) := by
  intro s
  have g : Good s := good_run _ (good_init cap tmo) ops
  have hle : s.count ≤ s.cap := run_count_le (Svc.init cap tmo) ops (by simp [Svc.init]) hr
  have hcap : s.cap = cap := run_cap _ ops
  have hc := g.count_eq
  rw [hcap] at hle
  refine ⟨by omega, ?_⟩
  simp only [Svc.pollReady, Svc.pollReadyW, ucAvail_fst, hcap, decide_eq_false_iff_not]
  omega

/-- without the contract: `Pending` exactly while at least `max` handshakes are in progress -/
theorem gate_general (cap tmo : Nat) (ops : List Op) :
    let s := (Svc.init cap tmo).run ops
    s.pollReady.2 = false ↔ cap ≤ s.inProgress := by
  intro s
  have g : Good s := good_run _ (good_init cap tmo) ops
  have hcap : s.cap = cap := run_cap _ ops
  have hc := g.count_eq
  simp only [Svc.pollReady, Svc.pollReadyW, ucAvail_fst, hcap, decide_eq_false_iff_not]
  omega

/-- No lost wake-up.  After any history: a `Pending` answer leaves the caller's waker registered; while
a waker is registered the gate is closed; and ending a handshake (resolution or drop) that re-opens the
gate wakes the registered task — after which `poll_ready` is `Ready`. -/
theorem gate_wakes (cap tmo : Nat) (ops : List Op) :
    let s := (Svc.init cap tmo).run ops
    (s.pollReady.2 = false → s.pollReady.1.registered = true) ∧
    (s.registered = true → cap ≤ s.inProgress) ∧
    (∀ k d, s.registered = true → s.futs k = .alive d → (s.endK k).inProgress < cap →
        (s.endK k).woken = true ∧ (s.endK k).pollReady.2 = true) := by
  intro s
  have g : Good s := good_run _ (good_init cap tmo) ops
  have hcap : s.cap = cap := run_cap _ ops
  have hc := g.count_eq
  refine ⟨?_, ?_, ?_⟩
  · simp only [Svc.pollReady, Svc.pollReadyW, ucAvail_fst, ucAvail_snd, decide_eq_false_iff_not]
    intro h; simp [h]
  · intro hr; have := g.parked hr; omega
  · intro k d hr hk hlt
    have hip := endK_inProgress s g k d hk
    have hp := g.parked hr
    have heq : s.count = s.cap := by omega
    have g' := endK_good s g k d hk
    constructor
    · simp [Svc.endK, Svc.release, ucDec_snd, heq, hr]
    · have hc' := g'.count_eq
      have hcap' : (s.endK k).cap = cap := by simp [Svc.endK, release_cap, hcap]
      simp only [Svc.pollReady, Svc.pollReadyW, ucAvail_fst, hcap', decide_eq_true_eq]
      omega

/-- Several tasks may ask the services of one thread for readiness (distinct wakers).  The counter's
`LocalWaker` holds the waker of the task most recently answered `Pending` (`register` replaces the
stored one; a `Ready` answer stores nothing), and the release that re-opens the gate wakes exactly that
task: every other task's wake flag is left as it was. -/
theorem gate_wakes_latest (cap tmo : Nat) (ops : List Op) :
    let s := (Svc.init cap tmo).run ops
    (∀ w, (s.pollReadyW w).2 = false → (s.pollReadyW w).1.registered = true ∧ (s.pollReadyW w).1.regW = w) ∧
    (∀ w, (s.pollReadyW w).2 = true → (s.pollReadyW w).1.regW = s.regW) ∧
    (∀ k d, s.registered = true → s.futs k = .alive d → (s.endK k).inProgress < cap →
        (s.endK k).wokenW s.regW = true ∧ ∀ w, w ≠ s.regW → (s.endK k).wokenW w = s.wokenW w) := by
  intro s
  have g : Good s := good_run _ (good_init cap tmo) ops
  have hcap : s.cap = cap := run_cap _ ops
  refine ⟨?_, ?_, ?_⟩
  · intro w h
    simp only [Svc.pollReadyW, ucAvail_fst, ucAvail_snd, decide_eq_false_iff_not] at h ⊢
    simp [h]
  · intro w h
    simp only [Svc.pollReadyW, ucAvail_fst, decide_eq_true_eq] at h ⊢
    simp [h]
  · intro k d hr hk hlt
    have hip := endK_inProgress s g k d hk
    have hp := g.parked hr
    have hc := g.count_eq
    have heq : s.count = s.cap := by omega
    constructor
    · simp [Svc.endK, Svc.release, ucDec_snd, heq, hr]
    · intro w hw
      simp [Svc.endK, Svc.release, ucDec_snd, heq, hr, upd_other _ _ _ _ hw]

/-- Task `a` is answered `Pending`, then task `b` is answered `Pending` in the same not-ready period,
then a handshake ends and re-opens the gate: `b` — the task that asked last — is woken, `a` is not. -/
theorem last_poller_is_woken (cap tmo : Nat) (ops : List Op) (a b k d : Nat) (hab : a ≠ b) :
    let s := (Svc.init cap tmo).run ops
    let s2 := ((s.pollReadyW a).1.pollReadyW b).1
    (s.pollReadyW a).2 = false → s.futs k = .alive d → (s2.endK k).inProgress < cap →
      (s2.endK k).wokenW b = true ∧ (s2.endK k).wokenW a = false := by
  intro s s2 hpa hk hlt
  have hrun : s2 = (Svc.init cap tmo).run (ops ++ [.readyW a, .readyW b]) := by
    simp [s2, s, Svc.run, List.foldl_append, Svc.step]
  have hpa' : ¬ s.count < s.cap := by
    simpa [Svc.pollReadyW, ucAvail_fst] using hpa
  have hreg : s2.registered = true := by
    simp [s2, Svc.pollReadyW, ucAvail_snd, hpa']
  have hregW : s2.regW = b := by
    simp [s2, Svc.pollReadyW, ucAvail_fst, hpa']
  have hk2 : s2.futs k = .alive d := by simpa [s2, Svc.pollReadyW] using hk
  have hwa : s2.wokenW a = false := by
    simp [s2, Svc.pollReadyW, upd_other _ _ _ _ hab]
  have h := (gate_wakes_latest cap tmo (ops ++ [.readyW a, .readyW b])).2.2 k d
  rw [← hrun] at h
  obtain ⟨h1, h2⟩ := h hreg hk2 hlt
  rw [hregW] at h1 h2
  exact ⟨h1, by rw [h2 a hab]; exact hwa⟩

/-- under the contract a parked service task is woken by the **first** handshake that ends -/
theorem gate_wakes_first (cap tmo : Nat) (ops : List Op) (hr : (Svc.init cap tmo).Respects ops) :
    let s := (Svc.init cap tmo).run ops
    ∀ k d, s.registered = true → s.futs k = .alive d →
      (s.endK k).woken = true ∧ (s.endK k).pollReady.2 = true := by
  intro s k d hreg hk
  have g : Good s := good_run _ (good_init cap tmo) ops
  have hle : s.count ≤ s.cap := run_count_le (Svc.init cap tmo) ops (by simp [Svc.init]) hr
  have hcap : s.cap = cap := run_cap _ ops
  have hip := endK_inProgress s g k d hk
  have hp := g.parked hreg
  have hc := g.count_eq
  have hlt : (s.endK k).inProgress < cap := by omega
  exact (gate_wakes cap tmo ops).2.2 k d hreg hk hlt

/-- `pollK` / `dropK` on an alive future are exactly `endK` (used to read `gate_wakes`) -/
theorem end_is_poll_or_drop (s : Svc) (k d : Nat) (hk : s.futs k = .alive d) :
    s.dropK k = s.endK k ∧
    (∀ now hs o, (s.pollK k now hs).2 = some o → (s.pollK k now hs).1 = s.endK k) := by
  refine ⟨by simp [Svc.dropK, hk, Svc.endK], ?_⟩
  intro now hs o ho
  simp only [Svc.pollK, hk] at ho ⊢
  split
  · rfl
  · rename_i hn; simp [hn] at ho

/-! ### Configuration reaches the service whatever the construction path

`Acceptor::new` / `set_handshake_timeout` / `clone` / `ServiceFactory::new_service` (same shape in all six
flavours, `source_shape` below).  A multi-worker server clones the factory for every worker and builds
the service from the clone. -/

/-- `clone` copies the whole configuration, so `new_service` on a clone gives the same service -/
theorem clone_keeps_config (a : Acceptor) : a.clone = a ∧ a.clone.newService = a.newService := by
  cases a; exact ⟨rfl, rfl⟩

/-- configure, clone any number of times (worker copies, combinators owning clones), build the service:
its handshake timeout is the configured one; never configured: the crate default -/
theorem configured_timeout_reaches_service (a : Acceptor) (t n : Nat) :
    (Acceptor.clones n (a.setTimeout t)).newService = t ∧
    (Acceptor.clones n Acceptor.new).newService = Src.tlsDefaultHandshakeTimeoutMs := by
  have h : ∀ b : Acceptor, Acceptor.clones n b = b := by
    induction n with
    | zero => intro b; rfl
    | succ m ih => intro b; simp only [Acceptor.clones]; rw [ih b]; exact (clone_keeps_config b).1
  rw [h, h]; exact ⟨rfl, rfl⟩

/-- `set_handshake_timeout` on one factory changes that factory only: clones made earlier, the original
a clone was made from, and every service already built keep what they had -/
theorem set_timeout_is_local (c : Cfg) (f t : Nat) (hf : f < c.facs.length) :
    ((c.step (.set f t)).facs[f]?).map (·.tmo) = some t ∧
    (∀ g, g ≠ f → (c.step (.set f t)).facs[g]? = c.facs[g]?) ∧
    (c.step (.set f t)).svcs = c.svcs ∧ (c.step (.set f t)).facs.length = c.facs.length := by
  have hs : c.facs[f]? = some c.facs[f] := List.getElem?_eq_getElem hf
  simp only [Cfg.step, hs]
  refine ⟨?_, ?_, ?_, ?_⟩
  · simp [hf, Acceptor.setTimeout]
  · intro g hg
    simp [Ne.symm hg]
  · trivial
  · simp

/-- `clone` adds an equal, independent factory and touches nothing else -/
theorem clone_is_a_copy (c : Cfg) (f : Nat) (a : Acceptor) (h : c.facs[f]? = some a) :
    (c.step (.clone f)).facs = c.facs ++ [a] ∧ (c.step (.clone f)).svcs = c.svcs := by
  simp [Cfg.step, h, (clone_keeps_config a).1]

/-- `new_service` captures the factory's timeout as it is at that moment -/
theorem new_service_captures_timeout (c : Cfg) (f : Nat) (a : Acceptor) (h : c.facs[f]? = some a) :
    (c.step (.svc f)).svcs = c.svcs ++ [a.tmo] ∧ (c.step (.svc f)).facs = c.facs := by
  simp [Cfg.step, h, Acceptor.newService]

/-- whatever is configured later, a service that has been built keeps its timeout -/
theorem built_services_keep_timeout (c : Cfg) (ops : List FOp) :
    ∃ more, (c.run ops).svcs = c.svcs ++ more := by
  induction ops generalizing c with
  | nil => exact ⟨[], by simp [Cfg.run]⟩
  | cons op ops ih =>
    obtain ⟨m, hm⟩ := ih (c.step op)
    have h1 : ∃ m1, (c.step op).svcs = c.svcs ++ m1 := by
      cases op with
      | new => exact ⟨[], by simp [Cfg.step]⟩
      | set f t => simp only [Cfg.step]; split <;> exact ⟨[], by simp⟩
      | clone f => simp only [Cfg.step]; split <;> exact ⟨[], by simp⟩
      | svc f =>
        simp only [Cfg.step]; split
        · exact ⟨[_], rfl⟩
        · exact ⟨[], by simp⟩
    obtain ⟨m1, hm1⟩ := h1
    refine ⟨m1 ++ m, ?_⟩
    simp only [Cfg.run, List.foldl] at hm ⊢
    rw [hm, hm1, List.append_assoc]

/-- End to end: timeout `t` configured, the factory cloned `n` times, the service built from the last
clone, a call at `now` in any state of the thread, a client that stalls for ever, an executor that polls
(at least) when the timer fires: the deadline armed is `now + t` and the call resolves with `Timeout`
exactly then — not at the default's 3 s. -/
theorem cloned_service_deadline (s : Svc) (a : Acceptor) (t n now : Nat) (times : List Nat)
    (hsorted : times.Pairwise (· ≤ ·)) (hT : now + t ∈ times) :
    (s.callT (Acceptor.clones n (a.setTimeout t)).newService now).futs s.next = .alive (now + t) ∧
    drive (now + t) (fun _ => .pending) times = some (.timeout, now + t) := by
  refine ⟨by simp [(configured_timeout_reaches_service a t n).1, Svc.callT], ?_⟩
  obtain ⟨o, t', hd, _, _, _, hto, hok, herr⟩ := resolves_by_deadline (now + t) (fun _ => .pending) times hsorted hT
  cases o with
  | ok => simp at hok
  | tlsErr => simp at herr
  | timeout =>
    have := hto.mp rfl
    rw [hd, this.1]

/-- T1: the configuration surface of **all six** acceptor flavours (also those the harness does not
compile: rustls 0.20–0.22, native-tls) has the shape the `Acceptor` model is written from — `new` starts
from the default, `set_handshake_timeout` assigns, the hand-written `Clone` copies the timeout,
`new_service` hands the factory's timeout and a clone of the thread's `MAX_CONN_COUNTER` handle to the
service, whose `poll_ready` / `call` gate on that counter and arm that timeout; `LocalWaker::register`
replaces the stored waker; `MAX_CONN` is one process-wide atomic that `max_concurrent_tls_connect` stores into and
the thread-local counter is built from.  Regenerated from the
source text by every check run (`tools/spans/tls.py`). -/
theorem source_shape :
    (Src.tlsAcceptShapeRustls020 ++ Src.tlsAcceptShapeRustls021 ++ Src.tlsAcceptShapeRustls022 ++
      Src.tlsAcceptShapeRustls023 ++ Src.tlsAcceptShapeOpenssl ++ Src.tlsAcceptShapeNativeTls ++
      Src.localWakerShape ++ Src.tlsMaxConnShape).all (·.2) = true ∧
    (Src.tlsAcceptShapeOpenssl.map (·.1)).contains "clone_copies_timeout" = true := by decide

/-! ### The limit is process-wide, the counter per thread -/

/-- A limit configured on one thread (start-up code on the main thread) is the limit of every thread
whose counter is created afterwards: after **any** history on such a thread its services answer
`Pending` exactly while at least `n` handshakes are in progress there.  Never configured: 256. -/
theorem limit_reaches_new_threads (p : Proc) (n tmo : Nat) (ops : List Op) :
    ((p.setMax n).newThread tmo).cap = n ∧
    ((((p.setMax n).newThread tmo).run ops).pollReady.2 = false ↔ n ≤ (((p.setMax n).newThread tmo).run ops).inProgress) ∧
    (({} : Proc).newThread tmo).cap = Src.tlsDefaultMaxConn :=
  ⟨rfl, gate_general n tmo ops, rfl⟩

/-- … and conversely a thread whose counter exists keeps the capacity it was created with, whatever is
configured later (`max_concurrent_tls_connect` does not reach existing counters) -/
theorem limit_fixed_once_counter_exists (p : Proc) (tmo m : Nat) (ops : List Op) :
    ((p.newThread tmo).run ops).cap = p.maxConn ∧
    (((p.setMax m).newThread tmo).cap = m) := ⟨run_cap _ ops, rfl⟩

/-! ### The defaults (T1: regenerated from accept/mod.rs) -/

/-- default handshake timeout 3 s, default limit 256 handshakes per thread -/
theorem defaults : Src.tlsDefaultHandshakeTimeoutMs = 3000 ∧ Src.tlsDefaultMaxConn = 256 := by decide

/-! ### Non-vacuity -/

/-- handshake pending until 40 ms, complete from then on; polls at 0, 10, 40, 100 (deadline 100) -/
example : drive 100 (fun t => if t < 40 then .pending else .ok) [0, 10, 40, 100] = some (.ok, 40) := by decide
/-- a client that stalls: `Timeout` exactly at the deadline -/
example : drive 100 (fun _ => .pending) [0, 10, 40, 100, 130] = some (.timeout, 100) := by decide
/-- the handshake completes at the very instant the timer fires: the handshake wins -/
example : drive 100 (fun t => if t < 100 then .pending else .ok) [0, 100] = some (.ok, 100) := by decide
/-- garbage at 20 ms -/
example : drive 100 (fun t => if t < 20 then .pending else .err) [0, 20, 100] = some (.tlsErr, 20) := by decide
example : [0, 10, 40, 100].Pairwise (· ≤ ·) ∧ 100 ∈ [0, 10, 40, 100] := by decide

private def hist : List Op := [.ready, .call 0, .ready, .call 5, .ready, .poll 0 7 .pending, .poll 1 9 .ok, .ready]
example : (Svc.init 2 100).Respects hist := by decide
example : ((Svc.init 2 100).run (hist.take 5)).registered = true ∧ ((Svc.init 2 100).run (hist.take 5)).inProgress = 2 := by decide
example : ((Svc.init 2 100).run (hist.take 7)).woken = true ∧ ((Svc.init 2 100).run hist).inProgress = 1 := by decide
example : ((Svc.init 2 100).run (hist.take 5)).futs 1 = .alive 105 := by decide
/-- two services on one thread (timeouts 100 and 700 ms) share the counter: one call each fills max 2 -/
example : ((Svc.init 2 100).run [.ready, .call 0, .ready, .callT 700 3, .ready]).registered = true ∧
    ((Svc.init 2 100).run [.call 0, .callT 700 3]).futs 1 = .alive 703 := by decide
example : (Svc.init 2 100).Respects [.ready, .call 0, .ready, .callT 700 3, .ready, .poll 1 9 .ok, .ready, .callT 50 10] := by decide
/-- configure 200 ms, clone for a worker, re-configure the original: the worker's service keeps 200 ms -/
example : ((Cfg.run {} [.new, .set 0 200, .clone 0, .set 0 900, .svc 1, .svc 0, .new, .svc 2]).svcs) = [200, 900, 3000] := by decide
example : drive (40 + 200) (fun _ => .pending) [40, 100, 240, 3040] = some (.timeout, 240) := by decide
/-- tasks 1 and 2 are both answered `Pending` at the limit; the handshake that ends wakes task 2 only -/
example : ((Svc.init 1 100).run [.readyW 1, .call 0, .readyW 1, .readyW 2, .drop 0]).wokenW 2 = true ∧
    ((Svc.init 1 100).run [.readyW 1, .call 0, .readyW 1, .readyW 2, .drop 0]).wokenW 1 = false ∧
    ((Svc.init 1 100).run [.readyW 1, .call 0, .readyW 1, .readyW 2]).regW = 2 := by decide
/-- polled by task 0 at 10 ms, by task 1 at 20 ms; the 100 ms deadline wakes task 1 only -/
example : ((((({ deadline := 100 } : FutW).poll 0 10 .pending).1.poll 1 20 .pending).1.tick 99 100).wokenW 1 = true) ∧
    ((((({ deadline := 100 } : FutW).poll 0 10 .pending).1.poll 1 20 .pending).1.tick 99 100).wokenW 0 = false) := by decide
/-- a contract-violating history (three calls with max 2): `gate_general`, `guard_lifetime` still apply -/
example : ((Svc.init 2 100).run [.call 0, .call 0, .call 0, .ready]).inProgress = 3 := by decide

end ActixNet.C18
