#!/bin/sh
# MANIFEST.setup_cmd: build the framework offline from files on disk only.
set -e
cd "$(dirname "$0")/.."
export CARGO_NET_OFFLINE=true
mkdir -p .build evidence replays
python3 tools/extract.py --repo "${VERIF_REPO:-/repo}" --out lean/ActixNet/Generated/Src.lean >/dev/null
# warm the caches; every check rebuilds exactly what it needs and is the judge of what fails, so a model or
# harness that does not build against this tree must not stop the set-up of the others
(cd lean && lake build) || echo "setup: lake build reported failures (left to the checks)"
cp -f "${VERIF_REPO:-/repo}/Cargo.lock" harness/Cargo.lock
(cd harness && RUSTFLAGS="--cfg actix_net_verif" CARGO_TARGET_DIR="$PWD/../.build/target" cargo build --offline --bins) || echo "setup: cargo build reported failures (left to the checks)"
# the second build (no debug assertions, no overflow checks) used by the `ndebug` runs of the quick tier
(cd harness && RUSTFLAGS="--cfg actix_net_verif -C debug-assertions=off -C overflow-checks=off" CARGO_TARGET_DIR="$PWD/../.build/target-ndebug" cargo build --offline --bin bs --bin codec --bin rt --bin srv --bin worker) || echo "setup: cargo build (ndebug) reported failures (left to the checks)"
echo setup-ok
