import ActixNet.Lemmas.SrvFuel
import ActixNet.Lemmas.SrvCursor
/-!
One iteration of the accept loop that sees the waker event handles EVERY interest of the waker queue.

Inside an iteration the accept thread itself only *pops* the waker queue (`handle_waker`); pushes come
from other threads (`EnvAct.push / finishNow / cmd / restart`), which in the model run at the yield
points, from the schedule.  So with an empty schedule (`sched = []`: nothing is pushed while the
iteration runs)

* `Still` — every function of the program other than `handle_waker` leaves the schedule empty and the
  queue as it was (one lemma per function, composed through `accept` / `accept_all`);
* `handleWaker_drains` — `handle_waker` returns only with the queue empty, or having processed `Stop`
  (`exit`), or in a sticky fault;
* `pollEvents_drains` / `poll_drains` — the batch: listener events before the waker event leave the queue
  alone, the waker event drains it, the events after it keep it empty.

Stickiness of faults is taken from `SrvCursor` (`CurR`), the frame lemmas `*_fv` from `SrvFuel`.
-/
namespace ActixNet.Srv
open ActixNet

/-- from an empty schedule: the schedule stays empty and the waker queue is untouched -/
def Still (s s' : St) : Prop := s.sched = [] → s'.sched = [] ∧ s'.wq = s.wq

theorem Still.refl (s : St) : Still s s := fun h => ⟨h, rfl⟩
theorem Still.trans {a b c : St} (h1 : Still a b) (h2 : Still b c) : Still a c := fun h =>
  ⟨(h2 (h1 h).1).1, (h2 (h1 h).1).2.trans (h1 h).2⟩
theorem FvEq.still {s s' : St} (h : FvEq s s') : Still s s' := fun hs => ⟨h.2.2.trans hs, h.2.1⟩
/-- neither `sched` nor `wq` is written -/
theorem Still.of_eq {s s' : St} (h1 : s'.sched = s.sched) (h2 : s'.wq = s.wq) : Still s s' :=
  fun hs => ⟨h1.trans hs, h2⟩

/-- a yield point with nothing scheduled: only the yield counter moves -/
theorem yieldPt_still (cfg : Cfg) (s : St) : Still s (yieldPt cfg s) := by
  intro hs; unfold yieldPt; split
  · exact ⟨hs, rfl⟩
  · rename_i h; rw [hs] at h; cases h

theorem sendPrim_still (s : St) (w : Nat) (c : Conn) : Still s (sendPrim s w c) := Still.of_eq rfl rfl

theorem sendConnection_still (cfg : Cfg) (s : St) (c : Conn) : Still s (sendConnection cfg s c).1 := by
  unfold sendConnection
  split
  · exact Still.refl s
  · split
    · exact Still.of_eq rfl rfl
    · rename_i w _
      split
      · exact (sendPrim_still s w c).trans ((yieldPt_still cfg _).trans
          ((incPrim_fv cfg _ w _).still.trans (setNext_fv _).still))
      · exact (sendFail_fv s w c).still

theorem forcedSend_still (cfg : Cfg) : ∀ (fuel : Nat) (s : St) (c : Conn), Still s (forcedSend cfg fuel s c) := by
  intro fuel; induction fuel with
  | zero => intro s c; exact Still.of_eq rfl rfl
  | succ f ih =>
    intro s c
    simp only [forcedSend]
    have hm := sendConnection_still cfg s c
    cases hsc : sendConnection cfg s c with
    | mk s1 ok =>
      rw [hsc] at hm; simp only at hm ⊢
      split
      · exact hm
      · exact hm.trans (ih s1 c)

theorem acceptOne_still (cfg : Cfg) : ∀ (fuel : Nat) (s : St) (c : Conn), Still s (acceptOne cfg fuel s c) := by
  intro fuel; induction fuel with
  | zero => intro s c; exact Still.of_eq rfl rfl
  | succ f ih =>
    intro s c
    simp only [acceptOne]
    split
    · exact Still.refl s
    · split
      · exact Still.of_eq rfl rfl
      · rename_i w _
        split
        · have hm := sendConnection_still cfg s c
          cases hsc : sendConnection cfg s c with
          | mk s1 ok =>
            rw [hsc] at hm; simp only at hm ⊢
            split
            · exact hm
            · exact hm.trans (ih s1 c)
        · have hl : Still s (setNext (setAvail s (s.wk w).idx false)) :=
            (setAvail_fv s _ false).still.trans (setNext_fv _).still
          split
          · exact hl.trans (forcedSend_still cfg _ _ c)
          · exact hl.trans (ih _ c)

/-- `accept()` takes from the listener's backlog / injected errors only -/
theorem acceptSys_still (s : St) (l : Nat) : Still s (acceptSys s l).1 := by
  unfold acceptSys; simp only
  repeat' split
  all_goals exact Still.of_eq rfl rfl

theorem accept_still (cfg : Cfg) : ∀ (fuel : Nat) (s : St) (l : Nat), Still s (accept cfg fuel s l) := by
  intro fuel; induction fuel with
  | zero => intro s l; exact Still.of_eq rfl rfl
  | succ f ih =>
    intro s l
    simp only [accept]
    split
    · exact Still.refl s
    · split
      · exact Still.refl s
      · have h0 := yieldPt_still cfg s
        have h1 := acceptSys_still (yieldPt cfg s) l
        cases hsys : acceptSys (yieldPt cfg s) l with
        | mk s1 r =>
          rw [hsys] at h1; simp only at h1
          have h01 : Still s s1 := h0.trans h1
          cases r with
          | conn c => exact h01.trans ((acceptOne_still cfg _ s1 c).trans (ih _ l))
          | wouldBlock => exact h01
          | connErr => exact h01.trans (ih s1 l)
          | otherErr => exact h01.trans (backoff_fv s1 l _ _).still

theorem acceptAllFrom_still (cfg : Cfg) : ∀ (ls : List Nat) (s : St), Still s (acceptAllFrom cfg s ls) := by
  intro ls; induction ls with
  | nil => intro s; exact Still.refl s
  | cons l ls ih => intro s; simp only [acceptAllFrom]; exact (accept_still cfg _ s l).trans (ih _)

theorem acceptAll_still (cfg : Cfg) (s : St) : Still s (acceptAll cfg s) := acceptAllFrom_still cfg _ s

theorem wakePrim_still (s : St) (idx : Nat) : Still s (wakePrim s idx) := by
  unfold wakePrim; split
  · exact (setAvail_fv s idx true).still
  · exact Still.refl s

theorem addWorker_still (s : St) (w : Nat) : Still s (addWorker s w) :=
  (setAvail_fv s _ true).still.trans (Still.of_eq rfl rfl)

theorem deregisterAll_still (s : St) : Still s (deregisterAll s) := (deregisterAllFrom_fv _ s).still

/-! ### `handle_waker` drains the queue -/

/-- outcome of `handle_waker` / of the event batch, started with the waker queue `q0` and nothing
scheduled: it ended by `Stop` (`exit`), or in a fault, or the queue is empty — and then `q0` held no `Stop` -/
def Drained (q0 : List Interest) (r : St × Bool) : Prop :=
  r.1.sched = [] ∧ (r.2 = true ∨ r.1.fault.isSome = true ∨ (r.1.wq = [] ∧ Interest.stop ∉ q0))

/-- **`handle_waker` goes on until the queue is empty**: with one round of fuel per queued interest (the
model's `wakerFuel` has two more) it does not return with an interest left behind, unless it processed
`Stop` or ended in a fault; a queued `Stop` is always reached. -/
theorem handleWaker_drains (cfg : Cfg) : ∀ (fuel : Nat) (s : St), s.sched = [] → s.wq.length < fuel →
    Drained s.wq (handleWaker cfg fuel s) := by
  intro fuel; induction fuel with
  | zero => intro s _ h; exact absurd h (Nat.not_lt_zero _)
  | succ f ih =>
    intro s hs hf
    simp only [handleWaker]
    split
    · rename_i hfault; exact ⟨hs, .inr (.inl hfault)⟩
    · have h0 := yieldPt_still cfg s hs
      generalize yieldPt cfg s = s0 at h0 ⊢
      obtain ⟨hs0, hw0⟩ := h0
      rw [← hw0] at hf ⊢
      cases hwq : s0.wq with
      | nil => exact ⟨hs0, .inr (.inr ⟨hwq, List.not_mem_nil⟩)⟩
      | cons i q =>
        simp only
        have hlen : q.length < f := by rw [hwq] at hf; simp only [List.length_cons] at hf; omega
        have hq : i ≠ .stop → ∀ s3, Still { s0 with wq := q } s3 → Drained (i :: q) (handleWaker cfg f s3) := by
          intro hi s3 h3
          obtain ⟨a, b⟩ := h3 hs0
          have hb : s3.wq = q := b
          obtain ⟨r1, r2⟩ := ih s3 a (by rw [hb]; exact hlen)
          refine ⟨r1, ?_⟩
          rcases r2 with r2 | r2 | ⟨r2, r3⟩
          · exact .inl r2
          · exact .inr (.inl r2)
          · refine .inr (.inr ⟨r2, ?_⟩)
            rw [hb] at r3
            intro hm; rcases List.mem_cons.mp hm with h | h
            · exact hi h.symm
            · exact r3 h
        cases i with
        | workerAvail idx =>
          simp only; split
          · exact hq (by simp) _ ((wakePrim_still _ idx).trans (acceptAll_still cfg _))
          · exact hq (by simp) _ (wakePrim_still _ idx)
        | worker w =>
          simp only; split
          · exact hq (by simp) _ ((addWorker_still _ w).trans (acceptAll_still cfg _))
          · exact hq (by simp) _ (addWorker_still _ w)
        | pause =>
          simp only; split
          · exact hq (by simp) _ (Still.trans (b := { s0 with wq := q, paused := true }) (Still.of_eq rfl rfl)
              (deregisterAll_still _))
          · exact hq (by simp) _ (Still.refl _)
        | resume =>
          simp only; split
          · exact hq (by simp) _ (Still.trans (b := { s0 with wq := q, paused := false }) (Still.of_eq rfl rfl)
              ((registerAllFrom_fv _ _).still.trans (acceptAll_still cfg _)))
          · exact hq (by simp) _ (Still.refl _)
        | stop =>
          simp only
          refine ⟨?_, .inl rfl⟩
          split
          · exact (((deregisterAll_still { s0 with wq := q }).trans (cleanupAll_fv _).still) hs0).1
          · exact ((cleanupAll_fv { s0 with wq := q }).still hs0).1

/-! ### the event batch and one iteration -/

theorem wakerFuel_enough (s : St) : s.wq.length < wakerFuel s := by
  unfold wakerFuel; omega

/-- the batch: listener events before the waker event leave the queue alone, the waker event drains it,
whatever comes after keeps it empty (a second waker event finds nothing) -/
theorem pollEvents_drains (cfg : Cfg) : ∀ (order : List Ev) (s : St), s.sched = [] →
    (Ev.waker ∈ order ∨ s.fault.isSome = true ∨ s.wq = []) → Drained s.wq (pollEvents cfg s order) := by
  intro order; induction order with
  | nil =>
    intro s hs h
    rcases h with h | h | h
    · cases h
    · exact ⟨hs, .inr (.inl h)⟩
    · exact ⟨hs, .inr (.inr ⟨h, by rw [h]; exact List.not_mem_nil⟩)⟩
  | cons e es ih =>
    intro s hs h
    simp only [pollEvents]
    cases e with
    | waker =>
      simp only
      have hw := handleWaker_drains cfg (wakerFuel s) s hs (wakerFuel_enough s)
      cases hhw : handleWaker cfg (wakerFuel s) s with
      | mk s1 ex =>
        rw [hhw] at hw; simp only at hw ⊢
        cases ex with
        | true => simp only [↓reduceIte]; exact hw
        | false =>
          simp only [Bool.false_eq_true, ↓reduceIte]
          obtain ⟨hs1, hd⟩ := hw
          simp only at hs1 hd
          have hd' : s1.fault.isSome = true ∨ (s1.wq = [] ∧ Interest.stop ∉ s.wq) := by
            rcases hd with hd | hd | hd
            · cases hd
            · exact .inl hd
            · exact .inr hd
          have hst := (pollEvents_curR cfg es s1).2.2.1
          rcases hd' with hf | ⟨hq, hns⟩
          · exact ⟨(ih s1 hs1 (.inr (.inl hf))).1, .inr (.inl (hst hf))⟩
          · obtain ⟨r1, r2⟩ := ih s1 hs1 (.inr (.inr hq))
            refine ⟨r1, ?_⟩
            rcases r2 with r2 | r2 | ⟨r2, _⟩
            · exact .inl r2
            · exact .inr (.inl r2)
            · exact .inr (.inr ⟨r2, hns⟩)
    | listener l =>
      simp only
      obtain ⟨hs2, hq2⟩ := accept_still cfg (acceptFuel s l) s l hs
      have hst := (accept_curR cfg (acceptFuel s l) s l).2.2.1
      have h2 : Ev.waker ∈ es ∨ (accept cfg (acceptFuel s l) s l).fault.isSome = true ∨
          (accept cfg (acceptFuel s l) s l).wq = [] := by
        rcases h with h | h | h
        · rcases List.mem_cons.mp h with h | h
          · cases h
          · exact .inl h
        · exact .inr (.inl (hst h))
        · exact .inr (.inr (hq2.trans h))
      have := ih _ hs2 h2
      rw [hq2] at this
      exact this

theorem processTimeoutFrom_wq (now : Nat) : ∀ (ls : List Nat) (s : St), (processTimeoutFrom s now ls).wq = s.wq := by
  intro ls; induction ls with
  | nil => intro s; rfl
  | cons l ls ih =>
    intro s; simp only [processTimeoutFrom]
    split
    · exact ih s
    · rw [ih]
      split
      · exact (setTimeout_fv _ _).2.1
      · split
        · exact (register_fv _ l).2.1
        · rfl

theorem processTimeout_wq (s : St) : (processTimeout s).wq = s.wq := by
  unfold processTimeout; split
  · rfl
  · exact processTimeoutFrom_wq _ _ _

/-- **One iteration drains the waker queue.**  An iteration whose batch contains the waker event and
during which no other thread pushes (`sched = []`) ends with `exited` (it processed `Stop`), or in a
fault, or with the waker queue empty — and in the last case no `Stop` was queued. -/
theorem poll_drains (cfg : Cfg) (s : St) (order : List Ev) (hw : Ev.waker ∈ order) :
    (poll cfg s order []).exited = true ∨ (poll cfg s order []).fault.isSome = true ∨
      ((poll cfg s order []).wq = [] ∧ Interest.stop ∉ s.wq) := by
  unfold poll; split
  · rename_i h
    rcases Bool.or_eq_true _ _ |>.mp h with h | h
    · exact .inl h
    · exact .inr (.inl h)
  · have hd := pollEvents_drains cfg order (clearEdges { s with sched := [], yields := 0 }) rfl (.inl hw)
    generalize pollEvents cfg (clearEdges { s with sched := [], yields := 0 }) order = r at hd
    obtain ⟨_, hd⟩ := hd
    have hq0 : (clearEdges { s with sched := [], yields := 0 }).wq = s.wq := rfl
    rw [hq0] at hd
    unfold pollFinish; split
    · exact .inl rfl
    · rename_i hex
      rcases hd with hd | hd | ⟨hd, hns⟩
      · exact absurd hd hex
      · exact .inr (.inl ((processTimeout_keep r.1).2.2.2 hd))
      · exact .inr (.inr ⟨(processTimeout_wq r.1).trans hd, hns⟩)

/-- the iteration as the last operation of a history: its outcome is a reachable state, hence fault-free -/
theorem poll_reachable_fault_none {cfg : Cfg} (ok : CfgOk cfg) (kinds : List Kind) (ops : List Op) (order : List Ev)
    (sched : List (List EnvAct)) : (poll cfg (run cfg (init cfg kinds) ops) order sched).fault = none := by
  have h := run_fault_none ok kinds (ops ++ [.poll order sched])
  rw [run_cat] at h; exact h

/-- reachable form of `poll_drains`: no fault case left -/
theorem poll_drains_reachable {cfg : Cfg} (ok : CfgOk cfg) (kinds : List Kind) (ops : List Op) (order : List Ev)
    (hw : Ev.waker ∈ order) :
    (poll cfg (run cfg (init cfg kinds) ops) order []).exited = true ∨
      ((poll cfg (run cfg (init cfg kinds) ops) order []).wq = [] ∧ Interest.stop ∉ (run cfg (init cfg kinds) ops).wq) := by
  have hnf := poll_reachable_fault_none ok kinds ops order []
  rcases poll_drains cfg (run cfg (init cfg kinds) ops) order hw with h | h | h
  · exact .inl h
  · rw [hnf] at h; cases h
  · exact .inr h

end ActixNet.Srv
