import ActixNet.Model.Service
import Driver.Util
/-!
Engine `svc` (C11, C12): line protocol for the service-combinator model.

```
case <name>            -> ok            (no current service, waker counter 0)
svc <S>                -> ok            (S becomes the current service)
fac <F> <cfg>          -> [events] r=ok|err:E|stuck k=N | [events] r=panic
                                        (new_service(cfg) driven to completion;
                                         on ok the built service becomes the current service)
ready                  -> [events] r=pending|ok|err:E k=N   (one poll_ready, fresh waker)
facd <k> <F> <cfg>     -> as `fac`      (the factory value is dropped after k Pending polls of the init
                                         future, k = 0: before its first poll; same function as `fac`)
calld <k> <req>        -> as `call`     (the service value is dropped after k Pending polls of the call
                                         future; same answer as `call`, afterwards there is no current service)
call2 fwd|rev|drop <r1> <r2> -> [events] r=<res1>,<res2> k=N   (call(r1), call(r2) now — the first stage
                                         of each is invoked at call time, in call order — then the two
                                         futures are driven in call order / the second first / the
                                         first is dropped without being polled: `dropped,<res2>`)
reset <id> <rp> ok|err -> ok            (leaf <id> of the current service starts a new readiness round:
                                         Pending^rp, then Ready(Ok)|Ready(Err) for ever)
call <req>             -> [events] r=ok:V|err:E|stuck k=N | [events] r=panic
                                        (call + drive, fresh waker per poll)
```
`k` is the number of wake-ups the executor receives during the op: the scripted leaves park the waker
they are polled with whenever they answer `Pending` and the executor fires all parked wakers after
every poll, so `k` is the number of inner `Pending` answers (`wakes`).  The real executor re-polls
only after a wake-up for the waker of the latest poll; a Pending poll without one is reported as
`r=stalled` by the harness (the model never stalls: `ActixNet.C12.fac_pending_only_if_inner_pending`).
S and F are s-expressions, see `parseSvc` / `parseFac`.  Numbers have at most 6 digits.
-/
namespace Driver.Svc
open Driver ActixNet.Service

structure State where
  svc : Option Svc := none
  w : Nat := 0

def init : State := {}

def tokenize (s : String) : List String :=
  let rec go : List Char → List Char → List String → List String
    | [], cur, acc => (if cur.isEmpty then acc else String.ofList cur.reverse :: acc).reverse
    | c :: t, cur, acc =>
      let acc' := if cur.isEmpty then acc else String.ofList cur.reverse :: acc
      if c == '(' then go t [] ("(" :: acc')
      else if c == ')' then go t [] (")" :: acc')
      else if c == ' ' || c == '\t' || c == '\r' || c == '\n' then go t [] acc'
      else go t (c :: cur) acc
  go s.toList [] []

def num (s : String) : Option Nat :=
  if s.length = 0 ∨ s.length > 6 then none
  else if s.toList.all (fun c => '0' ≤ c ∧ c ≤ '9') then s.toNat? else none

def okErr : String → Option Bool
  | "ok" => some true
  | "err" => some false
  | _ => none

def akind : String → Option AKind
  | "pre" => some .pre
  | "short" => some .short
  | "post" => some .post
  | _ => none

def wrapKind : String → Option Wrap
  | "boxed" => some .boxed
  | "rcboxed" => some .rcBoxed
  | "rc" => some .rc
  | "refcell" => some .refCell
  | "ref" => some .ref
  | "box" => some .box
  | "refmut" => some .refMut
  | _ => none

partial def parseSvc : List String → Option (Svc × List String)
  | "(" :: "leaf" :: id :: cp :: cok :: rp :: rok :: ")" :: t => do
    some (.leaf (← num id) (← num cp) (← okErr cok) (← num rp) (← okErr rok), t)
  | "(" :: "fn" :: id :: cok :: ")" :: t => do some (.fnSvc (← num id) (← okErr cok), t)
  | "(" :: "map" :: t => do
    let (s, t) ← parseSvc t
    match t with | f :: ")" :: t => some (.map s (← num f), t) | _ => none
  | "(" :: "maperr" :: t => do
    let (s, t) ← parseSvc t
    match t with | f :: ")" :: t => some (.mapErr s (← num f), t) | _ => none
  | "(" :: "then" :: t => do
    let (a, t) ← parseSvc t
    let (b, t) ← parseSvc t
    match t with | ")" :: t => some (.andThen a b, t) | _ => none
  | "(" :: "apply" :: kind :: k :: t => do
    let kind ← akind kind
    let k ← num k
    let (s, t) ← parseSvc t
    match t with | ")" :: t => some (.applyFn s kind k, t) | _ => none
  | "(" :: "mw" :: t => do
    let (s, t) ← parseSvc t
    match t with | k :: ")" :: t => some (.mw s (← num k), t) | _ => none
  | "(" :: "reenter" :: wk :: k :: t => do
    let wk ← wrapKind wk
    let k ← num k
    let (s, t) ← parseSvc t
    match t with | ")" :: t => some (.reenter wk k s, t) | _ => none
  | "(" :: wk :: t => do
    let wk ← wrapKind wk
    let (s, t) ← parseSvc t
    match t with | ")" :: t => some (.wrap wk s, t) | _ => none
  | _ => none

/-- how the `Transform` value is held: by value, in an `Rc`, in an `Arc` (transparent) -/
def ptrKind : String → Option Unit
  | "plain" => some ()
  | "rc" => some ()
  | "arc" => some ()
  | _ => none

partial def parseFac : List String → Option (Fac × List String)
  | "(" :: "fleaf" :: id :: ip :: iok :: uc :: t => do
    let uc ← (match uc with | "cfg" => some true | "nocfg" => some false | _ => none)
    let (s, t) ← parseSvc t
    match t with | ")" :: t => some (.leaf (← num id) (← num ip) (← okErr iok) uc s, t) | _ => none
  | "(" :: "ffn" :: id :: cok :: ")" :: t => do some (.fnSvc (← num id) (← okErr cok), t)
  | "(" :: "fmap" :: t => do
    let (a, t) ← parseFac t
    match t with | f :: ")" :: t => some (.map a (← num f), t) | _ => none
  | "(" :: "fmaperr" :: t => do
    let (a, t) ← parseFac t
    match t with | f :: ")" :: t => some (.mapErr a (← num f), t) | _ => none
  | "(" :: "fmapiniterr" :: t => do
    let (a, t) ← parseFac t
    match t with | f :: ")" :: t => some (.mapInitErr a (← num f), t) | _ => none
  | "(" :: "fthen" :: t => do
    let (a, t) ← parseFac t
    let (b, t) ← parseFac t
    match t with | ")" :: t => some (.andThen a b, t) | _ => none
  | "(" :: "fapply" :: kind :: k :: t => do
    let kind ← akind kind
    let k ← num k
    let (a, t) ← parseFac t
    match t with | ")" :: t => some (.applyFn a kind k, t) | _ => none
  | "(" :: "transform" :: tr :: tp :: tok :: rcf :: t => do
    let _ ← ptrKind rcf
    let (a, t) ← parseFac t
    match t with | ")" :: t => some (.transform (← num tr) (← num tp) (← okErr tok) none a, t) | _ => none
  | "(" :: "transformerr" :: tr :: tp :: tok :: rcf :: m :: t => do
    let _ ← ptrKind rcf
    let (a, t) ← parseFac t
    match t with
    | ")" :: t => some (.transform (← num tr) (← num tp) (← okErr tok) (some (← num m)) a, t)
    | _ => none
  | "(" :: "applycfg" :: t => do
    let (s, t) ← parseSvc t
    match t with
    | f :: ip :: iok :: ")" :: t => some (.applyCfg s (← num f) (← num ip) (← okErr iok), t)
    | _ => none
  | "(" :: "applycfgfac" :: t => do
    let (a, t) ← parseFac t
    match t with
    | f :: ip :: iok :: ")" :: t => some (.applyCfgFac a (← num f) (← num ip) (← okErr iok), t)
    | _ => none
  | "(" :: "mapconfig" :: t => do
    let (a, t) ← parseFac t
    match t with | f :: ")" :: t => some (.mapConfig a (← num f), t) | _ => none
  | "(" :: "unitconfig" :: t => do
    let (a, t) ← parseFac t
    match t with | ")" :: t => some (.unitConfig a, t) | _ => none
  | "(" :: "fboxed" :: t => do
    let (a, t) ← parseFac t
    match t with | ")" :: t => some (.boxed a, t) | _ => none
  | "(" :: "frc" :: t => do
    let (a, t) ← parseFac t
    match t with | ")" :: t => some (.rc a, t) | _ => none
  | "(" :: "farc" :: t => do
    let (a, t) ← parseFac t
    match t with | ")" :: t => some (.rc a, t) | _ => none
  | "(" :: "freenter" :: pk :: k :: t => do
    let _ ← (match pk with | "rc" => some () | "arc" => some () | _ => none)
    let k ← num k
    let (a, t) ← parseFac t
    match t with | ")" :: t => some (.reenter k a, t) | _ => none
  | _ => none

def svcLeafIds : Svc → List Nat
  | .leaf id _ _ _ _ => [id]
  | .fnSvc _ _ => []
  | .map s _ => svcLeafIds s
  | .mapErr s _ => svcLeafIds s
  | .andThen a b => svcLeafIds a ++ svcLeafIds b
  | .applyFn s _ _ => svcLeafIds s
  | .wrap _ s => svcLeafIds s
  | .mw s _ => svcLeafIds s
  | .reenter _ _ s => svcLeafIds s

def facLeafIds : Fac → List Nat
  | .leaf _ _ _ _ s => svcLeafIds s
  | .fnSvc _ _ => []
  | .map a _ => facLeafIds a
  | .mapErr a _ => facLeafIds a
  | .mapInitErr a _ => facLeafIds a
  | .andThen a b => facLeafIds a ++ facLeafIds b
  | .applyFn a _ _ => facLeafIds a
  | .transform _ _ _ _ a => facLeafIds a
  | .applyCfg s _ _ _ => svcLeafIds s
  | .applyCfgFac a _ _ _ => facLeafIds a
  | .mapConfig a _ => facLeafIds a
  | .unitConfig a => facLeafIds a
  | .boxed a => facLeafIds a
  | .rc a => facLeafIds a
  | .reenter _ a => facLeafIds a

def resStr : Res → String
  | .ok v => s!"ok:{v}"
  | .err e => s!"err:{e}"

def rdyStr : Rdy → String
  | .pending => "-"
  | .ok => "ok"
  | .err e => s!"err:{e}"

def evtStr : Evt → String
  | .called id req => s!"c{id}:{req}"
  | .polled id w none => s!"p{id}@{w}=-"
  | .polled id w (some r) => s!"p{id}@{w}={resStr r}"
  | .repoll id w => s!"X{id}@{w}"
  | .mapped f v => s!"m{f}:{v}"
  | .mappedErr f e => s!"e{f}:{e}"
  | .wrapFn k req => s!"a{k}:{req}"
  | .post t v => s!"o{t}:{v}"
  | .mw t req => s!"w{t}:{req}"
  | .rdy id w out => s!"r{id}@{w}={rdyStr out}"
  | .rdyMapErr f e => s!"e{f}:{e}"
  | .new id cfg => s!"n{id}:{cfg}"
  | .ipolled id w none => s!"i{id}@{w}=-"
  | .ipolled id w (some none) => s!"i{id}@{w}=ok"
  | .ipolled id w (some (some e)) => s!"i{id}@{w}=err:{e}"
  | .irepoll id w => s!"Y{id}@{w}"
  | .cfgMapped f c => s!"g{f}:{c}"
  | .initErrMapped f e => s!"h{f}:{e}"
  | .newTransform t => s!"t{t}"
  | .cfgFn f cfg => s!"f{f}:{cfg}"
  | .reent k req => s!"x{k}:{req}"
  | .freent k cfg => s!"z{k}:{cfg}"

def isPanic : Evt → Bool
  | .repoll .. => true
  | .irepoll .. => true
  | _ => false

/-- the log up to (not including) the first panic, and whether there was one -/
def cutPanic : List Evt → List Evt × Bool
  | [] => ([], false)
  | e :: l => if isPanic e then ([], true) else
    let (l', p) := cutPanic l
    (e :: l', p)

/-- number of inner `Pending` answers = number of wakers parked = wake-ups delivered -/
def wakes : List Evt → Nat
  | [] => 0
  | .polled _ _ none :: l => wakes l + 1
  | .ipolled _ _ none :: l => wakes l + 1
  | .rdy _ _ .pending :: l => wakes l + 1
  | _ :: l => wakes l

def render (log : List Evt) (r : String) : String :=
  let (l, p) := cutPanic log
  "[" ++ ",".intercalate (l.map evtStr) ++ "] r=" ++ (if p then "panic" else s!"{r} k={wakes l}")

def fuel : Nat := 64

/-- `fac <F> <cfg>`: drive `new_service(cfg)`; on ok the built service becomes the current one.  The
result does not depend on how long the factory value lives, so `facd <k> <F> <cfg>` (factory dropped
after `k` Pending polls of the init future) is the same function -/
def facStep (st : State) (t : List String) : State × String :=
  match parseFac t with
  | some (f, [cfg]) =>
    match num cfg with
    | some cfg =>
      if (facLeafIds f).Nodup then
        let (fu, l0) := newService f cfg
        let (r, l, w') := idrive fuel fu st.w
        let p := (cutPanic (l0 ++ l)).2
        match r, p with
        | some (.ok s), false => ({ svc := some s, w := w' + 1 }, render (l0 ++ l) "ok")
        | some (.err e), _ => ({ svc := none, w := w' + 1 }, render (l0 ++ l) s!"err:{e}")
        | some (.ok _), true => ({ svc := none, w := w' + 1 }, render (l0 ++ l) "ok")
        | none, _ => ({ svc := none, w := w' }, render (l0 ++ l) "stuck")
      else (st, "bad-op")
    | none => (st, "bad-op")
  | _ => (st, "bad-op")

def step (st : State) (line : String) : State × String :=
  match tokenize line with
  | "case" :: _ => (init, "ok")
  | "svc" :: t =>
    match parseSvc t with
    | some (s, []) => if (svcLeafIds s).Nodup then ({ st with svc := some s }, "ok") else (st, "bad-op")
    | _ => (st, "bad-op")
  | ["ready"] =>
    match st.svc with
    | none => (st, "bad-op")
    | some s =>
      let (s', r, l) := pollReady s st.w
      ({ svc := some s', w := st.w + 1 }, render l (match r with | .pending => "pending" | r => rdyStr r))
  | ["reset", i, rp, rok] =>
    match st.svc, num i, num rp, okErr rok with
    | some s, some i, some rp, some rok =>
      if i ∈ svcLeafIds s then ({ st with svc := some (rescript s i rp rok) }, "ok") else (st, "bad-op")
    | _, _, _, _ => (st, "bad-op")
  | ["call", req] =>
    match st.svc, num req with
    | some s, some req =>
      let (fu, l0) := call s req
      let (r, l, w') := drive fuel fu st.w
      ({ st with w := if r.isSome then w' + 1 else w' }, render (l0 ++ l) (match r with | some r => resStr r | none => "stuck"))
    | _, _ => (st, "bad-op")
  | "fac" :: t => facStep st t
  | "facd" :: k :: t => if (num k).isSome then facStep st t else (st, "bad-op")
  | ["call2", mode, r1, r2] =>
    match st.svc, num r1, num r2 with
    | some s, some r1, some r2 =>
      -- both calls happen now, in call order (the first stage of each is invoked by `call`)
      let (f1, l1) := call s r1
      let (f2, l2) := call s r2
      let next (r : Option Res) (w : Nat) : Nat := if r.isSome then w + 1 else w
      let str (r : Option Res) : String := match r with | some r => resStr r | none => "stuck"
      match mode with
      | "fwd" =>
        let (ra, la, wa) := drive fuel f1 st.w
        let (rb, lb, wb) := drive fuel f2 (next ra wa)
        ({ st with w := next rb wb }, render (l1 ++ l2 ++ la ++ lb) s!"{str ra},{str rb}")
      | "rev" =>
        let (rb, lb, wb) := drive fuel f2 st.w
        let (ra, la, wa) := drive fuel f1 (next rb wb)
        ({ st with w := next ra wa }, render (l1 ++ l2 ++ lb ++ la) s!"{str ra},{str rb}")
      | "drop" =>
        let (rb, lb, wb) := drive fuel f2 st.w
        ({ st with w := next rb wb }, render (l1 ++ l2 ++ lb) s!"dropped,{str rb}")
      | _ => (st, "bad-op")
    | _, _, _ => (st, "bad-op")
  | ["calld", k, req] =>
    match st.svc, num k, num req with
    | some s, some _, some req =>
      let (fu, l0) := call s req
      let (r, l, w') := drive fuel fu st.w
      ({ svc := none, w := if r.isSome then w' + 1 else w' }, render (l0 ++ l) (match r with | some r => resStr r | none => "stuck"))
    | _, _, _ => (st, "bad-op")
  | _ => (st, "bad-op")

end Driver.Svc
