import ActixNet.Lemmas.Avail
/-!
# C04 — dispatch is round-robin over available workers only; availability bits are independent

Part 1 (this section): the availability tracking.  The theorems are about the **generated** bodies
of `Availability::{offset, get_available, set_available, available}` (T1) and hold for all 2^512
bitset states and all index pairs — by bit-level lemmas with symbolic indices, not by enumeration.
-/
namespace ActixNet.C04
open ActixNet ActixNet.Avail

/-- reading an index below the documented maximum never panics and reads that worker's bit -/
theorem get_total (a : Avail) (i : Nat) (h : i < 512) : get a i = some (bits a i) := get_eq_bits a h

/-- `offset` panics exactly for indices ≥ 512 (the documented maximum worker count) -/
theorem offset_total (i : Nat) : Src.availOffset i = none ↔ 512 ≤ i := by
  constructor
  · intro h
    apply Classical.byContradiction
    intro hn
    obtain ⟨o, j, he, _⟩ := offset_some (idx := i) (by omega)
    simp [he] at h
  · exact offset_none

/-- **independence**: setting worker `i`'s bit changes worker `i`'s bit to the given value and no
other worker's bit, for every pair of indices below 512 and every state of the bitset -/
theorem avail_frame (a : Avail) (i j : Nat) (v : Bool) (hi : i < 512) (hj : j < 512) :
    ∃ a', set a i v = some a' ∧ get a' j = some (if j = i then v else bits a j) := by
  obtain ⟨a', hs, hb⟩ := set_bits a v hi
  exact ⟨a', hs, by rw [get_eq_bits a' hj, hb j]⟩

theorem avail_same (a : Avail) (i : Nat) (v : Bool) (hi : i < 512) :
    ∃ a', set a i v = some a' ∧ get a' i = some v := by
  obtain ⟨a', hs, hg⟩ := avail_frame a i i v hi hi
  exact ⟨a', hs, by simpa using hg⟩

/-- `available()` is true exactly when some worker below 512 has its bit set -/
theorem available_iff_some_bit (a : Avail) : available a = true ↔ ∃ i, i < 512 ∧ get a i = some true := by
  rw [available_iff]
  constructor
  · rintro ⟨i, hi, hb⟩; exact ⟨i, hi, by rw [get_eq_bits a hi, hb]⟩
  · rintro ⟨i, hi, hb⟩; rw [get_eq_bits a hi] at hb; exact ⟨i, hi, by simpa using hb⟩

/-- a freshly built bitset has no worker available -/
theorem default_none_available : available ({} : Avail) = false := by decide

-- non-vacuity: worker 300 and worker 5 on a non-trivial state
example : get ({ w2 := 1 <<< 44 } : Avail) 300 = some true ∧ get ({ w2 := 1 <<< 44 } : Avail) 5 = some false := by
  decide
example : (set ({ w0 := 32 } : Avail) 300 true).bind (fun a => get a 5) = some true := by decide

end ActixNet.C04
