#!/bin/sh
# tools/seed_regress.sh [parallel] [filter-glob]: re-run EVERY kept seed (seeded/<id>/patch.diff) against the current checks in an
# isolated copy (tools/mutcheck.sh) and record whether it is still reported: .build/regress/<id>.txt = "<rc> <violations> <no-input>".
# Finished ids are skipped, so the sweep can be interrupted and resumed; summary: tools/seed_regress.sh summary
cd /verif; mkdir -p .build/regress
if [ "$1" = summary ]; then
  for f in .build/regress/*.txt; do id=$(basename $f .txt); set -- $(cat $f); [ "$1" = 1 ] && [ "$2" -gt "$3" ] || echo "NOT-CAUGHT-WITH-REPLAY $id: rc=$1 violations=$2 without-input=$3"; done
  echo "$(ls .build/regress/*.txt | wc -l) seeds re-run"; exit 0
fi
P=${1:-4}; G=${2:-C*}
ls -d seeded/$G/ | while read d; do
  id=$(basename $d); [ -f $d/patch.diff ] || continue; [ -f .build/regress/$id.txt ] && continue
  prop=$(python3 -c "import json;print(json.load(open('$d/meta.json')).get('checked_with') or json.load(open('$d/meta.json'))['property'])" 2>/dev/null) || continue
  echo "$id $prop"
done | xargs -P $P -L 1 sh -c 'id=$0; prop=$1; out=$(nice -n 5 tools/mutcheck.sh seeded/$id/patch.diff $prop 2>&1); rc=$?; echo "$rc $(echo "$out" | grep -c "^VIOLATION") $(echo "$out" | grep -c "no-failing-input-found")" > .build/regress/$id.txt'
