import ActixNet.Lemmas.Worker
import ActixNet.Lemmas.ServerCmd
/-!
# C06 — shutdown: graceful waits for connections, forced does not, stop always completes

Property theorems only.

*Worker half* (`Model/Worker.lean`, the `Stop` handler at the top of `ServerWorker::poll` and the
`Shutdown` arm, worker.rs:601-623, 663-695), with the T1 kernels `Src.wkTickFirstMs`,
`Src.wkTickNextMs`, `Src.wkTimedOut`, `Src.wcTotal`, `Src.wcInit` regenerated from the source.

*Server half* (`Model/ServerCmd.lean`, `ServerInner::run` / `handle_cmd` / `map_signal`,
`ServerHandle`, server.rs:171-345, handle.rs:43-55) with the T1 kernel `Src.mapSignalGraceful`.

Timing is *functional*: `fin : List (Option Nat)` says for every connection in progress when (if
ever) it ends; `Worker.replyTime T t0 fin` is when and what the worker replies.  `runTicks_refines`
ties that function to the model of the real `poll`, tick by tick.
-/
namespace ActixNet.C06
open ActixNet

section worker
open ActixNet.Worker

/-- **An idle worker answers `true` and finishes in the very poll that takes the `Stop`**, graceful or forced. -/
theorem idle_worker_stops_at_once (s : St) (k : Nat) (g : Bool) (rest : List (Nat × Bool)) (hq : s.stopQ = (k, g) :: rest)
    (h0 : s.raw ≠ 0) (h1 : Src.wcTotal s.raw = 0) (f : Nat) :
    (pollW (f + 1) s).finished = true ∧ .reply k true ∈ (pollW (f + 1) s).log ∧ (pollW (f + 1) s).inflight = s.inflight := by
  rw [pollW_stop_idle hq h0 h1]
  exact ⟨rfl, by rw [finish_log]; simp [emit], rfl⟩

/-- **Forced stop does not wait**: whatever is in progress (any counter value, any number of
connections, none of them finishing), the poll that takes a forced `Stop` replies and finishes —
one pass through `poll`, fuel 1 is enough — and touches none of the connections in progress. -/
theorem forced_does_not_wait (s : St) (k : Nat) (rest : List (Nat × Bool)) (hq : s.stopQ = (k, false) :: rest)
    (h0 : s.raw ≠ 0) (f : Nat) :
    (pollW (f + 1) s).finished = true ∧ .reply k (decide (Src.wcTotal s.raw = 0)) ∈ (pollW (f + 1) s).log ∧
    (pollW (f + 1) s).inflight = s.inflight ∧ (pollW (f + 1) s).now = s.now := by
  by_cases h1 : Src.wcTotal s.raw = 0
  · rw [pollW_stop_idle hq h0 h1]
    exact ⟨rfl, by rw [finish_log]; simp [emit, h1], rfl, rfl⟩
  · rw [pollW_stop_forced hq h0 h1]
    exact ⟨rfl, by rw [finish_log]; simp [emit, h1, shutdownSvcs], rfl, rfl⟩

example : (run (init { n := 1, timeout := 5000, svcs := fun _ => {} }) [.conn 0, .conn 0, .poll 9, .stop false, .poll 1]).finished = true ∧
    Ev.reply 0 false ∈ (run (init { n := 1, timeout := 5000, svcs := fun _ => {} }) [.conn 0, .conn 0, .poll 9, .stop false, .poll 1]).log := by decide

/-- **A `Stop` in the channel is taken before anything else** — in particular before the worker can
notice that its connection channel was closed: after the poll, stop `k` has been answered, or its
reply sender is held by the `Shutdown` state of the still-running worker (or the W1 underflow fault). -/
theorem stop_is_taken_first (s : St) (k : Nat) (g : Bool) (rest : List (Nat × Bool)) (hq : s.stopQ = (k, g) :: rest)
    (hfl : s.fault = none) (hcov : s.queue.length ≤ s.raw) (h0 : s.raw ≠ 0) (hfin : s.finished = false) (f : Nat) :
    (∃ b, .reply k b ∈ (pollW (f + 1) s).log ∧ (pollW (f + 1) s).finished = true) ∨
    (∃ t sf, (pollW (f + 1) s).state = .shutdown t sf k ∧ (pollW (f + 1) s).finished = false) := by
  by_cases h1 : Src.wcTotal s.raw = 0
  · left; rw [pollW_stop_idle hq h0 h1]
    exact ⟨true, by rw [finish_log]; simp [emit], rfl⟩
  · cases g with
    | false =>
      left; rw [pollW_stop_forced hq h0 h1]
      exact ⟨false, by rw [finish_log]; simp [emit, shutdownSvcs], rfl⟩
    | true =>
      right
      obtain ⟨a, b, _⟩ := graceful_enters_shutdown_lemma hq h1 hfl hcov f
      exact ⟨_, _, a, b.trans hfin⟩

/-- **The accept thread's exit is not a stop command** (F8).  A worker whose connection channel has been
closed by the exit of the accept thread (which drops its handles), with nothing queued and no `Stop`
received yet, does not finish: the poll returns `Pending` with the task waker registered in the `Stop`
channel, the connections in progress untouched, nothing answered. -/
theorem accept_exit_is_not_a_stop (s : St) (hst : s.state = .available) (hc : Calm s) (hco : s.chanOpen = false)
    (hqu : s.queue = []) (hq : s.stopQ = []) (ho : s.stopOpen = true) (hfl : s.fault = none) (f : Nat) :
    (pollW (f + 1) s).finished = s.finished ∧ (pollW (f + 1) s).inflight = s.inflight ∧
    (pollW (f + 1) s).stopWaker = true ∧ (pollW (f + 1) s).state = .available ∧ (pollW (f + 1) s).fault = none ∧
    ∃ evs, (pollW (f + 1) s).log = s.log ++ evs ∧ ∀ e ∈ evs, e.isPR = true := by
  obtain ⟨h1, h2, h3, h4, h5, h6, h7⟩ := arm_closed_waits (s := { s with stopWaker := true }) hst hc hco hqu hq ho
  have hp : pollW (f + 1) s = (arm { s with stopWaker := true }).1 := by
    simp only [pollW]; rw [body_nostop hq hfl, h1]; simp
  rw [hp]
  exact ⟨h2, h3, h4, h5, h6.trans hfl, h7⟩

/-- … and a `Stop` that is found there (it arrived while this `poll` was already past its look at the
`Stop` channel) is handled exactly like one found at the top of `poll`: the `None` arm of the
`Available` loop is the `Stop` handler followed, if the worker goes on, by `self.poll(cx)`. -/
theorem stop_found_after_accept_exit (s : St) (a : Nat × Bool) (rest : List (Nat × Bool)) (hq : s.stopQ = a :: rest) :
    closedArm s = ((stopPhase s).1, !(stopPhase s).2) :=
  closedArm_cons hq

example : (run (init { n := 1, timeout := 5000, svcs := fun _ => {} }) [.conn 0, .poll 9, .closeChan, .poll 9, .poll 9]).finished = false ∧
    (run (init { n := 1, timeout := 5000, svcs := fun _ => {} }) [.conn 0, .poll 9, .closeChan, .poll 9, .stop true, .poll 9]).state = .shutdown 1000 0 0 := by decide

example : (run (init { n := 1, timeout := 5000, svcs := fun _ => {} }) [.conn 0, .poll 9, .pollY 9 [.stop true, .closeChan]]).state = .shutdown 1000 0 0 := by decide

/-- **Graceful stop with connections in progress**: the poll that takes the `Stop` replies nothing
and does not finish; the worker is in `Shutdown` with its first tick `Src.wkTickFirstMs` ahead and
`start_from = now`; every queued (unreceived) connection has been *released* — the log gains exactly
`released c` for each, no `call` — and the connections in progress are untouched. -/
theorem graceful_enters_shutdown (s : St) (k : Nat) (rest : List (Nat × Bool)) (hq : s.stopQ = (k, true) :: rest)
    (h1 : Src.wcTotal s.raw ≠ 0) (hfl : s.fault = none) (hcov : s.queue.length ≤ s.raw) (f : Nat) :
    (pollW (f + 1) s).state = .shutdown (s.now + Src.wkTickFirstMs) s.now k ∧ (pollW (f + 1) s).finished = s.finished ∧
    (pollW (f + 1) s).queue = [] ∧ (pollW (f + 1) s).inflight = s.inflight ∧ (pollW (f + 1) s).stopQ = rest ∧
    (pollW (f + 1) s).raw = s.raw - s.queue.length ∧ (pollW (f + 1) s).fault = none ∧
    (pollW (f + 1) s).log = s.log ++ (stateTx s.state ++ [.armTimer (s.now + Src.wkTickFirstMs)]) ++ s.queue.map .released :=
  graceful_enters_shutdown_lemma hq h1 hfl hcov f

example : (run (init { n := 1, timeout := 5000, svcs := fun _ => {} }) [.conn 0, .poll 9, .conn 0, .stop true, .poll 1]).state = .shutdown 1000 0 0 ∧
    (run (init { n := 1, timeout := 5000, svcs := fun _ => {} }) [.conn 0, .poll 9, .conn 0, .stop true, .poll 1]).log.drop 5 = [.enter, .armTimer 1000, .released (1, 0)] := by decide

/-- **Graceful waits.**  A poll of a worker in `Shutdown` (no further `Stop`, channel drained) finishes
*iff* its tick timer has fired and either nothing is in progress (`total() == 0`: reply `true`) or
`shutdown_timeout` has elapsed since it took the stop (reply `false`); it replies `true` only with
`total() == 0` and `false` only after the timeout; it never answers any other stop. -/
theorem graceful_waits (s : St) (t sf tx : Nat) (hst : s.state = .shutdown t sf tx) (hq : s.stopQ = [])
    (hfl : s.fault = none) (hqueue : s.queue = []) (hraw : s.raw ≠ 0) (hfin : s.finished = false) (f : Nat) :
    ((pollW (f + 1) s).finished = true ↔ t ≤ s.now ∧ (Src.wcTotal s.raw = 0 ∨ s.timeout ≤ s.now - sf)) ∧
    ∃ evs, (pollW (f + 1) s).log = s.log ++ evs ∧
      (.reply tx true ∈ evs ↔ t ≤ s.now ∧ Src.wcTotal s.raw = 0) ∧
      (.reply tx false ∈ evs ↔ t ≤ s.now ∧ Src.wcTotal s.raw ≠ 0 ∧ s.timeout ≤ s.now - sf) ∧
      (∀ k b, .reply k b ∈ evs → k = tx) :=
  shutdown_poll_lemma hst hq hfl hqueue hraw hfin f

/-- **Connections finish in grace.**  Every poll of a worker that is shutting down — also when more
`Stop` messages arrive — hands no connection to a service (queued ones are released, never served)
and leaves the connections in progress alone (`inflight`, like the clock and the configuration, is unchanged). -/
theorem connections_finish_in_grace (s : St) (t sf tx : Nat) (hst : s.state = .shutdown t sf tx) (hfl : s.fault = none) (f : Nat) :
    (pollW (f + 1) s).inflight = s.inflight ∧ ∃ evs, (pollW (f + 1) s).log = s.log ++ evs ∧ callsOf evs = [] := by
  obtain ⟨h1, h2⟩ := pollW_shutdown_quiet hst hfl f
  simp only [core4, Prod.mk.injEq] at h1
  exact ⟨h1.2.2.2.2.1, h2⟩

/-- **Every `Stop` is accounted for**, in every history: a stop that was sent is still in the
channel, or its reply sender is held by the `Shutdown` state of the running worker, or it has been
answered or its sender dropped.  Hence once the worker future has completed, every stop ever sent —
the first, a second one, one that arrives after the worker is gone — has resolved. -/
theorem every_stop_resolves (cfg : Cfg) (ops : List Op) (hfin : (run (init cfg) ops).finished = true)
    (k : Nat) (hk : k < (run (init cfg) ops).nextStop) :
    ∃ e ∈ (run (init cfg) ops).log, e = .replyGone k ∨ ∃ b, e = .reply k b := by
  have h := Acc.run ops _ (Acc.init cfg) (Good.init cfg)
  have hq := h.fin hfin
  rcases h.all k hk with ⟨g, h1⟩ | ⟨h2, _⟩ | ⟨e, he, hr⟩
  · rw [hq] at h1; simp at h1
  · rw [hfin] at h2; cases h2
  · refine ⟨e, he, ?_⟩
    cases e <;> simp [Ev.resolves] at hr
    · exact Or.inr ⟨_, by rw [hr]⟩
    · exact Or.inl (by rw [hr])

example : (run (init { n := 1, timeout := 0, svcs := fun _ => {} }) [.conn 0, .poll 9, .stop true, .poll 1, .stop true, .stop false, .advance 1000, .poll 1, .poll 1, .stop true]).log.drop 5 =
    [.enter, .armTimer 1000, .enter, .replyGone 0, .armTimer 2000, .enter, .reply 2 false, .done, .replyGone 1, .replyGone 3] := by decide

/-- **Stop always completes, with a bound** — for EVERY script `fin` of connection end times, also
one in which no connection ever ends: the worker replies no later than
`t0 + first tick + ⌈T / tick⌉ · tick` (= `t0 + (⌈T/tick⌉ + 1)·tick` for the 1 s tick). -/
theorem stop_completes (T t0 : Nat) (fin : List (Option Nat)) :
    (replyTime T t0 fin).1 ≤ t0 + Src.wkTickFirstMs + ((T + Src.wkTickNextMs - 1) / Src.wkTickNextMs) * Src.wkTickNextMs :=
  replyTime_bound T t0 fin

example : replyTime 2500 10 [none, some 700] = (3010, false) ∧ replyTime 2500 10 [some 1500, some 700] = (2010, true) ∧
    replyTime 0 10 [none] = (1010, false) ∧ replyTime 9000 10 [] = (10, true) := by decide

/-- … later-ending connections never make the reply earlier … -/
theorem stop_completes_monotone (T t0 : Nat) (fin fin' : List (Option Nat))
    (hle : ∀ t, unfinished fin' t = 0 → unfinished fin t = 0) :
    (replyTime T t0 fin).1 ≤ (replyTime T t0 fin').1 :=
  replyTime_mono T t0 fin fin' hle

/-- … the reply is `true` exactly when everything had ended by then, and `false` only once the timeout has elapsed. -/
theorem reply_value (T t0 : Nat) (fin : List (Option Nat)) :
    ((replyTime T t0 fin).2 = true ↔ unfinished fin (replyTime T t0 fin).1 = 0) ∧
    ((replyTime T t0 fin).2 = false → T ≤ (replyTime T t0 fin).1 - t0) := by
  unfold replyTime
  split
  · rename_i h; simp [h]
  · have h := tickLoop_value T t0 fin (lastTick T - 1) 1 (lastTick_pos T) (by have := lastTick_pos T; omega)
    have h2 : lastTick T - 1 + 1 = lastTick T := by have := lastTick_pos T; omega
    rw [h2] at h; exact h

/-- **The model of the real `poll` follows the tick loop**: a worker in `Shutdown`, polled whenever
its tick timer fires while the environment ends connections as the script says, finishes at the
time and with the reply value `tickLoop` computes. -/
theorem poll_refines_tick_loop (fin : List (Option Nat)) (sf tx f k : Nat) (s : St) (h : Ticking s sf tx k) (hk : 1 ≤ k)
    (h1 : k ≤ lastTick s.timeout) (h2 : lastTick s.timeout ≤ k + f) :
    (runTicks fin sf s k (f + 1)).finished = true ∧
    (runTicks fin sf s k (f + 1)).now = (tickLoop s.timeout sf fin k (f + 1)).1 ∧
    .reply tx (tickLoop s.timeout sf fin k (f + 1)).2 ∈ (runTicks fin sf s k (f + 1)).log :=
  runTicks_refines fin sf tx f k s h hk h1 h2

/-- **"Never force"**: whatever the time-out — `u64::MAX` seconds included; a time-out is a duration, nothing is added to
a clock reading — if every connection in progress ends within it, the worker replies `true` (clean): it waited for
all of them, and it replied no later than one tick after the last one ended. -/
theorem huge_timeout_waits (T t0 : Nat) (fin : List (Option Nat)) (hfin : ∀ o ∈ fin, ∃ x, o = some x ∧ x ≤ t0 + T) :
    (replyTime T t0 fin).2 = true ∧ unfinished fin (replyTime T t0 fin).1 = 0 := by
  have h := reply_value T t0 fin
  have key : (replyTime T t0 fin).2 = true := by
    cases hb : (replyTime T t0 fin).2 with
    | true => rfl
    | false =>
      have hT := h.2 hb
      have hge : t0 ≤ (replyTime T t0 fin).1 := by
        unfold replyTime
        split
        · exact Nat.le_refl _
        · have := tickLoop_ge T t0 fin (lastTick T) 1
          unfold tickTime at this
          omega
      have hu : unfinished fin (replyTime T t0 fin).1 = 0 := by
        unfold unfinished
        rw [List.length_eq_zero_iff, List.filter_eq_nil_iff]
        intro o ho
        obtain ⟨x, rfl, hx⟩ := hfin o ho
        simp only [decide_eq_true_eq]
        omega
      rw [h.1.2 hu] at hb
      cases hb
  exact ⟨key, h.1.1 key⟩

example : replyTime (18446744073709551615 * 1000) 0 [some 1200] = (2000, true) ∧
    replyTime (1000000000000 * 1000) 0 [some 300, some 1300] = (2000, true) := by decide

/-! ### the default configuration (a server on which `ServerBuilder::shutdown_timeout` was never called) -/

/-- **The default `shutdown_timeout` is the documented 30 s** ("By default shutdown timeout sets to 30 seconds"),
read from `impl Default for ServerWorkerConfig` on this run (T1, structural) together with the other defaults:
25600 connections per worker, `max(512 / parallelism, 1)` blocking threads with parallelism 2 when it cannot be
found out; `ServerBuilder::new` starts from that configuration and `shutdown_timeout(sec)` stores `sec` seconds. -/
theorem default_shutdown_timeout_is_30s :
    Src.wcDefaultShutdownSecs = 30 ∧ Src.wcDefaultMaxConn = 25600 ∧ Src.wcDefaultParallelismFallback = 2 ∧
    (∀ p, Src.wcDefaultBlockingThreads p = max (512 / p) 1) ∧ Src.sbStartsFromDefaultConfig = true :=
  ⟨rfl, rfl, rfl, fun _ => rfl, rfl⟩

/-- the `shutdown_timeout` (ms) of a worker of a server with the default configuration -/
def defaultTimeoutMs : Nat := Src.wcDefaultShutdownSecs * 1000

/-- **Graceful stop with the default configuration** — the stop theorems at the default read from the source:
for every script of connection end times, the worker replies `true` exactly when everything had ended by then,
`false` only once 30 s have passed since the stop, and in any case within 31 s (first tick + 30 ticks). -/
theorem default_config_stop (t0 : Nat) (fin : List (Option Nat)) :
    ((replyTime defaultTimeoutMs t0 fin).2 = true ↔ unfinished fin (replyTime defaultTimeoutMs t0 fin).1 = 0) ∧
    ((replyTime defaultTimeoutMs t0 fin).2 = false → 30000 ≤ (replyTime defaultTimeoutMs t0 fin).1 - t0) ∧
    (replyTime defaultTimeoutMs t0 fin).1 ≤ t0 + 31000 := by
  have aux : ∀ T : Nat, T = 30000 →
      ((replyTime T t0 fin).2 = true ↔ unfinished fin (replyTime T t0 fin).1 = 0) ∧
      ((replyTime T t0 fin).2 = false → 30000 ≤ (replyTime T t0 fin).1 - t0) ∧ (replyTime T t0 fin).1 ≤ t0 + 31000 := by
    intro T hT
    have h1 := reply_value T t0 fin
    have h2 := stop_completes T t0 fin
    have e1 : Src.wkTickFirstMs = 1000 := rfl
    have e2 : Src.wkTickNextMs = 1000 := rfl
    refine ⟨h1.1, fun h => ?_, ?_⟩
    · have := h1.2 h; omega
    · rw [e1, e2] at h2; omega
  exact aux defaultTimeoutMs rfl

/-- a connection that its client ends 4.5 s after the stop: the worker replies `true` at the 5 s tick — not at
3 s; one that never ends: `false` at the 30 s tick -/
example : replyTime defaultTimeoutMs 0 [some 4500] = (5000, true) ∧ replyTime defaultTimeoutMs 0 [none] = (30000, false) := by decide

end worker

section server
open ActixNet.ServerCmd

/-- **Signals**: SIGINT and SIGQUIT start a forced shutdown, SIGTERM a graceful one (flags read from `map_signal` by T1). -/
theorem signal_map : Src.mapSignalGraceful .Int = false ∧ Src.mapSignalGraceful .Quit = false ∧ Src.mapSignalGraceful .Term = true ∧
    ∀ sig, cmdOfSignal sig = .stop (Src.mapSignalGraceful sig) none := ⟨rfl, rfl, rfl, fun _ => rfl⟩

/-- **OS signals, end to end in the source**: the table of `Signals::new` (signals.rs, T1 span `srv_signal_table`)
composed with `map_signal` (server.rs, `Src.mapSignalGraceful`): SIGINT and SIGQUIT start a forced shutdown,
SIGTERM a graceful one — and nothing else is listened to. -/
theorem os_signal_map :
    (Src.sigMapTable.map fun p => (p.1, Src.mapSignalGraceful p.2)) = [("interrupt", false), ("terminate", true), ("quit", false)] := by
  decide

/-- the events of one named step of `handle_cmd(Stop)` (names as produced by the T1 span `srv_handle_stop_order`) -/
def stepEvs (workers : List Nat) (g : Bool) (comp : Option Nat) (guard : String) : String → List Ev
  | "wake_stop" => [.wake .stop]
  | "stop_workers" => workers.map (.stopWorker · g)
  | "await_workers" => if guard = "graceful" then (if g then workers.map .awaitWorker else []) else workers.map .awaitWorker
  | "join_accept" => [.joinAccept]
  | "completion" => ackEv comp
  | _ => []

/-- **The model's `Stop` handling is the source's** (T1, structural): the steps of the `Stop` arm of
`handle_cmd`, in the order and under the guard read from server.rs on this run, produce exactly the
events of the model (for the order `srcWakeFirst` found in the source — either order of the first
two steps is accepted); the command loop still leaves on `stopping`; `ServerHandle::stop` still
sends its command before building the future; the `None` arm of the worker's `Available` loop
looks at the `Stop` channel again instead of ending the worker (F8, `Worker.closedArm`); and the command
stream hands on what the command channel yields and closes that channel nowhere (a command sent while a
`Stop` is being handled stays in the channel until `run` returns, `later_stop_answered_at_completion`);
`ServerHandle::stop` discards the result of its send at once, an undelivered command with it
(`stop_after_completion_resolves`); and the join the graceful `Stop` awaits is the crate's own `join_all`, which
is ready only when no future is pending, whatever the others yielded — a dead worker's stop receiver yields
`Err` at once and the live workers are still waited for (`awaitWorker w` for every `w`, `graceful_waits_server`);
and the `Stop` arm ends by stopping the actix System only if there is one — on a plain Tokio runtime a stop that
asks for a system stop (any OS signal, `system_exit()`) lets `run` return all the same. -/
theorem source_shape (workers : List Nat) (g : Bool) (comp : Option Nat) :
    stopEvs srcWakeFirst workers g comp = Src.hcStopOrder.flatMap (stepEvs workers g comp Src.hcAwaitGuard) ∧
    Src.srRunBreaksOnStopping = true ∧ Src.hsStopSendsEagerly = true ∧ Src.wkNoneArmPollsStop = true ∧
    Src.smMuxHandsOnCmdRx = true ∧ Src.hsStopDropsUndelivered = true ∧ Src.jaWaitsForAll = true ∧
    Src.hcSystemStopIfAny = true := by
  refine ⟨?_, rfl, rfl, rfl, rfl, rfl, rfl, rfl⟩
  first
    | (have hw : srcWakeFirst = true := by decide
       rw [hw]; simp [stopEvs, stepEvs, Src.hcStopOrder, Src.hcAwaitGuard, List.flatMap])
    | (have hw : srcWakeFirst = false := by decide
       rw [hw]; simp [stopEvs, stepEvs, Src.hcStopOrder, Src.hcAwaitGuard, List.flatMap])

/-- **The shape of every run that stops.**  Commands before the first `Stop` are handled in order;
the `Stop` wakes the accept thread with `Stop` and sends `Stop` to every worker, (only if graceful)
waits for every worker's reply channel, joins the accept thread, acks the completion; then `run`
returns, dropping whatever is still in the channel. -/
theorem stop_run_shape (s : St) (pre post : List Cmd) (g : Bool) (comp : Option Nat)
    (h1 : s.stopping = false) (h2 : s.panicked = false) (h3 : ∀ c ∈ pre, c.isStop = false)
    (h4 : ∀ c ∈ pre, ∀ idx, c = .workerFaulted idx → idx ∈ s.workers) :
    (runLoop s (pre ++ .stop g comp :: post)).returned = true ∧
    (runLoop s (pre ++ .stop g comp :: post)).log =
      (runLoop s pre).log ++ stopEvs s.wakeFirst s.workers g comp ++ droppedAcks post ++ [.returned] :=
  runLoop_stop_shape s pre post g comp h1 h2 h3 h4

/-- **Graceful waits (server)**: whichever of the first two steps comes first, for every worker `w` the
events of a graceful `Stop` contain, in this order, `stopWorker w`, `awaitWorker w`, `joinAccept`, the
completion ack — and the accept thread's `Stop` wake-up before `joinAccept`. -/
theorem graceful_waits_server (wf : Bool) (workers : List Nat) (a w : Nat) (hw : w ∈ workers) :
    [Ev.stopWorker w true, .awaitWorker w, .joinAccept, .ack a].Sublist (stopEvs wf workers true (some a)) ∧
    [Ev.wake .stop, .joinAccept, .ack a].Sublist (stopEvs wf workers true (some a)) := by
  have h1 : [Ev.stopWorker w true].Sublist (workers.map (Ev.stopWorker · true)) :=
    List.singleton_sublist.2 (List.mem_map.2 ⟨w, hw, rfl⟩)
  have h2 : [Ev.awaitWorker w].Sublist (workers.map Ev.awaitWorker) :=
    List.singleton_sublist.2 (List.mem_map.2 ⟨w, hw, rfl⟩)
  have e : ([] : List Ev).Sublist [Ev.wake .stop] := List.nil_sublist _
  have e1 : ([] : List Ev).Sublist (workers.map (Ev.stopWorker · true)) := List.nil_sublist _
  have e2 : ([] : List Ev).Sublist (workers.map Ev.awaitWorker) := List.nil_sublist _
  unfold stopEvs ackEv
  cases wf <;> simp only [if_true, Bool.false_eq_true, if_false]
  · exact ⟨by simpa using ((h1.append e).append h2).append (List.Sublist.refl [Ev.joinAccept, Ev.ack a]),
      by simpa using ((e1.append (List.Sublist.refl [Ev.wake .stop])).append e2).append (List.Sublist.refl [Ev.joinAccept, Ev.ack a])⟩
  · exact ⟨by simpa using ((e.append h1).append h2).append (List.Sublist.refl [Ev.joinAccept, Ev.ack a]),
      by simpa using (((List.Sublist.refl [Ev.wake .stop]).append e1).append e2).append (List.Sublist.refl [Ev.joinAccept, Ev.ack a])⟩

/-- **Forced does not wait (server)**: a forced `Stop` waits for no worker — only for the accept thread. -/
theorem forced_does_not_wait_server (wf : Bool) (workers : List Nat) (comp : Option Nat) (w : Nat) :
    Ev.awaitWorker w ∉ stopEvs wf workers false comp := by
  unfold stopEvs ackEv
  cases comp <;> cases wf <;> simp

/-- **No dispatch after completion**: in both modes the accept thread has been joined (has exited —
an exited accept loop accepts and dispatches nothing, `Model/Srv.lean`) before the completion is
acked, and that before `run` returns; nothing is logged after `returned`. -/
theorem no_dispatch_after_completion (s : St) (pre post : List Cmd) (g : Bool) (a : Nat)
    (h1 : s.stopping = false) (h2 : s.panicked = false) (h3 : ∀ c ∈ pre, c.isStop = false)
    (h4 : ∀ c ∈ pre, ∀ idx, c = .workerFaulted idx → idx ∈ s.workers) :
    ∃ l1 l2, (runLoop s (pre ++ .stop g (some a) :: post)).log = l1 ++ [.joinAccept, .ack a] ++ l2 ++ [.returned] ∧
      Ev.joinAccept ∉ l2 ∧ Ev.returned ∉ l2 := by
  obtain ⟨_, hl⟩ := runLoop_stop_shape s pre post g (some a) h1 h2 h3 h4
  refine ⟨(runLoop s pre).log ++ ((if s.wakeFirst then [.wake .stop] ++ s.workers.map (.stopWorker · g) else s.workers.map (.stopWorker · g) ++ [.wake .stop]) ++ (if g then s.workers.map .awaitWorker else [])),
    droppedAcks post, ?_, ?_, ?_⟩
  · rw [hl]; simp [stopEvs, ackEv]
  · simp [droppedAcks]
  · simp [droppedAcks]

/-- **Stop always returns**: if a `Stop` (from `ServerHandle::stop` or from a signal) is anywhere in
the channel — and no `WorkerFaulted` names an unknown worker — `run` returns: the `Server` future resolves. -/
theorem stop_always_returns (s : St) (cs : List Cmd) (h1 : s.stopping = false) (h2 : s.panicked = false)
    (hstop : ∃ c ∈ cs, c.isStop = true) (h4 : ∀ c ∈ cs, ∀ idx, c = .workerFaulted idx → idx ∈ s.workers) :
    (runLoop s cs).returned = true := by
  induction cs generalizing s with
  | nil => obtain ⟨c, hc, _⟩ := hstop; simp at hc
  | cons c cs ih =>
    have hp : (handle s c).panicked = false := by rw [handle_panicked_of_known (h4 c (by simp))]; exact h2
    cases hc : c.isStop with
    | true =>
      have hs : (handle s c).stopping = true := by cases c <;> simp [Cmd.isStop] at hc; rfl
      simp [runLoop, hp, hs]
    | false =>
      have hs : (handle s c).stopping = false := by rw [handle_stopping_of_not_stop hc]; exact h1
      simp only [runLoop, hp, hs, Bool.false_eq_true, if_false]
      refine ih _ hs hp ?_ (fun x hx idx he => by rw [handle_workers]; exact h4 x (by simp [hx]) idx he)
      obtain ⟨c', hc', hst⟩ := hstop
      simp only [List.mem_cons] at hc'
      rcases hc' with rfl | hc'
      · rw [hc] at hst; cases hst
      · exact ⟨c', hc', hst⟩

/-- **A second stop resolves** (and so does every other pending call): once `run` has returned, every
command that was in the channel — handled or not — has had its ack sent or its ack sender dropped,
so the future its caller may be awaiting resolves. -/
theorem second_stop_resolves (s : St) (cs : List Cmd) (hret : (runLoop s cs).returned = true) (h0 : s.returned = false)
    (c : Cmd) (hc : c ∈ cs) (a : Nat) (ha : c.ack? = some a) :
    Ev.ack a ∈ (runLoop s cs).log ∨ Ev.ackDropped a ∈ (runLoop s cs).log :=
  runLoop_resolves cs s hret h0 c hc a ha

/-- **Overlapping stops: every stop future resolves only when the shutdown is complete.**  A command that
reaches the channel after the first `Stop` — `handle_cmd` does not look at the channel while it handles that
`Stop`, and `run` leaves the loop right after it, so this is every command sent during the shutdown, a second
(third, …) `stop(true)` or a `stop(false)` included — is answered by nothing but the dropping of the channel
when `run` returns: after every worker was awaited (graceful) and the accept thread joined, and not before.
A forced stop issued during a graceful one does not cut the graceful one short. -/
theorem later_stop_answered_at_completion (s : St) (pre post : List Cmd) (g : Bool) (comp : Option Nat)
    (h1 : s.stopping = false) (h2 : s.panicked = false) (h3 : ∀ c ∈ pre, c.isStop = false)
    (h4 : ∀ c ∈ pre, ∀ idx, c = .workerFaulted idx → idx ∈ s.workers)
    (c : Cmd) (hc : c ∈ post) (a : Nat) (ha : c.ack? = some a) :
    ∃ l2, (runLoop s (pre ++ .stop g comp :: post)).log =
        (runLoop s pre).log ++ stopEvs s.wakeFirst s.workers g comp ++ l2 ++ [.returned] ∧
      Ev.ackDropped a ∈ l2 ∧ (∀ e ∈ l2, ∃ b, e = .ackDropped b) ∧
      (∀ b, Ev.ackDropped b ∉ stopEvs s.wakeFirst s.workers g comp) ∧
      (comp ≠ some a → Ev.ack a ∉ stopEvs s.wakeFirst s.workers g comp) := by
  obtain ⟨_, hl⟩ := runLoop_stop_shape s pre post g comp h1 h2 h3 h4
  refine ⟨droppedAcks post, hl, mem_droppedAcks hc ha, ?_, ?_, ?_⟩
  · intro e he
    simp only [droppedAcks, List.mem_filterMap, Option.map_eq_some_iff] at he
    obtain ⟨_, _, b, _, rfl⟩ := he
    exact ⟨b, rfl⟩
  · intro b
    unfold stopEvs ackEv
    cases comp <;> cases g <;> cases s.wakeFirst <;> simp
  · intro hne
    unfold stopEvs ackEv
    cases comp with
    | none => cases g <;> cases s.wakeFirst <;> simp
    | some x =>
      have : x ≠ a := fun h => hne (by rw [h])
      cases g <;> cases s.wakeFirst <;> simp [Ne.symm this]

example : (serve true 1 [.stop true, .stop true, .stop false]).log =
    [.wake .stop, .stopWorker 0 true, .awaitWorker 0, .joinAccept, .ack 0, .ackDropped 1, .ackDropped 2, .returned] := by decide

/-- **A stop called after the shutdown has completed resolves at once**: nobody takes the command any more; the
handle drops the undelivered command, and with it the ack sender its future waits for. -/
theorem stop_after_completion_resolves (y : Sys) (g : Bool) :
    lateCall y (.stop g) = [.ackDropped y.nextAck] ∧ (call y (.stop g)).2 = some y.nextAck ∧
    Src.hsStopDropsUndelivered = true := by
  refine ⟨?_, rfl, rfl⟩
  simp [lateCall, call, droppedAcks, Cmd.ack?]

/-- **A restart that fails does not end the server** (C08's command-loop half): whichever restart attempt fails — the
factory could not make the services —, handling the fault report leaves `stopping`, `returned`, `panicked` and the workers
as they are and logs one event; the loop goes on, so a later fault is still followed by a restart attempt. -/
theorem failed_restart_keeps_server_running (s : St) (idx : Nat) (hk : idx ∈ s.workers) :
    (handle s (.workerFaulted idx)).stopping = s.stopping ∧ (handle s (.workerFaulted idx)).returned = s.returned ∧
    (handle s (.workerFaulted idx)).panicked = s.panicked ∧ (handle s (.workerFaulted idx)).workers = s.workers ∧
    (handle s (.workerFaulted idx)).log = s.log ++ (if s.failAt = some s.restarts then [.restartFailed idx] else [.restartWorker idx, .wake (.worker idx)]) ∧
    (handle s (.workerFaulted idx)).restarts = s.restarts + 1 := by
  simp [handle, hk, emit]

example : (serveFailing true 2 0 [.faulted 0, .faulted 1]).log = [.restartFailed 0, .restartWorker 1, .wake (.worker 1)] ∧
    (serveFailing true 2 0 [.faulted 0, .faulted 1]).returned = false ∧
    (serveFailing true 2 0 [.faulted 0, .faulted 1, .stop true]).returned = true := by decide

/-- **A dropped stop future still stops the server**: `ServerHandle::stop` puts the command into the
channel when it is *called*; the returned future only waits for the ack.  Whatever other calls are
made before or after, the server handles a `Stop` and `run` returns. -/
theorem dropped_future_still_stops (wf : Bool) (n : Nat) (before after : List Call) (g : Bool)
    (hk : ∀ c ∈ before ++ after, ∀ idx, c = .faulted idx → idx < n) :
    (serve wf n (before ++ .stop g :: after)).returned = true := by
  unfold serve
  have hcalls : ∀ (cs : List Call) (y : Sys), ∃ new, (calls y cs).cmds = y.cmds ++ new ∧
      (∀ c ∈ cs, c = .stop g → ∃ a, Cmd.stop g (some a) ∈ new) ∧
      (∀ x ∈ new, ∀ idx, x = .workerFaulted idx → Call.faulted idx ∈ cs) := by
    intro cs
    induction cs with
    | nil => intro y; exact ⟨[], by simp [calls], by simp, by simp⟩
    | cons c cs ih =>
      intro y
      obtain ⟨new, e1, e2, e3⟩ := ih (call y c).1
      have hc : ∃ x, (call y c).1.cmds = y.cmds ++ [x] ∧ (c = .stop g → ∃ a, x = .stop g (some a)) ∧ (∀ idx, x = .workerFaulted idx → c = .faulted idx) := by
        cases c <;> simp [call, cmdOfSignal]
      obtain ⟨x, hx1, hx2, hx3⟩ := hc
      refine ⟨x :: new, by simp only [calls]; rw [e1, hx1]; simp, ?_, ?_⟩
      · intro c' hc' he
        simp only [List.mem_cons] at hc'
        rcases hc' with rfl | hc'
        · obtain ⟨a, ha⟩ := hx2 he; exact ⟨a, by simp [ha]⟩
        · obtain ⟨a, ha⟩ := e2 c' hc' he; exact ⟨a, by simp [ha]⟩
      · intro x' hx' idx he
        simp only [List.mem_cons] at hx'
        rcases hx' with rfl | hx'
        · simp [hx3 idx he]
        · simp [e3 x' hx' idx he]
  obtain ⟨new, e1, e2, e3⟩ := hcalls (before ++ .stop g :: after) {}
  rw [e1]
  obtain ⟨a, ha⟩ := e2 (.stop g) (by simp) rfl
  refine stop_always_returns _ _ rfl rfl ⟨_, by simpa using ha, rfl⟩ ?_
  intro x hx idx he
  have := e3 x (by simpa using hx) idx he
  simp only [List.mem_range]
  apply hk (.faulted idx) _ idx rfl
  simp only [List.mem_append, List.mem_cons] at this ⊢
  rcases this with h | h | h
  · exact Or.inl h
  · cases h
  · exact Or.inr h

example : (serve true 2 [.pause, .stop true, .resume, .stop false]).log =
    [.wake .pause, .ack 0, .wake .stop, .stopWorker 0 true, .stopWorker 1 true, .awaitWorker 0, .awaitWorker 1, .joinAccept, .ack 1,
     .ackDropped 2, .ackDropped 3, .returned] := by decide
example : (serve true 1 [.signal .Int]).log = [.wake .stop, .stopWorker 0 false, .joinAccept, .returned] := by decide
example : (serve false 1 [.signal .Term]).log = [.stopWorker 0 true, .wake .stop, .awaitWorker 0, .joinAccept, .returned] := by decide

end server
end ActixNet.C06
