import ActixNet.Model.Chan
/-!
# Lemmas for C16: invariants of the channel model along every history
-/
set_option linter.unusedSimpArgs false
set_option linter.unusedVariables false
namespace ActixNet
namespace Chan

/-! ## `run` plumbing -/

theorem run_cons {c c' : Chan} {op : Op} {ops : List Op} {os : List Obs}
    (h : run c (op :: ops) = some (c', os)) :
    ∃ c1 o os', step c op = some (c1, o) ∧ run c1 ops = some (c', os') ∧ os = o :: os' := by
  simp only [run] at h
  split at h
  · simp at h
  · rename_i c1 o hs
    split at h
    · simp at h
    · rename_i c2 os2 hr
      simp only [Option.some.injEq, Prod.mk.injEq] at h
      obtain ⟨h1, h2⟩ := h
      subst h1; subst h2
      exact ⟨c1, o, os2, hs, hr, rfl⟩

/-- an invariant of `step` is an invariant of `run` -/
theorem run_induct {P : Chan → Prop}
    (hstep : ∀ c op c' o, P c → step c op = some (c', o) → P c') :
    ∀ (ops : List Op) (c c' : Chan) (os : List Obs), P c → run c ops = some (c', os) → P c' := by
  intro ops
  induction ops with
  | nil => intro c c' os hp hr; simp [run] at hr; obtain ⟨hr, _⟩ := hr; subst hr; exact hp
  | cons op ops ih =>
    intro c c' os hp hr
    obtain ⟨c1, o, os', hs, hr', _⟩ := run_cons hr
    exact ih c1 c' os' (hstep c op c1 o hp hs) hr'

theorem run_length : ∀ (ops : List Op) (c c' : Chan) (os : List Obs),
    run c ops = some (c', os) → os.length = ops.length := by
  intro ops
  induction ops with
  | nil => intro c c' os hr; simp [run] at hr; simp [hr.2.symm]
  | cons op ops ih =>
    intro c c' os hr
    obtain ⟨c1, o, os', hs, hr', he⟩ := run_cons hr
    subst he; simp [ih c1 c' os' hr']

/-! ## state invariant -/

/-- * a dropped receiver leaves a closed, empty channel;
    * **a parked receiver has nothing to do**: while its waker is still registered (it has not been
      woken since it returned `Pending`) the channel is open, has a sender and the buffer is empty. -/
def Good (c : Chan) : Prop :=
  (c.recvAlive = false → c.hasReceiver = false ∧ c.buffer = []) ∧
  (∀ w, c.blocked.waker = some w → c.recvAlive = true →
    c.hasReceiver = true ∧ c.senders ≠ [] ∧ c.buffer = [])

theorem good_init : Good init := by
  simp [Good, init]

theorem erase_ne_nil {l : List Nat} {i : Nat} (hi : i ∈ l) (h2 : l.length ≠ 1) : l.erase i ≠ [] := by
  intro h
  have h1 := List.length_erase_of_mem hi
  rw [h] at h1
  have h0 : l.length ≠ 0 := by
    intro h0; have := List.eq_nil_of_length_eq_zero h0; subst this; simp at hi
  simp only [List.length_nil] at h1
  omega

theorem good_step (c : Chan) (op : Op) (c' : Chan) (o : Obs) (hg : Good c)
    (hs : step c op = some (c', o)) : Good c' := by
  obtain ⟨g1, g2⟩ := hg
  cases op with
  | send p i x =>
    simp only [step] at hs
    split at hs
    · split at hs
      · rename_i _ hr
        simp only [Option.some.injEq, Prod.mk.injEq] at hs; obtain ⟨hs, _⟩ := hs; subst hs
        refine ⟨?_, ?_⟩
        · intro hra; have h0 : c.hasReceiver = false := (g1 hra).1; rw [hr] at h0; cases h0
        · intro w hw; simp [LocalWaker.wake, LocalWaker.take] at hw
      · simp only [Option.some.injEq, Prod.mk.injEq] at hs; obtain ⟨hs, _⟩ := hs; subst hs
        exact ⟨g1, g2⟩
    · simp at hs
  | clone i =>
    simp only [step] at hs
    split at hs
    · simp only [Option.some.injEq, Prod.mk.injEq] at hs; obtain ⟨hs, _⟩ := hs; subst hs
      refine ⟨g1, ?_⟩
      intro w hw hra
      have := g2 w hw hra
      simp [this.1, this.2.2]
    · simp at hs
  | dropSender i =>
    simp only [step] at hs
    split at hs
    · rename_i hi
      split at hs
      · simp only [Option.some.injEq, Prod.mk.injEq] at hs; obtain ⟨hs, _⟩ := hs; subst hs
        refine ⟨g1, ?_⟩
        intro w hw; simp [LocalWaker.wake, LocalWaker.take] at hw
      · rename_i hnw
        simp only [Option.some.injEq, Prod.mk.injEq] at hs; obtain ⟨hs, _⟩ := hs; subst hs
        refine ⟨g1, ?_⟩
        intro w hw hra
        have h := g2 w hw hra
        refine ⟨h.1, ?_, h.2.2⟩
        apply erase_ne_nil hi
        intro h1
        apply hnw
        have hra' : c.recvAlive = true := hra
        simp [Chan.strong, h.1, hra', h1]
    · simp at hs
  | close i =>
    simp only [step] at hs
    split at hs
    · simp only [Option.some.injEq, Prod.mk.injEq] at hs; obtain ⟨hs, _⟩ := hs; subst hs
      refine ⟨?_, ?_⟩
      · intro hra; exact ⟨rfl, (g1 hra).2⟩
      · intro w hw; simp [LocalWaker.wake, LocalWaker.take] at hw
    · simp at hs
  | poll p w =>
    simp only [step] at hs
    split at hs
    · rename_i hra
      split at hs
      · simp only [Option.some.injEq, Prod.mk.injEq] at hs; obtain ⟨hs, _⟩ := hs; subst hs
        refine ⟨?_, ?_⟩
        · intro h; simp [hra] at h
        · intro w' hw' _
          have h := g2 w' hw' hra
          simp [h.1, h.2.1, h.2.2]
      · rename_i hopen
        split at hs
        · rename_i x t hb
          simp only [Option.some.injEq, Prod.mk.injEq] at hs; obtain ⟨hs, _⟩ := hs; subst hs
          refine ⟨?_, ?_⟩
          · intro h; simp [hra] at h
          · intro w' hw' _
            have h := g2 w' hw' hra
            simp [hb] at h
        · rename_i hb
          simp only [Option.some.injEq, Prod.mk.injEq] at hs; obtain ⟨hs, _⟩ := hs; subst hs
          refine ⟨?_, ?_⟩
          · intro h; simp [hra] at h
          · intro w' _ _
            simp only [Bool.or_eq_true, Bool.not_eq_true', not_or, beq_iff_eq, Chan.strong, hra, if_true] at hopen
            refine ⟨by simpa using hopen.2, ?_, hb⟩
            intro hn; apply hopen.1; have hn' : c.senders = [] := hn; simp [hn']
    · simp at hs
  | senderFromReceiver =>
    simp only [step] at hs
    split at hs
    · simp only [Option.some.injEq, Prod.mk.injEq] at hs; obtain ⟨hs, _⟩ := hs; subst hs
      refine ⟨g1, ?_⟩
      intro w hw hra
      have := g2 w hw hra
      simp [this.1, this.2.2]
    · simp at hs
  | dropReceiver =>
    simp only [step] at hs
    split at hs
    · simp only [Option.some.injEq, Prod.mk.injEq] at hs; obtain ⟨hs, _⟩ := hs; subst hs
      simp [Good]
    · simp at hs
  | quiet k =>
    simp only [step] at hs
    split at hs
    · simp only [Option.some.injEq, Prod.mk.injEq] at hs; obtain ⟨hs, _⟩ := hs; subst hs
      exact ⟨g1, g2⟩
    · simp at hs

theorem good_reach {c : Chan} (h : Reach c) : Good c := by
  obtain ⟨ops, os, hr⟩ := h
  exact run_induct good_step ops init c os good_init hr

/-! ## the flags are functions of the history -/

theorem step_flags (c : Chan) (op : Op) (c' : Chan) (o : Obs) (hs : step c op = some (c', o)) :
    c'.hasReceiver = (c.hasReceiver && !op.closes) ∧
    c'.recvAlive = (c.recvAlive && !(op == .dropReceiver)) := by
  cases op <;> simp only [step] at hs <;> (try split at hs) <;> (try split at hs) <;> (try split at hs) <;>
    simp only [Option.some.injEq, Prod.mk.injEq, reduceCtorEq] at hs <;>
    (try (obtain ⟨hs, _⟩ := hs; subst hs; simp_all [Op.closes]))

theorem run_flags : ∀ (ops : List Op) (c c' : Chan) (os : List Obs), run c ops = some (c', os) →
    c'.hasReceiver = (c.hasReceiver && !ops.any Op.closes) ∧
    c'.recvAlive = (c.recvAlive && !ops.any (· == .dropReceiver)) := by
  intro ops
  induction ops with
  | nil => intro c c' os hr; simp [run] at hr; simp [hr.1.symm]
  | cons op ops ih =>
    intro c c' os hr
    obtain ⟨c1, o, os', hs, hr', _⟩ := run_cons hr
    have h1 := step_flags c op c1 o hs
    have h2 := ih c1 c' os' hr'
    rw [h2.1, h2.2, h1.1, h1.2]
    simp [List.any_cons, Bool.and_assoc]

theorem received_skip (op : Op) (o : Obs) (t : List (Op × Obs))
    (h : ∀ x, o ≠ .polled (.ready (some x))) : received ((op, o) :: t) = received t := by
  cases o with
  | polled r =>
    cases r with
    | ready x =>
      cases x with
      | some x => exact absurd rfl (h x)
      | none => simp [received]
    | pending => simp [received]
  | _ => simp [received]

theorem dead_obs (c : Chan) (op : Op) (c1 : Chan) (o : Obs) (hs : step c op = some (c1, o))
    (hd : c.recvAlive = false) : ∀ x, o ≠ .polled (.ready (some x)) := by
  intro x ho
  subst ho
  cases op <;> simp only [step, hd, Bool.false_eq_true, if_false] at hs
  all_goals (try (split at hs))
  all_goals (try (split at hs))
  all_goals (try (simp at hs; done))
  rename_i k _
  simp only [Option.some.injEq, Prod.mk.injEq] at hs
  cases k <;> simp [Quiet.obs] at hs

/-- a dropped receiver stays dropped and receives nothing -/
theorem received_nil_of_dead : ∀ (ops : List Op) (c c' : Chan) (os : List Obs),
    c.recvAlive = false → run c ops = some (c', os) → received (ops.zip os) = [] := by
  intro ops
  induction ops with
  | nil => intro c c' os _ hr; simp [received]
  | cons op ops ih =>
    intro c c' os hd hr
    obtain ⟨c1, o, os', hs, hr', he⟩ := run_cons hr
    subst he
    have hf := (step_flags c op c1 o hs).2
    have hd1 : c1.recvAlive = false := by simp [hf, hd]
    have := ih c1 c' os' hd1 hr'
    rw [List.zip_cons_cons, received_skip op o _ (dead_obs c op c1 o hs hd), this]

/-! ## FIFO, exactly once -/

/-- generalised to an arbitrary start state: what was buffered plus what was accepted afterwards is
what was handed out plus a remainder, and the remainder is the buffer while the receiver lives -/
theorem fifo_gen : ∀ (ops : List Op) (c c' : Chan) (os : List Obs), run c ops = some (c', os) →
    ∃ rest, c.buffer ++ sentOk (ops.zip os) = received (ops.zip os) ++ rest ∧
      (c'.recvAlive = true → rest = c'.buffer) := by
  intro ops
  induction ops with
  | nil =>
    intro c c' os hr; simp [run] at hr; obtain ⟨h1, h2⟩ := hr; subst h1; subst h2
    exact ⟨c.buffer, by simp [sentOk, received], fun _ => rfl⟩
  | cons op ops ih =>
    intro c c' os hr
    obtain ⟨c1, o, os', hs, hr', he⟩ := run_cons hr
    subst he
    obtain ⟨rest, h1, h2⟩ := ih c1 c' os' hr'
    cases op with
    | send p i x =>
      simp only [step] at hs
      split at hs
      · split at hs
        · simp only [Option.some.injEq, Prod.mk.injEq] at hs; obtain ⟨hc, ho⟩ := hs; subst hc; subst ho
          refine ⟨rest, ?_, h2⟩
          simp only [List.zip_cons_cons, sentOk, received]
          simpa using h1
        · simp only [Option.some.injEq, Prod.mk.injEq] at hs; obtain ⟨hc, ho⟩ := hs; subst hc; subst ho
          exact ⟨rest, by simpa only [List.zip_cons_cons, sentOk, received] using h1, h2⟩
      · simp at hs
    | clone i =>
      simp only [step] at hs
      split at hs
      · simp only [Option.some.injEq, Prod.mk.injEq] at hs; obtain ⟨hc, ho⟩ := hs; subst hc; subst ho
        exact ⟨rest, by simpa only [List.zip_cons_cons, sentOk, received] using h1, h2⟩
      · simp at hs
    | dropSender i =>
      simp only [step] at hs
      split at hs
      · split at hs <;>
        · simp only [Option.some.injEq, Prod.mk.injEq] at hs; obtain ⟨hc, ho⟩ := hs; subst hc; subst ho
          exact ⟨rest, by simpa only [List.zip_cons_cons, sentOk, received] using h1, h2⟩
      · simp at hs
    | close i =>
      simp only [step] at hs
      split at hs
      · simp only [Option.some.injEq, Prod.mk.injEq] at hs; obtain ⟨hc, ho⟩ := hs; subst hc; subst ho
        exact ⟨rest, by simpa only [List.zip_cons_cons, sentOk, received] using h1, h2⟩
      · simp at hs
    | poll p w =>
      simp only [step] at hs
      split at hs
      · split at hs
        · simp only [Option.some.injEq, Prod.mk.injEq] at hs; obtain ⟨hc, ho⟩ := hs; subst hc; subst ho
          refine ⟨rest, ?_, h2⟩
          cases hb : c.buffer with
          | nil => simp only [hb, List.tail_nil] at h1; simpa [hb, sentOk, received] using h1
          | cons x t => simp only [hb, List.tail_cons] at h1; simp [hb, sentOk, received, h1]
        · split at hs
          · rename_i x t hb
            simp only [Option.some.injEq, Prod.mk.injEq] at hs; obtain ⟨hc, ho⟩ := hs; subst hc; subst ho
            refine ⟨rest, ?_, h2⟩
            simp only at h1
            simp [hb, sentOk, received, h1]
          · rename_i hb
            simp only [Option.some.injEq, Prod.mk.injEq] at hs; obtain ⟨hc, ho⟩ := hs; subst hc; subst ho
            exact ⟨rest, by simpa only [List.zip_cons_cons, sentOk, received] using h1, h2⟩
      · simp at hs
    | senderFromReceiver =>
      simp only [step] at hs
      split at hs
      · simp only [Option.some.injEq, Prod.mk.injEq] at hs; obtain ⟨hc, ho⟩ := hs; subst hc; subst ho
        exact ⟨rest, by simpa only [List.zip_cons_cons, sentOk, received] using h1, h2⟩
      · simp at hs
    | dropReceiver =>
      simp only [step] at hs
      split at hs
      · simp only [Option.some.injEq, Prod.mk.injEq] at hs; obtain ⟨hc, ho⟩ := hs; subst hc; subst ho
        have hdead := received_nil_of_dead ops _ c' os' rfl hr'
        have hfl := (run_flags ops _ c' os' hr').2
        refine ⟨c.buffer ++ sentOk (ops.zip os'), ?_, ?_⟩
        · simp [sentOk, received, hdead]
        · intro h; simp [hfl] at h
      · simp at hs
    | quiet k =>
      simp only [step] at hs
      split at hs
      · simp only [Option.some.injEq, Prod.mk.injEq] at hs; obtain ⟨hc, ho⟩ := hs; subst hc; subst ho
        refine ⟨rest, ?_, h2⟩
        rw [List.zip_cons_cons, received_skip _ _ _ (by intro x; cases k <;> simp [Quiet.obs])]
        cases k <;> simpa only [sentOk, Quiet.obs] using h1
      · simp at hs

/-! ## a closed or sender-less channel drains -/

theorem poll_closed (c : Chan) (p : RecvPath) (w : WakerId) (hra : c.recvAlive = true)
    (h : c.hasReceiver = false ∨ c.senders = []) :
    step c (.poll p w) = some ({ c with buffer := c.buffer.tail }, .polled (.ready c.buffer.head?)) := by
  simp only [step, hra, if_true]
  have : (c.strong == 1 || !c.hasReceiver) = true := by
    rcases h with h | h <;> simp [Chan.strong, h, hra]
  simp [this]

theorem run_poll_closed (c : Chan) (p : RecvPath) (w : WakerId) (ops : List Op) (hra : c.recvAlive = true)
    (h : c.hasReceiver = false ∨ c.senders = []) :
    run c (.poll p w :: ops) =
      (run { c with buffer := c.buffer.tail } ops).map
        (fun q => (q.1, Obs.polled (.ready c.buffer.head?) :: q.2)) := by
  simp only [run, poll_closed c p w hra h]
  cases run { c with buffer := c.buffer.tail } ops with
  | none => rfl
  | some q => rfl

/-- the receive operations of a list of (entry point, waker) pairs -/
def polls (ps : List (RecvPath × WakerId)) : List Op := ps.map (fun q => Op.poll q.1 q.2)

/-- a closed or sender-less channel with `buf` buffered, asked `buf.length + 1` times through **any
mixture** of `poll_next` and `recv()` with any wakers, hands out `buf` in order and then `None` -/
theorem drain_gen : ∀ (buf : List Nat) (ps : List (RecvPath × WakerId)) (c : Chan), c.buffer = buf →
    ps.length = buf.length + 1 → c.recvAlive = true →
    (c.hasReceiver = false ∨ c.senders = []) →
    (run c (polls ps)).map (·.2) =
      some (buf.map (fun x => Obs.polled (.ready (some x))) ++ [Obs.polled (.ready none)]) := by
  intro buf
  induction buf with
  | nil =>
    intro ps c hb hl hra h
    match ps, hl with
    | [q], _ => simp [polls, run_poll_closed c q.1 q.2 _ hra h, run, hb]
  | cons x t ih =>
    intro ps c hb hl hra h
    match ps, hl with
    | q :: ps', hl' =>
      have hl2 : ps'.length = t.length + 1 := by simpa using hl'
      have := ih ps' { c with buffer := c.buffer.tail } (by simp [hb]) hl2 hra h
      simp only [polls, List.map_cons] at this ⊢
      rw [run_poll_closed c q.1 q.2 _ hra h, Option.map_map]
      rw [Option.map_eq_some_iff] at this ⊢
      obtain ⟨r, hr, hr2⟩ := this
      exact ⟨r, hr, by simp [hr2, hb]⟩

/-! ## quiet operations -/

theorem quiet_step (c c' : Chan) (k : Quiet) (o : Obs) (hs : step c (.quiet k) = some (c', o)) :
    c' = c ∧ o = k.obs c ∧ o.woke = none := by
  simp only [step] at hs
  split at hs
  · simp only [Option.some.injEq, Prod.mk.injEq] at hs; obtain ⟨h1, h2⟩ := hs; subst h1; subst h2
    exact ⟨rfl, rfl, by cases k <;> rfl⟩
  · simp at hs

/-! ## two channels (`Pair`): every channel of a pair only makes `Chan` steps -/

theorem run_snoc : ∀ (ops : List Op) (c c1 c2 : Chan) (os : List Obs) (op : Op) (o : Obs),
    run c ops = some (c1, os) → step c1 op = some (c2, o) → run c (ops ++ [op]) = some (c2, os ++ [o]) := by
  intro ops
  induction ops with
  | nil =>
    intro c c1 c2 os op o hr hs
    simp [run] at hr; obtain ⟨h1, h2⟩ := hr; subst h1; subst h2
    simp [run, hs]
  | cons op0 ops ih =>
    intro c c1 c2 os op o hr hs
    obtain ⟨c0, o0, os', hs0, hr', he⟩ := run_cons hr
    subst he
    have := ih c0 c1 c2 os' op o hr' hs
    simp [run, hs0, this]

theorem reach_step {c c' : Chan} {op : Op} {o : Obs} (h : Reach c) (hs : step c op = some (c', o)) : Reach c' := by
  obtain ⟨ops, os, hr⟩ := h
  exact ⟨ops ++ [op], os ++ [o], run_snoc ops init c c' os op o hr hs⟩

theorem get_set_same (p : Pair) (s : Side) (c : Chan) : (p.set s c).get s = c := by
  cases s <;> rfl

theorem get_set_other (p : Pair) (s t : Side) (c : Chan) (h : t ≠ s) : (p.set s c).get t = p.get t := by
  cases s <;> cases t <;> first | rfl | exact absurd rfl h

theorem dropSender_senders {c c' : Chan} {i : Nat} {o : Obs} (hs : step c (.dropSender i) = some (c', o)) :
    i ∈ c.senders ∧ c'.senders = c.senders.erase i := by
  simp only [step] at hs
  by_cases hi : i ∈ c.senders
  · rw [if_pos hi] at hs
    refine ⟨hi, ?_⟩
    split at hs <;> (simp only [Option.some.injEq, Prod.mk.injEq] at hs; obtain ⟨h, _⟩ := hs; subst h; rfl)
  · rw [if_neg hi] at hs; simp at hs

/-- both channels of a pair only ever make `Chan` steps -/
theorem pair_step_reach (p p' : Pair) (op : POp) (os : List Obs) (hs : Pair.step p op = some (p', os))
    (h : ∀ s, Reach (p.get s)) : ∀ s, Reach (p'.get s) := by
  cases op with
  | on s0 op =>
    simp only [Pair.step] at hs
    split at hs
    · simp at hs
    · rename_i c' o hst
      simp only [Option.some.injEq, Prod.mk.injEq] at hs; obtain ⟨hp, _⟩ := hs; subst hp
      intro s
      by_cases hss : s = s0
      · subst hss; rw [get_set_same]; exact reach_step (h s) hst
      · rw [get_set_other _ _ _ _ hss]; exact h s
  | cloneFrom si i sj j =>
    simp only [Pair.step] at hs
    split at hs
    · simp at hs
    · split at hs
      · simp at hs
      · rename_i c1 o1 hd
        split at hs
        · simp at hs
        · rename_i c2 o2 hc
          simp only [Option.some.injEq, Prod.mk.injEq] at hs; obtain ⟨hp, _⟩ := hs; subst hp
          have h1 : ∀ s, Reach ((p.set si c1).get s) := by
            intro s
            by_cases hss : s = si
            · subst hss; rw [get_set_same]; exact reach_step (h s) hd
            · rw [get_set_other _ _ _ _ hss]; exact h s
          intro s
          by_cases hss : s = sj
          · subst hss; rw [get_set_same]; exact reach_step (h1 s) hc
          · rw [get_set_other _ _ _ _ hss]; exact h1 s

end Chan
end ActixNet
