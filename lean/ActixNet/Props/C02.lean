import ActixNet.Lemmas.SrvInv
import ActixNet.Lemmas.CounterRace
/-!
# C02 — per-worker concurrency never exceeds `max_concurrent_connections`

`ActixNet.Srv` models the accept thread's program with a yield point before every waker-queue pop,
before every listener `accept()`, and between `send` and the counter increment (window W1); the
schedule `sched` given to each `poll` runs arbitrary client / worker / server actions at those
points, and arbitrary actions run between iterations (`Op.env`) and inside window W2
(`Op.finishW2`).  The theorems quantify over **all** operation sequences and schedules, all limits
≥ 1 and any number (1..512) of workers.  The counter kernels (`Counter::new/inc/dec`) are the
definitions regenerated from worker.rs.
-/
namespace ActixNet.C02
open ActixNet ActixNet.Srv

/-- connections in progress at worker `w`: dispatched to it and not yet finished -/
def inProgress (s : St) (w : Nat) : Nat := (s.wk w).queue.length + (s.wk w).inflight.length

/-- **C02**: as long as no worker has faulted, at no point of any history does a worker have more
than `limit` connections in progress. -/
theorem limit_respected (cfg : Cfg) (ok : CfgOk cfg) (kinds : List Kind) (ops : List Op)
    (hf : ∀ op ∈ ops, op.faultFree) (w : Nat) (hw : w < cfg.nIdx) :
    inProgress (run cfg (init cfg kinds) ops) w ≤ cfg.limit := by
  have h := run_inv ok ops _ (init_inv cfg ok kinds) hf
  exact GW.q_le (h.1.2 w hw)

/-- the same bound inside window W1 and at every other yield point: it is part of an invariant that
every environment action and every step of the accept program preserves (`Good`), not only a
property of iteration boundaries -/
theorem limit_respected_at_yield_points (cfg : Cfg) (s : St) (g : Good cfg s) (w : Nat) (hw : w < cfg.nIdx) :
    inProgress s w ≤ cfg.limit := GW.q_le (g.2 w hw)

/-- the raw counter tracks the connections in progress (biased by one, plus the outstanding
increment of window W1) -/
theorem counter_tracks_in_progress (cfg : Cfg) (ok : CfgOk cfg) (kinds : List Kind) (ops : List Op)
    (hf : ∀ op ∈ ops, op.faultFree) (w : Nat) (hw : w < cfg.nIdx) :
    ((run cfg (init cfg kinds) ops).wk w).c = 1 + inProgress (run cfg (init cfg kinds) ops) w := by
  have h := run_inv ok ops _ (init_inv cfg ok kinds) hf
  have gw := h.1.2 w hw
  have hp : (core (run cfg (init cfg kinds) ops)).pend = none := h.2
  simp only [GoodWC, hp, pendIs_none] at gw
  unfold GW at gw
  simpa [inProgress, qOf, core] using gw.1

/-- an available worker really has spare capacity -/
theorem available_has_capacity (cfg : Cfg) (ok : CfgOk cfg) (kinds : List Kind) (ops : List Op)
    (hf : ∀ op ∈ ops, op.faultFree) (w : Nat) (hw : w < cfg.nIdx)
    (hav : (run cfg (init cfg kinds) ops).avail w = true) :
    inProgress (run cfg (init cfg kinds) ops) w < cfg.limit := by
  have h := run_inv ok ops _ (init_inv cfg ok kinds) hf
  have gw := h.1.2 w hw
  have hp : (core (run cfg (init cfg kinds) ops)).pend = none := h.2
  simp only [GoodWC, hp, pendIs_none] at gw
  unfold GW at gw
  have h1 := gw.1
  have h2 := gw.2.1 hav
  simp only [inProgress, qOf, core, Bool.false_eq_true, ↓reduceIte] at *
  omega

/-- **Connections beyond the limit stay in the listener backlog.**  In any reachable state of a
fault-free history in which every worker is saturated, no availability bit is set, and `accept` on
any listener returns at once: it takes nothing from the backlog and dispatches nothing (whatever
its fuel, whatever the schedule). -/
theorem beyond_limit_stays_in_backlog (cfg : Cfg) (ok : CfgOk cfg) (kinds : List Kind) (ops : List Op)
    (hf : ∀ op ∈ ops, op.faultFree)
    (hsat : ∀ w, w < cfg.nIdx → inProgress (run cfg (init cfg kinds) ops) w = cfg.limit) (fuel l : Nat) :
    anyAvail cfg (run cfg (init cfg kinds) ops) = false ∧
    accept cfg (fuel + 1) (run cfg (init cfg kinds) ops) l = run cfg (init cfg kinds) ops := by
  have hany : anyAvail cfg (run cfg (init cfg kinds) ops) = false := by
    cases h : anyAvail cfg (run cfg (init cfg kinds) ops) with
    | false => rfl
    | true =>
      unfold anyAvail at h
      obtain ⟨w, hw, hav⟩ := List.any_eq_true.mp h
      have hw' : w < cfg.nIdx := List.mem_range.mp hw
      have := available_has_capacity cfg ok kinds ops hf w hw' hav
      have := hsat w hw'
      omega
  refine ⟨hany, ?_⟩
  simp only [accept, hany]
  split <;> rfl

/-! ### Non-vacuity: a concrete history through window W1 satisfies the hypotheses -/

def demoCfg : Cfg := { limit := 1, nIdx := 2 }
def demoOps : List Op :=
  [.env (.connect 0), .env (.connect 0), .env (.connect 0),
   .poll [.listener 0, .waker] [[], [.recv 0, .finishNow 0 none], [], []],
   .env (.recv 1), .poll [.waker] []]

example : CfgOk demoCfg := ⟨by decide, by decide, by decide⟩
example : ∀ op ∈ demoOps, op.faultFree := by
  intro op hop
  simp [demoOps] at hop
  rcases hop with rfl | rfl | rfl | rfl | rfl | rfl <;> simp [Op.faultFree, EnvAct.isDie, NoDie]
-- three connections, limit 1, two workers: all three are dispatched (one through window W1)
example : (run demoCfg (init demoCfg [.tcp]) demoOps).dispatched.length = 3 := by decide
-- both workers saturated (limit 1), a third connection waits: the hypotheses of `beyond_limit_stays_in_backlog` hold
def satOps : List Op :=
  [.env (.connect 0), .env (.connect 0), .env (.connect 0), .poll [.listener 0, .waker] []]
example : (∀ w, w < demoCfg.nIdx → inProgress (run demoCfg (init demoCfg [.tcp]) satOps) w = demoCfg.limit) ∧
    ((run demoCfg (init demoCfg [.tcp]) satOps).lst 0).backlog = [(2, 0)] := by
  refine ⟨?_, by decide⟩
  intro w hw
  have : w = 0 ∨ w = 1 := by simp [demoCfg] at hw; omega
  rcases this with rfl | rfl <;> decide


/-- The accept thread's increments and the worker threads' decrements of one worker's counter are concurrent in the
    real server.  Each is one atomic read-modify-write (T1), so an execution is an interleaving of whole steps; for
    EVERY interleaving with as many decrements as increments the counter returns to its value: no update is lost,
    which is what lets the sequential model of this file stand for the threaded code.  The engine's `k-race` op runs
    the two real threads against each other (seed11 C03-22 made `inc` a load / store pair). -/
theorem concurrent_counter_updates_not_lost (ops : List Bool) (v : Nat)
    (hb : ops.count true = ops.count false) (hv : ops.count false ≤ v) :
    Counter.applyOps v ops = v := Counter.interleaving_irrelevant ops v hb hv
example : Counter.applyOps 3 [true, false, false, true, true, false] = 3 := by decide

end ActixNet.C02
