import ActixNet.Lemmas.SrvSound
/-!
# Conservation of connections through the accept loop (C01)

`CInv cfg s` (`NP` + `CJ s []`) is preserved by every operation of the stepped system, with worker
deaths, replacements, accept errors, pause / resume / stop, at every yield point.  `CJ s held`:
the accept thread has failed (sticky fault — C08 shows which faults are unreachable), or
* every connection id created so far occurs **exactly once** in: the listener backlogs, the worker
  channels, the connections in progress, the finished ones, the dropped ones, and `held` (what the
  accept thread has taken from `accept()` and not yet placed) — `ConsP.one`;
* the dispatch log is covered by the worker side (`ConsP.disp`), hence no id is dispatched twice;
* a connection waiting on listener `l` carries token `l` (`ConsP.tag`).
The proof is one Hoare lemma per function of `Model/Srv.lean`; sums over the function-valued
`lst` / `wk` are `sumTo`, updated pointwise by `sumTo_updF`.
-/
namespace ActixNet.Srv
open ActixNet

/-- number of occurrences of connection id `i` in `l` -/
def ids (l : List Conn) (i : Nat) : Nat := l.countP (fun c => c.1 == i)

@[simp] theorem ids_nil (i : Nat) : ids [] i = 0 := rfl
@[simp] theorem ids_append (a b : List Conn) (i : Nat) : ids (a ++ b) i = ids a i + ids b i := by
  simp [ids, List.countP_append]
theorem ids_cons (c : Conn) (l : List Conn) (i : Nat) : ids (c :: l) i = ids l i + (if c.1 = i then 1 else 0) := by
  simp [ids, List.countP_cons]
@[simp] theorem ids_single (c : Conn) (i : Nat) : ids [c] i = (if c.1 = i then 1 else 0) := by
  simp [ids_cons]

def sumTo : Nat → (Nat → Nat) → Nat
  | 0, _ => 0
  | n + 1, f => sumTo n f + f n

theorem sumTo_congr {n : Nat} {f g : Nat → Nat} (h : ∀ j, j < n → f j = g j) : sumTo n f = sumTo n g := by
  induction n with
  | zero => rfl
  | succ n ih =>
    simp only [sumTo]
    rw [ih (fun j hj => h j (by omega)), h n (by omega)]

theorem sumTo_upd {n : Nat} (f : Nat → Nat) (k v : Nat) (hk : k < n) :
    sumTo n (fun j => if j = k then v else f j) + f k = sumTo n f + v := by
  induction n with
  | zero => omega
  | succ n ih =>
    simp only [sumTo]
    by_cases hkn : k = n
    · subst hkn
      have : sumTo k (fun j => if j = k then v else f j) = sumTo k f :=
        sumTo_congr (fun j hj => by simp [show j ≠ k by omega])
      rw [this]; simp; omega
    · have := ih (by omega)
      simp only [show n ≠ k from fun h => hkn h.symm, ↓reduceIte]
      omega

/-- the part of the state that says where each connection is -/
structure Places where
  bl : Nat → List Conn
  nLst : Nat
  q : Nat → List Conn
  inf : Nat → List Conn
  nWk : Nat
  fin : List Conn
  drp : List Conn
  disp : List (Conn × Nat)
  nextConn : Nat

def places (s : St) : Places :=
  ⟨fun l => (s.lst l).backlog, s.nLst, fun w => (s.wk w).queue, fun w => (s.wk w).inflight, s.nWk,
   s.finished, s.dropped, s.dispatched, s.nextConn⟩

/-- occurrences of id `i` in the listener backlogs -/
def Places.B (p : Places) (i : Nat) : Nat := sumTo p.nLst (fun l => ids (p.bl l) i)
/-- occurrences of id `i` at the workers (channel or in progress) -/
def Places.W (p : Places) (i : Nat) : Nat := sumTo p.nWk (fun w => ids (p.q w) i + ids (p.inf w) i)

/-- `held`: the connection the accept thread has taken from `accept()` and not yet placed -/
structure ConsP (p : Places) (held : List Conn) : Prop where
  /-- every connection ever created is in exactly one place -/
  one : ∀ i, p.B i + p.W i + ids p.fin i + ids p.drp i + ids held i = if i < p.nextConn then 1 else 0
  /-- whatever was dispatched went to a worker (and is still there, finished, or died with it) -/
  disp : ∀ i, ids (p.disp.map (·.1)) i ≤ p.W i + ids p.fin i + ids p.drp i
  /-- a connection waiting on listener `l` carries token `l` -/
  tag : ∀ l c, c ∈ p.bl l → c.2 = l
  /-- nothing waits on a listener that does not exist -/
  out : ∀ l, p.nLst ≤ l → p.bl l = []

/-- conservation, or the accept thread has already failed (C08 shows which failures are impossible) -/
def CJ (s : St) (held : List Conn) : Prop := s.fault.isSome = true ∨ ConsP (places s) held

def PF (s s' : St) : Prop := places s' = places s ∧ s'.fault = s.fault

theorem CJ.pf {s s' held} (f : PF s s') (h : CJ s held) : CJ s' held := by
  unfold CJ at *; rw [f.1, f.2]; exact h
theorem PF.refl (s : St) : PF s s := ⟨rfl, rfl⟩
theorem PF.trans {a b c : St} (h1 : PF a b) (h2 : PF b c) : PF a c := ⟨h2.1.trans h1.1, h2.2.trans h1.2⟩

theorem envStep_fault (cfg : Cfg) (s : St) (a : EnvAct) : (envStep cfg s a).1.fault = s.fault := by
  cases a <;> simp only [envStep, pushWq] <;> repeat' split
  all_goals rfl

theorem ids_pick {W : Wk} {cid : Option Nat} {c : Conn} (h : pickInflight W cid = some c) (i : Nat) :
    ids (W.inflight.eraseP (fun x => x.1 == c.1)) i + (if c.1 = i then 1 else 0) = ids W.inflight i := by
  have hm : ∃ x ∈ W.inflight, x.1 = c.1 := by
    cases cid with
    | none =>
      simp only [pickInflight] at h
      exact ⟨c, List.mem_of_mem_head? (by rw [h]; rfl), rfl⟩
    | some k =>
      simp only [pickInflight] at h
      exact ⟨c, List.mem_of_find?_eq_some h, rfl⟩
  generalize W.inflight = l at hm
  induction l with
  | nil => obtain ⟨x, hx, _⟩ := hm; cases hx
  | cons y ys ih =>
    by_cases hy : y.1 = c.1
    · simp only [List.eraseP_cons, hy, beq_self_eq_true, cond_true, ids_cons]
    · have : ∃ x ∈ ys, x.1 = c.1 := by
        obtain ⟨x, hx, hxc⟩ := hm
        rcases List.mem_cons.mp hx with rfl | hx
        · exact absurd hxc hy
        · exact ⟨x, hx, hxc⟩
      have := ih this
      simp only [List.eraseP_cons, show (y.1 == c.1) = false by simpa using hy, cond_false, ids_cons]
      omega


theorem sumTo_updF {α : Type} (n : Nat) (F : Nat → α) (m : α → Nat) (k : Nat) (v : α) (hk : k < n) :
    sumTo n (fun j => m (upd F k v j)) + m (F k) = sumTo n (fun j => m (F j)) + m v := by
  have : (fun j => m (upd F k v j)) = fun j => if j = k then m v else m (F j) := by
    funext j; simp only [upd]; split <;> rfl
  rw [this]; exact sumTo_upd (fun j => m (F j)) k (m v) hk

theorem sumTo_updF_ge {α : Type} (n : Nat) (F : Nat → α) (m : α → Nat) (k : Nat) (v : α) (hk : n ≤ k) :
    sumTo n (fun j => m (upd F k v j)) = sumTo n (fun j => m (F j)) :=
  sumTo_congr (fun j hj => by simp [upd, show j ≠ k by omega])

theorem places_B (s : St) (i : Nat) : (places s).B i = sumTo s.nLst (fun l => ids (s.lst l).backlog i) := rfl
theorem places_W (s : St) (i : Nat) :
    (places s).W i = sumTo s.nWk (fun w => ids (s.wk w).queue i + ids (s.wk w).inflight i) := rfl

theorem envStep_consP (cfg : Cfg) (s : St) (a : EnvAct) (held : List Conn) (h : ConsP (places s) held) :
    ConsP (places (envStep cfg s a).1) held := by
  cases a with
  | connect l =>
    simp only [envStep]
    split
    · rename_i hl
      split
      · exact h
      · refine ⟨fun i => ?_, fun i => ?_, fun l' c hc => ?_, fun l' hl' => ?_⟩
        rotate_right
        · have hl'' : s.nLst ≤ l' := hl'
          have := h.out l' hl'
          simp only [places, upd] at this ⊢
          rw [if_neg (by omega)]; exact this
        · have hB := sumTo_updF s.nLst s.lst (fun L => ids L.backlog i) l
            { s.lst l with backlog := (s.lst l).backlog ++ [(s.nextConn, l)], edge := (s.lst l).edge || (s.lst l).registered } hl
          have h1 := h.one i
          simp only [places_B, places_W] at *
          simp only [places, ids_append, ids_single] at *
          grind
        · exact h.disp i
        · simp only [places, upd] at hc
          split at hc
          · rename_i hll; subst hll
            rcases List.mem_append.mp hc with hc | hc
            · exact h.tag _ c hc
            · simp at hc; rw [hc]
          · exact h.tag l' c hc
    · exact h
  | recv w =>
    simp only [envStep]
    split
    · rename_i hw
      split
      · split
        · exact h
        · rename_i c q hq
          have key : ∀ i, (places { s with wk := upd s.wk w { s.wk w with queue := q, inflight := (s.wk w).inflight ++ [c] } }).W i = (places s).W i := by
            intro i
            have hW := sumTo_updF s.nWk s.wk (fun W => ids W.queue i + ids W.inflight i) w
              { s.wk w with queue := q, inflight := (s.wk w).inflight ++ [c] } hw
            simp only [places_W]
            simp only [hq, ids_append, ids_cons, ids_nil] at hW
            omega
          refine ⟨fun i => ?_, fun i => ?_, h.tag, h.out⟩
          · have := h.one i; rw [← key i] at this; exact this
          · have := h.disp i; rw [← key i] at this; exact this
      · exact h
    · exact h
  | finish w cid =>
    simp only [envStep]
    split
    · rename_i hw
      split
      · exact h
      · rename_i c hc
        refine ⟨fun i => ?_, fun i => ?_, h.tag, h.out⟩
        all_goals
          have hW := sumTo_updF s.nWk s.wk (fun W => ids W.queue i + ids W.inflight i) w
            { s.wk w with inflight := (s.wk w).inflight.eraseP (fun x => x.1 == c.1), c := (s.wk w).c - 1,
                          tokp := if Src.wcDecCrossed (s.wk w).c cfg.limit then (s.wk w).tokp + 1 else (s.wk w).tokp } hw
          have hp := ids_pick hc i
          have h1 := h.one i
          have h2 := h.disp i
          simp only [places_B, places_W] at *
          simp only [places, ids_append, ids_single] at *
          grind
    · exact h
  | push w =>
    simp only [envStep]
    split
    · split
      · refine ⟨fun i => ?_, fun i => ?_, h.tag, h.out⟩
        all_goals
          rename_i hw _
          have hW := sumTo_updF s.nWk s.wk (fun W => ids W.queue i + ids W.inflight i) w
            { s.wk w with tokp := (s.wk w).tokp - 1 } hw
          have h1 := h.one i
          have h2 := h.disp i
          simp only [places_B, places_W] at *
          simp only [places, pushWq] at *
          grind
      · exact h
    · exact h
  | finishNow w cid =>
    simp only [envStep]
    split
    · rename_i hw
      split
      · exact h
      · rename_i c hc
        have key : ConsP (places { s with wk := upd s.wk w { s.wk w with inflight := (s.wk w).inflight.eraseP (fun x => x.1 == c.1), c := (s.wk w).c - 1 }, finished := s.finished ++ [c] }) held := by
          refine ⟨fun i => ?_, fun i => ?_, h.tag, h.out⟩
          all_goals
            have hW := sumTo_updF s.nWk s.wk (fun W => ids W.queue i + ids W.inflight i) w
              { s.wk w with inflight := (s.wk w).inflight.eraseP (fun x => x.1 == c.1), c := (s.wk w).c - 1 } hw
            have hp := ids_pick hc i
            have h1 := h.one i
            have h2 := h.disp i
            simp only [places_B, places_W] at *
            simp only [places, ids_append, ids_single] at *
            grind
        split
        · exact key
        · exact key
    · exact h
  | die w =>
    simp only [envStep]
    split
    · rename_i hw
      split
      · refine ⟨fun i => ?_, fun i => ?_, h.tag, h.out⟩
        all_goals
          have hW := sumTo_updF s.nWk s.wk (fun W => ids W.queue i + ids W.inflight i) w
            { s.wk w with alive := false, queue := [] } hw
          have h1 := h.one i
          have h2 := h.disp i
          simp only [places_B, places_W] at *
          simp only [places, ids_append, ids_nil] at *
          grind
      · exact h
    · exact h
  | cmd c =>
    simp only [envStep]
    split <;> exact h
  | restart idx =>
    simp only [envStep]
    split
    · refine ⟨fun i => ?_, fun i => ?_, h.tag, h.out⟩
      all_goals
        have hW := sumTo_updF_ge s.nWk s.wk (fun W => ids W.queue i + ids W.inflight i) s.nWk (initWk idx) (Nat.le_refl _)
        have h1 := h.one i
        have h2 := h.disp i
        simp only [places_B, places_W] at *
        simp only [places, pushWq, sumTo, upd, initWk, ids_nil, ↓reduceIte] at *
        grind
    · exact h
  | advance ms => exact h
  | inject l e =>
    simp only [envStep]
    split
    · rename_i hl
      have : places { s with lst := upd s.lst l { s.lst l with inject := (s.lst l).inject ++ [e] } } = places s := by
        simp only [places]
        congr 1
        funext j; by_cases hj : j = l <;> simp [upd, hj]
      rw [this]; exact h
    · exact h


theorem envStep_cj (cfg : Cfg) (s : St) (a : EnvAct) (held : List Conn) (h : CJ s held) : CJ (envStep cfg s a).1 held := by
  rcases h with h | h
  · left; rw [envStep_fault]; exact h
  · right; exact envStep_consP cfg s a held h

theorem runEnv_cj (cfg : Cfg) : ∀ (as : List EnvAct) (s : St) (held : List Conn), CJ s held → CJ (runEnv cfg s as) held := by
  intro as; induction as with
  | nil => intro s held h; exact h
  | cons a as ih =>
    intro s held h
    simp only [runEnv]
    exact ih _ held (CJ.pf (s := (envStep cfg s a).1) ⟨rfl, rfl⟩ (envStep_cj cfg s a held h))

theorem yieldPt_cj (cfg : Cfg) (s : St) (held : List Conn) (h : CJ s held) : CJ (yieldPt cfg s) held := by
  unfold yieldPt; split
  · exact CJ.pf (s := s) ⟨rfl, rfl⟩ h
  · exact runEnv_cj cfg _ _ held (CJ.pf (s := s) ⟨rfl, rfl⟩ h)

theorem setAvail_cj (s : St) (idx : Nat) (v : Bool) (held : List Conn) (h : CJ s held) : CJ (setAvail s idx v) held := by
  unfold setAvail; split
  · exact CJ.pf (s := s) ⟨rfl, rfl⟩ h
  · left; rfl

theorem setNext_cj (s : St) (held : List Conn) (h : CJ s held) : CJ (setNext s) held := by
  unfold setNext; split
  · left; rfl
  · exact CJ.pf (s := s) ⟨rfl, rfl⟩ h

theorem register_pf (s : St) (l : Nat) : PF s (register s l) := by
  unfold register; simp only; split
  · exact PF.refl s
  · refine ⟨?_, rfl⟩
    simp only [places]; congr 1
    funext j; by_cases hj : j = l <;> simp [upd, hj]
theorem deregister_pf (s : St) (l : Nat) : PF s (deregister s l) := by
  refine ⟨?_, rfl⟩
  simp only [places, deregister]; congr 1
  funext j; by_cases hj : j = l <;> simp [upd, hj]
theorem setTimeout_pf (s : St) (d : Nat) : PF s (setTimeout s d) := by
  unfold setTimeout; split
  · split <;> exact ⟨rfl, rfl⟩
  · exact ⟨rfl, rfl⟩
theorem setDeadline_pf (s : St) (l : Nat) (d : Option Nat) :
    PF s { s with lst := upd s.lst l { s.lst l with deadline := d } } := by
  refine ⟨?_, rfl⟩
  simp only [places]; congr 1
  funext j; by_cases hj : j = l <;> simp [upd, hj]

theorem deregisterAllFrom_pf : ∀ (ls : List Nat) (s : St), PF s (deregisterAllFrom s ls) := by
  intro ls; induction ls with
  | nil => intro s; exact PF.refl s
  | cons l ls ih =>
    intro s
    simp only [deregisterAllFrom]
    refine PF.trans ?_ (ih _)
    split
    · exact PF.trans (setDeadline_pf s l none) (deregister_pf _ l)
    · exact setDeadline_pf s l none

theorem registerAllFrom_pf : ∀ (ls : List Nat) (s : St), PF s (registerAllFrom s ls) := by
  intro ls; induction ls with
  | nil => intro s; exact PF.refl s
  | cons l ls ih =>
    intro s
    simp only [registerAllFrom]
    exact PF.trans (PF.trans (setDeadline_pf s l none) (register_pf _ l)) (ih _)

theorem processTimeoutFrom_pf (now : Nat) : ∀ (ls : List Nat) (s : St), PF s (processTimeoutFrom s now ls) := by
  intro ls; induction ls with
  | nil => intro s; exact PF.refl s
  | cons l ls ih =>
    intro s
    simp only [processTimeoutFrom]
    split
    · exact ih s
    · rename_i inst _
      refine PF.trans ?_ (ih _)
      have h1 := setDeadline_pf s l none
      split
      · exact PF.trans h1 (PF.trans (setDeadline_pf _ l (some inst)) (setTimeout_pf _ _))
      · split
        · exact PF.trans h1 (register_pf _ l)
        · exact h1

theorem processTimeout_pf (s : St) : PF s (processTimeout s) := by
  unfold processTimeout; split
  · exact PF.refl s
  · exact PF.trans (b := { s with timeout := none }) ⟨rfl, rfl⟩ (processTimeoutFrom_pf _ _ _)


theorem sendPrim_cj (s : St) (w : Nat) (c : Conn) (hw : w < s.nWk) (h : CJ s [c]) : CJ (sendPrim s w c) [] := by
  rcases h with h | h
  · left; exact h
  · right
    refine ⟨fun i => ?_, fun i => ?_, h.tag, h.out⟩
    all_goals
      have hW := sumTo_updF s.nWk s.wk (fun W => ids W.queue i + ids W.inflight i) w
        { s.wk w with queue := (s.wk w).queue ++ [c] } hw
      have h1 := h.one i
      have h2 := h.disp i
      simp only [places_B, places_W] at *
      simp only [places, sendPrim, List.map_append, List.map_cons, List.map_nil, ids_append, ids_single, ids_nil] at *
      grind

theorem incPrim_cj (cfg : Cfg) (s : St) (w idx : Nat) (held : List Conn) (h : CJ s held) : CJ (incPrim cfg s w idx) held := by
  have hv : PF s { s with wk := upd s.wk w { s.wk w with c := (s.wk w).c + 1 }, pend := none } := by
    refine ⟨?_, rfl⟩
    simp only [places]; congr 1 <;> (funext j; by_cases hj : j = w <;> simp [upd, hj])
  unfold incPrim; simp only
  split
  · exact h.pf hv
  · exact setAvail_cj _ idx false held (h.pf hv)

theorem sendFail_cj (s : St) (w : Nat) (c : Conn) (h : CJ s [c]) :
    CJ (sendFail s w c).1 (if (sendFail s w c).2 then [] else [c]) := by
  have h1 : CJ (removeNext s w) [c] := by
    unfold removeNext; simp only
    exact setAvail_cj _ _ false _ (CJ.pf (s := s) ⟨rfl, rfl⟩ h)
  unfold sendFail; simp only
  generalize removeNext s w = s1 at h1
  split
  · simp only [↓reduceIte]
    rcases h1 with h1 | h1
    · left; exact h1
    · right
      refine ⟨fun i => ?_, fun i => ?_, h1.tag, h1.out⟩
      · have := h1.one i
        simp only [places_B, places_W] at *
        simp only [places, ids_append, ids_single, ids_nil] at *
        grind
      · have := h1.disp i
        simp only [places_B, places_W] at *
        simp only [places, ids_append, ids_single, ids_nil] at *
        grind
  · split
    · exact CJ.pf (s := s1) ⟨rfl, rfl⟩ h1
    · exact h1

theorem sendConnection_cj {cfg} (ok : CfgOk cfg) {s} (np : NP cfg s) (hne : s.handles ≠ []) (c : Conn) (h : CJ s [c]) :
    CJ (sendConnection cfg s c).1 (if (sendConnection cfg s c).2 then [] else [c]) := by
  unfold sendConnection
  split
  · rename_i hf; left; exact hf
  · obtain ⟨w, hw, hwm⟩ := handles_next_some np.sound hne
    rw [hw]
    simp only
    split
    · simp only [↓reduceIte]
      have hwl : w < s.nWk := np.sound.hlt w hwm
      exact setNext_cj _ _ (incPrim_cj cfg _ w _ _ (yieldPt_cj cfg _ _ (sendPrim_cj s w c hwl h)))
    · exact sendFail_cj s w c h

theorem forcedSend_cj {cfg} (ok : CfgOk cfg) : ∀ (fuel : Nat) (s : St) (c : Conn), NP cfg s → s.handles ≠ [] → CJ s [c] →
    CJ (forcedSend cfg fuel s c) [] := by
  intro fuel; induction fuel with
  | zero => intro s c _ _ _; left; rfl
  | succ f ih =>
    intro s c np hne h
    simp only [forcedSend]
    obtain ⟨n1, n2⟩ := sendConnection_np ok np hne c
    have j1 := sendConnection_cj ok np hne c h
    generalize sendConnection cfg s c = r at n1 n2 j1
    obtain ⟨s1, b⟩ := r
    cases b with
    | true => exact j1
    | false => exact ih s1 c n1 (n2 rfl) j1

theorem acceptOne_cj {cfg} (ok : CfgOk cfg) : ∀ (fuel : Nat) (s : St) (c : Conn), NP cfg s → s.handles ≠ [] → CJ s [c] →
    CJ (acceptOne cfg fuel s c) [] := by
  intro fuel; induction fuel with
  | zero => intro s c _ _ _; left; rfl
  | succ f ih =>
    intro s c np hne h
    simp only [acceptOne]
    split
    · rename_i hf; left; exact hf
    · obtain ⟨w, hw, hwm⟩ := handles_next_some np.sound hne
      rw [hw]; simp only
      split
      · obtain ⟨n1, n2⟩ := sendConnection_np ok np hne c
        have j1 := sendConnection_cj ok np hne c h
        generalize sendConnection cfg s c = r at n1 n2 j1
        obtain ⟨s1, b⟩ := r
        cases b with
        | true => exact j1
        | false => exact ih s1 c n1 (n2 rfl) j1
      · have n1 := setAvail_np np (s.wk w).idx false (idx_lt_512 ok np.sound hwm) (by intro hf; cases hf)
        have hh1 : (setAvail s (s.wk w).idx false).handles = s.handles := by unfold setAvail; split <;> rfl
        obtain ⟨n2, hh2⟩ := setNext_np n1 (by rw [hh1]; exact hne)
        have hne2 : (setNext (setAvail s (s.wk w).idx false)).handles ≠ [] := by rw [hh2, hh1]; exact hne
        have j2 := setNext_cj _ _ (setAvail_cj s (s.wk w).idx false _ h)
        split
        · exact forcedSend_cj ok _ _ c n2 hne2 j2
        · exact ih _ c n2 hne2 j2

theorem acceptSys_cj (s : St) (l : Nat) (h : CJ s []) :
    CJ (acceptSys s l).1 (match (acceptSys s l).2 with | .conn c => [c] | _ => []) ∧
    (∀ c, (acceptSys s l).2 = .conn c → s.fault = none → c.2 = l) := by
  have hinj : ∀ es, PF s { s with lst := upd s.lst l { s.lst l with inject := es } } := by
    intro es
    refine ⟨?_, rfl⟩
    simp only [places]; congr 1
    funext j; by_cases hj : j = l <;> simp [upd, hj]
  unfold acceptSys; simp only
  split
  · rename_i e es _
    cases e with
    | kind k =>
      simp only
      split
      · exact ⟨CJ.pf (s := { s with lst := upd s.lst l { s.lst l with inject := es } }) ⟨rfl, rfl⟩ (h.pf (hinj es)), by intro c hc; cases hc⟩
      · split
        · exact ⟨h.pf (hinj es), by intro c hc; cases hc⟩
        · exact ⟨h.pf (hinj es), by intro c hc; cases hc⟩
    | emfile => exact ⟨h.pf (hinj es), by intro c hc; cases hc⟩
  · split
    · exact ⟨h, by intro c hc; cases hc⟩
    · rename_i c b hb
      simp only
      refine ⟨?_, ?_⟩
      · rcases h with h | h
        · left; exact h
        · right
          have hl : l < s.nLst := by
            apply Nat.lt_of_not_le; intro hge
            have := h.out l hge; simp only [places, hb] at this; cases this
          refine ⟨fun i => ?_, fun i => ?_, fun l' c' hc' => ?_, fun l' hl' => ?_⟩
          rotate_right
          · have hl'' : s.nLst ≤ l' := hl'
            have := h.out l' hl'
            simp only [places, upd] at this ⊢
            rw [if_neg (by omega)]; exact this
          · have hB := sumTo_updF s.nLst s.lst (fun L => ids L.backlog i) l { s.lst l with backlog := b } hl
            have h1 := h.one i
            simp only [places_B, places_W] at *
            simp only [places, hb, ids_cons, ids_nil] at *
            grind
          · exact h.disp i
          · simp only [places, upd] at hc'
            split at hc'
            · rename_i hll; subst hll
              exact h.tag _ c' (by simp only [places, hb]; exact List.mem_cons_of_mem _ hc')
            · exact h.tag l' c' hc'
      · intro c' hc' hf
        cases hc'
        rcases h with h | h
        · rw [hf] at h; cases h
        · exact h.tag l c (by simp only [places, hb]; exact List.mem_cons_self)


theorem accept_cj {cfg} (ok : CfgOk cfg) : ∀ (fuel : Nat) (s : St) (l : Nat), NP cfg s → CJ s [] → CJ (accept cfg fuel s l) [] := by
  intro fuel; induction fuel with
  | zero => intro s l _ _; left; rfl
  | succ f ih =>
    intro s l np h
    simp only [accept]
    split
    · exact h
    · split
      · exact h
      · rename_i hany
        have hany' : anyAvail cfg s = true := by simpa using hany
        have n0 := yieldPt_np cfg s np
        have j0 := yieldPt_cj cfg s [] h
        have fr := acceptSys_vframe (yieldPt cfg s) l
        have hav : (acceptSys (yieldPt cfg s) l).1.avail = s.avail := by
          have := congrArg View.avail fr.1; simp only [view] at this; rw [this, yieldPt_avail]
        have j1 := (acceptSys_cj (yieldPt cfg s) l j0).1
        generalize acceptSys (yieldPt cfg s) l = r at fr hav j1
        obtain ⟨s1, res⟩ := r
        simp only at fr hav j1 ⊢
        have n1 : NP cfg s1 := n0.vframe fr
        have hne1 : s1.handles ≠ [] := anyAvail_handles n1.sound (by unfold anyAvail at hany' ⊢; rw [hav]; exact hany')
        cases res with
        | conn c => exact ih _ l (acceptOne_np ok _ s1 c n1 hne1) (acceptOne_cj ok _ s1 c n1 hne1 j1)
        | wouldBlock => exact j1
        | connErr => exact ih _ l n1 j1
        | otherErr =>
          exact j1.pf (PF.trans (deregister_pf s1 l) (PF.trans (setDeadline_pf _ l _) (setTimeout_pf _ _)))

theorem acceptAllFrom_cj {cfg} (ok : CfgOk cfg) : ∀ (ls : List Nat) (s : St), NP cfg s → CJ s [] → CJ (acceptAllFrom cfg s ls) [] := by
  intro ls; induction ls with
  | nil => intro s _ h; exact h
  | cons l ls ih => intro s np h; simp only [acceptAllFrom]; exact ih _ (accept_np ok _ s l np) (accept_cj ok _ s l np h)

theorem acceptAll_cj {cfg} (ok : CfgOk cfg) {s} (np : NP cfg s) (h : CJ s []) : CJ (acceptAll cfg s) [] :=
  acceptAllFrom_cj ok _ s np h

theorem handleWaker_cj {cfg} (ok : CfgOk cfg) : ∀ (fuel : Nat) (s : St), NP cfg s → CJ s [] → CJ (handleWaker cfg fuel s).1 [] := by
  intro fuel; induction fuel with
  | zero => intro s _ _; left; rfl
  | succ f ih =>
    intro s np h
    simp only [handleWaker]
    split
    · exact h
    · have n0 := yieldPt_np cfg s np
      have j0 := yieldPt_cj cfg s [] h
      generalize yieldPt cfg s = s0 at n0 j0 ⊢
      cases hwq : s0.wq with
      | nil => exact j0
      | cons i q =>
        simp only
        have j1 : CJ { s0 with wq := q } [] := CJ.pf (s := s0) ⟨rfl, rfl⟩ j0
        cases i with
        | workerAvail idx =>
          have n1 : NP cfg { s0 with wq := q } := popWq_np n0 _ q hwq (by intro w hw; cases hw)
          have n2 : NP cfg (wakePrim { s0 with wq := q } idx) := by
            unfold wakePrim
            split
            · rename_i hh
              obtain ⟨w, hw, hidx⟩ := hasHandleIdx_mem _ idx hh
              exact setAvail_np n1 idx true (by rw [← hidx]; exact idx_lt_512 ok n1.sound hw) (fun _ => ⟨w, hw, hidx⟩)
            · exact n1
          have j2 : CJ (wakePrim { s0 with wq := q } idx) [] := by
            unfold wakePrim; split
            · exact setAvail_cj _ idx true [] j1
            · exact j1
          simp only
          split
          · exact ih _ (acceptAll_np ok n2) (acceptAll_cj ok n2 j2)
          · exact ih _ n2 j2
        | worker w =>
          have hp : (view s0).pend = w :: pendingWorkers q := by
            simp only [view, hwq, pendingWorkers, List.filterMap_cons]
          have hwlt : w < s0.nWk := n0.sound.plt w (by rw [hp]; exact List.mem_cons_self)
          have h512 : (s0.wk w).idx < 512 := by
            have := n0.sound.idxlt w hwlt; have := ok.max; simp only [view] at *; omega
          have n3 : NP cfg (addWorker { s0 with wq := q } w) := by
            refine ⟨?_, by simp only [addWorker, setAvail, h512, ↓reduceIte]; exact n0.nopanic⟩
            have key := SoundV.addWorker n0.sound w (pendingWorkers q) hp
            unfold Sound
            have hv : view (addWorker { s0 with wq := q } w) =
                View.mk (view s0).idxOf (view s0).nWk ((view s0).handles ++ [w]) (view s0).next
                  (upd (view s0).avail ((view s0).idxOf w) true) (pendingWorkers q) (view s0).flog (view s0).restarted := by
              simp only [addWorker, setAvail, h512, ↓reduceIte, view]
            rw [hv]; exact key
          have j3 : CJ (addWorker { s0 with wq := q } w) [] := by
            unfold addWorker; simp only
            exact CJ.pf (s := setAvail { s0 with wq := q } (s0.wk w).idx true) ⟨rfl, rfl⟩ (setAvail_cj _ _ true [] j1)
          simp only
          split
          · exact ih _ (acceptAll_np ok n3) (acceptAll_cj ok n3 j3)
          · exact ih _ n3 j3
        | pause =>
          have n1 : NP cfg { s0 with wq := q } := popWq_np n0 _ q hwq (by intro w hw; cases hw)
          simp only
          split
          · have n1' : NP cfg { s0 with wq := q, paused := true } := NP.vframe (s := { s0 with wq := q }) ⟨rfl, rfl⟩ n1
            have j1' : CJ { s0 with wq := q, paused := true } [] := CJ.pf (s := s0) ⟨rfl, rfl⟩ j0
            exact ih _ (n1'.vframe (deregisterAllFrom_vframe _ _)) (j1'.pf (deregisterAllFrom_pf _ _))
          · exact ih _ n1 j1
        | resume =>
          have n1 : NP cfg { s0 with wq := q } := popWq_np n0 _ q hwq (by intro w hw; cases hw)
          simp only
          split
          · have n1' : NP cfg { s0 with wq := q, paused := false } := NP.vframe (s := { s0 with wq := q }) ⟨rfl, rfl⟩ n1
            have j1' : CJ { s0 with wq := q, paused := false } [] := CJ.pf (s := s0) ⟨rfl, rfl⟩ j0
            exact ih _ (acceptAll_np ok (n1'.vframe (registerAllFrom_vframe _ _)))
              (acceptAll_cj ok (n1'.vframe (registerAllFrom_vframe _ _)) (j1'.pf (registerAllFrom_pf _ _)))
          · exact ih _ n1 j1
        | stop =>
          simp only
          have hcl : ∀ t : St, PF t (cleanupAll t) := by
            intro t
            refine ⟨?_, rfl⟩
            simp only [places, cleanupAll]; congr 1
            funext j; split <;> rfl
          split
          · exact (j1.pf (deregisterAllFrom_pf _ _)).pf (hcl _)
          · exact j1.pf (hcl _)

theorem pollEvents_cj {cfg} (ok : CfgOk cfg) : ∀ (order : List Ev) (s : St), NP cfg s → CJ s [] → CJ (pollEvents cfg s order).1 [] := by
  intro order; induction order with
  | nil => intro s _ h; exact h
  | cons e es ih =>
    intro s np h
    simp only [pollEvents]
    cases e with
    | waker =>
      simp only
      have nw := handleWaker_np ok (wakerFuel s) s np
      have jw := handleWaker_cj ok (wakerFuel s) s np h
      generalize handleWaker cfg (wakerFuel s) s = r at nw jw
      obtain ⟨s1, ex⟩ := r
      simp only at nw jw ⊢
      split
      · exact jw
      · exact ih _ nw jw
    | listener l => exact ih _ (accept_np ok _ s l np) (accept_cj ok _ s l np h)

theorem poll_cj {cfg} (ok : CfgOk cfg) {s} (np : NP cfg s) (h : CJ s []) (order : List Ev) (sched : List (List EnvAct)) :
    CJ (poll cfg s order sched) [] := by
  unfold poll
  split
  · exact h
  · have hce : PF s (clearEdges { s with sched := sched, yields := 0 }) := by
      refine ⟨?_, rfl⟩
      simp only [places, clearEdges]; congr 1
      funext j; split <;> rfl
    have n0 : NP cfg (clearEdges { s with sched := sched, yields := 0 }) := NP.vframe (s := s) ⟨rfl, rfl⟩ np
    have j1 := pollEvents_cj ok order _ n0 (h.pf hce)
    generalize (pollEvents cfg (clearEdges { s with sched := sched, yields := 0 }) order) = r at j1
    unfold pollFinish
    split
    · exact CJ.pf (s := r.1) ⟨rfl, rfl⟩ j1
    · exact CJ.pf (s := processTimeout r.1) ⟨rfl, rfl⟩ (j1.pf (processTimeout_pf _))

/-- what holds between operations -/
def CInv (cfg : Cfg) (s : St) : Prop := NP cfg s ∧ CJ s []

theorem step_cinv {cfg} (ok : CfgOk cfg) {s} (h : CInv cfg s) (op : Op) : CInv cfg (Srv.step cfg s op) := by
  refine ⟨step_np ok h.1 op, ?_⟩
  cases op with
  | env a => exact runEnv_cj cfg [a] s [] h.2
  | poll order sched => exact poll_cj ok h.1 h.2 order sched
  | finishW2 w c order =>
    simp only [Srv.step]
    have n1 : NP cfg { (envStep cfg s (.finish w c)).1 with acts := (envStep cfg s (.finish w c)).1.acts ++ [(envStep cfg s (.finish w c)).2] } :=
      NP.vframe (s := (envStep cfg s (.finish w c)).1) ⟨rfl, rfl⟩ (envStep_np cfg s (.finish w c) h.1)
    have j1 : CJ { (envStep cfg s (.finish w c)).1 with acts := (envStep cfg s (.finish w c)).1.acts ++ [(envStep cfg s (.finish w c)).2] } [] :=
      CJ.pf (s := (envStep cfg s (.finish w c)).1) ⟨rfl, rfl⟩ (envStep_cj cfg s (.finish w c) [] h.2)
    split
    · exact runEnv_cj cfg _ _ [] (poll_cj ok n1 j1 order [])
    · exact j1

theorem run_cinv {cfg} (ok : CfgOk cfg) : ∀ (ops : List Op) (s : St), CInv cfg s → CInv cfg (run cfg s ops) := by
  intro ops; induction ops with
  | nil => intro s h; exact h
  | cons op ops ih => intro s h; simp only [run]; exact ih _ (step_cinv ok h op)

theorem sumTo_zero (n : Nat) : sumTo n (fun _ => 0) = 0 := by
  induction n with
  | zero => rfl
  | succ n ih => simp [sumTo, ih]

theorem init_cinv (cfg : Cfg) (kinds : List Kind) : CInv cfg (init cfg kinds) := by
  refine ⟨init_np cfg kinds, Or.inr ⟨fun i => ?_, fun i => ?_, fun l c hc => ?_, fun l _ => rfl⟩⟩
  · simp [Places.B, Places.W, places, init, initWk, sumTo_zero]
  · simp [Places.W, places, init, initWk, sumTo_zero]
  · simp [places, init] at hc

end ActixNet.Srv
