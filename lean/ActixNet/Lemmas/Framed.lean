import ActixNet.Model.Framed
import ActixNet.Lemmas.Lines
/-! Helper lemmas for the `Framed` model (property theorems are in `Props/C13.lean`, `Props/C14.lean`). -/
namespace ActixNet.Framed
open ActixNet.Src

/-- the codec law under which chunking is irrelevant: a decoded frame / error is unaffected by
bytes that arrive later, and strictly consumes input; at end of stream `decode_eof` first yields what
`decode` yields -/
structure Stable {F} (c : Codec F) : Prop where
  frame_ext : ∀ b f r e, c.decode b = .frame f r → c.decode (b ++ e) = .frame f (r ++ e)
  err_ext : ∀ b k r e, c.decode b = .err k r → c.decode (b ++ e) = .err k (r ++ e)
  frame_shrinks : ∀ b f r, c.decode b = .frame f r → r.length < b.length
  err_shrinks : ∀ b k r, c.decode b = .err k r → r.length < b.length
  /-- `decode_eof` starts with `decode` (tokio-util's default, and `LinesCodec::decode_eof`) -/
  eof_frame : ∀ b f r, c.decode b = .frame f r → c.decodeEof b = .frame f r
  eof_err : ∀ b k r, c.decode b = .err k r → c.decodeEof b = .err k r

/-! ## the reference `drainAll` -/

theorem drain_fuel {F} (c : Codec F) (hs : Stable c) (n m : Nat) (b : Bytes)
    (hn : b.length < n) (hm : b.length < m) : drain c n b = drain c m b := by
  induction n generalizing m b with
  | zero => omega
  | succ n ih =>
    cases m with
    | zero => omega
    | succ m =>
      simp only [drain]
      split
      · rfl
      · rename_i f r h
        have := hs.frame_shrinks b f r h
        rw [ih m r (by omega) (by omega)]
      · rename_i k r h
        have := hs.err_shrinks b k r h
        rw [ih m r (by omega) (by omega)]

theorem drainAll_need {F} (c : Codec F) (b : Bytes) (hd : c.decode b = .need) :
    drainAll c b = ([], b) := by
  show drain c (b.length + 1) b = _
  rw [drain]; simp only [hd]

theorem drainAll_frame {F} (c : Codec F) (hs : Stable c) (b : Bytes) (f : F) (r : Bytes)
    (hd : c.decode b = .frame f r) :
    drainAll c b = (.item f :: (drainAll c r).1, (drainAll c r).2) := by
  have hsh := hs.frame_shrinks b f r hd
  show drain c (b.length + 1) b = _
  rw [drain]; simp only [hd]
  rw [drain_fuel c hs b.length (r.length + 1) r (by omega) (by omega)]
  rfl

theorem drainAll_err {F} (c : Codec F) (hs : Stable c) (b : Bytes) (k : ErrorKind) (r : Bytes)
    (hd : c.decode b = .err k r) :
    drainAll c b = (.decErr k :: (drainAll c r).1, (drainAll c r).2) := by
  have hsh := hs.err_shrinks b k r hd
  show drain c (b.length + 1) b = _
  rw [drain]; simp only [hd]
  rw [drain_fuel c hs b.length (r.length + 1) r (by omega) (by omega)]
  rfl

/-- after draining, the remainder needs more data -/
theorem drained_needs {F} (c : Codec F) (hs : Stable c) (n : Nat) : ∀ b : Bytes, b.length < n →
    c.decode (drainAll c b).2 = .need := by
  induction n with
  | zero => intro b h; omega
  | succ n ih =>
    intro b hb
    cases hd : c.decode b with
    | need => rw [drainAll_need c b hd]; exact hd
    | frame f r =>
      rw [drainAll_frame c hs b f r hd]
      exact ih r (by have := hs.frame_shrinks b f r hd; omega)
    | err k r =>
      rw [drainAll_err c hs b k r hd]
      exact ih r (by have := hs.err_shrinks b k r hd; omega)

/-- feeding `e` after draining `b` gives the same frames and remainder as draining `b ++ e` -/
theorem drain_append_aux {F} (c : Codec F) (hs : Stable c) (n : Nat) :
    ∀ (b e : Bytes), b.length < n →
    drainAll c (b ++ e) =
      ((drainAll c b).1 ++ (drainAll c ((drainAll c b).2 ++ e)).1,
       (drainAll c ((drainAll c b).2 ++ e)).2) := by
  induction n with
  | zero => intro b e h; omega
  | succ n ih =>
    intro b e hb
    cases hd : c.decode b with
    | need => rw [drainAll_need c b hd]; simp
    | frame f r =>
      have hsh := hs.frame_shrinks b f r hd
      rw [drainAll_frame c hs (b ++ e) f (r ++ e) (hs.frame_ext b f r e hd),
          drainAll_frame c hs b f r hd, ih r e (by omega)]; simp
    | err k r =>
      have hsh := hs.err_shrinks b k r hd
      rw [drainAll_err c hs (b ++ e) k (r ++ e) (hs.err_ext b k r e hd),
          drainAll_err c hs b k r hd, ih r e (by omega)]; simp

theorem drain_append {F} (c : Codec F) (hs : Stable c) (b e : Bytes) :
    drainAll c (b ++ e) =
      ((drainAll c b).1 ++ (drainAll c ((drainAll c b).2 ++ e)).1,
       (drainAll c ((drainAll c b).2 ++ e)).2) :=
  drain_append_aux c hs (b.length + 1) b e (by omega)

/-! ## end-of-stream outputs -/

theorem eofDrain_length {F} (c : Codec F) (k : Nat) : ∀ b, (eofDrain c k b).length = k := by
  induction k with
  | zero => intro b; rfl
  | succ k ih => intro b; rw [eofDrain]; split <;> simp [ih]

theorem eofDrain_succ {F} (c : Codec F) (k : Nat) (b : Bytes) :
    eofDrain c (k + 1) b = match c.decodeEof b with
      | .need => .none :: eofDrain c k b
      | .frame f r => .item f :: eofDrain c k r
      | .err e r => .decErr e :: eofDrain c k r := rfl

theorem eofDrain_mono {F} (c : Codec F) (k : Nat) : ∀ b, eofDrain c k b <+: eofDrain c (k + 1) b := by
  induction k with
  | zero => intro b; simp [eofDrain]
  | succ k ih =>
    intro b
    rw [eofDrain_succ c k b, eofDrain_succ c (k + 1) b]
    split
    · exact (List.cons_prefix_cons).mpr ⟨rfl, ih b⟩
    · exact (List.cons_prefix_cons).mpr ⟨rfl, ih _⟩
    · exact (List.cons_prefix_cons).mpr ⟨rfl, ih _⟩

theorem whole_mono {F} (c : Codec F) (k : Nat) (str : Bytes) : whole c k str <+: whole c (k + 1) str :=
  (List.prefix_append_right_inj _).mpr (eofDrain_mono c k _)

theorem whole_frame {F} (c : Codec F) (hs : Stable c) (b : Bytes) (f : F) (r e : Bytes) (k : Nat)
    (hd : c.decode b = .frame f r) : whole c k (b ++ e) = .item f :: whole c k (r ++ e) := by
  unfold whole
  rw [drainAll_frame c hs (b ++ e) f (r ++ e) (hs.frame_ext b f r e hd)]
  rfl

theorem whole_err {F} (c : Codec F) (hs : Stable c) (b : Bytes) (x : ErrorKind) (r e : Bytes) (k : Nat)
    (hd : c.decode b = .err x r) : whole c k (b ++ e) = .decErr x :: whole c k (r ++ e) := by
  unfold whole
  rw [drainAll_err c hs (b ++ e) x (r ++ e) (hs.err_ext b x r e hd)]
  rfl

theorem whole_need {F} (c : Codec F) (b : Bytes) (k : Nat) (hd : c.decode b = .need) :
    whole c k b = eofDrain c k b := by
  unfold whole; rw [drainAll_need c b hd]; rfl

/-- at end of stream it does not matter whether the frames still buffered are taken by `decode` or
by `decode_eof` (the latter is what `Framed` does once the EOF flag is set) -/
theorem eofDrain_le_whole {F} (c : Codec F) (hs : Stable c) (n : Nat) : ∀ (b : Bytes) (k : Nat),
    b.length < n → eofDrain c k b <+: whole c k b := by
  induction n with
  | zero => intro b k h; omega
  | succ n ih =>
    intro b k hb
    cases hd : c.decode b with
    | need => rw [whole_need c b k hd]; exact List.prefix_refl _
    | frame f r =>
      have hw := whole_frame c hs b f r [] k hd
      simp only [List.append_nil] at hw
      rw [hw]
      cases k with
      | zero => simp [eofDrain]
      | succ k =>
        rw [eofDrain_succ, hs.eof_frame b f r hd]
        have hsh := hs.frame_shrinks b f r hd
        exact List.cons_prefix_cons.mpr ⟨rfl, (ih r k (by omega)).trans (whole_mono c k r)⟩
    | err x r =>
      have hw := whole_err c hs b x r [] k hd
      simp only [List.append_nil] at hw
      rw [hw]
      cases k with
      | zero => simp [eofDrain]
      | succ k =>
        rw [eofDrain_succ, hs.eof_err b x r hd]
        have hsh := hs.err_shrinks b x r hd
        exact List.cons_prefix_cons.mpr ⟨rfl, (ih r k (by omega)).trans (whole_mono c k r)⟩

/-! ## one poll -/

/-- the frame outputs still to come from state `s`, with `k` end-of-stream outputs -/
def expect {F} (c : Codec F) (k : Nat) (s : RState) : List (Out F) :=
  if s.eof then eofDrain c k s.buf else whole c k (s.buf ++ streamOf s.script)

/-- the transport events (`Pending`, I/O errors) still to come from state `s` -/
def evs {F} (s : RState) : List (Out F) := if s.eof then [] else eventsOf s.script

/-- flag invariant of the read side: it is what makes the `debug_assert!(!EOF)` at framed.rs:215
unreachable.  It does not mention the codec: it survives a codec swap (`into_map_codec`,
`replace_codec`, `into_parts`/`from_parts`), and nothing else is needed for the per-poll
specification below — in particular *not* "READABLE is clear only if the buffer holds no frame",
which a swap can break (the old codec needed more data, the new one can decode what is buffered) -/
def Good (s : RState) : Prop := s.eof = true → s.readable = true

def measure (s : RState) : Nat := if s.eof then 0 else scriptSize s.script + 1

/-- what one poll `s ─o→ s'` does to the outputs still to come -/
def StepSpec {F} (c : Codec F) (s : RState) (o : Out F) (s' : RState) : Prop :=
  match o with
  | .spin => False
  | .pending => (∀ k, expect c k s' <+: expect c k s) ∧ (evs s : List (Out F)) = .pending :: evs s'
  | .ioErr e => (∀ k, expect c k s' <+: expect c k s) ∧ (evs s : List (Out F)) = .ioErr e :: evs s'
  | o => (∀ k, (o :: expect c k s') <+: expect c (k + 1) s) ∧ (evs s' : List (Out F)) = evs s

theorem expect_mono {F} (c : Codec F) (k : Nat) (s : RState) : expect c k s <+: expect c (k + 1) s := by
  unfold expect; split
  · exact eofDrain_mono c k _
  · exact whole_mono c k _

theorem StepSpec.congr {F} {c : Codec F} {s s2 s' : RState} {o : Out F}
    (he : ∀ k, expect c k s2 <+: expect c k s) (hv : (evs s : List (Out F)) = evs s2)
    (h : StepSpec c s2 o s') : StepSpec c s o s' := by
  cases o <;> simp only [StepSpec] at h ⊢ <;> (try exact h) <;>
    first
    | exact ⟨fun k => (h.1 k).trans (he _), by rw [hv]; exact h.2⟩
    | exact ⟨fun k => (h.1 k).trans (he _), by rw [← hv] at h; exact h.2⟩

theorem lw_pos : 0 < framedLW := by decide
theorem lw_le_hw : 2 * framedLW ≤ framedHW := by decide

/-- at every read there is room for at least `LW` bytes -/
theorem readRoom_ge (remaining : Nat) : framedLW ≤ readRoom remaining := by
  unfold readRoom framedRdNeedReserve framedRdReserveArg
  have := lw_le_hw
  split
  · rename_i h; simp at h; omega
  · rename_i h; simp at h; omega

theorem readEof_zero : framedReadEof 0 = true := by decide
theorem readEof_pos (n : Nat) (h : 0 < n) : framedReadEof n = false := by
  unfold framedReadEof; simp; omega

/-- the read half of one loop iteration followed by the rest of the loop -/
def readThen {F} (c : Codec F) (fuel : Nat) (s1 : RState) : Out F × RState :=
  match readPhase s1 with
  | .inl r => r
  | .inr s2 => nextItem c fuel s2

/-- the read half of one loop iteration, from a state that needs more data -/
theorem readPart_spec {F} (c : Codec F) (hs : Stable c) (fuel : Nat)
    (ih : ∀ s, Good s → measure s + 1 ≤ fuel →
      Good (nextItem c fuel s).2 ∧ StepSpec c s (nextItem c fuel s).1 (nextItem c fuel s).2)
    (s1 : RState) (heof : s1.eof = false)
    (hm : measure s1 + 1 ≤ fuel + 1) :
    Good (readThen c fuel s1).2 ∧ StepSpec c s1 (readThen c fuel s1).1 (readThen c fuel s1).2 := by
  have hroom := readRoom_ge s1.room
  have hlw := lw_pos
  have hm1 : scriptSize s1.script + 2 ≤ fuel + 1 := by simpa [measure, heof] using hm
  -- the state entered when the transport reports end of file
  have eofCase : ∀ (s2 : RState), s2.eof = true → s2.readable = true → s2.buf = s1.buf →
      streamOf s1.script = [] → (eventsOf s1.script : List (Out F)) = [] →
      Good (nextItem c fuel s2).2 ∧ StepSpec c s1 (nextItem c fuel s2).1 (nextItem c fuel s2).2 := by
    intro s2 he hr hb hst hev
    have hg : Good s2 := fun _ => hr
    have hms : measure s2 + 1 ≤ fuel := by simp [measure, he]; omega
    obtain ⟨g, sp⟩ := ih s2 hg hms
    refine ⟨g, StepSpec.congr (s2 := s2) (fun k => ?_) ?_ sp⟩
    · simp only [expect, heof, he, hst, hb, List.append_nil, if_true, Bool.false_eq_true, if_false]
      exact eofDrain_le_whole c hs (s1.buf.length + 1) s1.buf k (by omega)
    · simp [evs, heof, he, hev]
  cases hsc : s1.script with
  | nil =>
    simp only [readThen, readPhase, hsc, readEof_zero, Bool.or_true]
    exact eofCase _ rfl rfl rfl (by simp [hsc, streamOf]) (by simp [hsc, eventsOf])
  | cons ev t =>
    cases ev with
    | eof =>
      simp only [readThen, readPhase, hsc, readEof_zero, Bool.or_true]
      exact eofCase _ rfl rfl rfl (by simp [hsc, streamOf]) (by simp [hsc, eventsOf])
    | pending =>
      simp only [readThen, readPhase, hsc]
      refine ⟨fun h => by simp [heof] at h, ?_⟩
      simp [StepSpec, expect, evs, heof, hsc, streamOf, eventsOf]
    | ioErr e =>
      simp only [readThen, readPhase, hsc]
      refine ⟨fun h => by simp [heof] at h, ?_⟩
      simp [StepSpec, expect, evs, heof, hsc, streamOf, eventsOf]
    | data bs =>
      by_cases hbs : bs = []
      · subst hbs
        simp only [readThen, readPhase, hsc, List.length_nil, Nat.zero_min, readEof_zero, Bool.or_true,
          Nat.lt_irrefl, if_false, List.take_nil, List.append_nil]
        exact eofCase _ rfl rfl rfl (by simp [hsc, streamOf]) (by simp [hsc, eventsOf])
      · have hlen : 0 < bs.length := List.length_pos_iff.mpr hbs
        have hcnt : 0 < min bs.length (readRoom s1.room) := by omega
        have hne : bs.isEmpty = false := by cases bs <;> simp_all
        simp only [readThen, readPhase, hsc, readEof_pos _ hcnt, heof, Bool.or_false]
        generalize hc : min bs.length (readRoom s1.room) = cnt at hcnt
        have hcle : cnt ≤ bs.length := by omega
        -- the state after the read: same stream, same events, smaller script
        have key : ∀ (s2 : RState), s2.eof = false → s2.readable = true →
            s2.buf = s1.buf ++ bs.take cnt →
            s2.script = (if cnt < bs.length then Rd.data (bs.drop cnt) :: t else t) →
            Good (nextItem c fuel s2).2 ∧
              StepSpec c s1 (nextItem c fuel s2).1 (nextItem c fuel s2).2 := by
          intro s2 he hr hb hscr
          have hg : Good s2 := fun h => (by rw [he] at h; cases h)
          have hst : s2.buf ++ streamOf s2.script = s1.buf ++ streamOf s1.script ∧
              (eventsOf s2.script : List (Out F)) = eventsOf s1.script ∧
              scriptSize s2.script < scriptSize s1.script := by
            rw [hb, hscr, hsc]
            by_cases hlt : cnt < bs.length
            · have hdne : (bs.drop cnt).isEmpty = false := by
                rw [List.isEmpty_eq_false_iff]; intro h
                have := congrArg List.length h; simp at this; omega
              simp only [hlt, if_true, streamOf, eventsOf, hdne, hne, Bool.false_eq_true, if_false,
                scriptSize, List.length_drop]
              refine ⟨?_, trivial, by omega⟩
              rw [List.append_assoc, ← List.append_assoc (bs.take cnt), List.take_append_drop]
            · have hfull : bs.take cnt = bs := List.take_of_length_le (by omega)
              simp only [hlt, if_false, streamOf, eventsOf, hne, Bool.false_eq_true, scriptSize, hfull]
              exact ⟨by simp, trivial, by omega⟩
          have hms : measure s2 + 1 ≤ fuel := by simp [measure, he]; omega
          obtain ⟨g, sp⟩ := ih s2 hg hms
          refine ⟨g, StepSpec.congr (s2 := s2) (fun k => ?_) ?_ sp⟩
          · simp only [expect, heof, he, Bool.false_eq_true, if_false, hst.1]
            exact List.prefix_refl _
          · simp only [evs, heof, he, Bool.false_eq_true, if_false, hst.2.1]
        exact key _ rfl rfl rfl rfl

theorem nextItem_succ {F} (c : Codec F) (fuel : Nat) (s : RState) :
    nextItem c (fuel + 1) s = match decodePhase c s with
      | .inl r => r
      | .inr s1 => readThen c fuel s1 := rfl

/-- **one poll**, from any good state with enough fuel: the invariant is kept, the loop returns,
and the outputs still to come change exactly by the output returned -/
theorem nextItem_spec {F} (c : Codec F) (hs : Stable c) : ∀ (fuel : Nat) (s : RState),
    Good s → measure s + 1 ≤ fuel →
    Good (nextItem c fuel s).2 ∧ StepSpec c s (nextItem c fuel s).1 (nextItem c fuel s).2 := by
  intro fuel
  induction fuel with
  | zero => intro s _ h; omega
  | succ fuel ih =>
    intro s hg hm
    rw [nextItem_succ]
    cases hr : s.readable with
    | false =>
      have heof : s.eof = false := by
        cases he : s.eof with
        | false => rfl
        | true => have := hg he; rw [hr] at this; cases this
      simp only [decodePhase, hr, Bool.false_eq_true, if_false]
      exact readPart_spec c hs fuel ih s heof hm
    | true =>
      cases he : s.eof with
      | true =>
        simp only [decodePhase, hr, he, if_true]
        cases hd : c.decodeEof s.buf with
        | need =>
          dsimp only
          refine ⟨fun _ => rfl, ?_⟩
          simp only [StepSpec, expect, evs, he, if_true, and_true]
          intro k; rw [eofDrain_succ, hd]; exact List.prefix_refl _
        | frame f r =>
          dsimp only
          refine ⟨fun _ => rfl, ?_⟩
          simp only [StepSpec, expect, evs, he, if_true, and_true]
          intro k; rw [eofDrain_succ, hd]; exact List.prefix_refl _
        | err x r =>
          dsimp only
          refine ⟨fun _ => rfl, ?_⟩
          simp only [StepSpec, expect, evs, he, if_true, and_true]
          intro k; rw [eofDrain_succ, hd]; exact List.prefix_refl _
      | false =>
        simp only [decodePhase, hr, he, if_true, Bool.false_eq_true, if_false]
        cases hd : c.decode s.buf with
        | need =>
          dsimp only
          refine And.imp_right (fun sp => StepSpec.congr ?_ ?_ sp)
            (readPart_spec c hs fuel ih _ rfl (by simpa [measure, he] using hm))
          · intro k; simp [expect, he]
          · simp [evs, he]
        | frame f r =>
          dsimp only
          refine ⟨fun h => (by simp at h), ?_⟩
          simp only [StepSpec, expect, evs, he, Bool.false_eq_true, if_false, and_true]
          intro k
          rw [whole_frame c hs s.buf f r _ (k + 1) hd]
          exact List.cons_prefix_cons.mpr ⟨rfl, whole_mono c k _⟩
        | err x r =>
          dsimp only
          refine ⟨fun h => (by simp at h), ?_⟩
          simp only [StepSpec, expect, evs, he, Bool.false_eq_true, if_false, and_true]
          intro k
          rw [whole_err c hs s.buf x r _ (k + 1) hd]
          exact List.cons_prefix_cons.mpr ⟨rfl, whole_mono c k _⟩

theorem measure_le (s : RState) : measure s + 1 ≤ scriptSize s.script + 3 := by
  unfold measure; split <;> omega

theorem pollNext_spec {F} (c : Codec F) (hs : Stable c) (s : RState) (hg : Good s) :
    Good (pollNext c s).2 ∧ StepSpec c s (pollNext c s).1 (pollNext c s).2 :=
  nextItem_spec c hs _ s hg (measure_le s)

theorem pollN_succ {F} (c : Codec F) (n : Nat) (s : RState) :
    pollN c (n + 1) s =
      ((pollNext c s).1 :: (pollN c n (pollNext c s).2).1, (pollN c n (pollNext c s).2).2) := rfl

theorem pollN_length {F} (c : Codec F) : ∀ (n : Nat) (s : RState), (pollN c n s).1.length = n := by
  intro n
  induction n with
  | zero => intro s; rfl
  | succ n ih => intro s; rw [pollN_succ]; simp [ih]

/-- **n polls**: the frame outputs are a prefix of what is expected from the state, the transport
events are a prefix of the scripted ones, the loop never spins, the invariant is kept -/
theorem pollN_spec {F} (c : Codec F) (hs : Stable c) : ∀ (n : Nat) (s : RState), Good s →
    frames (pollN c n s).1 <+: expect c n s ∧ events (pollN c n s).1 <+: evs s ∧
    Out.spin ∉ (pollN c n s).1 ∧ Good (pollN c n s).2 := by
  intro n
  induction n with
  | zero => intro s hg; simp [pollN, frames, events]; exact hg
  | succ n ih =>
    intro s hg
    obtain ⟨g1, sp⟩ := pollNext_spec c hs s hg
    obtain ⟨f1, e1, n1, g2⟩ := ih _ g1
    rw [pollN_succ]
    generalize (pollNext c s).1 = o at sp
    generalize (pollNext c s).2 = s1 at sp f1 e1 n1 g2
    have hmono := expect_mono c n s
    cases o with
    | spin => exact absurd sp (by simp [StepSpec])
    | pending =>
      simp only [StepSpec] at sp
      refine ⟨?_, ?_, by simp [n1], g2⟩
      · simp only [frames, List.filter_cons, Out.isFrame, Bool.false_eq_true, if_false]
        exact (f1.trans (sp.1 n)).trans hmono
      · simp only [events, List.filter_cons, Out.isFrame, Bool.not_false, if_true]
        rw [sp.2]; exact List.cons_prefix_cons.mpr ⟨rfl, e1⟩
    | ioErr x =>
      simp only [StepSpec] at sp
      refine ⟨?_, ?_, by simp [n1], g2⟩
      · simp only [frames, List.filter_cons, Out.isFrame, Bool.false_eq_true, if_false]
        exact (f1.trans (sp.1 n)).trans hmono
      · simp only [events, List.filter_cons, Out.isFrame, Bool.not_false, if_true]
        rw [sp.2]; exact List.cons_prefix_cons.mpr ⟨rfl, e1⟩
    | item f =>
      simp only [StepSpec] at sp
      refine ⟨?_, ?_, by simp [n1], g2⟩
      · simp only [frames, List.filter_cons, Out.isFrame, if_true]
        exact (List.cons_prefix_cons.mpr ⟨rfl, f1⟩).trans (sp.1 n)
      · simp only [events, List.filter_cons, Out.isFrame, Bool.not_true, Bool.false_eq_true, if_false]
        rw [← sp.2]; exact e1
    | decErr x =>
      simp only [StepSpec] at sp
      refine ⟨?_, ?_, by simp [n1], g2⟩
      · simp only [frames, List.filter_cons, Out.isFrame, if_true]
        exact (List.cons_prefix_cons.mpr ⟨rfl, f1⟩).trans (sp.1 n)
      · simp only [events, List.filter_cons, Out.isFrame, Bool.not_true, Bool.false_eq_true, if_false]
        rw [← sp.2]; exact e1
    | none =>
      simp only [StepSpec] at sp
      refine ⟨?_, ?_, by simp [n1], g2⟩
      · simp only [frames, List.filter_cons, Out.isFrame, if_true]
        exact (List.cons_prefix_cons.mpr ⟨rfl, f1⟩).trans (sp.1 n)
      · simp only [events, List.filter_cons, Out.isFrame, Bool.not_true, Bool.false_eq_true, if_false]
        rw [← sp.2]; exact e1

theorem stable_decode_nil {F} (c : Codec F) (hs : Stable c) : c.decode [] = .need := by
  cases hd : c.decode [] with
  | need => rfl
  | frame f r => have := hs.frame_shrinks [] f r hd; simp at this
  | err k r => have := hs.err_shrinks [] k r hd; simp at this

theorem good_rinit (script : List Rd) : Good (rinit script) :=
  fun h => (by simp [rinit] at h)

theorem frames_events_length {F} (os : List (Out F)) :
    (frames os).length + (events os).length = os.length := by
  induction os with
  | nil => rfl
  | cons o os ih =>
    simp only [frames, events, List.filter_cons] at ih ⊢
    cases h : o.isFrame <;> simp <;> omega

theorem whole_length {F} (c : Codec F) (k : Nat) (str : Bytes) : k ≤ (whole c k str).length := by
  simp [whole, eofDrain_length]

theorem whole_mono_le {F} (c : Codec F) (str : Bytes) (m n : Nat) (h : m ≤ n) :
    whole c m str <+: whole c n str := by
  induction n with
  | zero => have : m = 0 := by omega
            subst this; exact List.prefix_refl _
  | succ n ih =>
    by_cases hmn : m = n + 1
    · subst hmn; exact List.prefix_refl _
    · exact (ih (by omega)).trans (whole_mono c n str)

theorem take_of_prefix {α} {l1 l2 : List α} (h : l1 <+: l2) (m : Nat) (hm : m ≤ l1.length) :
    l1.take m = l2.take m := by
  obtain ⟨t, rfl⟩ := h
  rw [List.take_append_of_le_length hm]

/-! ## what a codec swap finds: the bytes not yet consumed -/

/-- the bytes not yet consumed: what is buffered followed by what the transport still delivers -/
def unconsumed (s : RState) : Bytes := s.buf ++ streamOf s.script

/-- what is left of `b` after the codec took `m` frames / decode errors out of it -/
def leftover {F} (c : Codec F) : Nat → Bytes → Bytes
  | 0, b => b
  | m + 1, b =>
    match c.decode b with
    | .need => b
    | .frame _ r => leftover c m r
    | .err _ r => leftover c m r

/-- 1 for an output that consumed input through `decode` (an item or a decode error) -/
def Out.takes {F} : Out F → Nat
  | .item _ => 1
  | .decErr _ => 1
  | _ => 0

/-- number of items / decode errors among the outputs -/
def takenBy {F} : List (Out F) → Nat
  | [] => 0
  | o :: os => o.takes + takenBy os

theorem leftover_need {F} (c : Codec F) (b : Bytes) (h : c.decode b = .need) : ∀ m, leftover c m b = b := by
  intro m; cases m with
  | zero => rfl
  | succ m => simp [leftover, h]

theorem leftover_add {F} (c : Codec F) : ∀ (a k : Nat) (x : Bytes),
    leftover c (a + k) x = leftover c k (leftover c a x) := by
  intro a
  induction a with
  | zero => intro k x; simp [leftover]
  | succ a ih =>
    intro k x
    rw [Nat.succ_add]
    cases hd : c.decode x with
    | need => simp only [leftover, hd]; exact (leftover_need c x hd k).symm
    | frame f r => simp only [leftover, hd]; exact ih k r
    | err e r => simp only [leftover, hd]; exact ih k r

theorem leftover_one_frame {F} (c : Codec F) (hs : Stable c) (b e : Bytes) (f : F) (r : Bytes)
    (hd : c.decode b = .frame f r) : leftover c 1 (b ++ e) = r ++ e := by
  simp [leftover, hs.frame_ext b f r e hd]

theorem leftover_one_err {F} (c : Codec F) (hs : Stable c) (b e : Bytes) (k : ErrorKind) (r : Bytes)
    (hd : c.decode b = .err k r) : leftover c 1 (b ++ e) = r ++ e := by
  simp [leftover, hs.err_ext b k r e hd]

/-- the EOF flag is sticky -/
theorem readThen_eof_sticky {F} (c : Codec F) (fuel : Nat)
    (ih : ∀ s, s.eof = true → (nextItem c fuel s).2.eof = true)
    (s1 : RState) (h : s1.eof = true) : (readThen c fuel s1).2.eof = true := by
  unfold readThen readPhase
  cases hsc : s1.script with
  | nil => exact ih _ (by simp [h])
  | cons ev t =>
    cases ev with
    | eof => exact ih _ (by simp [h])
    | pending => simpa using h
    | ioErr e => simpa using h
    | data bs => exact ih _ (by simp [h])

theorem nextItem_eof_sticky {F} (c : Codec F) : ∀ (fuel : Nat) (s : RState), s.eof = true →
    (nextItem c fuel s).2.eof = true := by
  intro fuel
  induction fuel with
  | zero => intro s h; exact h
  | succ fuel ih =>
    intro s h
    rw [nextItem_succ]
    cases hr : s.readable with
    | false =>
      simp only [decodePhase, hr, Bool.false_eq_true, if_false]
      exact readThen_eof_sticky c fuel ih s h
    | true =>
      simp only [decodePhase, hr, h, if_true]
      cases hd : c.decodeEof s.buf <;> rfl

/-- the read half of one loop iteration: the unconsumed bytes change only by what the rest of the loop takes -/
theorem readThen_rem {F} (c : Codec F) (fuel : Nat)
    (ih : ∀ s, (nextItem c fuel s).2.eof = false →
      unconsumed (nextItem c fuel s).2 = leftover c (nextItem c fuel s).1.takes (unconsumed s))
    (s1 : RState) (h : (readThen c fuel s1).2.eof = false) :
    unconsumed (readThen c fuel s1).2 = leftover c (readThen c fuel s1).1.takes (unconsumed s1) := by
  have hroom := readRoom_ge s1.room
  have hlw := lw_pos
  -- a state with the EOF flag cannot lead to a result without it
  have noEof : ∀ (s2 : RState), s2.eof = true → (nextItem c fuel s2).2.eof = false → False := by
    intro s2 he hf
    rw [nextItem_eof_sticky c fuel s2 he] at hf; cases hf
  unfold readThen at h ⊢
  cases hsc : s1.script with
  | nil =>
    simp only [readPhase, hsc, readEof_zero, Bool.or_true] at h ⊢
    exact (noEof _ rfl h).elim
  | cons ev t =>
    cases ev with
    | eof =>
      simp only [readPhase, hsc, readEof_zero, Bool.or_true] at h ⊢
      exact (noEof _ rfl h).elim
    | pending =>
      simp only [readPhase, hsc] at h ⊢
      simp [unconsumed, Out.takes, leftover, hsc, streamOf]
    | ioErr e =>
      simp only [readPhase, hsc] at h ⊢
      simp [unconsumed, Out.takes, leftover, hsc, streamOf]
    | data bs =>
      by_cases hbs : bs = []
      · subst hbs
        simp only [readPhase, hsc, List.length_nil, Nat.zero_min, readEof_zero, Bool.or_true,
          Nat.lt_irrefl, if_false, List.take_nil, List.append_nil] at h ⊢
        exact (noEof _ rfl h).elim
      · have hlen : 0 < bs.length := List.length_pos_iff.mpr hbs
        have hcnt : 0 < min bs.length (readRoom s1.room) := by omega
        have hne : bs.isEmpty = false := by cases bs <;> simp_all
        simp only [readPhase, hsc, readEof_pos _ hcnt, Bool.or_false] at h ⊢
        generalize hc : min bs.length (readRoom s1.room) = cnt at hcnt h ⊢
        have hcle : cnt ≤ bs.length := by omega
        have key : ∀ (s2 : RState), s2.buf = s1.buf ++ bs.take cnt →
            s2.script = (if cnt < bs.length then Rd.data (bs.drop cnt) :: t else t) →
            (nextItem c fuel s2).2.eof = false →
            unconsumed (nextItem c fuel s2).2 =
              leftover c (nextItem c fuel s2).1.takes (s1.buf ++ streamOf (Rd.data bs :: t)) := by
          intro s2 hb hscr hf
          rw [ih s2 hf]
          congr 1
          simp only [unconsumed, hb, hscr]
          by_cases hlt : cnt < bs.length
          · have hdne : (bs.drop cnt).isEmpty = false := by
              rw [List.isEmpty_eq_false_iff]; intro h
              have := congrArg List.length h; simp at this; omega
            simp only [hlt, if_true, streamOf, hdne, hne, Bool.false_eq_true, if_false]
            rw [List.append_assoc, ← List.append_assoc (bs.take cnt), List.take_append_drop]
          · have hfull : bs.take cnt = bs := List.take_of_length_le (by omega)
            simp only [hlt, if_false, streamOf, hne, Bool.false_eq_true, hfull]
            simp
        have := key _ rfl rfl h
        simpa [unconsumed, hsc] using this

/-- **one poll and the unconsumed bytes**: as long as the end of file has not been seen, what is
buffered plus what is still to arrive is exactly what the codec leaves of it after the frame (or
decode error) the poll returned — however the bytes arrive -/
theorem nextItem_rem {F} (c : Codec F) (hs : Stable c) : ∀ (fuel : Nat) (s : RState),
    (nextItem c fuel s).2.eof = false →
    unconsumed (nextItem c fuel s).2 = leftover c (nextItem c fuel s).1.takes (unconsumed s) := by
  intro fuel
  induction fuel with
  | zero => intro s _; simp [nextItem, Out.takes, leftover]
  | succ fuel ih =>
    intro s h
    rw [nextItem_succ] at h ⊢
    cases hr : s.readable with
    | false =>
      simp only [decodePhase, hr, Bool.false_eq_true, if_false] at h ⊢
      exact readThen_rem c fuel ih s h
    | true =>
      cases he : s.eof with
      | true =>
        simp only [decodePhase, hr, he, if_true] at h ⊢
        cases hd : c.decodeEof s.buf <;> simp [hd] at h
      | false =>
        simp only [decodePhase, hr, he, if_true, Bool.false_eq_true, if_false] at h ⊢
        cases hd : c.decode s.buf with
        | need =>
          simp only [hd] at h ⊢
          have := readThen_rem c fuel ih _ h
          simpa [unconsumed] using this
        | frame f r =>
          simp only [hd] at h ⊢
          simp only [unconsumed, Out.takes]
          exact (leftover_one_frame c hs s.buf _ f r hd).symm
        | err x r =>
          simp only [hd] at h ⊢
          simp only [unconsumed, Out.takes]
          exact (leftover_one_err c hs s.buf _ x r hd).symm

theorem pollN_eof_sticky {F} (c : Codec F) : ∀ (n : Nat) (s : RState), s.eof = true →
    (pollN c n s).2.eof = true := by
  intro n
  induction n with
  | zero => intro s h; exact h
  | succ n ih =>
    intro s h
    rw [pollN_succ]
    exact ih _ (nextItem_eof_sticky c _ s h)

/-- **n polls and the unconsumed bytes** -/
theorem pollN_rem {F} (c : Codec F) (hs : Stable c) : ∀ (n : Nat) (s : RState),
    (pollN c n s).2.eof = false →
    unconsumed (pollN c n s).2 = leftover c (takenBy (pollN c n s).1) (unconsumed s) := by
  intro n
  induction n with
  | zero => intro s _; simp [pollN, takenBy, leftover]
  | succ n ih =>
    intro s h
    rw [pollN_succ] at h ⊢
    simp only at h ⊢
    have h1 : (pollNext c s).2.eof = false := by
      cases he : (pollNext c s).2.eof with
      | false => rfl
      | true => rw [pollN_eof_sticky c n _ he] at h; cases h
    rw [ih _ h, takenBy, leftover_add]
    congr 1
    exact nextItem_rem c hs _ s h1

/-! ## the three codecs -/

theorem linesCodec_decode_frame (b : Bytes) (f r : Bytes) :
    linesCodec.decode b = .frame f r ↔ Lines.decode b = (.ok f, r) := by
  simp only [linesCodec]
  rcases h : Lines.decode b with ⟨x, y⟩
  cases x <;> simp

theorem linesCodec_decode_err (b : Bytes) (k : ErrorKind) (r : Bytes) :
    linesCodec.decode b = .err k r ↔ (Lines.decode b = (.err, r) ∧ k = .InvalidData) := by
  simp only [linesCodec]
  rcases h : Lines.decode b with ⟨x, y⟩
  cases x <;> simp
  constructor
  · rintro ⟨rfl, rfl⟩; exact ⟨rfl, rfl⟩
  · rintro ⟨rfl, rfl⟩; exact ⟨rfl, rfl⟩

theorem linesCodec_stable : Stable linesCodec where
  frame_ext b f r e h := by
    rw [linesCodec_decode_frame] at h ⊢
    exact (Lines.decode_stable b r (.ok f) h (by simp)).1 e
  err_ext b k r e h := by
    rw [linesCodec_decode_err] at h ⊢
    exact ⟨(Lines.decode_stable b r .err h.1 (by simp)).1 e, h.2⟩
  frame_shrinks b f r h := by
    rw [linesCodec_decode_frame] at h
    exact (Lines.decode_stable b r (.ok f) h (by simp)).2
  err_shrinks b k r h := by
    rw [linesCodec_decode_err] at h
    exact (Lines.decode_stable b r .err h.1 (by simp)).2
  eof_frame b f r h := by
    rw [linesCodec_decode_frame] at h
    simp [linesCodec, Lines.decodeEof, h]
  eof_err b k r h := by
    rw [linesCodec_decode_err] at h
    simp [linesCodec, Lines.decodeEof, h.1, h.2]

theorem lenCodec_stable : Stable lenCodec where
  frame_ext b f r e h := by
    simp only [lenCodec] at h ⊢
    cases b with
    | nil => simp [lenDecode] at h
    | cons n t =>
      simp only [lenDecode, List.cons_append] at h ⊢
      split at h
      · simp at h
      · split at h
        · simp at h
        · rename_i h1 h2
          simp only [Dec.frame.injEq] at h
          obtain ⟨rfl, rfl⟩ := h
          have hle : n ≤ t.length := by omega
          simp only [h1, if_false, List.length_append]
          rw [if_neg (by omega)]
          simp [List.take_append_of_le_length hle, List.drop_append_of_le_length hle]
  err_ext b k r e h := by
    simp only [lenCodec] at h ⊢
    cases b with
    | nil => simp [lenDecode] at h
    | cons n t =>
      simp only [lenDecode, List.cons_append] at h ⊢
      split at h
      · rename_i h1
        simp only [Dec.err.injEq] at h
        obtain ⟨rfl, rfl⟩ := h
        simp [h1]
      · split at h <;> simp at h
  frame_shrinks b f r h := by
    simp only [lenCodec] at h
    cases b with
    | nil => simp [lenDecode] at h
    | cons n t =>
      simp only [lenDecode] at h
      split at h
      · simp at h
      · split at h
        · simp at h
        · simp only [Dec.frame.injEq] at h
          obtain ⟨_, rfl⟩ := h
          simp; omega
  err_shrinks b k r h := by
    simp only [lenCodec] at h
    cases b with
    | nil => simp [lenDecode] at h
    | cons n t =>
      simp only [lenDecode] at h
      split at h
      · simp only [Dec.err.injEq] at h
        obtain ⟨_, rfl⟩ := h
        simp
      · split at h <;> simp at h
  eof_frame b f r h := by
    simp only [lenCodec] at h ⊢
    simp [defaultEof, h]
  eof_err b k r h := by
    simp only [lenCodec] at h ⊢
    simp [defaultEof, h]

theorem lenxCodec_stable : Stable lenxCodec where
  frame_ext := lenCodec_stable.frame_ext
  err_ext := lenCodec_stable.err_ext
  frame_shrinks := lenCodec_stable.frame_shrinks
  err_shrinks := lenCodec_stable.err_shrinks
  eof_frame b f r h := by
    simp only [lenxCodec] at h ⊢
    simp [lenxEof, h]
  eof_err b k r h := by
    simp only [lenxCodec] at h ⊢
    simp [lenxEof, h]

/-! ## `BytesCodec` (not stable by design): the items are a chunking of the stream -/

/-- the bytes still to be delivered from state `s` -/
def remaining (s : RState) : Bytes := if s.eof then s.buf else s.buf ++ streamOf s.script

def GoodB (s : RState) : Prop :=
  (s.eof = true → s.readable = true) ∧ (s.readable = false → s.buf = [])

def StepB (s : RState) (o : Out Bytes) (s' : RState) : Prop :=
  match o with
  | .item f => f ≠ [] ∧ remaining s = f ++ remaining s' ∧ (evs s' : List (Out Bytes)) = evs s
  | .none => remaining s = [] ∧ remaining s' = [] ∧ (evs s' : List (Out Bytes)) = evs s
  | .pending => remaining s' = remaining s ∧ (evs s : List (Out Bytes)) = .pending :: evs s'
  | .ioErr e => remaining s' = remaining s ∧ (evs s : List (Out Bytes)) = .ioErr e :: evs s'
  | .decErr _ => False
  | .spin => False

theorem StepB.congr {s s2 s' : RState} {o : Out Bytes}
    (he : remaining s = remaining s2) (hv : (evs s : List (Out Bytes)) = evs s2)
    (h : StepB s2 o s') : StepB s o s' := by
  cases o <;> simp only [StepB] at h ⊢ <;> (try exact h) <;>
    first
    | exact ⟨h.1, by rw [he]; exact h.2.1, by rw [hv]; exact h.2.2⟩
    | exact ⟨by rw [he]; exact h.1, by rw [hv]; exact h.2⟩
    | exact ⟨by rw [he]; exact h.1, h.2.1, by rw [hv]; exact h.2.2⟩

theorem readPartB_spec (fuel : Nat)
    (ih : ∀ s, GoodB s → measure s + 1 ≤ fuel →
      GoodB (nextItem bytesCodec fuel s).2 ∧
        StepB s (nextItem bytesCodec fuel s).1 (nextItem bytesCodec fuel s).2)
    (s1 : RState) (heof : s1.eof = false) (hneed : s1.buf = [])
    (hm : measure s1 + 1 ≤ fuel + 1) :
    GoodB (readThen bytesCodec fuel s1).2 ∧
      StepB s1 (readThen bytesCodec fuel s1).1 (readThen bytesCodec fuel s1).2 := by
  have hroom := readRoom_ge s1.room
  have hlw := lw_pos
  have hm1 : scriptSize s1.script + 2 ≤ fuel + 1 := by simpa [measure, heof] using hm
  have eofCase : ∀ (s2 : RState), s2.eof = true → s2.readable = true → s2.buf = s1.buf →
      streamOf s1.script = [] → (eventsOf s1.script : List (Out Bytes)) = [] →
      GoodB (nextItem bytesCodec fuel s2).2 ∧
        StepB s1 (nextItem bytesCodec fuel s2).1 (nextItem bytesCodec fuel s2).2 := by
    intro s2 he hr hb hst hev
    have hg : GoodB s2 := ⟨fun _ => hr, fun h => (by rw [hr] at h; cases h)⟩
    have hms : measure s2 + 1 ≤ fuel := by simp [measure, he]; omega
    obtain ⟨g, sp⟩ := ih s2 hg hms
    refine ⟨g, StepB.congr (s2 := s2) ?_ ?_ sp⟩
    · simp [remaining, heof, he, hst, hb]
    · simp [evs, heof, he, hev]
  cases hsc : s1.script with
  | nil =>
    simp only [readThen, readPhase, hsc, readEof_zero, Bool.or_true]
    exact eofCase _ rfl rfl rfl (by simp [hsc, streamOf]) (by simp [hsc, eventsOf])
  | cons ev t =>
    cases ev with
    | eof =>
      simp only [readThen, readPhase, hsc, readEof_zero, Bool.or_true]
      exact eofCase _ rfl rfl rfl (by simp [hsc, streamOf]) (by simp [hsc, eventsOf])
    | pending =>
      simp only [readThen, readPhase, hsc]
      refine ⟨⟨fun h => (by simp [heof] at h), fun _ => hneed⟩, ?_⟩
      simp [StepB, remaining, evs, heof, hsc, streamOf, eventsOf]
    | ioErr e =>
      simp only [readThen, readPhase, hsc]
      refine ⟨⟨fun h => (by simp [heof] at h), fun _ => hneed⟩, ?_⟩
      simp [StepB, remaining, evs, heof, hsc, streamOf, eventsOf]
    | data bs =>
      by_cases hbs : bs = []
      · subst hbs
        simp only [readThen, readPhase, hsc, List.length_nil, Nat.zero_min, readEof_zero, Bool.or_true,
          Nat.lt_irrefl, if_false, List.take_nil, List.append_nil]
        exact eofCase _ rfl rfl rfl (by simp [hsc, streamOf]) (by simp [hsc, eventsOf])
      · have hlen : 0 < bs.length := List.length_pos_iff.mpr hbs
        have hcnt : 0 < min bs.length (readRoom s1.room) := by omega
        have hne : bs.isEmpty = false := by cases bs <;> simp_all
        simp only [readThen, readPhase, hsc, readEof_pos _ hcnt, heof, Bool.or_false]
        generalize hc : min bs.length (readRoom s1.room) = cnt at hcnt
        have hcle : cnt ≤ bs.length := by omega
        have key : ∀ (s2 : RState), s2.eof = false → s2.readable = true →
            s2.buf = s1.buf ++ bs.take cnt →
            s2.script = (if cnt < bs.length then Rd.data (bs.drop cnt) :: t else t) →
            GoodB (nextItem bytesCodec fuel s2).2 ∧
              StepB s1 (nextItem bytesCodec fuel s2).1 (nextItem bytesCodec fuel s2).2 := by
          intro s2 he hr hb hscr
          have hg : GoodB s2 :=
            ⟨fun h => (by rw [he] at h; cases h), fun h => (by rw [hr] at h; cases h)⟩
          have hst : s2.buf ++ streamOf s2.script = s1.buf ++ streamOf s1.script ∧
              (eventsOf s2.script : List (Out Bytes)) = eventsOf s1.script ∧
              scriptSize s2.script < scriptSize s1.script := by
            rw [hb, hscr, hsc]
            by_cases hlt : cnt < bs.length
            · have hdne : (bs.drop cnt).isEmpty = false := by
                rw [List.isEmpty_eq_false_iff]; intro h
                have := congrArg List.length h; simp at this; omega
              simp only [hlt, if_true, streamOf, eventsOf, hdne, hne, Bool.false_eq_true, if_false,
                scriptSize, List.length_drop]
              refine ⟨?_, trivial, by omega⟩
              rw [List.append_assoc, ← List.append_assoc (bs.take cnt), List.take_append_drop]
            · have hfull : bs.take cnt = bs := List.take_of_length_le (by omega)
              simp only [hlt, if_false, streamOf, eventsOf, hne, Bool.false_eq_true, scriptSize, hfull]
              exact ⟨by simp, trivial, by omega⟩
          have hms : measure s2 + 1 ≤ fuel := by simp [measure, he]; omega
          obtain ⟨g, sp⟩ := ih s2 hg hms
          refine ⟨g, StepB.congr (s2 := s2) ?_ ?_ sp⟩
          · simp only [remaining, heof, he, Bool.false_eq_true, if_false, hst.1]
          · simp only [evs, heof, he, Bool.false_eq_true, if_false, hst.2.1]
        exact key _ rfl rfl rfl rfl

theorem bytes_decode_nil : bytesCodec.decode [] = .need := rfl
theorem bytes_decode_cons (x : Nat) (t : Bytes) : bytesCodec.decode (x :: t) = .frame (x :: t) [] := rfl
theorem bytes_decodeEof_nil : bytesCodec.decodeEof [] = .need := rfl
theorem bytes_decodeEof_cons (x : Nat) (t : Bytes) :
    bytesCodec.decodeEof (x :: t) = .frame (x :: t) [] := rfl

theorem nextItemB_spec : ∀ (fuel : Nat) (s : RState), GoodB s → measure s + 1 ≤ fuel →
    GoodB (nextItem bytesCodec fuel s).2 ∧
      StepB s (nextItem bytesCodec fuel s).1 (nextItem bytesCodec fuel s).2 := by
  intro fuel
  induction fuel with
  | zero => intro s _ h; omega
  | succ fuel ih =>
    intro s hg hm
    rw [nextItem_succ]
    cases hr : s.readable with
    | false =>
      have heof : s.eof = false := by
        cases he : s.eof with
        | false => rfl
        | true => have := hg.1 he; rw [hr] at this; cases this
      simp only [decodePhase, hr, Bool.false_eq_true, if_false]
      exact readPartB_spec fuel ih s heof (hg.2 hr) hm
    | true =>
      cases he : s.eof with
      | true =>
        simp only [decodePhase, hr, he, if_true]
        cases hb : s.buf with
        | nil =>
          rw [bytes_decodeEof_nil]; dsimp only
          refine ⟨⟨fun _ => rfl, fun h => (by simp at h)⟩, ?_⟩
          simp [StepB, remaining, evs, he, hb]
        | cons x t =>
          rw [bytes_decodeEof_cons]; dsimp only
          refine ⟨⟨fun _ => rfl, fun h => (by simp at h)⟩, ?_⟩
          simp [StepB, remaining, evs, he, hb]
      | false =>
        simp only [decodePhase, hr, he, if_true, Bool.false_eq_true, if_false]
        cases hb : s.buf with
        | nil =>
          rw [bytes_decode_nil]; dsimp only
          refine And.imp_right (fun sp => StepB.congr ?_ ?_ sp)
            (readPartB_spec fuel ih _ rfl rfl (by simpa [measure, he] using hm))
          · simp [remaining, he, hb]
          · simp [evs, he]
        | cons x t =>
          rw [bytes_decode_cons]; dsimp only
          refine ⟨⟨fun h => (by simp at h), fun h => (by simp at h)⟩, ?_⟩
          simp [StepB, remaining, evs, he, hb]

/-- payloads of the items among the outputs -/
def payloads : List (Out Bytes) → List Bytes
  | [] => []
  | .item f :: t => f :: payloads t
  | _ :: t => payloads t

theorem pollNB_spec : ∀ (n : Nat) (s : RState), GoodB s →
    (payloads (pollN bytesCodec n s).1).flatten ++ remaining (pollN bytesCodec n s).2 = remaining s ∧
    (∀ f, Out.item f ∈ (pollN bytesCodec n s).1 → f ≠ []) ∧
    (∀ k, Out.decErr k ∉ (pollN bytesCodec n s).1) ∧ Out.spin ∉ (pollN bytesCodec n s).1 ∧
    (Out.none ∈ (pollN bytesCodec n s).1 → remaining (pollN bytesCodec n s).2 = []) ∧
    (remaining s = [] → remaining (pollN bytesCodec n s).2 = []) := by
  intro n
  induction n with
  | zero => intro s _; simp [pollN, payloads]
  | succ n ih =>
    intro s hg
    obtain ⟨g1, sp⟩ := nextItemB_spec _ s hg (measure_le s)
    rw [pollN_succ]
    change GoodB (pollNext bytesCodec s).2 at g1
    change StepB s (pollNext bytesCodec s).1 (pollNext bytesCodec s).2 at sp
    obtain ⟨c1, c2, c3, c4, c5, c6⟩ := ih _ g1
    generalize (pollNext bytesCodec s).1 = o at sp
    generalize (pollNext bytesCodec s).2 = s1 at sp c1 c2 c3 c4 c5 c6
    cases o with
    | spin => exact absurd sp (by simp [StepB])
    | decErr k => exact absurd sp (by simp [StepB])
    | pending =>
      simp only [StepB] at sp
      refine ⟨by simpa [payloads, sp.1] using c1, by simpa using c2, by simpa using c3,
        by simpa using c4, by simpa using c5, fun h => c6 (by rw [sp.1]; exact h)⟩
    | ioErr e =>
      simp only [StepB] at sp
      refine ⟨by simpa [payloads, sp.1] using c1, by simpa using c2, by simpa using c3,
        by simpa using c4, by simpa using c5, fun h => c6 (by rw [sp.1]; exact h)⟩
    | none =>
      simp only [StepB] at sp
      refine ⟨?_, by simpa using c2, by simpa using c3, by simpa using c4, fun _ => c6 sp.2.1,
        fun _ => c6 sp.2.1⟩
      simp only [payloads]; rw [c1, sp.2.1, sp.1]
    | item f =>
      simp only [StepB] at sp
      refine ⟨?_, ?_, by simpa using c3, by simpa using c4, by simpa using c5, ?_⟩
      · simp only [payloads, List.flatten_cons, List.append_assoc]; rw [c1, sp.2.1]
      · intro g hgm
        simp only [List.mem_cons, Out.item.injEq] at hgm
        rcases hgm with rfl | hgm
        · exact sp.1
        · exact c2 g hgm
      · intro h0; rw [sp.2.1] at h0
        exact absurd (List.append_eq_nil_iff.mp h0).1 sp.1

theorem goodB_rinit (script : List Rd) : GoodB (rinit script) :=
  ⟨fun h => (by simp [rinit] at h), fun _ => rfl⟩

/-! ## Write side -/

/-- the write-side invariant: nothing lost, nothing duplicated, nothing reordered — the bytes on the
wire, then the bytes staged in the transport, then the bytes still in `write_buf` -/
def Lossless (s : WState) : Prop := s.written ++ (s.staged ++ s.wbuf) = s.accepted.flatten

/-- what `flush`/`ready`/`close` may do to a state: move a prefix of the buffer to the transport, and
staged bytes to the wire -/
structure Moves (s s' : WState) : Prop where
  same : s'.written ++ (s'.staged ++ s'.wbuf) = s.written ++ (s.staged ++ s.wbuf)
  acc : s'.accepted = s.accepted
  mono : s.written <+: s'.written
  taken : (s.written ++ s.staged) <+: (s'.written ++ s'.staged)

theorem Moves.refl (s : WState) : Moves s s := ⟨rfl, rfl, List.prefix_refl _, List.prefix_refl _⟩
theorem Moves.trans {a b c : WState} (h1 : Moves a b) (h2 : Moves b c) : Moves a c :=
  ⟨h2.same.trans h1.same, h2.acc.trans h1.acc, h1.mono.trans h2.mono, h1.taken.trans h2.taken⟩

theorem ioFlush_moves (s : WState) : Moves s (ioFlush s).2 ∧ (ioFlush s).1 ≠ .spin ∧
    (ioFlush s).2.wbuf = s.wbuf ∧ ((ioFlush s).1 = .ok → (ioFlush s).2.staged = []) ∧
    (ioFlush s).2.shut = s.shut ∧ (ioFlush s).2.nFlush = s.nFlush + 1 := by
  unfold ioFlush
  split <;> refine ⟨⟨?_, rfl, ?_, ?_⟩, by simp, rfl, by simp, rfl, rfl⟩ <;> simp

theorem ioShutdown_moves (s : WState) : Moves s (ioShutdown s).2 ∧ (ioShutdown s).1 ≠ .spin ∧
    (ioShutdown s).2.wbuf = s.wbuf ∧
    ((ioShutdown s).1 = .ok → (ioShutdown s).2.shut = true ∧ (ioShutdown s).2.staged = []) ∧
    (s.staged = [] → (ioShutdown s).2.staged = []) := by
  unfold ioShutdown
  split <;> refine ⟨⟨?_, rfl, ?_, ?_⟩, by simp, rfl, by simp, ?_⟩ <;> simp

theorem wrote_moves (s : WState) (t : List Wr) (n : Nat) : Moves s (wrote s t n) := by
  refine ⟨?_, rfl, ?_, ?_⟩
  · simp [wrote, List.append_assoc]
  · simp [wrote]
  · simp [wrote, ← List.append_assoc]

theorem wflushLoop_spec : ∀ (fuel : Nat) (s : WState),
    Moves s (wflushLoop fuel s).2 ∧
    ((wflushLoop fuel s).1 = .ok → (wflushLoop fuel s).2.wbuf = [] ∧ (wflushLoop fuel s).2.staged = [] ∧
      (wflushLoop fuel s).2.nFlush = s.nFlush + 1) ∧
    (s.wscript.length + (if s.wbuf.isEmpty then 1 else 2) ≤ fuel → (wflushLoop fuel s).1 ≠ .spin) ∧
    (wflushLoop fuel s).2.shut = s.shut := by
  intro fuel
  induction fuel with
  | zero =>
    intro s
    refine ⟨by simp [wflushLoop, Moves.refl], by simp [wflushLoop], fun h => ?_, rfl⟩
    exfalso; split at h <;> omega
  | succ fuel ih =>
    intro s
    rw [wflushLoop]
    by_cases hb : s.wbuf.isEmpty = true
    · simp only [hb, if_true]
      have h := ioFlush_moves s
      refine ⟨h.1, fun hok => ⟨?_, h.2.2.2.1 hok, h.2.2.2.2.2⟩, fun _ => h.2.1, h.2.2.2.2.1⟩
      rw [h.2.2.1]; simpa using hb
    · simp only [hb, Bool.false_eq_true, if_false]
      cases hsc : s.wscript with
      | nil =>
        simp only
        obtain ⟨m, e, sp, sh⟩ := ih (wrote s [] s.wbuf.length)
        refine ⟨(wrote_moves s [] _).trans m, e,
          fun hf => sp (by simp [wrote]; simp at hf; omega), ?_⟩
        rw [sh]; rfl
      | cons w t =>
        cases w with
        | accept k =>
          simp only
          split
          · exact ⟨⟨rfl, rfl, List.prefix_refl _, List.prefix_refl _⟩, by simp, by simp, rfl⟩
          · obtain ⟨m, e, sp, sh⟩ := ih (wrote s t (min k s.wbuf.length))
            refine ⟨(wrote_moves s t _).trans m, e,
              fun hf => sp (by simp [wrote]; simp at hf; split <;> omega), ?_⟩
            rw [sh]; rfl
        | zero =>
          simp only
          split
          · exact ⟨⟨rfl, rfl, List.prefix_refl _, List.prefix_refl _⟩, by simp, by simp, rfl⟩
          · obtain ⟨m, e, sp, sh⟩ := ih (wrote s t 0)
            refine ⟨(wrote_moves s t _).trans m, e,
              fun hf => sp (by simp [wrote]; simp at hf; split <;> omega), ?_⟩
            rw [sh]; rfl
        | pending => exact ⟨⟨rfl, rfl, List.prefix_refl _, List.prefix_refl _⟩, by simp, by simp, rfl⟩
        | err k => exact ⟨⟨rfl, rfl, List.prefix_refl _, List.prefix_refl _⟩, by simp, by simp, rfl⟩

theorem wflush_spec (s : WState) :
    Moves s (wflush s).2 ∧
    ((wflush s).1 = .ok → (wflush s).2.wbuf = [] ∧ (wflush s).2.staged = [] ∧
      (wflush s).2.nFlush = s.nFlush + 1) ∧
    (wflush s).1 ≠ .spin ∧ (wflush s).2.shut = s.shut := by
  have h := wflushLoop_spec (s.wscript.length + 2) s
  exact ⟨h.1, h.2.1, h.2.2.1 (by split <;> omega), h.2.2.2⟩

theorem wready_spec (s : WState) :
    Moves s (wready s).2 ∧ (wready s).1 ≠ .spin ∧
    ((wready s).1 = .ok → framedWriteReady (wready s).2.wbuf.length = true) := by
  unfold wready
  split
  · rename_i h; exact ⟨Moves.refl s, by simp, fun _ => h⟩
  · have h := wflush_spec s
    refine ⟨h.1, h.2.2.1, fun hok => ?_⟩
    rw [(h.2.1 hok).1]; decide

theorem wclose_spec (s : WState) :
    Moves s (wclose s).2 ∧ (wclose s).1 ≠ .spin ∧
    ((wclose s).1 = .ok → (wclose s).2.wbuf = [] ∧ (wclose s).2.staged = [] ∧ (wclose s).2.shut = true) := by
  unfold wclose
  have h := wflush_spec s
  generalize hf : wflush s = r at h
  obtain ⟨res, s1⟩ := r
  cases res with
  | ok =>
    simp only
    have hs := ioShutdown_moves s1
    refine ⟨h.1.trans hs.1, hs.2.1, fun hok => ⟨?_, (hs.2.2.2.1 hok).2, (hs.2.2.2.1 hok).1⟩⟩
    rw [hs.2.2.1]; exact (h.2.1 rfl).1
  | pending => exact ⟨h.1, by simp, by simp⟩
  | err k => exact ⟨h.1, by simp, by simp⟩
  | spin => exact absurd rfl h.2.2.1

theorem wsend_lossless {I} (enc : Enc I) (item : I) (s : WState) (h : Lossless s) :
    Lossless (wsend enc item s).2 ∧ s.written <+: (wsend enc item s).2.written ∧
    (wsend enc item s).1 ≠ .spin := by
  unfold wsend
  split
  · exact ⟨h, List.prefix_refl _, by simp⟩
  · refine ⟨?_, List.prefix_refl _, by simp⟩
    simp only [Lossless] at h ⊢
    simp [← List.append_assoc] at h ⊢
    rw [h]

theorem Moves.lossless {s s' : WState} (m : Moves s s') (h : Lossless s) : Lossless s' := by
  simp only [Lossless] at h ⊢; rw [m.same, m.acc]; exact h

/-- a state with nothing buffered and nothing staged: every accepted byte is on the wire -/
theorem Lossless.delivered {s : WState} (h : Lossless s) (hb : s.wbuf = []) (hs : s.staged = []) :
    s.written = s.accepted.flatten := by
  simpa [Lossless, hb, hs] using h

theorem wstep_spec {I} (enc : Enc I) (s : WState) (op : WOp I) (h : Lossless s) :
    Lossless (wstep enc s op).2 ∧ s.written <+: (wstep enc s op).2.written ∧
    (wstep enc s op).1 ≠ .spin := by
  cases op with
  | send item => exact wsend_lossless enc item s h
  | ready => have := wready_spec s; exact ⟨this.1.lossless h, this.1.mono, this.2.1⟩
  | flush => have := wflush_spec s; exact ⟨this.1.lossless h, this.1.mono, this.2.2.1⟩
  | close => have := wclose_spec s; exact ⟨this.1.lossless h, this.1.mono, this.2.1⟩

theorem wrun_spec {I} (enc : Enc I) : ∀ (ops : List (WOp I)) (s : WState), Lossless s →
    Lossless (wrun enc s ops).2 ∧ s.written <+: (wrun enc s ops).2.written ∧
    WRes.spin ∉ (wrun enc s ops).1 := by
  intro ops
  induction ops with
  | nil => intro s h; exact ⟨h, List.prefix_refl _, by simp [wrun]⟩
  | cons op ops ih =>
    intro s h
    obtain ⟨l1, p1, n1⟩ := wstep_spec enc s op h
    obtain ⟨l2, p2, n2⟩ := ih _ l1
    refine ⟨l2, p1.trans p2, ?_⟩
    simp only [wrun, List.mem_cons, not_or]
    exact ⟨fun e => n1 e.symm, n2⟩

/-- a fresh `Framed` over a transport with the given scripts -/
def winit (ws : List Wr) (fs ss : List Fl) : WState := { wscript := ws, fscript := fs, sscript := ss }

/-- the encodings of the items accepted by `start_send` (= the sends that answered `Ok`), in order -/
def acceptedOf {I} (enc : Enc I) : List (WOp I) → List WRes → List Bytes
  | .send item :: ops, .ok :: rs =>
    (match enc item with | .ok e => [e] | .error _ => []) ++ acceptedOf enc ops rs
  | _ :: ops, _ :: rs => acceptedOf enc ops rs
  | _, _ => []

theorem accepted_eq {I} (enc : Enc I) : ∀ (ops : List (WOp I)) (s : WState),
    (wrun enc s ops).2.accepted = s.accepted ++ acceptedOf enc ops (wrun enc s ops).1 := by
  intro ops
  induction ops with
  | nil => intro s; simp [wrun, acceptedOf]
  | cons op ops ih =>
    intro s
    simp only [wrun]
    rw [ih]
    cases op with
    | send item =>
      simp only [wstep, wsend]
      cases h : enc item with
      | error k => simp [acceptedOf]
      | ok e => simp [acceptedOf, h]
    | ready => simp only [wstep, acceptedOf]; rw [(wready_spec s).1.acc]
    | flush => simp only [wstep, acceptedOf]; rw [(wflush_spec s).1.acc]
    | close => simp only [wstep, acceptedOf]; rw [(wclose_spec s).1.acc]

end ActixNet.Framed
