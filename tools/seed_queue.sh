#!/bin/sh
# tools/seed_queue.sh <Cxx> <crate> [prop] [r1 <n>]: confirm round-2 seeds 3 and 4 of a property (default), or the
# round-1 seed <n> (from /tmp/seed) when the 4th word is r1; round-3 seeds 5 and 6 (from /tmp/seed3) when it is r3
P=$1; CR=$2; PR=${3:-$1}
if [ "$4" = r1 ]; then
  FEATURES=$SEEDFEATURES SEEDROOT=/tmp/seed /verif/tools/seed_confirm.sh $P $5 $CR $PR > /verif/.build/sc-$P-$5.log 2>&1
  exit 0
fi
ROOT=/tmp/seed2; NS="3 4"
if [ "$4" = r3 ]; then ROOT=/tmp/seed3; NS="5 6"; fi
if [ "$4" = r4 ]; then ROOT=/tmp/seed4; NS="7 8"; fi
if [ "$4" = r5 ]; then ROOT=/tmp/seed5; NS="9 10"; fi
if [ "$4" = r6 ]; then ROOT=/tmp/seed6; NS="11 12"; fi
if [ "$4" = r7 ]; then ROOT=/tmp/seed7; NS="13 14"; fi
if [ "$4" = r8 ]; then ROOT=/tmp/seed8; NS="15 16"; fi
if [ "$4" = r9 ]; then ROOT=/tmp/seed9; NS="17 18"; fi
if [ "$4" = r10 ]; then ROOT=/tmp/seed10; NS="19 20"; fi
if [ "$4" = r11 ]; then ROOT=/tmp/seed11; NS="21 22"; fi
if [ "$4" = r12 ]; then ROOT=/tmp/seed12; NS="23 24"; fi
if [ "$4" = r13 ]; then ROOT=/tmp/seed13; NS="25 26"; fi
if [ "$4" = r14 ]; then ROOT=/tmp/seed14; NS="27 28"; fi
if [ "$4" = r15 ]; then ROOT=/tmp/seed15; NS="29 30"; fi
if [ "$4" = r16 ]; then ROOT=/tmp/seed16; NS="31 32"; fi
if [ "$4" = r17 ]; then ROOT=/tmp/seed17; NS="33 34"; fi
for n in $NS; do
  [ -f $ROOT/$P/out/patch-$n.diff ] || { echo "no patch-$n for $P" > /verif/.build/sc-$P-$n.log; continue; }
  FEATURES=$SEEDFEATURES SEEDROOT=$ROOT /verif/tools/seed_confirm.sh $P $n $CR $PR > /verif/.build/sc-$P-$n.log 2>&1
done
