#!/usr/bin/env python3
"""
/verif/check Cxx [--tier quick|thorough] [--seed N] [--replay FILE]

One run =
  T1  tools/extract.py: regenerate lean/ActixNet/Generated/Src.lean from /repo's working tree
  P   lake build of the property's theorem module (+ driver), axioms audit, source grep
  T2  harness (real code, hooks on) vs Lean model driver on the same op lines
  T3  property oracle evaluated on the behaviour of the real code
and a decision (see DESIGN.md §2.1).  Evidence is written from measured numbers.
"""
import argparse, collections, fcntl, hashlib, json, os, re, shutil, subprocess, sys, time

VERIF = os.path.dirname(os.path.dirname(os.path.abspath(__file__)))
REPO = os.environ.get("VERIF_REPO", "/repo")
LEAN = os.path.join(VERIF, "lean")
HARNESS = os.path.join(VERIF, "harness")
BUILD = os.path.join(VERIF, ".build")
TARGET = os.path.join(BUILD, "target")
# second build of the harness and of the crates under test WITHOUT debug assertions / overflow checks (what a
# release build compiles): `debug_assert!`s with side effects, `cfg(debug_assertions)` code and wrapping arithmetic
# behave differently there.  Used by extra runs marked `"ndebug": true` in props/*.json.
TARGET_ND = os.path.join(BUILD, "target-ndebug")
ND_FLAGS = "-C debug-assertions=off -C overflow-checks=off"
AMODEL = os.path.join(LEAN, ".lake", "build", "bin", "amodel")  # all engines; checks use amodel-<engine>
GUARD = "actix_net_verif"
ALLOWED_AXIOMS = {"propext", "Classical.choice", "Quot.sound"}
FORBIDDEN = re.compile(r"\b(sorry|admit|native_decide|bv_decide|implemented_by)\b|^\s*axiom\s|\bunsafe\s|maxHeartbeats\s+0\b")

TRUSTED_BASE = [
    "Lean 4.33.0 kernel (thorough tier re-checks the .olean files with leanchecker)",
    "axioms: only propext, Classical.choice, Quot.sound (audited per theorem with Lean.collectAxioms); no native_decide, no bv_decide, no sorry",
    "tools/extract.py (T1 translator of the anchored Rust kernels into Lean), validated each run by kernel-agree where applicable",
    "the correspondence harness /verif/harness (differential run of the real crates vs the Lean driver) and its generators",
    "rustc/cargo, tokio, mio, bytes, std as used by the crates (modelled, not verified)",
]


def sh(cmd, cwd=None, env=None, timeout=None, stdin=None):
    t0 = time.time()
    try:
        p = subprocess.run(cmd, cwd=cwd, env=env, stdin=stdin, stdout=subprocess.PIPE, stderr=subprocess.STDOUT,
                           timeout=timeout, text=True, errors="replace")
        return p.returncode, p.stdout, time.time() - t0
    except subprocess.TimeoutExpired as e:
        out = e.stdout if isinstance(e.stdout, str) else (e.stdout or b"").decode(errors="replace")
        return 124, out + "\n[timeout]", time.time() - t0


class Lock:
    def __init__(self, name):
        os.makedirs(BUILD, exist_ok=True)
        self.path = os.path.join(BUILD, name)

    def __enter__(self):
        self.f = open(self.path, "w")
        fcntl.flock(self.f, fcntl.LOCK_EX)

    def __exit__(self, *a):
        fcntl.flock(self.f, fcntl.LOCK_UN)
        self.f.close()


def load_prop(pid):
    with open(os.path.join(VERIF, "props", pid + ".json")) as f:
        return json.load(f)


# ------------------------------------------------------------------------------------------------
# T1 + proofs
# ------------------------------------------------------------------------------------------------

def run_extract():
    """returns dict span -> {ok, hash, error}"""
    rc, out, _ = sh([sys.executable, os.path.join(VERIF, "tools", "extract.py"), "--repo", REPO,
                     "--out", os.path.join(LEAN, "ActixNet", "Generated", "Src.lean"), "--json"])
    try:
        return json.loads(out[out.index("{"):])
    except Exception:
        return {"__extract__": {"ok": False, "error": out[-2000:]}}


def enclosing_decl(path, line):
    try:
        lines = open(path).read().split("\n")
    except OSError:
        return None
    for i in range(min(line, len(lines)) - 1, -1, -1):
        m = re.match(r"\s*(?:private\s+|protected\s+)?(?:theorem|lemma|def|example|instance|abbrev)\s+([^\s:({\[]+)?", lines[i])
        if m:
            return m.group(1) or "example@%d" % (i + 1)
    return None


def lake_build(targets, cwd=LEAN):
    rc, out, dt = sh(["lake", "build"] + targets, cwd=cwd, timeout=3600)
    broken = []
    if rc != 0:
        for m in re.finditer(r"error: ([^\s:]+\.lean):(\d+):(\d+): (.*)", out):
            f, ln, _, msg = m.groups()
            d = enclosing_decl(os.path.join(cwd, f), int(ln))
            broken.append({"file": f, "line": int(ln), "decl": d, "msg": msg[:300]})
        if not broken:
            broken.append({"file": "?", "line": 0, "decl": None, "msg": out[-1500:]})
    return rc, out, broken, dt


AUDIT_TEMPLATE = """import Lean
%(imports)s
open Lean Elab Command

def auditModule (m : Name) : CommandElabM Unit := do
  let env ← getEnv
  let some idx := env.getModuleIdx? m | throwError "module not found: {m}"
  let consts := env.constants.fold (init := #[]) fun acc n ci =>
    match env.getModuleIdxFor? n with
    | some i => if i == idx then
        match ci with
        | .thmInfo _ => if n.isInternal then acc else acc.push n
        | _ => acc
      else acc
    | none => acc
  let consts := consts.qsort (fun a b => a.toString < b.toString)
  for n in consts do
    let axs ← liftCoreM (collectAxioms n)
    let axs := axs.toList.map (fun a => "\\"" ++ a.toString ++ "\\"")
    IO.println s!"\\{\\"module\\": \\"{m}\\", \\"theorem\\": \\"{n}\\", \\"axioms\\": [{", ".intercalate axs}]}"

%(evals)s
"""


def audit(modules, cwd=LEAN, workdir=None):
    """theorems declared (with the `theorem` keyword) in each module, with the axioms they depend on"""
    workdir = workdir or os.path.join(BUILD, "run")
    os.makedirs(workdir, exist_ok=True)
    path = os.path.join(workdir, "Audit_%s.lean" % hashlib.sha1(" ".join(modules).encode()).hexdigest()[:8])
    with open(path, "w") as f:
        f.write(AUDIT_TEMPLATE % {"imports": "\n".join("import " + m for m in modules),
                                  "evals": "\n".join("#eval auditModule `" + m for m in modules)})
    rc, out, dt = sh(["lake", "env", "lean", path], cwd=cwd, timeout=1800)
    declared = set()
    for m in modules:
        src = strip_comments(open(os.path.join(cwd, m.replace(".", "/") + ".lean")).read())
        declared |= set(re.findall(r"^\s*(?:private\s+|protected\s+)?theorem\s+([^\s:({\[]+)", src, re.M))
    thms = []
    for l in out.split("\n"):
        l = l.strip()
        if l.startswith("{"):
            try:
                t = json.loads(l)
            except Exception:
                continue
            short = t["theorem"].split(".")[-1]
            if short in declared or any(t["theorem"].endswith("." + d) or t["theorem"] == d for d in declared):
                thms.append(t)
    return rc, thms, out


def lean_sources_closure(module, cwd=LEAN):
    """transitive imports of `module` inside the project (ActixNet.* / Driver.*)"""
    seen, todo = [], [module]
    while todo:
        m = todo.pop()
        if m in seen:
            continue
        p = os.path.join(cwd, m.replace(".", "/") + ".lean")
        if not os.path.exists(p):
            continue
        seen.append(m)
        for imp in re.findall(r"^import\s+(\S+)", open(p).read(), re.M):
            if imp.startswith("ActixNet") or imp.startswith("Driver"):
                todo.append(imp)
    return seen


def strip_comments(src):
    src = re.sub(r"/-.*?-/", "", src, flags=re.S)
    return re.sub(r"--.*", "", src)


def grep_forbidden(modules, cwd=LEAN):
    hits = []
    for m in modules:
        p = os.path.join(cwd, m.replace(".", "/") + ".lean")
        for i, l in enumerate(strip_comments(open(p).read()).split("\n")):
            if FORBIDDEN.search(l):
                hits.append("%s:%d: %s" % (m, i + 1, l.strip()[:120]))
    return hits


# ------------------------------------------------------------------------------------------------
# harness
# ------------------------------------------------------------------------------------------------

def harness_env(ndebug=False):
    env = dict(os.environ)
    flags = env.get("RUSTFLAGS", "")
    if GUARD not in flags:
        flags = (flags + " --cfg " + GUARD).strip()
    if ndebug and ND_FLAGS not in flags:
        flags = flags + " " + ND_FLAGS
    env["RUSTFLAGS"] = flags
    env["CARGO_NET_OFFLINE"] = "true"
    env["CARGO_TARGET_DIR"] = TARGET_ND if ndebug else TARGET
    return env


def cargo_build(bin_name, features, ndebug=False):
    lock_src = os.path.join(REPO, "Cargo.lock")
    lock_dst = os.path.join(HARNESS, "Cargo.lock")
    cmd = ["cargo", "build", "--offline", "--bin", bin_name]
    if features:
        cmd += ["--features", ",".join(features)]
    with Lock("cargo.lock"):
        if not os.path.exists(lock_dst):
            shutil.copy(lock_src, lock_dst)
        rc, out, dt = sh(cmd, cwd=HARNESS, env=harness_env(ndebug), timeout=3600)
    return rc, out, dt


def parse_run_output(path):
    """-> (cases, t3, notes); cases = list of dict(name, ops[], real[], start_line)"""
    cases, t3, notes = [], [], []
    cur = None
    with open(path, errors="replace") as f:
        for line in f:
            line = line.rstrip("\n")
            if line.startswith("#T3 "):
                m = re.match(r"#T3 prop=(\S+) case=(\S*) ?(.*)", line)
                if m:
                    # several cases of one run may share a name (corpus + generators): remember which one
                    # the line belongs to when it directly follows its case
                    ci = len(cases) - 1 if (cur is not None and cur["name"] == m.group(2)) else None
                    t3.append({"prop": m.group(1), "case": m.group(2), "msg": m.group(3), "case_index": ci})
                continue
            if line.startswith("#"):
                notes.append(line)
                continue
            if "\t" not in line:
                continue
            op, real = line.split("\t", 1)
            if op.startswith("case") or cur is None:
                cur = {"name": (op.split() + ["?", "?"])[1], "ops": [], "real": []}
                cases.append(cur)
            cur["ops"].append(op)
            cur["real"].append(real)
    return cases, t3, notes


def run_model(engine, ops, workdir, tag="model"):
    ip = os.path.join(workdir, tag + ".in")
    with open(ip, "w") as f:
        f.write("\n".join(ops) + ("\n" if ops else ""))
    with open(ip) as fin:
        # one executable per engine: a model that no longer builds only affects the properties decided with it
        rc, out, dt = sh([AMODEL + "-" + engine, engine], stdin=fin, timeout=3600)
    lines = out.split("\n")
    if lines and lines[-1] == "":
        lines.pop()
    return rc, lines


def run_real(binpath, pid, ops_path, out_path, timeout):
    rc, out, dt = sh([binpath, "run", "--prop", pid, "--in", ops_path, "--out", out_path], timeout=timeout,
                     env=harness_env())
    return rc, out, dt


def execute(prop, pid, binpath, ops_path, workdir, tag, timeout=3600):
    """run real + model on an ops file -> dict(result)"""
    # an extra run may exercise this property through ANOTHER property's generator and oracles of its engine
    # (props "extra_runs": {"gen_prop": "Cyy"}): C07's "services are called only when ready" is only as good as the
    # readiness composition of the service combinators (C12's run of the svc engine)
    pid = prop.get("run_pid", pid)
    real_path = os.path.join(workdir, tag + ".real")
    rc, out, dt = run_real(binpath, pid, ops_path, real_path, timeout)
    res = {"harness_rc": rc, "harness_out": out[-3000:], "real_s": dt}
    if not os.path.exists(real_path):
        open(real_path, "w").close()
    cases, t3, notes = parse_run_output(real_path)
    # a harness watchdog that had to end the process (endless loop in the code under test) leaves its verdict in
    # <out>.watchdog as `#T3 prop=… case=@<number of input lines consumed> …`; the case is recovered from the input
    wd = real_path + ".watchdog"
    if os.path.exists(wd):
        in_cases, cur = [], None
        with open(ops_path, errors="replace") as f:
            for ln, line in enumerate(f, 1):
                line = line.rstrip("\n")
                if not line.strip():
                    continue
                if line.startswith("case") or cur is None:
                    cur = {"name": (line.split() + ["?", "?"])[1], "ops": [], "real": [], "first": ln, "last": ln}
                    in_cases.append(cur)
                cur["ops"].append(line)
                cur["real"].append("<not reached>")
                cur["last"] = ln
        for line in open(wd, errors="replace"):
            m = re.match(r"#T3 prop=(\S+) case=@(\d+) ?(.*)", line.rstrip("\n"))
            if not m:
                continue
            n = int(m.group(2))
            hit = next((c for c in in_cases if c["first"] <= n <= c["last"]), in_cases[-1] if in_cases else None)
            if hit is None:
                continue
            if not cases or cases[-1]["name"] != hit["name"] or len(cases[-1]["ops"]) != len(hit["ops"]):
                if cases and cases[-1]["name"] == hit["name"]:
                    cases.pop()   # partially observed
                cases.append({"name": hit["name"], "ops": hit["ops"], "real": hit["real"]})
            t3.append({"prop": m.group(1), "case": hit["name"], "msg": m.group(3), "case_index": len(cases) - 1})
        os.remove(wd)
    # the process that runs the real code was killed by a signal (abort in the code under test: double close of a file
    # descriptor, a panic inside a destructor during unwinding, a stack overflow …) and no watchdog verdict explains it:
    # the case it was executing is a failing input — it is recovered from the input (the report is flushed at every
    # `case` line) and replayed / shrunk like any other oracle failure
    # … or it ended with Rust's panic exit code 101 (a panic of the code under test on a thread / at a point where the
    # harness cannot catch it: the accept loop stepped outside `catch`, a panic while panicking)
    if (rc < 0 or rc == 101) and not os.path.exists(wd) and not any(x["prop"] == pid for x in t3):
        in_cases, cur = [], None
        with open(ops_path, errors="replace") as f:
            for line in f:
                line = line.rstrip("\n")
                if not line.strip():
                    continue
                if line.startswith("case") or cur is None:
                    cur = {"name": (line.split() + ["?", "?"])[1], "ops": [], "real": []}
                    in_cases.append(cur)
                cur["ops"].append(line)
                cur["real"].append("<not reached>")
        # harnesses flush at every `case` line (what precedes it is complete), others only when their buffer fills: the
        # case being executed is the one after the last observed one, or the last observed one; each candidate is run
        # alone and the one that kills the process again is taken
        cands = [i for i in (len(cases), len(cases) - 1) if 0 <= i < len(in_cases)]
        k = None
        for i in cands:
            probe = os.path.join(workdir, tag + ".probe.ops")
            with open(probe, "w") as f:
                f.write("\n".join(in_cases[i]["ops"]) + "\n")
            prc, _, _ = run_real(binpath, pid, probe, os.path.join(workdir, tag + ".probe.real"), min(timeout, 600))
            if prc < 0 or prc == 101:
                k = i
                break
        if k is None and cands:
            k = cands[0]
        if k is not None:
            hit = in_cases[k]
            if k == len(cases) - 1:
                cases.pop()   # partially observed
            cases.append({"name": hit["name"], "ops": hit["ops"], "real": hit["real"]})
            last = [l for l in out.strip().splitlines() if l.strip()][-1:] or [""]
            t3.append({"prop": pid, "case": hit["name"], "case_index": len(cases) - 1,
                       "msg": ("the process running the real code was killed by signal %d while executing this case: %s" % (-rc, last[0][:200])) if rc < 0
                              else ("the process running the real code panicked (exit code 101) while executing this case: %s" % " | ".join(l.strip() for l in out.strip().splitlines() if "panicked at" in l or l.strip().startswith("attempt to") or "overflow" in l)[:300] or last[0][:200])})
    res["cases"], res["notes"] = cases, notes
    res["t3"] = [x for x in t3 if x["prop"] == pid]
    res["t3_other"] = [x for x in t3 if x["prop"] != pid]
    ops = [o for c in cases for o in c["ops"]]
    mrc, mlines = run_model(prop["engine"], ops, workdir, tag)
    res["model_rc"] = mrc
    real = [r for c in cases for r in c["real"]]
    dis = []
    idx = 0
    for ci, c in enumerate(cases):
        for k in range(len(c["ops"])):
            m = mlines[idx] if idx < len(mlines) else "<no output>"
            if m != c["real"][k]:
                dis.append({"case": c["name"], "case_index": ci, "op_index": k, "op": c["ops"][k], "real": c["real"][k], "model": m})
                if len(dis) > 200:
                    break
            idx += 1
        if len(dis) > 200:
            break
    if len(mlines) != len(real) and not dis:
        dis.append({"case": "?", "case_index": -1, "op_index": -1, "op": "<length>", "real": str(len(real)), "model": str(len(mlines))})
    res["disagreements"] = dis
    return res


def case_ops_text(case):
    return "\n".join(case["ops"]) + "\n"


SHRINK_DEADLINE = [None]   # wall-clock limit for all shrinking of one check run (set in main)


def shrink(prop, pid, binpath, case, workdir, pred, budget=150):
    """delta-debug the op lines of one case (the `case` header stays); pred(result)->bool"""
    ops = list(case["ops"])
    head, body = ops[:1], ops[1:]
    runs = 0
    if SHRINK_DEADLINE[0] is not None and time.time() > SHRINK_DEADLINE[0]:
        budget = 0   # out of time: report the case as it is (still a valid replay, just not minimal)

    def still_fails(b):
        nonlocal runs
        runs += 1
        p = os.path.join(workdir, "shrink.ops")
        with open(p, "w") as f:
            f.write("\n".join(head + b) + "\n")
        r = execute(prop, pid, binpath, p, workdir, "shrink", timeout=120)
        return pred(r)

    n = 2
    while len(body) >= 2 and runs < budget and not (SHRINK_DEADLINE[0] is not None and time.time() > SHRINK_DEADLINE[0]):
        chunk = max(1, len(body) // n)
        removed = False
        for i in range(0, len(body), chunk):
            cand = body[:i] + body[i + chunk:]
            if cand and still_fails(cand):
                body = cand
                n = max(n - 1, 2)
                removed = True
                break
            if runs >= budget:
                break
        if not removed:
            if chunk == 1:
                break
            n = min(n * 2, len(body))
    return head + body, runs


def load_known():
    known, fixed = [], []
    p = os.path.join(VERIF, "KNOWN_FINDINGS.txt")
    if os.path.exists(p):
        for l in open(p):
            l = l.strip()
            m = re.match(r"known:\s+property=(\S+)\s+key=(\S+)\s+(.*)", l)
            if m:
                known.append({"prop": m.group(1), "key": m.group(2), "what": m.group(3)})
            m = re.match(r"fixed:\s+property=(\S+)\s+(\S+)\s+(.*)", l)
            if m:
                fixed.append({"prop": m.group(1), "commit": m.group(2), "what": m.group(3)})
    return known, fixed


def replay_key(ops_lines):
    body = "\n".join(l.strip() for l in ops_lines if l.strip() and not l.startswith("case"))
    return hashlib.sha1(body.encode()).hexdigest()[:16]


# ------------------------------------------------------------------------------------------------

def main():
    ap = argparse.ArgumentParser()
    ap.add_argument("prop")
    ap.add_argument("--tier", default=os.environ.get("VERIF_TIER", "quick"), choices=["quick", "thorough"])
    ap.add_argument("--seed", type=int, default=int(os.environ.get("VERIF_SEED", "0") or 0))
    ap.add_argument("--replay")
    args = ap.parse_args()
    pid = args.prop
    t_start = time.time()
    prop = load_prop(pid)
    # one work directory per invocation: several checks of the same property may run at the same time
    workdir = os.path.join(BUILD, "run", "%s-%d" % (pid, os.getpid()))
    shutil.rmtree(workdir, ignore_errors=True)
    os.makedirs(workdir, exist_ok=True)
    import atexit
    atexit.register(lambda: shutil.rmtree(workdir, ignore_errors=True))
    os.makedirs(os.path.join(VERIF, "replays"), exist_ok=True)
    os.makedirs(os.path.join(VERIF, "evidence"), exist_ok=True)

    obligations = []  # dicts: name, kind, ok, detail

    def ob(name, kind, ok, detail=""):
        obligations.append({"name": name, "kind": kind, "ok": bool(ok), "detail": detail})

    log = lambda *a: print(*a, flush=True)

    # ---- T1 + proofs (under the build lock) -----------------------------------------------------
    props_mod = prop["lean_props_module"]
    with Lock("lean.lock"):
        spans = run_extract()
        for sp in prop.get("t1_spans", []):
            st = spans.get(sp)
            ob("translate:" + sp, "translate", bool(st and st.get("ok")), (st or {}).get("error", "span missing") if not (st and st.get("ok")) else st.get("hash", ""))
        if "__extract__" in spans:
            ob("translate:extract.py", "translate", False, spans["__extract__"].get("error", ""))
        rc, out, broken, dt_lake = lake_build([props_mod, "amodel-" + prop["engine"]])
        thms = []
        if rc == 0:
            arc, thms, aout = audit([props_mod], workdir=workdir)
            if arc != 0:
                ob("audit:run", "audit", False, aout[-800:])
    if rc != 0:
        names = sorted({(b["decl"] or b["file"]) for b in broken})
        for b in broken[:20]:
            ob("proof:%s" % (b["decl"] or b["file"]), "proof", False, "%s:%d %s" % (b["file"], b["line"], b["msg"]))
        log("lake build failed: " + ", ".join(str(n) for n in names))
    for t in thms:
        bad = [a for a in t["axioms"] if a not in ALLOWED_AXIOMS]
        ob("proof:" + t["theorem"], "proof", not bad, "axioms=" + ",".join(t["axioms"]))
    closure = lean_sources_closure(props_mod)
    hits = grep_forbidden(closure)
    ob("audit:no-sorry-no-axiom-grep", "audit", not hits, "; ".join(hits[:5]))
    if rc == 0 and not thms:
        ob("audit:theorems-present", "audit", False, "no theorem found in " + props_mod)

    thorough_extra = {}
    if args.tier == "thorough" and rc == 0 and not args.replay:
        # clean rebuild in a scratch copy + leanchecker on the property module
        fresh = os.path.join(BUILD, "fresh-" + pid)
        shutil.rmtree(fresh, ignore_errors=True)
        shutil.copytree(LEAN, fresh, ignore=shutil.ignore_patterns(".lake"))
        frc, fout, fbroken, fdt = lake_build([props_mod], cwd=fresh)
        ob("rebuild-from-clean:" + props_mod, "proof", frc == 0, fout[-500:] if frc else "%.0fs" % fdt)
        if frc == 0:
            crc, cout, cdt = sh(["lake", "env", "leanchecker", props_mod], cwd=fresh, timeout=3600)
            ob("leanchecker:" + props_mod, "proof", crc == 0, cout[-500:] if crc else "%.0fs" % cdt)
            thorough_extra["leanchecker_s"] = round(cdt, 1)
        thorough_extra["clean_build_s"] = round(fdt, 1)
        shutil.rmtree(fresh, ignore_errors=True)

    # ---- harness --------------------------------------------------------------------------------
    # a replay file names the engine it was produced with (`# engine=…`); without the line it is the property's own
    replay_engine = None
    replay_build = ""
    replay_run_prop = ""
    if args.replay:
        with open(args.replay, errors="replace") as f:
            for line in f:
                m = re.match(r"# engine=(\S+)(?: build=(\S+))?(?: run_prop=(\S+))?", line)
                if m:
                    replay_engine = m.group(1)
                    replay_build = m.group(2) or ""
                    replay_run_prop = m.group(3) or ""
                    break
    main_is_target = not (args.replay and replay_engine and (replay_engine != prop["engine"] or replay_build == "ndebug" or replay_run_prop))
    binname = prop["harness_bin"]
    brc, bout, bdt = cargo_build(binname, prop.get("harness_features", []))
    binpath = os.path.join(TARGET, "debug", binname)
    ob("correspondence:harness-builds(%s)" % binname, "correspondence", brc == 0, bout[-1500:] if brc else "")
    result = None
    cases_total = 0
    if brc == 0 and rc == 0 and main_is_target:
        if args.replay:
            ops_path = os.path.abspath(args.replay)
        else:
            ops_path = os.path.join(workdir, "ops.txt")
            corpus_dir = os.path.join(VERIF, "corpus", pid)
            with open(ops_path, "w") as f:
                if os.path.isdir(corpus_dir):
                    for fn in sorted(os.listdir(corpus_dir)):
                        if fn.endswith(".ops"):
                            f.write(open(os.path.join(corpus_dir, fn)).read().rstrip("\n") + "\n")
            gen_path = os.path.join(workdir, "gen.txt")
            grc, gout, gdt = sh([binpath, "gen", "--prop", pid, "--tier", args.tier, "--seed", str(args.seed), "--out", gen_path],
                                env=harness_env(), timeout=3600)
            if grc != 0:
                ob("correspondence:gen", "correspondence", False, gout[-800:])
            else:
                with open(ops_path, "a") as f, open(gen_path) as g:
                    shutil.copyfileobj(g, f)
        timeout = prop.get("timeout_s", {}).get(args.tier, 1800 if args.tier == "quick" else 7200)
        result = execute(prop, pid, binpath, ops_path, workdir, "main", timeout=timeout)
        ob("correspondence:harness-run(%s)" % binname, "correspondence", result["harness_rc"] == 0,
           ("rc=%d %s" % (result["harness_rc"], result["harness_out"][-600:])) if result["harness_rc"] else "")
        ob("correspondence:model-agrees(%s)" % prop["engine"], "correspondence", not result["disagreements"],
           json.dumps(result["disagreements"][:3]) if result["disagreements"] else "")
        ob("oracle:T3-on-real-behaviour", "oracle", not result["t3"], json.dumps(result["t3"][:3]) if result["t3"] else "")
        cases_total = len(result["cases"])

    # ---- extra runs: further engines that exercise this property (props "extra_runs": [{"engine":…, "harness_bin":…}])
    # Each is a complete tie of its own (its model executable, its harness, gen/run with --prop <this property>); its T3
    # lines for this property and its model disagreements count like those of the main run.
    extra_results = []   # (eprop, ebinpath, result)
    for ex in prop.get("extra_runs", []):
        nd = bool(ex.get("ndebug"))
        if args.tier not in ex.get("tiers", ["quick", "thorough"]) and not args.replay:
            continue
        eprop = dict(prop, engine=ex["engine"], harness_bin=ex["harness_bin"],
                     harness_features=ex.get("harness_features", prop.get("harness_features", []) if nd else []), ndebug=nd)
        if ex.get("gen_prop"):
            eprop["run_pid"] = ex["gen_prop"]
        epid = eprop.get("run_pid", pid)
        if args.replay and (replay_engine != ex["engine"] or (replay_build == "ndebug") != nd or replay_run_prop != ex.get("gen_prop", "")):
            continue
        xtag = "[ndebug]" if nd else "[extra]"
        with Lock("lean.lock"):
            erc, eout, ebroken, edt = lake_build(["amodel-" + ex["engine"]])
        ob("proof:model-builds(%s)%s" % (ex["engine"], xtag), "proof", erc == 0, eout[-600:] if erc else "")
        ebrc, ebout, ebdt = cargo_build(ex["harness_bin"], eprop["harness_features"], ndebug=nd)
        ebin = os.path.join(TARGET_ND if nd else TARGET, "debug", ex["harness_bin"])
        ob("correspondence:harness-builds(%s)%s" % (ex["harness_bin"], xtag), "correspondence", ebrc == 0, ebout[-1500:] if ebrc else "")
        if erc != 0 or ebrc != 0:
            continue
        if args.replay:
            eops = os.path.abspath(args.replay)
        else:
            eops = os.path.join(workdir, "ops-%s%s.txt" % (ex["engine"], "-nd" if nd else ""))
            cdir = os.path.join(VERIF, "corpus", epid if ex.get("gen_prop") else (pid if nd else "%s.%s" % (pid, ex["engine"])))
            with open(eops, "w") as f:
                if os.path.isdir(cdir):
                    for fn in sorted(os.listdir(cdir)):
                        if fn.endswith(".ops"):
                            f.write(open(os.path.join(cdir, fn)).read().rstrip("\n") + "\n")
            egen = os.path.join(workdir, "gen-%s%s.txt" % (ex["engine"], "-nd" if nd else ""))
            grc, gout, gdt = sh([ebin, "gen", "--prop", epid, "--tier", args.tier, "--seed", str(args.seed), "--out", egen],
                                env=harness_env(), timeout=3600)
            if grc != 0:
                ob("correspondence:gen(%s)%s" % (ex["engine"], xtag), "correspondence", False, gout[-800:])
                continue
            with open(eops, "a") as f, open(egen) as g:
                shutil.copyfileobj(g, f)
        eres = execute(eprop, pid, ebin, eops, workdir, "extra-" + ex["engine"] + ("-nd" if nd else ""),
                       timeout=prop.get("timeout_s", {}).get(args.tier, 1800 if args.tier == "quick" else 7200))
        ob("correspondence:harness-run(%s)%s" % (ex["harness_bin"], xtag), "correspondence", eres["harness_rc"] == 0,
           ("rc=%d %s" % (eres["harness_rc"], eres["harness_out"][-600:])) if eres["harness_rc"] else "")
        ob("correspondence:model-agrees(%s)%s" % (ex["engine"], xtag), "correspondence", not eres["disagreements"],
           json.dumps(eres["disagreements"][:3]) if eres["disagreements"] else "")
        ob("oracle:T3-on-real-behaviour(%s)%s" % (ex["engine"], xtag), "oracle", not eres["t3"], json.dumps(eres["t3"][:3]) if eres["t3"] else "")
        extra_results.append((eprop, ebin, eres))
        if args.replay:
            result = eres   # the replay belongs to this engine: print it below

    if args.replay and result is not None:
        for c in result["cases"]:
            for o, r in zip(c["ops"], c["real"]):
                log("%-50s real=%s" % (o, r))
        for d in result["disagreements"]:
            log("MODEL-DISAGREES", json.dumps(d))
        for t in result["t3"]:
            log("T3-FAIL", json.dumps(t))

    # ---- decision -------------------------------------------------------------------------------
    # replays are minimised by delta debugging; on a tree with very many failures that must not take for ever
    SHRINK_DEADLINE[0] = time.time() + (180 if args.tier == "quick" else 900)
    known, fixed = load_known()
    violations = []   # (replay_path, note)
    known_hits = []
    broken_obs = [o for o in obligations if not o["ok"] and o["kind"] != "oracle"]

    def write_replay(name, text):
        p = os.path.join(VERIF, "replays", name)
        with open(p, "w") as f:
            f.write(text)
        return p

    def handle_t3_failures(res, label, prop=prop, binpath=None):
        """group T3 failures by case, shrink the first few distinct ones"""
        if binpath is None:
            binpath = os.path.join(TARGET, "debug", prop["harness_bin"])
        by_case = collections.OrderedDict()
        for t in res["t3"]:
            by_case.setdefault((t["case"], t.get("case_index")), []).append(t)
        done = 0
        seen_keys = set()
        for (cname, cidx), ts in by_case.items():
            if done >= 6:
                break
            if cidx is not None and 0 <= cidx < len(res["cases"]):
                case = res["cases"][cidx]
            else:
                case = next((c for c in res["cases"] if c["name"] == cname), None)
            if case is None:
                continue
            sig = re.sub(r"[0-9a-f]{4,}|\d+", "#", ts[0]["msg"])[:60]
            pred = lambda r: any(re.sub(r"[0-9a-f]{4,}|\d+", "#", x["msg"])[:60] == sig for x in r["t3"])
            # each run of a case on which the code under test never returns costs a watchdog period
            slow = "made no progress" in ts[0]["msg"]
            small, runs = shrink(prop, pid, binpath, case, workdir, pred, budget=8 if slow else 150)
            key = replay_key(small)
            if key in seen_keys:
                continue
            seen_keys.add(key)
            done += 1
            kn = next((k for k in known if k["prop"] == pid and k["key"] == key), None)
            if kn:
                known_hits.append((key, kn["what"]))
                continue
            text = "# property %s: oracle failure on the REAL code (%s)\n# engine=%s%s\n# %s\n# key=%s shrink_runs=%d\n" % (pid, label, prop["engine"], (" build=ndebug" if prop.get("ndebug") else "") + ((" run_prop=" + prop["run_pid"]) if prop.get("run_pid") else ""), ts[0]["msg"], key, runs) + "\n".join(small) + "\n"
            violations.append((write_replay("%s-%s.ops" % (pid, key), text), ts[0]["msg"]))

    any_t3 = False
    if result is not None and result["t3"] and main_is_target:
        handle_t3_failures(result, "main run")
        any_t3 = True
    for eprop, ebin, eres in extra_results:
        if eres["t3"]:
            handle_t3_failures(eres, "run of the %s engine%s" % (eprop["engine"], " built without debug assertions" if eprop.get("ndebug") else ""), prop=eprop, binpath=ebin)
            any_t3 = True
    if any_t3:
        pass
    elif broken_obs and not args.replay:
        # an obligation broke without an oracle failure: search for a failing input
        found = False
        search_note = ""
        if brc == 0 and os.path.exists(binpath):
            # search input: the regression corpus, then the quick generator (what the main run would have
            # executed had the proofs built), then the thorough generator with another seed
            sp = os.path.join(workdir, "search.ops")
            grc = 0
            with open(sp, "w") as f:
                corpus_dir = os.path.join(VERIF, "corpus", pid)
                if os.path.isdir(corpus_dir):
                    for fn in sorted(os.listdir(corpus_dir)):
                        if fn.endswith(".ops"):
                            f.write(open(os.path.join(corpus_dir, fn)).read().rstrip("\n") + "\n")
                for tier, seed in (("quick", args.seed), ("thorough", args.seed + 1)):
                    part = os.path.join(workdir, "search-%s.ops" % tier)
                    g1, gout, gdt = sh([binpath, "gen", "--prop", pid, "--tier", tier, "--seed", str(seed), "--out", part],
                                       env=harness_env(), timeout=1800)
                    if g1 == 0:
                        with open(part) as g:
                            shutil.copyfileobj(g, f)
                    else:
                        grc = g1
            if grc == 0:
                # T3 only needs the real side; model disagreements in the search are used as candidates too
                cap = prop.get("timeout_s", {}).get("search", 900)
                sres = execute(prop, pid, binpath, sp, workdir, "search", timeout=cap) if rc == 0 else None
                if sres is None:
                    real_path = os.path.join(workdir, "search.real")
                    run_real(binpath, pid, sp, real_path, cap)
                    cs, t3s, _ = parse_run_output(real_path) if os.path.exists(real_path) else ([], [], [])
                    sres = {"cases": cs, "t3": [x for x in t3s if x["prop"] == pid], "disagreements": []}
                search_note = "searched %d cases: corpus + quick + thorough generator" % len(sres["cases"])
                if sres["t3"]:
                    handle_t3_failures(sres, "search after a broken obligation")
                    found = bool(violations) or bool(known_hits)
        if not found:
            text = "# property %s: no longer shown to hold; no failing input found (%s)\n" % (pid, search_note)
            for o in broken_obs:
                text += "obligation: %s\n  detail: %s\n" % (o["name"], o["detail"][:1500].replace("\n", "\n  "))
            if result is not None and result["disagreements"]:
                d0 = result["disagreements"][0]
                c = result["cases"][d0["case_index"]] if d0["case_index"] >= 0 else None
                if c is not None:
                    pred = lambda r: bool(r["disagreements"])
                    small, runs = shrink(prop, pid, binpath, c, workdir, pred)
                    text += "# minimal op sequence on which model and implementation differ (shrink_runs=%d):\n" % runs + "\n".join(small) + "\n"
            h = hashlib.sha1(text.encode()).hexdigest()[:12]
            violations.append((write_replay("%s-obligation-%s.txt" % (pid, h), text), "no-failing-input-found"))

    # ---- evidence -------------------------------------------------------------------------------
    n_ob = len(obligations)
    n_ok = sum(1 for o in obligations if o["ok"])
    cov = {
        "obligations": max(n_ob, 1),
        "discharged": n_ok,
        "checker_cmd": "cd /verif/lean && lake build %s && lake env lean --run Audit.lean %s%s" % (props_mod, props_mod, " && leanchecker (scratch clean rebuild)" if args.tier == "thorough" else ""),
        "trusted_base": TRUSTED_BASE + prop.get("trusted_base_extra", []),
        "obligation_list": [{"name": o["name"], "ok": o["ok"]} for o in obligations],
        "theorems": [t["theorem"] for t in thms],
        "axioms_used": sorted({a for t in thms for a in t["axioms"]}),
        "t1_spans": {k: v.get("hash") for k, v in spans.items() if k in prop.get("t1_spans", [])},
    }
    cov.update(thorough_extra)
    if result is not None:
        pairs = set()
        op_hist = collections.Counter()
        out_hist = collections.Counter()
        n_ops = 0
        for c in result["cases"]:
            for o, r in zip(c["ops"], c["real"]):
                n_ops += 1
                kind = o.split(" ", 1)[0]
                op_hist[kind] += 1
                if kind != "case" and r != "bad-op":
                    pairs.add(hash((o, r)))
                    out_hist[re.sub(r"[0-9a-f]{2,}|\d+", "#", r)[:24]] += 1
        samples = []
        for c in result["cases"][:1] + result["cases"][len(result["cases"]) // 2:len(result["cases"]) // 2 + 1] + result["cases"][-1:]:
            samples.append({"case": c["name"], "ops_and_real_observations": ["%s -> %s" % (o, r) for o, r in list(zip(c["ops"], c["real"]))[:12]]})
        cov.update({
            "evaluations": n_ops,
            "distinct_nontrivial": len(pairs),
            "rule": prop.get("rule", "") + " | evaluations = op lines executed on the real code and on the model; distinct_nontrivial = distinct (op, real observation) pairs excluding case headers and ops rejected as bad-op",
            "cases": cases_total,
            "traces_validated_against_impl": cases_total,
            "model_disagreements": len(result["disagreements"]),
            "oracle_failures_on_real_code": len(result["t3"]),
            "op_histogram": dict(op_hist.most_common(20)),
            "observation_histogram": dict(out_hist.most_common(20)),
            "samples": samples,
            "exhaustive": bool(prop.get("exhaustive_note")),
            "harness_notes": result["notes"][:20],
        })
        if prop.get("exhaustive_note"):
            cov["exhaustive_note"] = prop["exhaustive_note"]
        if extra_results:
            cov["extra_runs"] = [{
                "engine": ep["engine"], "harness_bin": ep["harness_bin"], "build": "ndebug (%s)" % ND_FLAGS if ep.get("ndebug") else "debug", "cases": len(er["cases"]),
                "evaluations": sum(len(c["ops"]) for c in er["cases"]), "model_disagreements": len(er["disagreements"]),
                "oracle_failures_on_real_code": len(er["t3"]),
            } for ep, _, er in extra_results]
    else:
        cov["samples"] = [{"obligation": o["name"], "ok": o["ok"]} for o in obligations[:10]]
    ev = {
        "property_id": pid,
        "tier": args.tier,
        "seed": args.seed,
        "level": "proof",
        "coverage": cov,
        "assumptions": prop.get("assumptions", []),
        "wall_s": round(time.time() - t_start, 2),
        "violations": len(violations),
        "known_findings_hit": [k for k, _ in known_hits],
        "partial": prop.get("partial", ""),
    }
    if not args.replay:
        with open(os.path.join(VERIF, "evidence", pid + ".json"), "w") as f:
            json.dump(ev, f, indent=1)

    for key, what in known_hits:
        log("KNOWN-FINDING: property=%s key=%s %s" % (pid, key, what))
    log("%s tier=%s obligations=%d discharged=%d cases=%d ops=%s model_disagreements=%s t3_failures=%s wall=%.1fs" % (
        pid, args.tier, n_ob, n_ok, cases_total, cov.get("evaluations"), cov.get("model_disagreements"), cov.get("oracle_failures_on_real_code"), time.time() - t_start))
    for o in obligations:
        if not o["ok"]:
            log("  BROKEN %s: %s" % (o["name"], o["detail"][:400].replace("\n", " ")))
    if violations:
        for path, note in violations:
            tail = " no-failing-input-found" if note == "no-failing-input-found" else ""
            log("VIOLATION property=%s replay=%s%s" % (pid, path, tail))
        sys.exit(1)
    sys.exit(0)


if __name__ == "__main__":
    main()
