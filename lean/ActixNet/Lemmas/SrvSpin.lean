import ActixNet.Lemmas.SrvWake
/-!
# `accept_one` always terminates (no spin), for every history with worker deaths and replacements

With the structural invariant `NP` (every set availability bit has a handle, `next` in range) the
search loop of `accept_one` reaches an available handle — or empties `handles` — within a number of
rounds bounded by the square of the number of handles; the model's fuel `acceptOneFuel` is above that
bound, so the sticky fault `spinAcceptOne` is unreachable (`run_nospinAO`).
-/
namespace ActixNet.Srv
open ActixNet

/-- the fault is not "accept_one never terminates" -/
def NoSpinAO (f : Option Fault) : Prop := f ≠ some .spinAcceptOne

theorem yieldPt_fault (cfg : Cfg) (s : St) : (yieldPt cfg s).fault = s.fault := (yieldPt_fw cfg s).1

theorem setAvail_nospin (s : St) (i : Nat) (v : Bool) (h : NoSpinAO s.fault) : NoSpinAO (setAvail s i v).fault := by
  unfold setAvail; split
  · exact h
  · unfold NoSpinAO; simp
theorem setNext_nospin (s : St) (h : NoSpinAO s.fault) : NoSpinAO (setNext s).fault := by
  unfold setNext; split
  · unfold NoSpinAO; simp
  · exact h
theorem incPrim_nospin (cfg : Cfg) (s : St) (w i : Nat) (h : NoSpinAO s.fault) : NoSpinAO (incPrim cfg s w i).fault := by
  unfold incPrim; simp only; split
  · exact h
  · exact setAvail_nospin _ i false h
theorem sendFail_nospin (s : St) (w : Nat) (c : Conn) (h : NoSpinAO s.fault) : NoSpinAO (sendFail s w c).1.fault := by
  have h1 : NoSpinAO (removeNext s w).fault := by unfold removeNext; simp only; exact setAvail_nospin _ _ false h
  unfold sendFail; simp only
  split
  · exact h1
  · split <;> exact h1

theorem sendConnection_nospin (cfg : Cfg) (s : St) (c : Conn) (h : NoSpinAO s.fault) :
    NoSpinAO (sendConnection cfg s c).1.fault := by
  unfold sendConnection
  split
  · exact h
  · split
    · unfold NoSpinAO; simp
    · rename_i w _
      split
      · apply setNext_nospin
        apply incPrim_nospin
        rw [yieldPt_fault]; exact h
      · exact sendFail_nospin s w c h

/-- the forced-send loop removes one dead handle per round: `handles.length + 1` rounds suffice -/
theorem forcedSend_nospin (cfg : Cfg) : ∀ (fuel : Nat) (s : St) (c : Conn), s.handles.length + 1 ≤ fuel →
    NoSpinAO s.fault → NoSpinAO (forcedSend cfg fuel s c).fault := by
  intro fuel; induction fuel with
  | zero => intro s c h _; omega
  | succ f ih =>
    intro s c hf hn
    simp only [forcedSend]
    have h1 := sendConnection_nospin cfg s c hn
    cases hsc : sendConnection cfg s c with
    | mk s1 b =>
      rw [hsc] at h1
      cases b with
      | true => exact h1
      | false =>
        simp only [Bool.false_eq_true, ↓reduceIte]
        -- an `Err` means a handle was removed
        have hlen : s1.handles.length < s.handles.length := by
          by_cases hfs : s1.fault = none
          · rcases sendConnection_log cfg s c (by rw [hsc]; exact hfs) with ⟨hb, _⟩ | ⟨_, _, hl, _⟩
            · rw [hsc] at hb; cases hb
            · rw [hsc] at hl; exact hl
          · -- with a fault the next round returns at once; any bound works, derive it from the structure
            unfold sendConnection at hsc
            split at hsc
            · cases hsc
            · split at hsc
              · cases hsc
              · split at hsc
                · cases hsc
                · rename_i w hw _
                  have hk : s.next < s.handles.length := (List.getElem?_eq_some_iff.mp hw).1
                  simp only [sendFail] at hsc
                  split at hsc
                  · cases hsc
                  · split at hsc
                    · cases hsc
                      simp [removeNext, setAvail]; split <;> simp [swapRemove_length] <;> omega
                    · cases hsc
                      simp [removeNext, setAvail]; split <;> simp [swapRemove_length] <;> omega
        exact ih s1 c (by omega) h1


/-- cyclic distance from position `n` to position `p` in a ring of `len` -/
def dist (n p len : Nat) : Nat := if n ≤ p then p - n else p + len - n

theorem dist_lt {n p len : Nat} (hn : n < len) (hp : p < len) : dist n p len < len := by
  unfold dist; split <;> omega

theorem dist_step {n p len : Nat} (hn : n < len) (hp : p < len) (hne : p ≠ n) :
    dist ((n + 1) % len) p len + 1 = dist n p len := by
  by_cases h : n + 1 < len
  · rw [Nat.mod_eq_of_lt h]; unfold dist; split <;> split <;> omega
  · have : n + 1 = len := by omega
    rw [this, Nat.mod_self]; unfold dist; split <;> split <;> omega

/-- some handle within cyclic distance `d` of `next` is marked available -/
def Near (s : St) (d : Nat) : Prop :=
  ∃ p w, s.handles[p]? = some w ∧ s.avail (s.wk w).idx = true ∧ dist s.next p s.handles.length ≤ d

/-- fuel requirement of `accept_one`: quadratic in the number of handles, plus the distance to the
next available handle -/
def FuelOk (cfg : Cfg) (s : St) (fuel : Nat) : Prop :=
  ∃ d, d ≤ s.handles.length ∧ (anyAvail cfg s = true → Near s d) ∧ s.handles.length * s.handles.length + d + 2 ≤ fuel

theorem near_of_anyAvail {cfg : Cfg} {s : St} (h : NP cfg s) (hne : s.handles ≠ []) (ha : anyAvail cfg s = true) :
    Near s s.handles.length := by
  unfold anyAvail at ha
  obtain ⟨i, _, hi⟩ := List.any_eq_true.mp ha
  obtain ⟨w, hw, hidx⟩ := h.sound.bit i hi
  simp only [view] at hw hidx
  obtain ⟨p, hp, hget⟩ := List.mem_iff_getElem.mp hw
  have hn : s.next < s.handles.length := h.sound.next1 hne
  exact ⟨p, w, by rw [List.getElem?_eq_getElem hp, hget], by rw [hidx]; exact hi, Nat.le_of_lt (dist_lt hn hp)⟩

theorem sq_step {a b : Nat} (h : a + 1 ≤ b) : a * a + 2 * a + 1 ≤ b * b := by
  have := Nat.mul_le_mul h h
  have e : (a + 1) * (a + 1) = a * a + 2 * a + 1 := by
    rw [Nat.add_mul, Nat.mul_add, Nat.mul_one, Nat.one_mul]; omega
  omega

/-- **`accept_one` terminates**: with the structural invariant, its search for an available handle
never runs out of fuel — it never spins (the failure mode of the stale-notification defect) -/
theorem acceptOne_nospin {cfg : Cfg} (ok : CfgOk cfg) : ∀ (fuel : Nat) (s : St) (c : Conn), NP cfg s → s.handles ≠ [] →
    FuelOk cfg s fuel → NoSpinAO s.fault → NoSpinAO (acceptOne cfg fuel s c).fault := by
  intro fuel; induction fuel with
  | zero => intro s c _ _ hf _; obtain ⟨d, _, _, h⟩ := hf; omega
  | succ f ih =>
    intro s c h hne hf hn
    simp only [acceptOne]
    split
    · exact hn
    · obtain ⟨w, hw, hwm⟩ := handles_next_some h.sound hne
      rw [hw]; simp only
      obtain ⟨d, hd, hnear, hfuel⟩ := hf
      have hnl : s.next < s.handles.length := h.sound.next1 hne
      split
      · -- the handle at `next` is marked available: send
        have h1n := sendConnection_nospin cfg s c hn
        obtain ⟨h1, h2⟩ := sendConnection_np ok h hne c
        cases hsc : sendConnection cfg s c with
        | mk s1 b =>
          rw [hsc] at h1n h1 h2
          cases b with
          | true => exact h1n
          | false =>
            simp only [Bool.false_eq_true, ↓reduceIte]
            have hne1 : s1.handles ≠ [] := h2 rfl
            have hlen : s1.handles.length + 1 ≤ s.handles.length := by
              by_cases hfs : s1.fault = none
              · rcases sendConnection_log cfg s c (by rw [hsc]; exact hfs) with ⟨hb, _⟩ | ⟨_, _, hl, _⟩
                · rw [hsc] at hb; cases hb
                · rw [hsc] at hl; simp only at hl; omega
              · have sh := (sendConnection_shrinks cfg s c).sticky
                rw [hsc] at sh
                -- a faulted state returns immediately in the recursive call; bound from Sound instead
                have := swapRemove_length s.handles s.next
                unfold sendConnection at hsc
                split at hsc
                · cases hsc
                · rw [hw] at hsc; simp only at hsc
                  split at hsc
                  · cases hsc
                  · simp only [sendFail] at hsc
                    split at hsc
                    · cases hsc
                    · split at hsc
                      · cases hsc; simp [removeNext, setAvail]; split <;> simp [swapRemove_length] <;> omega
                      · cases hsc; simp [removeNext, setAvail]; split <;> simp [swapRemove_length] <;> omega
            refine ih s1 c h1 hne1 ⟨s1.handles.length, Nat.le_refl _, fun ha => near_of_anyAvail h1 hne1 ha, ?_⟩ h1n
            have := sq_step hlen
            omega
      · -- not available: clear (no-op), advance, look again
        rename_i hav
        have hav' : s.avail (s.wk w).idx = false := by simpa using hav
        have h512 := idx_lt_512 ok h.sound hwm
        have hsa : setAvail s (s.wk w).idx false = s := by
          unfold setAvail; simp only [h512, ↓reduceIte]
          have : upd s.avail (s.wk w).idx false = s.avail := by rw [← hav']; exact upd_noop _ _
          rw [this]
        rw [hsa]
        obtain ⟨h2, hh2⟩ := setNext_np h hne
        have hl : s.handles.length ≠ 0 := fun h0 => hne (List.length_eq_zero_iff.mp h0)
        have hsn : setNext s = { s with next := (s.next + 1) % s.handles.length } := by unfold setNext; rw [if_neg hl]
        have hn2 : NoSpinAO (setNext s).fault := setNext_nospin s hn
        split
        · exact forcedSend_nospin cfg _ _ c (by rw [hh2]; exact Nat.le_refl _) hn2
        · rename_i hany
          have hany' : anyAvail cfg (setNext s) = true := by simpa using hany
          have hany0 : anyAvail cfg s = true := by rw [hsn] at hany'; exact hany'
          obtain ⟨p, w', hp, hpa, hpd⟩ := hnear hany0
          have hpl : p < s.handles.length := (List.getElem?_eq_some_iff.mp hp).1
          have hpn : p ≠ s.next := by
            intro he; subst he; rw [hw] at hp; cases hp; rw [hav'] at hpa; cases hpa
          have hstep := dist_step hnl hpl hpn
          refine ih _ c h2 (by rw [hh2]; exact hne) ⟨d - 1, by rw [hh2]; omega, ?_, by rw [hh2]; omega⟩ hn2
          intro _
          refine ⟨p, w', by rw [hh2]; exact hp, by rw [hsn]; exact hpa, ?_⟩
          rw [hh2, hsn]; simp only; omega


theorem acceptOneFuel_ok {cfg : Cfg} {s : St} (h : NP cfg s) (hne : s.handles ≠ []) : FuelOk cfg s (acceptOneFuel s) := by
  refine ⟨s.handles.length, Nat.le_refl _, fun ha => near_of_anyAvail h hne ha, ?_⟩
  unfold acceptOneFuel
  have e : (s.handles.length + 1) * (s.handles.length + 1) = s.handles.length * s.handles.length + 2 * s.handles.length + 1 := by
    rw [Nat.add_mul, Nat.mul_add, Nat.mul_one, Nat.one_mul]; omega
  omega

theorem accept_nospinAO {cfg : Cfg} (ok : CfgOk cfg) : ∀ (fuel : Nat) (s : St) (l : Nat), NP cfg s → NoSpinAO s.fault →
    NoSpinAO (accept cfg fuel s l).fault := by
  intro fuel; induction fuel with
  | zero => intro s l _ _; unfold NoSpinAO; simp [accept]
  | succ f ih =>
    intro s l h hn
    simp only [accept]
    split
    · exact hn
    · split
      · exact hn
      · rename_i hany
        have hany' : anyAvail cfg s = true := by simpa using hany
        have h0 := yieldPt_np cfg s h
        have hn0 : NoSpinAO (yieldPt cfg s).fault := by rw [yieldPt_fault]; exact hn
        have fr := acceptSys_vframe (yieldPt cfg s) l
        have hav : (acceptSys (yieldPt cfg s) l).1.avail = s.avail := by
          have := congrArg View.avail fr.1; simp only [view] at this; rw [this, yieldPt_avail]
        generalize acceptSys (yieldPt cfg s) l = r at fr hav
        obtain ⟨s1, res⟩ := r
        simp only at fr hav ⊢
        have h1 : NP cfg s1 := h0.vframe fr
        have hn1 : NoSpinAO s1.fault := by rw [fr.2]; exact hn0
        have hne1 : s1.handles ≠ [] := anyAvail_handles h1.sound (by unfold anyAvail at hany' ⊢; rw [hav]; exact hany')
        cases res with
        | conn c =>
          exact ih _ l (acceptOne_np ok _ s1 c h1 hne1)
            (acceptOne_nospin ok _ s1 c h1 hne1 (acceptOneFuel_ok h1 hne1) hn1)
        | wouldBlock => exact hn1
        | connErr => exact ih _ l h1 hn1
        | otherErr =>
          have : ∀ (x : St) (t : Nat), (setTimeout x t).fault = x.fault := by
            intro x t; unfold setTimeout; split
            · split <;> rfl
            · rfl
          rw [this]; exact hn1

theorem acceptAllFrom_nospinAO {cfg : Cfg} (ok : CfgOk cfg) : ∀ (ls : List Nat) (s : St), NP cfg s → NoSpinAO s.fault →
    NoSpinAO (acceptAllFrom cfg s ls).fault := by
  intro ls; induction ls with
  | nil => intro s _ h; exact h
  | cons l ls ih =>
    intro s h hn; simp only [acceptAllFrom]
    exact ih _ (accept_np ok _ s l h) (accept_nospinAO ok _ s l h hn)

theorem handleWaker_nospinAO {cfg : Cfg} (ok : CfgOk cfg) : ∀ (fuel : Nat) (s : St), NP cfg s → NoSpinAO s.fault →
    NoSpinAO (handleWaker cfg fuel s).1.fault := by
  intro fuel; induction fuel with
  | zero => intro s _ _; unfold NoSpinAO; simp [handleWaker]
  | succ f ih =>
    intro s h hn
    -- NP of every intermediate state comes from `handleWaker_np`'s pieces; the fault is only touched by
    -- `accept_all` (covered above), `wakePrim`/`addWorker` (panic faults only) and the frames
    simp only [handleWaker]
    split
    · exact hn
    · have h0 := yieldPt_np cfg s h
      have hn0 : NoSpinAO (yieldPt cfg s).fault := by rw [yieldPt_fault]; exact hn
      generalize yieldPt cfg s = s0 at h0 hn0 ⊢
      cases hwq : s0.wq with
      | nil => exact hn0
      | cons i q =>
        simp only
        have aA : ∀ x : St, NP cfg x → NoSpinAO x.fault → NP cfg (acceptAll cfg x) ∧ NoSpinAO (acceptAll cfg x).fault :=
          fun x hx hnx => ⟨acceptAll_np ok hx, acceptAllFrom_nospinAO ok _ x hx hnx⟩
        cases i with
        | workerAvail idx =>
          have h1 : NP cfg { s0 with wq := q } := popWq_np h0 _ q hwq (by intro w hw; cases hw)
          have h2 : NP cfg (wakePrim { s0 with wq := q } idx) ∧ NoSpinAO (wakePrim { s0 with wq := q } idx).fault := by
            unfold wakePrim
            split
            · rename_i hh
              obtain ⟨w, hw, hidx⟩ := hasHandleIdx_mem _ idx hh
              exact ⟨setAvail_np h1 idx true (by rw [← hidx]; exact idx_lt_512 ok h1.sound hw) (fun _ => ⟨w, hw, hidx⟩),
                setAvail_nospin _ idx true hn0⟩
            · exact ⟨h1, hn0⟩
          simp only
          split
          · obtain ⟨a, b⟩ := aA _ h2.1 h2.2; exact ih _ a b
          · exact ih _ h2.1 h2.2
        | worker w =>
          have hp : (view s0).pend = w :: pendingWorkers q := by
            simp only [view, hwq, pendingWorkers, List.filterMap_cons]
          have hwlt : w < s0.nWk := h0.sound.plt w (by rw [hp]; exact List.mem_cons_self)
          have h512 : (s0.wk w).idx < 512 := by
            have := h0.sound.idxlt w hwlt; have := ok.max; simp only [view] at *; omega
          have h3 : NP cfg (addWorker { s0 with wq := q } w) := by
            refine ⟨?_, by simp only [addWorker, setAvail, h512, ↓reduceIte]; exact h0.nopanic⟩
            have key := SoundV.addWorker h0.sound w (pendingWorkers q) hp
            unfold Sound
            have hv : view (addWorker { s0 with wq := q } w) =
                View.mk (view s0).idxOf (view s0).nWk ((view s0).handles ++ [w]) (view s0).next
                  (upd (view s0).avail ((view s0).idxOf w) true) (pendingWorkers q) (view s0).flog (view s0).restarted := by
              simp only [addWorker, setAvail, h512, ↓reduceIte, view]
            rw [hv]; exact key
          have hn3 : NoSpinAO (addWorker { s0 with wq := q } w).fault := by
            simp only [addWorker, setAvail, h512, ↓reduceIte]; exact hn0
          simp only
          split
          · obtain ⟨a, b⟩ := aA _ h3 hn3; exact ih _ a b
          · exact ih _ h3 hn3
        | pause =>
          have h1 : NP cfg { s0 with wq := q } := popWq_np h0 _ q hwq (by intro w hw; cases hw)
          simp only
          split
          · have h1' : NP cfg { s0 with wq := q, paused := true } := NP.vframe (s := { s0 with wq := q }) ⟨rfl, rfl⟩ h1
            have f := deregisterAllFrom_vframe (List.range s0.nLst) { s0 with wq := q, paused := true }
            exact ih _ (h1'.vframe f) (by unfold deregisterAll; rw [f.2]; exact hn0)
          · exact ih _ h1 hn0
        | resume =>
          have h1 : NP cfg { s0 with wq := q } := popWq_np h0 _ q hwq (by intro w hw; cases hw)
          simp only
          split
          · have h1' : NP cfg { s0 with wq := q, paused := false } := NP.vframe (s := { s0 with wq := q }) ⟨rfl, rfl⟩ h1
            have f := registerAllFrom_vframe (List.range s0.nLst) { s0 with wq := q, paused := false }
            obtain ⟨a, b⟩ := aA _ (h1'.vframe f) (by rw [f.2]; exact hn0)
            exact ih _ a b
          · exact ih _ h1 hn0
        | stop =>
          simp only
          split
          · have f := deregisterAllFrom_vframe (List.range s0.nLst) { s0 with wq := q }
            show NoSpinAO (cleanupAll (deregisterAll { s0 with wq := q })).fault
            unfold deregisterAll cleanupAll; simp only; rw [f.2]; exact hn0
          · exact hn0

theorem pollEvents_nospinAO {cfg : Cfg} (ok : CfgOk cfg) : ∀ (order : List Ev) (s : St), NP cfg s → NoSpinAO s.fault →
    NoSpinAO (pollEvents cfg s order).1.fault := by
  intro order; induction order with
  | nil => intro s _ h; exact h
  | cons e es ih =>
    intro s h hn
    simp only [pollEvents]
    cases e with
    | waker =>
      simp only
      have hw := handleWaker_nospinAO ok (wakerFuel s) s h hn
      have hp := handleWaker_np ok (wakerFuel s) s h
      generalize handleWaker cfg (wakerFuel s) s = r at hw hp
      obtain ⟨s1, ex⟩ := r
      simp only at hw hp ⊢
      split
      · exact hw
      · exact ih _ hp hw
    | listener l => exact ih _ (accept_np ok _ s l h) (accept_nospinAO ok _ s l h hn)

theorem poll_nospinAO {cfg : Cfg} (ok : CfgOk cfg) {s : St} (h : NP cfg s) (hn : NoSpinAO s.fault) (order : List Ev)
    (sched : List (List EnvAct)) : NoSpinAO (poll cfg s order sched).fault := by
  unfold poll
  split
  · exact hn
  · have h0 : NP cfg (clearEdges { s with sched := sched, yields := 0 }) := NP.vframe (s := s) ⟨rfl, rfl⟩ h
    have h1 := pollEvents_nospinAO ok order _ h0 hn
    generalize (pollEvents cfg (clearEdges { s with sched := sched, yields := 0 }) order) = r at h1
    unfold pollFinish
    split
    · exact h1
    · show NoSpinAO (processTimeout r.1).fault
      rw [(processTimeout_vframe r.1).2]; exact h1

theorem step_nospinAO {cfg : Cfg} (ok : CfgOk cfg) {s : St} (h : NP cfg s) (hn : NoSpinAO s.fault) (op : Op) :
    NoSpinAO (step cfg s op).fault := by
  cases op with
  | env a => simp only [step]; rw [(runEnv_fw cfg [a] s).1]; exact hn
  | poll order sched => exact poll_nospinAO ok h hn order sched
  | finishW2 w c order =>
    simp only [step]
    have h1 : NP cfg { (envStep cfg s (.finish w c)).1 with acts := (envStep cfg s (.finish w c)).1.acts ++ [(envStep cfg s (.finish w c)).2] } :=
      NP.vframe (s := (envStep cfg s (.finish w c)).1) ⟨rfl, rfl⟩ (envStep_np cfg s (.finish w c) h)
    have hn1 : NoSpinAO ({ (envStep cfg s (.finish w c)).1 with acts := (envStep cfg s (.finish w c)).1.acts ++ [(envStep cfg s (.finish w c)).2] } : St).fault := by
      show NoSpinAO (envStep cfg s (.finish w c)).1.fault
      rw [(envStep_fw cfg s _).1]; exact hn
    split
    · rw [(runEnv_fw cfg _ _).1]; exact poll_nospinAO ok h1 hn1 order []
    · exact hn1

theorem run_nospinAO {cfg : Cfg} (ok : CfgOk cfg) : ∀ (ops : List Op) (s : St), NP cfg s → NoSpinAO s.fault →
    NoSpinAO (run cfg s ops).fault := by
  intro ops; induction ops with
  | nil => intro s _ h; exact h
  | cons op ops ih => intro s h hn; simp only [run]; exact ih _ (step_np ok h op) (step_nospinAO ok h hn op)


end ActixNet.Srv
