import ActixNet.Model.Counter
/-!
# Lemmas for C17

1. Semantic characterisations of the **generated** kernels (`Src.ucInc/ucDec/ucAvailable`).  These
   are the only places where the shape of the translated Rust is looked at; they are proved with
   `unfold … ; grind`-style tactics so that behaviour-preserving rewrites of counter.rs still go
   through, while a changed comparison (`==` → `>`, `<` → `<=`) makes them false.
2. The refinement invariant `Rel` between the model state and the kernel-free `Spec`.
-/
set_option linter.unusedSimpArgs false
namespace ActixNet
namespace Counter

/-! ## generated kernels -/

theorem ucInc_eq (c cap : Nat) : Src.ucInc c cap = c + 1 := by
  unfold Src.ucInc; grind

theorem ucDec_fst (c cap : Nat) (w : Bool) : (Src.ucDec c cap w).1 = c - 1 := by
  unfold Src.ucDec; grind

theorem ucDec_snd (c cap : Nat) (w : Bool) : (Src.ucDec c cap w).2 = (w || decide (c = cap)) := by
  unfold Src.ucDec; grind

theorem ucAvailable_fst (c cap : Nat) (r : Bool) : (Src.ucAvailable c cap r).1 = decide (c < cap) := by
  unfold Src.ucAvailable; grind

theorem ucAvailable_snd (c cap : Nat) (r : Bool) :
    (Src.ucAvailable c cap r).2 = (r || !decide (c < cap)) := by
  unfold Src.ucAvailable; grind

/-! ## the three methods, kernel-free -/

theorem inc_eq (c : Counter) : c.inc = { c with count := c.count + 1 } := by
  simp only [Counter.inc, ucInc_eq]

theorem dec_eq (c : Counter) :
    c.dec = if c.count = c.capacity then
              ({ c with count := c.count - 1, task := {} }, c.task.waker)
            else ({ c with count := c.count - 1 }, none) := by
  simp only [Counter.dec, ucDec_fst, ucDec_snd, LocalWaker.wake, LocalWaker.take]
  by_cases h : c.count = c.capacity <;> simp [h]

theorem available_eq (c : Counter) (w : WakerId) :
    c.available w = if c.count < c.capacity then (c, true)
                    else ({ c with task := { waker := some w } }, false) := by
  simp only [Counter.available, ucAvailable_fst, ucAvailable_snd, LocalWaker.register]
  by_cases h : c.count < c.capacity <;> simp [h]

/-- a guard drop, kernel-free: `dec`; an inline-polling woken task sees the decremented count and is
answered "available" (so it does not re-register) -/
theorem release_eq (c : Counter) (h : 0 < c.count) :
    c.release = (c.dec.1, c.dec.2.bind (fun w => if inlineWaker w then some (c.count - 1, true) else none)) := by
  simp only [Counter.release]
  rw [dec_eq]
  by_cases hc : c.count = c.capacity
  · simp only [hc, if_true]
    cases hw : c.task.waker with
    | none => simp
    | some w =>
      have hlt : c.capacity - 1 < c.capacity := by omega
      by_cases hi : inlineWaker w = true
      · simp [hi, available_eq, hlt]
      · simp [hi]
  · simp [hc]

/-! ## refinement invariant -/

/-- the model state agrees with the kernel-free reference -/
def Rel (cap : Nat) (s : Sys) (sp : Spec) : Prop :=
  s.ctr.capacity = cap ∧ s.ctr.count = s.guards.length ∧ sp.live = s.guards.length ∧
  s.ctr.task.waker = sp.pend

theorem rel_init (cap : Nat) : Rel cap (init cap) {} := by
  simp [Rel, init]

theorem rel_step {cap : Nat} {s s' : Sys} {sp : Spec} {op : Op} {o : Obs}
    (h : Rel cap s sp) (hs : step s op = some (s', o)) : Rel cap s' (sp.step cap op) := by
  obtain ⟨h1, h2, h3, h4⟩ := h
  cases op with
  | acquire hd =>
    simp only [step] at hs; split at hs
    · simp only [Option.some.injEq, Prod.mk.injEq] at hs; obtain ⟨hs, _⟩ := hs; subst hs
      simp [Rel, Spec.step, inc_eq, h1, h2, h3, h4]
    · simp at hs
  | drop g =>
    simp only [step] at hs; split at hs
    · rename_i hg
      simp only [Option.some.injEq, Prod.mk.injEq] at hs; obtain ⟨hs, _⟩ := hs; subst hs
      have hl : (s.guards.erase g).length = s.guards.length - 1 := List.length_erase_of_mem hg
      have hpos : 0 < s.ctr.count := by rw [h2]; exact List.length_pos_of_mem hg
      simp only [Rel, Spec.step, release_eq _ hpos, dec_eq, h1, h2, h3]
      by_cases hc : s.guards.length = cap
      · simp [hc, hl, h1, h2]
      · simp [hc, hl, h1, h2, h4]
    · simp at hs
  | available hd w =>
    simp only [step] at hs; split at hs
    · simp only [Option.some.injEq, Prod.mk.injEq] at hs; obtain ⟨hs, _⟩ := hs; subst hs
      simp only [Rel, Spec.step, available_eq, h1, h2, h3]
      by_cases hc : s.guards.length < cap <;> simp [hc, h1, h2, h4]
    · simp at hs
  | clone hd =>
    simp only [step] at hs; split at hs
    · simp only [Option.some.injEq, Prod.mk.injEq] at hs; obtain ⟨hs, _⟩ := hs; subst hs
      exact ⟨h1, h2, h3, h4⟩
    · simp at hs
  | total hd =>
    simp only [step] at hs; split at hs
    · simp only [Option.some.injEq, Prod.mk.injEq] at hs; obtain ⟨hs, _⟩ := hs; subst hs
      exact ⟨h1, h2, h3, h4⟩
    · simp at hs
  | dropHandle hd =>
    simp only [step] at hs; split at hs
    · simp only [Option.some.injEq, Prod.mk.injEq] at hs; obtain ⟨hs, _⟩ := hs; subst hs
      exact ⟨h1, h2, h3, h4⟩
    · simp at hs
  | debug hd =>
    simp only [step] at hs; split at hs
    · simp only [Option.some.injEq, Prod.mk.injEq] at hs; obtain ⟨hs, _⟩ := hs; subst hs
      exact ⟨h1, h2, h3, h4⟩
    · simp at hs
  | debugGuard g =>
    simp only [step] at hs; split at hs
    · simp only [Option.some.injEq, Prod.mk.injEq] at hs; obtain ⟨hs, _⟩ := hs; subst hs
      exact ⟨h1, h2, h3, h4⟩
    · simp at hs

theorem rel_run {cap : Nat} (ops : List Op) : ∀ {s s' : Sys} {sp : Spec} {os : List Obs},
    Rel cap s sp → run s ops = some (s', os) → Rel cap s' (ops.foldl (Spec.step cap) sp) := by
  induction ops with
  | nil => intro s s' sp os h hr; simp [run] at hr; obtain ⟨hr, _⟩ := hr; subst hr; simpa using h
  | cons op ops ih =>
    intro s s' sp os h hr
    simp only [run] at hr
    split at hr
    · simp at hr
    · rename_i s1 o hs1
      split at hr
      · simp at hr
      · rename_i s2 os2 hr2
        simp only [Option.some.injEq, Prod.mk.injEq] at hr; obtain ⟨hr, _⟩ := hr; subst hr
        simpa using ih (rel_step h hs1) hr2

/-- every reachable state agrees with the reference computed from the history alone -/
theorem rel_reach {cap : Nat} {ops : List Op} {s : Sys} {os : List Obs}
    (hr : run (init cap) ops = some (s, os)) : Rel cap s (specOf cap ops) :=
  rel_run ops (rel_init cap) hr

/-- nobody is left parked while the counter is below its capacity -/
def ParkedOk (s : Sys) : Prop := ∀ w, s.ctr.task.waker = some w → s.ctr.capacity ≤ s.ctr.count

theorem parkedOk_step {cap : Nat} {s s' : Sys} {sp : Spec} {op : Op} {o : Obs}
    (hrel : Rel cap s sp) (h : ParkedOk s) (hs : step s op = some (s', o)) : ParkedOk s' := by
  obtain ⟨h1, h2, h3, h4⟩ := hrel
  cases op with
  | acquire hd =>
    simp only [step] at hs; split at hs
    · simp only [Option.some.injEq, Prod.mk.injEq] at hs; obtain ⟨hs, _⟩ := hs; subst hs
      intro w hw; have := h w (by simpa [inc_eq] using hw); simp [inc_eq]; omega
    · simp at hs
  | drop g =>
    simp only [step] at hs; split at hs
    · rename_i hg
      simp only [Option.some.injEq, Prod.mk.injEq] at hs; obtain ⟨hs, _⟩ := hs; subst hs
      have hpos : 0 < s.ctr.count := by rw [h2]; exact List.length_pos_of_mem hg
      intro w hw
      simp only [release_eq _ hpos, dec_eq] at hw ⊢
      by_cases hc : s.ctr.count = s.ctr.capacity
      · simp [hc] at hw
      · simp only [hc, if_false] at hw ⊢
        have := h w hw
        simp; omega
    · simp at hs
  | available hd w' =>
    simp only [step] at hs; split at hs
    · simp only [Option.some.injEq, Prod.mk.injEq] at hs; obtain ⟨hs, _⟩ := hs; subst hs
      intro w hw
      simp only [available_eq] at hw ⊢
      by_cases hc : s.ctr.count < s.ctr.capacity
      · simp only [hc, if_true] at hw ⊢; exact h w hw
      · simp only [hc, if_false]; omega
    · simp at hs
  | clone hd =>
    simp only [step] at hs; split at hs
    · simp only [Option.some.injEq, Prod.mk.injEq] at hs; obtain ⟨hs, _⟩ := hs; subst hs; exact h
    · simp at hs
  | total hd =>
    simp only [step] at hs; split at hs
    · simp only [Option.some.injEq, Prod.mk.injEq] at hs; obtain ⟨hs, _⟩ := hs; subst hs; exact h
    · simp at hs
  | dropHandle hd =>
    simp only [step] at hs; split at hs
    · simp only [Option.some.injEq, Prod.mk.injEq] at hs; obtain ⟨hs, _⟩ := hs; subst hs; exact h
    · simp at hs
  | debug hd =>
    simp only [step] at hs; split at hs
    · simp only [Option.some.injEq, Prod.mk.injEq] at hs; obtain ⟨hs, _⟩ := hs; subst hs; exact h
    · simp at hs
  | debugGuard g =>
    simp only [step] at hs; split at hs
    · simp only [Option.some.injEq, Prod.mk.injEq] at hs; obtain ⟨hs, _⟩ := hs; subst hs; exact h
    · simp at hs

theorem parkedOk_run {cap : Nat} (ops : List Op) : ∀ {s s' : Sys} {sp : Spec} {os : List Obs},
    Rel cap s sp → ParkedOk s → run s ops = some (s', os) → ParkedOk s' := by
  induction ops with
  | nil => intro s s' sp os _ h hr; simp [run] at hr; obtain ⟨hr, _⟩ := hr; subst hr; exact h
  | cons op ops ih =>
    intro s s' sp os hrel h hr
    simp only [run] at hr
    split at hr
    · simp at hr
    · rename_i s1 o hs1
      split at hr
      · simp at hr
      · rename_i s2 os2 hr2
        simp only [Option.some.injEq, Prod.mk.injEq] at hr; obtain ⟨hr, _⟩ := hr; subst hr
        exact ih (rel_step hrel hs1) (parkedOk_step hrel h hs1) hr2

theorem parkedOk_reach {cap : Nat} {ops : List Op} {s : Sys} {os : List Obs}
    (hr : run (init cap) ops = some (s, os)) : ParkedOk s :=
  parkedOk_run ops (rel_init cap) (by intro w hw; simp [init] at hw) hr

/-- `run` splits over `++` -/
theorem run_append (ops1 ops2 : List Op) : ∀ (s : Sys),
    run s (ops1 ++ ops2) =
      match run s ops1 with
      | none => none
      | some (s1, os1) =>
        match run s1 ops2 with
        | none => none
        | some (s2, os2) => some (s2, os1 ++ os2) := by
  induction ops1 with
  | nil => intro s; simp only [List.nil_append, run]; cases run s ops2 <;> simp
  | cons op ops ih =>
    intro s
    simp only [List.cons_append, run]
    cases hs : step s op with
    | none => simp
    | some p =>
      obtain ⟨s1, o⟩ := p
      simp only [ih s1]
      cases run s1 ops with
      | none => simp
      | some q =>
        obtain ⟨s2, os1⟩ := q
        simp only
        cases run s2 ops2 with
        | none => simp
        | some r => simp

theorem specOf_append (cap : Nat) (a b : List Op) :
    specOf cap (a ++ b) = b.foldl (Spec.step cap) (specOf cap a) := by
  simp [specOf, List.foldl_append]

/-- operations other than `available` never set the pending waker -/
theorem pend_none_of_no_avail (cap : Nat) (mid : List Op) : ∀ (sp : Spec),
    sp.pend = none → (∀ op ∈ mid, op.isAvailable = false) → (mid.foldl (Spec.step cap) sp).pend = none := by
  induction mid with
  | nil => intro sp h _; simpa using h
  | cons op mid ih =>
    intro sp h hm
    simp only [List.foldl_cons]
    apply ih
    · have := hm op (by simp)
      cases op <;> simp_all [Spec.step, Op.isAvailable]
    · intro o ho; exact hm o (by simp [ho])

/-! ## LocalWaker -/

theorem lw_run_snoc (ops : List LocalWaker.Op) (op : LocalWaker.Op) :
    LocalWaker.run (ops ++ [op]) = (LocalWaker.step (LocalWaker.run ops) op).1 := by
  simp [LocalWaker.run, List.foldl_append]

/-- the model's cell always holds exactly the outstanding waker of the history -/
theorem lw_run_eq_outstanding (ops : List LocalWaker.Op) :
    (LocalWaker.run ops).waker = LocalWaker.outstanding ops := by
  rcases List.eq_nil_or_concat ops with h | ⟨pre, op, h⟩
  · subst h; simp [LocalWaker.run, LocalWaker.outstanding]
  · subst h
    simp only [List.concat_eq_append]
    rw [lw_run_snoc]
    cases op <;>
      simp [LocalWaker.step, LocalWaker.outstanding, LocalWaker.register, LocalWaker.wake, LocalWaker.take]

end Counter
end ActixNet
