import ActixNet.Lemmas.Avail
import ActixNet.Lemmas.SrvRR
import ActixNet.Lemmas.SrvProgress
import ActixNet.Lemmas.SrvCursor
import ActixNet.Lemmas.SrvCursor2
/-!
# C04 — dispatch is round-robin over available workers only; availability bits are independent

Part 1 (this section): the availability tracking.  The theorems are about the **generated** bodies
of `Availability::{offset, get_available, set_available, available}` (T1) and hold for all 2^512
bitset states and all index pairs — by bit-level lemmas with symbolic indices, not by enumeration.
-/
namespace ActixNet.C04
open ActixNet ActixNet.Avail

/-- reading an index below the documented maximum never panics and reads that worker's bit -/
theorem get_total (a : Avail) (i : Nat) (h : i < 512) : get a i = some (bits a i) := get_eq_bits a h

/-- `offset` panics exactly for indices ≥ 512 (the documented maximum worker count) -/
theorem offset_total (i : Nat) : Src.availOffset i = none ↔ 512 ≤ i := by
  constructor
  · intro h
    apply Classical.byContradiction
    intro hn
    obtain ⟨o, j, he, _⟩ := offset_some (idx := i) (by omega)
    simp [he] at h
  · exact offset_none

/-- **independence**: setting worker `i`'s bit changes worker `i`'s bit to the given value and no
other worker's bit, for every pair of indices below 512 and every state of the bitset -/
theorem avail_frame (a : Avail) (i j : Nat) (v : Bool) (hi : i < 512) (hj : j < 512) :
    ∃ a', set a i v = some a' ∧ get a' j = some (if j = i then v else bits a j) := by
  obtain ⟨a', hs, hb⟩ := set_bits a v hi
  exact ⟨a', hs, by rw [get_eq_bits a' hj, hb j]⟩

theorem avail_same (a : Avail) (i : Nat) (v : Bool) (hi : i < 512) :
    ∃ a', set a i v = some a' ∧ get a' i = some v := by
  obtain ⟨a', hs, hg⟩ := avail_frame a i i v hi hi
  exact ⟨a', hs, by simpa using hg⟩

/-- `available()` is true exactly when some worker below 512 has its bit set -/
theorem available_iff_some_bit (a : Avail) : available a = true ↔ ∃ i, i < 512 ∧ get a i = some true := by
  rw [available_iff]
  constructor
  · rintro ⟨i, hi, hb⟩; exact ⟨i, hi, by rw [get_eq_bits a hi, hb]⟩
  · rintro ⟨i, hi, hb⟩; rw [get_eq_bits a hi] at hb; exact ⟨i, hi, by simpa using hb⟩

/-- a freshly built bitset has no worker available -/
theorem default_none_available : available ({} : Avail) = false := by decide

-- non-vacuity: worker 300 and worker 5 on a non-trivial state
example : get ({ w2 := 1 <<< 44 } : Avail) 300 = some true ∧ get ({ w2 := 1 <<< 44 } : Avail) 5 = some false := by
  decide
example : (set ({ w0 := 32 } : Avail) 300 true).bind (fun a => get a 5) = some true := by decide


/-! ## Part 2: dispatch order over the accept-loop model (`ActixNet.Srv`, fault-free histories, any
schedule of other threads' actions at the yield points) -/
open ActixNet.Srv

/-- **round robin**: a connection handed to `accept_one` while the worker at the rotation cursor is
marked available goes to exactly that worker, and the cursor advances by one modulo the number of
workers — whatever other threads do inside the send/increment window. -/
theorem dispatch_goes_to_cursor (cfg : Cfg) (ok : CfgOk cfg) (fuel : Nat) (s : St) (c : Conn)
    (h : AccInv cfg s) (hnf : s.fault = none) (hav : s.avail s.next = true) :
    (acceptOne cfg (fuel + 1) s c).dispatched = s.dispatched ++ [(c, s.next)] ∧
    (acceptOne cfg (fuel + 1) s c).next = (s.next + 1) % cfg.nIdx :=
  acceptOne_dispatches_to_cursor ok fuel s c h hnf hav

/-- consequently, while no worker is saturated (every cursor position met is available), any
`k ≤ W` consecutive dispatches go to the cursor positions `next, next+1, …` — pairwise distinct workers -/
theorem rr_distinct (W next k : Nat) (hk : k ≤ W) : ((List.range k).map (fun j => (next + j) % W)).Nodup :=
  cursor_positions_distinct W next k hk

/-- **Round robin, composed**: if the `k ≤ W` cursor positions from `next` on are marked available
(no worker among them is saturated), `k` connections handed to `accept_one` back to back (the
`accept` loop) go to the workers `next, next+1, …` in that order, whatever other threads do at the
yield points in between … -/
theorem consecutive_connections_follow_the_cursor (cfg : Cfg) (ok : CfgOk cfg) (cs : List Conn) (s : St)
    (h : AccInv cfg s) (hnf : s.fault = none) (hk : cs.length ≤ cfg.nIdx)
    (hav : ∀ j, j < cs.length → s.avail ((s.next + j) % cfg.nIdx) = true) :
    (burst cfg s cs).dispatched =
      s.dispatched ++ (List.range cs.length).zipWith (fun j c => (c, (s.next + j) % cfg.nIdx)) cs ∧
    (burst cfg s cs).next = (s.next + cs.length) % cfg.nIdx :=
  burst_round_robin ok cs s h hnf hk hav

/-- … hence **any `k ≤ W` consecutive connections go to `k` distinct workers**. -/
theorem consecutive_connections_go_to_distinct_workers (cfg : Cfg) (ok : CfgOk cfg) (cs : List Conn) (s : St)
    (h : AccInv cfg s) (hnf : s.fault = none) (hk : cs.length ≤ cfg.nIdx)
    (hav : ∀ j, j < cs.length → s.avail ((s.next + j) % cfg.nIdx) = true) :
    (((burst cfg s cs).dispatched.drop s.dispatched.length).map (·.2)).Nodup := by
  rw [(burst_round_robin ok cs s h hnf hk hav).1, List.drop_left]
  have : ((List.range cs.length).zipWith (fun j c => (c, (s.next + j) % cfg.nIdx)) cs).map (·.2) =
      (List.range cs.length).map (fun j => (s.next + j) % cfg.nIdx) := by
    generalize s.next = a
    have key : ∀ (l : List Nat) (cs : List Conn), l.length = cs.length →
        (l.zipWith (fun j c => (c, (a + j) % cfg.nIdx)) cs).map (·.2) = l.map (fun j => (a + j) % cfg.nIdx) := by
      intro l; induction l with
      | nil => intro cs _; simp
      | cons x xs ih =>
        intro cs hl
        cases cs with
        | nil => simp at hl
        | cons c cs => simp only [List.zipWith_cons_cons, List.map_cons]; rw [ih cs (by simpa using hl)]
    exact key _ cs (by simp)
  rw [this]
  exact cursor_positions_distinct cfg.nIdx s.next cs.length hk

/-- **a saturated (not-available) worker is skipped and receives nothing**: `accept_one` only moves
the cursor past it -/
theorem saturated_worker_is_skipped (cfg : Cfg) (ok : CfgOk cfg) (fuel : Nat) (s : St) (c : Conn)
    (h : AccInv cfg s) (hnf : s.fault = none) (hav : s.avail s.next = false) (hany : anyAvail cfg s = true) :
    acceptOne cfg (fuel + 1) s c = acceptOne cfg fuel { s with next := (s.next + 1) % cfg.nIdx } c :=
  acceptOne_skips_unavailable ok fuel s c h hnf hav hany

/-- and "not available" means really saturated, unless a wake-up is pending (C03); "available" means
spare capacity (C02) — so skipping is exact -/
theorem available_iff_capacity_modulo_wakeup (cfg : Cfg) (s : St) (g : Good cfg s) (hp : s.pend = none) (w : Nat)
    (hw : w < cfg.nIdx) :
    (s.avail w = true → (s.wk w).queue.length + (s.wk w).inflight.length < cfg.limit) ∧
    (s.avail w = false → tokOf s.wk s.wq w = 0 → (s.wk w).queue.length + (s.wk w).inflight.length = cfg.limit) := by
  have gw := g.2 w hw
  have hp' : (core s).pend = none := hp
  simp only [GoodWC, hp', pendIs_none] at gw
  unfold GW at gw
  simp only [qOf, core, Bool.false_eq_true, ↓reduceIte] at gw
  refine ⟨fun h => ?_, fun h ht => ?_⟩
  · have := gw.2.1 h; omega
  · have := gw.2.2.2.2.1 h ht; omega

/-- **Round robin skips exactly the workers that are not available** — in every reachable state of a fault-free
history (all schedules, limits, 1..512 workers), at an iteration boundary: the next connection handed to
`accept_one` goes to the FIRST worker marked available at or after the cursor, in cyclic order (`firstAvail`),
and the cursor ends right behind that worker; with `available_iff_capacity_modulo_wakeup` "marked available"
is "has spare capacity" up to a wake-up in flight, so a worker is passed over only while it is at its limit. -/
theorem dispatch_goes_to_first_available (cfg : Cfg) (ok : CfgOk cfg) (kinds : List Kind) (ops : List Op)
    (hff : ∀ op ∈ ops, op.faultFree) (c : Conn) (w fuel : Nat)
    (hw : firstAvail cfg.nIdx (run cfg (init cfg kinds) ops).avail cfg.nIdx (run cfg (init cfg kinds) ops).next = some w) :
    (acceptOne cfg (cfg.nIdx + fuel) (run cfg (init cfg kinds) ops) c).dispatched =
      (run cfg (init cfg kinds) ops).dispatched ++ [(c, w)] ∧
    (acceptOne cfg (cfg.nIdx + fuel) (run cfg (init cfg kinds) ops) c).next = (w + 1) % cfg.nIdx := by
  have hinv := run_inv ok ops _ (init_inv cfg ok kinds) hff
  have hs : (run cfg (init cfg kinds) ops).sched = [] := run_sched_nil cfg ops _ rfl
  have hacc : AccInv cfg (run cfg (init cfg kinds) ops) := ⟨hinv.1, hinv.2, by unfold SchedOk; rw [hs]; intro ch h; cases h⟩
  exact acceptOne_first_available ok cfg.nIdx fuel _ c w hacc (run_fault_none ok kinds ops) hw

/-- **Round robin in every reachable state**: after ANY fault-free history (all schedules, limits, 1..512 workers),
at an iteration boundary, if the `k ≤ W` cursor positions from `next` on are marked available then `k`
connections handed to the accept loop back to back go to `next, next+1, …` — pairwise distinct workers.
(The hypotheses of `consecutive_connections_follow_the_cursor` hold in every reachable state.) -/
theorem reachable_round_robin (cfg : Cfg) (ok : CfgOk cfg) (kinds : List Kind) (ops : List Op)
    (hff : ∀ op ∈ ops, op.faultFree) (cs : List Conn) (hk : cs.length ≤ cfg.nIdx)
    (hav : ∀ j, j < cs.length → (run cfg (init cfg kinds) ops).avail (((run cfg (init cfg kinds) ops).next + j) % cfg.nIdx) = true) :
    (burst cfg (run cfg (init cfg kinds) ops) cs).dispatched =
      (run cfg (init cfg kinds) ops).dispatched ++
        (List.range cs.length).zipWith (fun j c => (c, ((run cfg (init cfg kinds) ops).next + j) % cfg.nIdx)) cs ∧
    (((burst cfg (run cfg (init cfg kinds) ops) cs).dispatched.drop (run cfg (init cfg kinds) ops).dispatched.length).map (·.2)).Nodup := by
  have hinv := run_inv ok ops _ (init_inv cfg ok kinds) hff
  have hs : (run cfg (init cfg kinds) ops).sched = [] := run_sched_nil cfg ops _ rfl
  have hacc : AccInv cfg (run cfg (init cfg kinds) ops) := ⟨hinv.1, hinv.2, by unfold SchedOk; rw [hs]; intro ch h; cases h⟩
  have hnf := run_fault_none ok kinds ops
  exact ⟨(consecutive_connections_follow_the_cursor cfg ok cs _ hacc hnf hk hav).1,
    consecutive_connections_go_to_distinct_workers cfg ok cs _ hacc hnf hk hav⟩

/-! ### Non-vacuity of the composed round-robin theorems -/
def cfg3 : Cfg := { limit := 2, nIdx := 3 }
example : CfgOk cfg3 ∧ AccInv cfg3 (init cfg3 [.tcp]) ∧ (init cfg3 [.tcp]).fault = none ∧
    (∀ j, j < 3 → (init cfg3 [.tcp]).avail (((init cfg3 [.tcp]).next + j) % cfg3.nIdx) = true) := by
  have ok : CfgOk cfg3 := ⟨by decide, by decide, by decide⟩
  refine ⟨ok, ⟨(init_inv cfg3 ok [.tcp]).1, (init_inv cfg3 ok [.tcp]).2, by intro ch h; cases h⟩, rfl, ?_⟩
  intro j hj
  have : j = 0 ∨ j = 1 ∨ j = 2 := by omega
  rcases this with rfl | rfl | rfl <;> decide
example : (burst cfg3 (init cfg3 [.tcp]) [(0, 0), (1, 0), (2, 0)]).dispatched.map (·.2) = [0, 1, 2] := by decide
-- with a fourth connection the cursor wraps: worker 0 gets its second connection (limit 2)
example : (burst cfg3 (init cfg3 [.tcp]) [(0, 0), (1, 0), (2, 0), (3, 0)]).dispatched.map (·.2) = [0, 1, 2, 0] := by decide
-- `reachable_round_robin` after a history that saturated and released worker 0: the cursor stands at 1
def rrOps : List Op :=
  [.env (.connect 0), .env (.connect 0), .env (.connect 0), .env (.connect 0), .poll [.listener 0, .waker] [],
   .env (.recv 0), .env (.recv 0), .env (.finishNow 0 none), .poll [.waker] []]
example : (∀ op ∈ rrOps, op.faultFree) ∧ (run cfg3 (init cfg3 [.tcp]) rrOps).next = 1 ∧
    (∀ j, j < 3 → (run cfg3 (init cfg3 [.tcp]) rrOps).avail (((run cfg3 (init cfg3 [.tcp]) rrOps).next + j) % cfg3.nIdx) = true) := by
  refine ⟨by intro op h; simp [rrOps] at h; rcases h with rfl | rfl | rfl | rfl | rfl | rfl | rfl | rfl | rfl <;> simp [Op.faultFree, NoDie, EnvAct.isDie], by decide, ?_⟩
  intro j hj
  have : j = 0 ∨ j = 1 ∨ j = 2 := by omega
  rcases this with rfl | rfl | rfl <;> decide
-- `dispatch_goes_to_first_available`: workers 0 and 1 saturated (limit 2), worker 2 has room, the cursor stands
-- at 0: the first available worker from the cursor is 2, and that is where the next connection goes
def skipOps : List Op :=
  [.env (.connect 0), .env (.connect 0), .env (.connect 0), .env (.connect 0), .env (.connect 0), .env (.connect 0),
   .poll [.listener 0, .waker] [], .env (.recv 2), .env (.finishNow 2 none), .poll [.waker] []]
example : let S := run cfg3 (init cfg3 [.tcp]) skipOps
    S.next = 0 ∧ S.avail 0 = false ∧ S.avail 1 = false ∧ S.avail 2 = true ∧
    firstAvail cfg3.nIdx S.avail cfg3.nIdx S.next = some 2 ∧
    (acceptOne cfg3 4 S (9, 0)).dispatched.getLast? = some ((9, 0), 2) ∧ (acceptOne cfg3 4 S (9, 0)).next = 0 := by
  decide

/-! ### The cursor moves only by a dispatch or a detected worker fault -/

/-- **The rotation cursor moves only when a connection is dispatched or a dead worker is detected.**
One iteration of the accept loop (`poll_with`: any event batch `order`, any schedule `sched` of other
threads' actions at the yield points, ANY start state — no invariant assumed) that neither appended to
the dispatch log nor reported a `WorkerFaulted` leaves `Accept::next` exactly where it was.  For the
code: a `WorkerAvailable` notification, a new `Worker` handle, `Pause` / `Resume` / `Stop`, a listener
time-out (`process_timeout`), an `accept()` error or `WouldBlock`, and an empty iteration never move the
cursor, so the worker whose turn it is is not skipped.  (`accept_one` does step over workers marked
unavailable, but it never returns before the connection is placed or a dead handle is removed —
`acceptOne_moved`.)  The hypothesis `s'.fault = none` (the iteration did not end in one of the model's
sticky Rust panics / endless loops) cannot be dropped in the bare model — see the last example below —
and holds in every reachable state (`reachable_cursor_moves_only_by_dispatch`). -/
theorem cursor_moves_only_by_dispatch (cfg : Cfg) (s : St) (order : List Ev) (sched : List (List EnvAct)) :
    let s' := poll cfg s order sched
    s'.fault = none → s'.dispatched.length = s.dispatched.length → s'.faultedLog.length = s.faultedLog.length →
    s'.next = s.next := by
  intro s' hnf hd hf
  exact (poll_curR cfg s order sched).2.2.2 hd hf hnf

/-- the same over any list of operations of the stepped system (iterations, actions of other threads
between them, the W2 window) -/
theorem cursor_moves_only_by_dispatch_run (cfg : Cfg) (s : St) (ops : List Op) :
    let s' := run cfg s ops
    s'.fault = none → s'.dispatched.length = s.dispatched.length → s'.faultedLog.length = s.faultedLog.length →
    s'.next = s.next := by
  intro s' hnf hd hf
  exact (run_curR cfg ops s).2.2.2 hd hf hnf

/-- **in every reachable state, unconditionally**: between any two points of any history from the initial
state of a valid configuration (worker deaths included) the cursor is unchanged unless a connection was
dispatched or a `WorkerFaulted` was reported in between (both logs are append-only: `run_logs_mono`) -/
theorem reachable_cursor_moves_only_by_dispatch (cfg : Cfg) (ok : CfgOk cfg) (kinds : List Kind) (ops more : List Op) :
    let S := run cfg (init cfg kinds) ops
    let S' := run cfg S more
    S'.dispatched.length = S.dispatched.length → S'.faultedLog.length = S.faultedLog.length → S'.next = S.next := by
  intro S S' hd hf
  have hnf : S'.fault = none := by
    show (run cfg (run cfg (init cfg kinds) ops) more).fault = none
    rw [← run_cat]; exact run_fault_none ok kinds (ops ++ more)
  exact (run_curR cfg more S).2.2.2 hd hf hnf

-- non-vacuity: worker 0 saturated and released, its `WorkerAvailable(0)` waits in the waker queue, the cursor
-- stands at 1.  The iteration processes the notification, a `Pause` and a `Resume` arriving at its yield points
-- (6 yield points, `accept` entered twice on an empty backlog): worker 0 is available again, nothing dispatched,
-- the cursor still at 1
def wakeOps : List Op :=
  [.env (.connect 0), .env (.connect 0), .env (.connect 0), .env (.connect 0), .poll [.listener 0, .waker] [],
   .env (.recv 0), .env (.recv 0), .env (.finishNow 0 none)]
example : let S := run cfg3 (init cfg3 [.tcp]) wakeOps
    let S' := poll cfg3 S [.waker] [[.advance 7, .cmd .pause], [.cmd .resume]]
    S.wq = [.workerAvail 0] ∧ S.next = 1 ∧ S.avail 0 = false ∧ S'.avail 0 = true ∧ S'.yields = 6 ∧ S'.wq = [] ∧
    S'.fault = none ∧ S'.dispatched.length = S.dispatched.length ∧ S'.faultedLog.length = S.faultedLog.length ∧
    S'.next = 1 := by
  decide
-- contrast: a connection arriving at the first yield point of the same iteration is dispatched and the cursor moves
example : let S := run cfg3 (init cfg3 [.tcp]) wakeOps
    let S' := poll cfg3 S [.waker] [[.connect 0]]
    S'.fault = none ∧ S'.dispatched.length = S.dispatched.length + 1 ∧ S'.next = 2 := by
  decide
-- the hypothesis `s'.fault = none` is needed in the bare model: from this (unreachable) state with worker
-- indices ≥ 512 `accept_one` panics in `Availability::offset` while stepping over worker 0; the fault is sticky and the
-- rest of the model step still runs — cursor moved, nothing logged
def badSt : St :=
  { init cfg3 [.tcp] with wk := fun w => { idx := w + 600, c := 1 }, avail := fun i => decide (i = 1),
                          lst := fun _ => { backlog := [(0, 0)], edge := true } }
example : let S' := poll cfg3 badSt [.listener 0] []
    S'.fault = some .panicOffset ∧ S'.dispatched = badSt.dispatched ∧ S'.faultedLog = badSt.faultedLog ∧
    badSt.next = 0 ∧ S'.next = 1 := by
  decide

/-! ### After a dispatch the cursor stands right behind the worker that got the last connection -/

/-- **Every dispatch advances the cursor past the worker that received the connection.**
One iteration of the accept loop (`poll_with`: any event batch, any schedule of other threads' actions at
the yield points, ANY start state — no invariant assumed) that dispatched at least one connection, reported
no `WorkerFaulted` and ended fault-free, with as many handles as it started with (then `handles` is literally
unchanged: `Fol.handles_eq`), ends with `Accept::next` right behind the worker `w` of the LAST entry `(c, w)`
of the dispatch log: `handles[pos] = w` and `next = (pos + 1) % handles.len()`.
For the code: `send_connection` calls `set_next` after EVERY successful send — also when that send took the
worker to its limit (`inc_counter` returned false and the availability bit was cleared) — and nothing that
can follow in the iteration without logging (a `WorkerAvailable`, `Pause` / `Resume` / `Stop`, a time-out, an
`accept()` error, `WouldBlock`) moves the cursor again; `accept_one` steps over unavailable workers only on
the way to the next dispatch (`acceptOne_moved`), which is then the last one.  This is the harness oracle "the last
connection of this iteration went to worker … but the cursor is at slot …"; seed13 C04-25 returned early
from `send_connection` after a saturating send, leaving the cursor ON the worker that had just been filled.
The hypothesis on `handles.length` cannot be dropped for this form — see `cursor_follows_last_dispatch_grown`
and the last example below. -/
theorem cursor_follows_last_dispatch (cfg : Cfg) (s : St) (order : List Ev) (sched : List (List EnvAct)) :
    let s' := poll cfg s order sched
    s'.fault = none → s'.faultedLog.length = s.faultedLog.length → s'.handles.length = s.handles.length →
    s.dispatched.length < s'.dispatched.length →
    ∃ c w pos, s'.dispatched.getLast? = some (c, w) ∧ s'.handles[pos]? = some w ∧
      s'.next = (pos + 1) % s'.handles.length := by
  intro s' hnf hf hh hd
  exact (poll_fol cfg s order sched).behind_same hnf hf hh hd

/-- the same without the hypothesis on the number of handles: a `Worker` handle pushed during the iteration
goes to the END of `handles` (slots of existing handles are stable) but `set_next` took the modulus with the
number `n` of handles at the time of the last send, `s.handles.length ≤ n ≤ s'.handles.length`.  So if the
cursor wrapped to 0 behind the last slot and a handle is pushed afterwards, `next = 0 ≠ (pos + 1) % len`. -/
theorem cursor_follows_last_dispatch_grown (cfg : Cfg) (s : St) (order : List Ev) (sched : List (List EnvAct)) :
    let s' := poll cfg s order sched
    s'.fault = none → s'.faultedLog.length = s.faultedLog.length → s.dispatched.length < s'.dispatched.length →
    ∃ c w pos n, s'.dispatched.getLast? = some (c, w) ∧ pos < n ∧ s.handles.length ≤ n ∧ n ≤ s'.handles.length ∧
      s'.handles[pos]? = some w ∧ s'.next = (pos + 1) % n := by
  intro s' hnf hf hd
  obtain ⟨c, w, hl, pos, n, h⟩ := (poll_fol cfg s order sched).behind hnf hf hd
  exact ⟨c, w, pos, n, hl, h⟩

/-- the same over any list of operations of the stepped system -/
theorem cursor_follows_last_dispatch_run (cfg : Cfg) (s : St) (ops : List Op) :
    let s' := run cfg s ops
    s'.fault = none → s'.faultedLog.length = s.faultedLog.length → s'.handles.length = s.handles.length →
    s.dispatched.length < s'.dispatched.length →
    ∃ c w pos, s'.dispatched.getLast? = some (c, w) ∧ s'.handles[pos]? = some w ∧
      s'.next = (pos + 1) % s'.handles.length := by
  intro s' hnf hf hh hd
  exact (run_fol cfg ops s).behind_same hnf hf hh hd

/-- in every reachable state a worker incarnation has at most one handle ("one handle per index", `NP`) -/
theorem reachable_handles_nodup (cfg : Cfg) (ok : CfgOk cfg) (kinds : List Kind) (ops : List Op) :
    (run cfg (init cfg kinds) ops).handles.Nodup :=
  nodup_of_map (handles_nodup (run_np ok ops _ (init_np cfg kinds)).sound)

/-- **in every reachable state**, with `fault = none` discharged (`run_fault_none`): an iteration after any
history from the initial state of a valid configuration (worker deaths included) that dispatched, reported
no `WorkerFaulted` and took in no new handle leaves `handles` unchanged and the cursor right behind THE slot
of the worker that received the last connection (the slot is unique: `reachable_handles_nodup`) — exactly
what the harness oracle computes from the real `Accept` -/
theorem reachable_cursor_follows_last_dispatch (cfg : Cfg) (ok : CfgOk cfg) (kinds : List Kind) (ops : List Op)
    (order : List Ev) (sched : List (List EnvAct)) :
    let S := run cfg (init cfg kinds) ops
    let S' := poll cfg S order sched
    S'.faultedLog.length = S.faultedLog.length → S'.handles.length = S.handles.length →
    S.dispatched.length < S'.dispatched.length →
    ∃ c w pos, S'.dispatched.getLast? = some (c, w) ∧ S'.handles[pos]? = some w ∧
      S'.next = (pos + 1) % S'.handles.length ∧ S'.handles = S.handles ∧
      ∀ pos', S'.handles[pos']? = some w → pos' = pos := by
  intro S S' hf hh hd
  have hrun : S' = run cfg (init cfg kinds) (ops ++ [.poll order sched]) := by
    rw [run_cat]; rfl
  have hnf : S'.fault = none := by rw [hrun]; exact run_fault_none ok kinds _
  have hnd : S'.handles.Nodup := by rw [hrun]; exact reachable_handles_nodup cfg ok kinds _
  obtain ⟨c, w, pos, hl, hp, hn⟩ := (poll_fol cfg S order sched).behind_same hnf hf hh hd
  exact ⟨c, w, pos, hl, hp, hn, (poll_fol cfg S order sched).handles_eq hf hh, fun pos' h' => slot_unique hnd h' hp⟩

-- non-vacuity: 3 workers, limit 1 (every send saturates the worker it goes to).  Two queued connections: the
-- iteration dispatches both, the last one to worker 1 (slot 1, now marked unavailable), the cursor ends at 2
def cfg1 : Cfg := { limit := 1, nIdx := 3 }
def twoOps : List Op := [.env (.connect 0), .env (.connect 0)]
example : let S := run cfg1 (init cfg1 [.tcp]) twoOps
    let S' := poll cfg1 S [.listener 0, .waker] []
    CfgOk cfg1 ∧ S.next = 0 ∧ S'.fault = none ∧ S'.faultedLog.length = S.faultedLog.length ∧
    S'.handles.length = S.handles.length ∧ S.dispatched.length + 2 = S'.dispatched.length ∧
    S'.dispatched.getLast? = some ((1, 0), 1) ∧ S'.handles[1]? = some 1 ∧ S'.avail 1 = false ∧ S'.next = 2 := by
  refine ⟨⟨by decide, by decide, by decide⟩, ?_⟩
  decide
-- three connections: the last send saturates the last worker (no worker available any more) and the cursor
-- still advances — it wraps to slot 0
def threeOps : List Op := [.env (.connect 0), .env (.connect 0), .env (.connect 0)]
example : let S := run cfg1 (init cfg1 [.tcp]) threeOps
    let S' := poll cfg1 S [.listener 0, .waker] []
    S'.fault = none ∧ S'.faultedLog.length = S.faultedLog.length ∧ S'.handles.length = S.handles.length ∧
    S'.dispatched.map (·.2) = [0, 1, 2] ∧ S'.handles[2]? = some 2 ∧
    S'.avail 0 = false ∧ S'.avail 1 = false ∧ S'.avail 2 = false ∧ anyAvail cfg1 S' = false ∧ S'.next = 0 := by
  decide
-- the hypothesis `handles.length` unchanged is needed for the modulus `handles.length`: worker 0 died and was
-- removed (`handles = [2, 1]`), its replacement 3 waits in the waker queue, the cursor is at slot 1.  The
-- iteration dispatches to worker 1 (slot 1; the cursor wraps: (1 + 1) % 2 = 0) and THEN takes the new handle
-- in: three handles, cursor 0 — which is `(pos + 1) % n` for `n = 2` (`cursor_follows_last_dispatch_grown`)
-- and not `(1 + 1) % 3`
def grownOps : List Op :=
  [.env (.die 0), .env (.connect 0), .poll [.listener 0, .waker] [], .env (.restart 0), .env (.connect 0)]
example : let S := run cfg3 (init cfg3 [.tcp]) grownOps
    let S' := poll cfg3 S [.listener 0, .waker] []
    S.handles = [2, 1] ∧ S.next = 1 ∧ S.wq = [.worker 3] ∧
    S'.fault = none ∧ S'.faultedLog.length = S.faultedLog.length ∧ S.dispatched.length < S'.dispatched.length ∧
    S'.dispatched.getLast? = some ((1, 0), 1) ∧ S'.handles = [2, 1, 3] ∧ S'.handles[1]? = some 1 ∧
    S'.next = 0 ∧ S'.next = (1 + 1) % 2 ∧ S'.next ≠ (1 + 1) % S'.handles.length := by
  decide

end ActixNet.C04
