#!/usr/bin/env python3
"""apply seeded/ROUND2-descriptions.json to the meta.json files that exist (seed_confirm.sh rewrites meta.json)"""
import json, os
d = json.load(open('/verif/seeded/ROUND2-descriptions.json'))
for k, (what, needs) in d.items():
    p = '/verif/seeded/%s/meta.json' % k
    if os.path.exists(p):
        m = json.load(open(p)); m['what'] = what; m['needs'] = needs; m['round'] = 2
        json.dump(m, open(p, 'w'), indent=1)
