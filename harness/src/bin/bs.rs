//! Engine `bs` (C20): the real `bytestring::ByteString` driven through the line protocol.
use std::{
    collections::hash_map::DefaultHasher,
    convert::TryFrom,
    hash::{Hash, Hasher},
    io::Write,
};

use bytes::{Bytes, BytesMut};
use bytestring::ByteString;
use vh::*;

const ALPHABET: [u8; 24] = [
    0x00, 0x7F, 0x80, 0x8F, 0x90, 0x9F, 0xA0, 0xBF, 0xC0, 0xC1, 0xC2, 0xDF, 0xE0, 0xE1, 0xEC, 0xED,
    0xEE, 0xEF, 0xF0, 0xF1, 0xF3, 0xF4, 0xF5, 0xFF,
];

fn all_strings(max_len: usize, mut f: impl FnMut(&[u8])) {
    let mut cur: Vec<u8> = vec![];
    fn rec(cur: &mut Vec<u8>, max_len: usize, f: &mut dyn FnMut(&[u8])) {
        f(cur);
        if cur.len() == max_len {
            return;
        }
        for b in ALPHABET {
            cur.push(b);
            rec(cur, max_len, f);
            cur.pop();
        }
    }
    rec(&mut cur, max_len, &mut f);
}

fn random_bytes(rng: &mut Rng) -> Vec<u8> {
    // mostly-valid: a few real chars from every length class, then maybe one mutation
    let pools: [&[char]; 4] = [
        &['a', '\0', '\u{7f}', ' '],
        &['\u{80}', 'é', '\u{7ff}'],
        &['\u{800}', '€', '\u{d7ff}', '\u{e000}', '\u{ffff}'],
        &['\u{10000}', '😀', '\u{10ffff}'],
    ];
    let n = rng.below(6);
    let mut s = String::new();
    for _ in 0..n {
        let p = pools[rng.below(4)];
        s.push(*rng.pick(p));
    }
    let mut v = s.into_bytes();
    match rng.below(6) {
        0 if !v.is_empty() => {
            let i = rng.below(v.len());
            v.truncate(i);
        }
        1 if !v.is_empty() => {
            let i = rng.below(v.len());
            v[i] = *rng.pick(&ALPHABET);
        }
        2 => {
            let i = rng.below(v.len() + 1);
            v.insert(i, *rng.pick(&ALPHABET));
        }
        _ => {}
    }
    v
}

fn gen(a: &Args) {
    let mut w = out_writer(&a.output);
    let thorough = a.tier == "thorough";
    // (1) exhaustive validator comparison
    let l = if thorough { 5 } else { 4 };
    writeln!(w, "case valid-exhaustive-le{l}").unwrap();
    all_strings(l, |s| writeln!(w, "valid {}", hex(s)).unwrap());
    // (2) every valid short string: all split indices and all sub-slices
    let l2 = if thorough { 4 } else { 3 };
    let mut n = 0;
    all_strings(l2, |s| {
        if std::str::from_utf8(s).is_ok() {
            n += 1;
            writeln!(w, "case splits-{n}").unwrap();
            writeln!(w, "tryfrom {}", hex(s)).unwrap();
            for i in 0..=s.len() + 1 {
                writeln!(w, "split 0 {i}").unwrap();
                writeln!(w, "boundary 0 {i}").unwrap();
            }
            for i in 0..=s.len() + 1 {
                for j in 0..=s.len() + 1 {
                    writeln!(w, "slice 0 {i} {j}").unwrap();
                }
            }
        }
    });
    // (2b) slice_ref with a sub-string taken from ANOTHER view of the same buffer: parent, both halves of every
    // split, every sub-slice of the parent against each of them; and against an equal string in a different buffer
    let mut n = 0;
    all_strings(l2, |s| {
        if std::str::from_utf8(s).is_ok() && !s.is_empty() {
            for mid in 0..=s.len() {
                if !std::str::from_utf8(s).unwrap().is_char_boundary(mid) {
                    continue;
                }
                n += 1;
                writeln!(w, "case xslice-{n}").unwrap();
                writeln!(w, "tryfrom {}", hex(s)).unwrap(); // 0: parent
                writeln!(w, "split 0 {mid}").unwrap(); // 1, 2: halves
                writeln!(w, "tryfrom {}", hex(s)).unwrap(); // 3: equal bytes, different buffer
                for r in 0..4 {
                    for i in 0..=s.len() {
                        for j in i..=s.len() + 1 {
                            writeln!(w, "xslice {r} 0 {i} {j}").unwrap();
                        }
                    }
                }
                writeln!(w, "xslice 0 1 0 {mid}").unwrap();
                writeln!(w, "xslice 0 2 0 {}", s.len() - mid).unwrap();
                writeln!(w, "xslice 1 2 0 {}", s.len() - mid).unwrap();
            }
        }
    });
    // (2c) long inputs: the validators may treat whole words and their tail differently — every fragment after
    // ASCII runs of every length around the 8- and 16-byte marks, followed by nothing or by more ASCII
    writeln!(w, "case long-inputs").unwrap();
    let frags: [&[u8]; 16] = [
        b"", b"\xc3\xa9", b"\xe2\x82\xac", b"\xf0\x9f\x98\x80", b"\xff", b"\x80", b"\xc2", b"\xe2\x82", b"\xf0\x9f\x98", b"\xc0\x80",
        b"\xed\xa0\x80", b"\xf4\x90\x80\x80", b"\xe0\x80\x80", b"\xc3", b"\xf8", b"\xbf",
    ];
    for pre in [0usize, 1, 6, 7, 8, 9, 10, 15, 16, 17, 23, 24, 25, 31, 32, 33, 40] {
        for fr in frags.iter() {
            for post in [0usize, 1, 7, 8] {
                let mut v = vec![b'a'; pre];
                v.extend_from_slice(fr);
                v.extend(std::iter::repeat(b'z').take(post));
                writeln!(w, "valid {}", hex(&v)).unwrap();
            }
        }
    }
    // (2e) TEXT: every string of up to three characters over an alphabet of the characters that formatting,
    // escaping and comparison treat specially (quotes, backslash, control characters, combining mark, zero-width
    // space, 2-/3-/4-byte characters) — validity, every view and Debug/Display/Hash/serde against `str`; and every
    // ordered pair of up to two characters for comparison
    let text: [&str; 16] = ["a", "Z", " ", "\\", "\"", "'", "\n", "\t", "\r", "\u{7f}", "\u{e9}", "\u{301}", "\u{200b}", "\u{20ac}", "\u{1f600}", "\u{0}"];
    writeln!(w, "case text-views").unwrap();
    let mut words: Vec<String> = vec![String::new()];
    let mut frontier = vec![String::new()];
    for _ in 0..3 {
        let mut next = vec![];
        for p in &frontier {
            for c in text {
                next.push(format!("{p}{c}"));
            }
        }
        words.extend(next.iter().cloned());
        frontier = next;
    }
    for s in &words {
        writeln!(w, "valid {}", hex(s.as_bytes())).unwrap();
    }
    let short: Vec<&String> = words.iter().filter(|s| s.chars().count() <= 2).collect();
    let step = if thorough { 1 } else { 7 };
    let mut k = 0usize;
    for (i, x) in short.iter().enumerate() {
        writeln!(w, "case text-cmp-{i}").unwrap();
        writeln!(w, "tryfrom {}", hex(x.as_bytes())).unwrap();
        let mut idx = 1;
        for y in short.iter() {
            k += 1;
            if k % step != 0 && !(y.starts_with(x.as_str()) || x.starts_with(y.as_str())) {
                continue;
            }
            writeln!(w, "tryfrom {}", hex(y.as_bytes())).unwrap();
            writeln!(w, "cmp 0 {idx}").unwrap();
            writeln!(w, "cmp {idx} 0").unwrap();
            idx += 1;
        }
    }
    // (2f) every way a string can START: all (first, second) byte pairs of 2-, 3- and 4-byte characters with the extreme
    // continuation bytes after them, alone and followed by ASCII, through every str-like constructor incl. `from_static`
    // (seed12 C20-24 stripped EF BB xx as a "byte order mark")
    writeln!(w, "case first-chars").unwrap();
    let mut firsts: Vec<String> = vec![];
    for b0 in 0xC2u8..=0xF4 {
        for b1 in 0x80u8..=0xBF {
            for tail in [0x80u8, 0xBF] {
                let v: Vec<u8> = match b0 {
                    0xC2..=0xDF => vec![b0, b1],
                    0xE0..=0xEF => vec![b0, b1, tail],
                    _ => vec![b0, b1, tail, tail],
                };
                if let Ok(t) = String::from_utf8(v) {
                    if firsts.last() != Some(&t) {
                        firsts.push(t);
                    }
                }
            }
        }
    }
    for (i, t) in firsts.iter().enumerate() {
        writeln!(w, "fromstr {}", hex(t.as_bytes())).unwrap();
        if thorough || i % 3 == 0 {
            writeln!(w, "fromstr {}", hex(format!("{t}x").as_bytes())).unwrap();
        }
    }
    for t in ["\u{FEFF}", "\u{FEFF}x", "\u{FEFB}x", "\u{FEC0}", "\u{FEFF}\u{FEFF}", "x\u{FEFF}"] {
        writeln!(w, "fromstr {}", hex(t.as_bytes())).unwrap();
    }
    // (2g) pairs that differ only in (ASCII or non-ASCII) case, or only by a permutation: `==` must tell them apart
    writeln!(w, "case case-pairs").unwrap();
    let pairs = [("a", "A"), ("Z", "z"), ("aB", "Ab"), ("\u{e9}", "\u{c9}"), ("ab", "ba"), ("aa", "bb"), ("straSSe", "strasse"), ("k", "\u{212a}"), ("ab", "a"), ("", "\u{0}")];
    for (i, (x, y)) in pairs.iter().enumerate() {
        writeln!(w, "fromstr {}", hex(x.as_bytes())).unwrap();
        writeln!(w, "fromstr {}", hex(y.as_bytes())).unwrap();
        writeln!(w, "cmp {} {}", 2 * i, 2 * i + 1).unwrap();
        writeln!(w, "cmp {} {}", 2 * i + 1, 2 * i).unwrap();
        writeln!(w, "cmp {} {}", 2 * i, 2 * i).unwrap();
    }
    // (2d) Display with width / precision / fill / alignment agrees with str
    let mut n = 0;
    for s in ["", "a", "ab", "aéb", "€uro", "😀", "a😀é€b", "abcdefgh"] {
        n += 1;
        writeln!(w, "case display-{n}").unwrap();
        writeln!(w, "fromstr {}", hex(s.as_bytes())).unwrap();
        for al in ["d", "l", "r", "c"] {
            for fl in ["s", "x"] {
                for wd in ["-", "0", "1", "3", "6", "9"] {
                    for pr in ["-", "0", "1", "2", "4", "7"] {
                        writeln!(w, "fmt 0 {al} {fl} {wd} {pr}").unwrap();
                    }
                }
            }
        }
    }
    writeln!(w, "fmt 0 q s - -").unwrap();
    writeln!(w, "fmt 0 l s 65 -").unwrap();
    writeln!(w, "fmt 0 l s +1 -").unwrap();
    // (3) random histories of the whole safe API
    let mut rng = Rng::new(a.seed);
    let cases = if thorough { 20000 } else { 2000 };
    for c in 0..cases {
        writeln!(w, "case hist-{c}").unwrap();
        let mut size = 0usize; // lower bound on the store size is not tracked: bad-op is identical on both sides
        for _ in 0..rng.range(3, 14) {
            let k = rng.below(size.max(1) + 1);
            match rng.below(9) {
                0 | 1 => {
                    writeln!(w, "tryfrom {}", hex(&random_bytes(&mut rng))).unwrap();
                    size += 1
                }
                2 => {
                    let v = random_bytes(&mut rng);
                    if std::str::from_utf8(&v).is_ok() {
                        writeln!(w, "fromstr {}", hex(&v)).unwrap();
                        size += 1
                    }
                }
                3 | 4 => {
                    writeln!(w, "split {k} {}", rng.below(12)).unwrap();
                    size += 2
                }
                5 => {
                    writeln!(w, "slice {k} {} {}", rng.below(12), rng.below(12)).unwrap();
                    size += 1
                }
                6 => writeln!(w, "cmp {k} {}", rng.below(size.max(1) + 1)).unwrap(),
                7 if rng.chance(1, 2) => {
                    writeln!(w, "xslice {k} {} {} {}", rng.below(size.max(1) + 1), rng.below(8), rng.below(12)).unwrap();
                    size += 1
                }
                _ => writeln!(w, "get {k}").unwrap(),
            }
        }
    }
    w.flush().unwrap();
}

fn h<T: Hash + ?Sized>(t: &T) -> u64 {
    let mut s = DefaultHasher::new();
    t.hash(&mut s);
    s.finish()
}

/// A hasher that is not a byte stream: it records every call made on it (which method, which bytes). A type that
/// is `Borrow<str>` must drive EVERY hasher exactly like `str` does, not only the byte-stream ones.
#[derive(Default)]
struct TraceHasher(Vec<(&'static str, Vec<u8>)>);

macro_rules! trace_int {
    ($($f:ident $t:ty),+) => {$(
        fn $f(&mut self, i: $t) {
            self.0.push((stringify!($f), i.to_ne_bytes().to_vec()));
        }
    )+};
}

impl Hasher for TraceHasher {
    fn write(&mut self, bytes: &[u8]) {
        self.0.push(("write", bytes.to_vec()));
    }
    trace_int!(write_u8 u8, write_u16 u16, write_u32 u32, write_u64 u64, write_u128 u128, write_usize usize,
               write_i8 i8, write_i16 i16, write_i32 i32, write_i64 i64, write_i128 i128, write_isize isize);
    fn finish(&self) -> u64 {
        0
    }
}

fn trace<T: Hash + ?Sized>(t: &T) -> Vec<(&'static str, Vec<u8>)> {
    let mut s = TraceHasher::default();
    t.hash(&mut s);
    s.0
}

/// every fallible constructor on the same bytes; returns the `&[u8]` result, reports disagreement
fn construct_all(bs: &[u8], rep: &mut Report) -> Option<ByteString> {
    let want = std::str::from_utf8(bs).is_ok();
    let r0 = ByteString::try_from(bs).ok();
    let mut results = vec![("&[u8]", r0.clone())];
    results.push(("Vec<u8>", ByteString::try_from(bs.to_vec()).ok()));
    // the same bytes in allocations with spare capacity (a read buffer): validation must not depend on it
    for spare in [1usize, 8, 64, 4096] {
        let mut v = Vec::with_capacity(bs.len() * 2 + spare);
        v.extend_from_slice(bs);
        results.push(("Vec<u8> with spare capacity", ByteString::try_from(v).ok()));
    }
    let mut bm = BytesMut::with_capacity(bs.len() * 3 + 64);
    bm.extend_from_slice(bs);
    results.push(("BytesMut with spare capacity", ByteString::try_from(bm).ok()));
    // a view into a larger shared buffer
    let mut big = vec![0xffu8; 3];
    big.extend_from_slice(bs);
    big.extend_from_slice(&[0x80, 0xff]);
    results.push(("Bytes slice of a larger buffer", ByteString::try_from(Bytes::from(big).slice(3..3 + bs.len())).ok()));
    results.push(("Bytes", ByteString::try_from(Bytes::copy_from_slice(bs)).ok()));
    // the same ADDRESS and length as a buffer that validated a moment ago, other contents: a valid string of the same
    // length is converted first, its buffer taken back (`try_into_mut`), overwritten in place and frozen again
    // (seed17 C20-34 cached "this address and length validated")
    if !bs.is_empty() {
        let first = Bytes::from(vec![b'a'; bs.len()]);
        let ok_first = ByteString::try_from(first.clone()).is_ok();
        if let Ok(mut m) = first.try_into_mut() {
            m.copy_from_slice(bs);
            let again = ByteString::try_from(m.freeze()).ok();
            if !ok_first {
                rep.t3("C20", "an all-ASCII buffer was rejected");
            }
            results.push(("Bytes at the address of a buffer validated before", again));
        }
    }
    results.push(("BytesMut", ByteString::try_from(BytesMut::from(bs)).ok()));
    macro_rules! arr {
        ($($n:literal)+) => {$(
            if bs.len() == $n {
                let a: [u8; $n] = bs.try_into().unwrap();
                results.push(("[u8;N]", ByteString::try_from(a).ok()));
                results.push(("&[u8;N]", ByteString::try_from(&a).ok()));
            }
        )+};
    }
    arr!(0 1 2 3 4 5 6 7 8 9 10 11 12 13 14 15 16 17 18 19 20 21 22 23 24 25 26 27 28 29 30 31 32);
    // serde: deserialising is a constructor too — from raw bytes (`BytesDeserializer`, `ByteBufDeserializer`) and from a
    // JSON string literal given as bytes (only when the bytes need no JSON escaping): Ok exactly for valid UTF-8
    {
        use serde::de::{value, Deserialize, IntoDeserializer};
        let d: value::BytesDeserializer<'_, value::Error> = value::BytesDeserializer::new(bs);
        results.push(("serde BytesDeserializer", ByteString::deserialize(d).ok()));
        let d: value::SeqDeserializer<std::vec::IntoIter<u8>, value::Error> = bs.to_vec().into_deserializer();
        // (a sequence of u8 is not a string: must be rejected whatever the bytes — checked separately below)
        let seq = ByteString::deserialize(d).ok();
        if let Some(b) = &seq {
            rep.t3("C20", &format!("deserialising a SEQUENCE of bytes {} as ByteString succeeded ({})", hex(bs), hex(b.as_bytes())));
        }
        if !bs.iter().any(|b| *b == b'"' || *b == b'\\' || *b < 0x20) {
            let mut js = vec![b'"'];
            js.extend_from_slice(bs);
            js.push(b'"');
            results.push(("serde_json::from_slice", serde_json::from_slice::<ByteString>(&js).ok()));
        }
    }
    for (name, r) in &results {
        if r.is_some() != want {
            rep.t3("C20", &format!("constructor {name} on {} accepted={} but str::from_utf8 ok={}", hex(bs), r.is_some(), want));
        }
        if let Some(b) = r {
            check_valid(b, rep, name);
            if b.as_bytes().as_ref() != bs {
                rep.t3("C20", &format!("constructor {name} on {} changed the bytes", hex(bs)));
            }
        }
    }
    r0
}

/// `format!` with the given alignment (`l r c` or `d` = none), fill (`s` = space, `x` = `*`), width and precision
fn fmt_with<T: std::fmt::Display>(v: &T, al: &str, fl: &str, w: Option<usize>, p: Option<usize>) -> Option<String> {
    macro_rules! f {
        ($n:literal, $w:literal, $p:literal, $wp:literal) => {
            Some(match (w, p) {
                (None, None) => format!($n, v),
                (Some(w), None) => format!($w, v, w = w),
                (None, Some(p)) => format!($p, v, p = p),
                (Some(w), Some(p)) => format!($wp, v, w = w, p = p),
            })
        };
    }
    match (al, fl) {
        ("d", "s") => f!("{}", "{:w$}", "{:.p$}", "{:w$.p$}"),
        ("l", "s") => f!("{:<}", "{:<w$}", "{:<.p$}", "{:<w$.p$}"),
        ("r", "s") => f!("{:>}", "{:>w$}", "{:>.p$}", "{:>w$.p$}"),
        ("c", "s") => f!("{:^}", "{:^w$}", "{:^.p$}", "{:^w$.p$}"),
        ("l", "x") => f!("{:*<}", "{:*<w$}", "{:*<.p$}", "{:*<w$.p$}"),
        ("r", "x") => f!("{:*>}", "{:*>w$}", "{:*>.p$}", "{:*>w$.p$}"),
        ("c", "x") => f!("{:*^}", "{:*^w$}", "{:*^.p$}", "{:*^w$.p$}"),
        _ => None,
    }
}

fn check_valid(b: &ByteString, rep: &mut Report, what: &str) {
    let raw: &[u8] = b.as_bytes().as_ref();
    match std::str::from_utf8(raw) {
        Err(_) => rep.t3("C20", &format!("ByteString from {what} holds invalid UTF-8 {}", hex(raw))),
        Ok(s) => {
            // agreement with str: Display, to_string/into String, hash, eq
            if format!("{b}") != s || String::from(b.clone()) != s || h(b) != h(s) || *b != *s {
                rep.t3("C20", &format!("ByteString {} disagrees with str on display/hash/eq", hex(raw)));
            }
            // every other way of looking at the value agrees with the str
            let as_bytes: &[u8] = b.as_ref();
            let as_str: &str = b.as_ref();
            let borrowed: &str = std::borrow::Borrow::borrow(b);
            let same: &ByteString = b.as_ref();
            if as_bytes != s.as_bytes() || as_str != s || borrowed != s || &**b != s || same != b || b.clone() != *b
                || *b != s.to_string() || format!("{b:?}") != format!("{s:?}") || b.len() != s.len()
            {
                rep.t3("C20", &format!("ByteString {} disagrees with str on AsRef<[u8]>/AsRef<str>/Borrow<str>/Deref/Clone/PartialEq<String>/Debug", hex(raw)));
            }
            // serde: serialises like the str, and what is deserialised is the same valid string
            match (serde_json::to_string(b), serde_json::to_string(s)) {
                (Ok(jb), Ok(js)) => {
                    if jb != js {
                        rep.t3("C20", &format!("ByteString {} serialises to {jb} but the equal str to {js}", hex(raw)));
                    }
                    match serde_json::from_str::<ByteString>(&js) {
                        Ok(back) => {
                            let rb: &[u8] = back.as_bytes().as_ref();
                            if std::str::from_utf8(rb).is_err() || rb != s.as_bytes() {
                                rep.t3("C20", &format!("deserialising {js} gives ByteString {} instead of {}", hex(rb), hex(raw)));
                            }
                        }
                        Err(e) => rep.t3("C20", &format!("deserialising {js} (the serialisation of a valid string) fails: {e}")),
                    }
                }
                _ => rep.t3("C20", &format!("ByteString {} does not serialise", hex(raw))),
            }
            if trace(b) != trace(s) {
                rep.t3("C20", &format!("ByteString {} drives a Hasher differently from the equal str ({:?} vs {:?}): with a hasher that is not a byte stream the two hash differently, a map keyed by ByteString cannot be looked up by &str", hex(raw), trace(b), trace(s)));
            }
        }
    }
}

fn run(a: &Args) {
    silence_panics();
    let mut rep = Report::new(&a.output);
    let mut st: Vec<ByteString> = vec![];
    for line in in_lines(&a.input) {
        let ws: Vec<&str> = line.split_whitespace().collect();
        let real: String = match ws.as_slice() {
            ["case", ..] => {
                st.clear();
                "ok".into()
            }
            ["valid", hx] => match unhex(hx) {
                Some(bs) => {
                    if construct_all(&bs, &mut rep).is_some() { "1".into() } else { "0".into() }
                }
                None => "bad-op".into(),
            },
            ["tryfrom", hx] => match unhex(hx) {
                Some(bs) => match construct_all(&bs, &mut rep) {
                    Some(b) => {
                        st.push(b);
                        format!("ok {}", st.len() - 1)
                    }
                    None => "err".into(),
                },
                None => "bad-op".into(),
            },
            ["fromstr", hx] => match unhex(hx).and_then(|v| String::from_utf8(v).ok()) {
                Some(s) => {
                    let b1 = ByteString::from(s.as_str());
                    let b2 = ByteString::from(s.clone());
                    let b3 = ByteString::from(s.clone().into_boxed_str());
                    // the const constructor takes a `&'static str`: the (short) string is leaked to get one
                    let b4 = if s.len() <= 4096 { ByteString::from_static(Box::leak(s.clone().into_boxed_str())) } else { b1.clone() };
                    if b4.len() != s.len() || b4.as_bytes() != s.as_bytes() || String::from(b4.clone()) != s {
                        rep.t3("C20", &format!("from_static({}) holds {}", hex(s.as_bytes()), hex(b4.as_bytes())));
                    }
                    for b in [&b1, &b2, &b3, &b4] {
                        check_valid(b, &mut rep, "From<str>");
                        if **b != *s {
                            rep.t3("C20", "From<str-like> changed the contents");
                        }
                    }
                    st.push(b1);
                    format!("ok {}", st.len() - 1)
                }
                None => "bad-op".into(),
            },
            ["split", k, i] => match (k.parse::<usize>(), i.parse::<usize>()) {
                (Ok(k), Ok(i)) if k < st.len() => {
                    let b = st[k].clone();
                    let s: String = b.to_string();
                    let want = catch(|| {
                        let (x, y) = s.split_at(i);
                        (x.to_string(), y.to_string())
                    });
                    let got = catch(|| b.split_at(i));
                    match (&got, &want) {
                        (Ok((x, y)), Ok((wx, wy))) => {
                            if **x != **wx || **y != **wy {
                                rep.t3("C20", &format!("split_at({i}) of {} differs from str", hex(s.as_bytes())));
                            }
                        }
                        (Err(_), Err(_)) => {}
                        _ => rep.t3("C20", &format!("split_at({i}) of {}: panics={} but str panics={}", hex(s.as_bytes()), got.is_err(), want.is_err())),
                    }
                    match got {
                        Ok((x, y)) => {
                            check_valid(&x, &mut rep, "split_at");
                            check_valid(&y, &mut rep, "split_at");
                            let o = format!("ok {} {}", hex(x.as_bytes()), hex(y.as_bytes()));
                            st.push(x);
                            st.push(y);
                            o
                        }
                        Err(_) => "panic".into(),
                    }
                }
                _ => "bad-op".into(),
            },
            ["slice", k, i, j] => match (k.parse::<usize>(), i.parse::<usize>(), j.parse::<usize>()) {
                (Ok(k), Ok(i), Ok(j)) if k < st.len() => {
                    let b = st[k].clone();
                    let got = catch(|| {
                        let sub: &str = &b[i..j];
                        (sub.to_string(), b.slice_ref(sub))
                    });
                    match got {
                        Ok((want, x)) => {
                            check_valid(&x, &mut rep, "slice_ref");
                            if *x != *want {
                                rep.t3("C20", &format!("slice_ref [{i}..{j}] of {} differs from str", hex(b.as_bytes())));
                            }
                            let o = format!("ok {}", hex(x.as_bytes()));
                            st.push(x);
                            o
                        }
                        Err(_) => "panic".into(),
                    }
                }
                _ => "bad-op".into(),
            },
            ["xslice", r, k, i, j] => match (r.parse::<usize>(), k.parse::<usize>(), i.parse::<usize>(), j.parse::<usize>()) {
                // `st[r].slice_ref(&st[k][i..j])`: the subset comes from another value (another view of the same
                // buffer, or a different buffer altogether)
                (Ok(r), Ok(k), Ok(i), Ok(j)) if r < st.len() && k < st.len() => {
                    let recv = st[r].clone();
                    let src = st[k].clone();
                    match catch(|| src[i..j].to_string()) {
                        Err(_) => "panic".into(), // not a sub-string of the source at all
                        Ok(want) => {
                            let sub: &str = &src[i..j];
                            // reference: is `sub` inside the receiver's memory? (addresses only, no call of the code under test)
                            let (rp, rl) = (recv.as_ptr() as usize, recv.len());
                            let (sp, sl) = (sub.as_ptr() as usize, sub.len());
                            let inside = sl == 0 || (sp >= rp && sp + sl <= rp + rl);
                            match catch(|| recv.slice_ref(sub)) {
                                Ok(x) => {
                                    check_valid(&x, &mut rep, "slice_ref");
                                    if *x != *want {
                                        rep.t3("C20", &format!("slice_ref returned {} for the sub-string {} (receiver {})", hex(x.as_bytes()), hex(want.as_bytes()), hex(recv.as_bytes())));
                                    } else if !inside {
                                        rep.t3("C20", &format!("slice_ref accepted {} which is not a sub-slice of the receiver {}", hex(want.as_bytes()), hex(recv.as_bytes())));
                                    }
                                    let o = format!("ok {}", hex(x.as_bytes()));
                                    st.push(x);
                                    o
                                }
                                Err(_) => {
                                    if inside {
                                        rep.t3("C20", &format!("slice_ref panicked on {} which is a sub-slice of the receiver {}", hex(want.as_bytes()), hex(recv.as_bytes())));
                                    }
                                    "panic".into()
                                }
                            }
                        }
                    }
                }
                _ => "bad-op".into(),
            },
            ["fmt", k, al, fl, w, p] => {
                let num = |x: &str| -> Option<Option<usize>> {
                    if x == "-" {
                        Some(None)
                    } else if x.bytes().all(|b| b.is_ascii_digit()) && !x.is_empty() {
                        x.parse::<usize>().ok().filter(|v| *v <= 64).map(Some)
                    } else {
                        None
                    }
                };
                match (k.parse::<usize>(), num(w), num(p)) {
                    (Ok(k), Some(w), Some(p)) if k < st.len() => {
                        let b = st[k].clone();
                        let s: String = b.to_string();
                        match (fmt_with(&b, al, fl, w, p), fmt_with(&s.as_str(), al, fl, w, p)) {
                            (Some(got), Some(want)) => {
                                if got != want {
                                    rep.t3("C20", &format!("Display of {} with align={al} fill={fl} width={w:?} precision={p:?} gives {:?} but str gives {:?}", hex(b.as_bytes()), got, want));
                                }
                                hex(got.as_bytes())
                            }
                            _ => "bad-op".into(),
                        }
                    }
                    _ => "bad-op".into(),
                }
            }
            ["clone", k] => match k.parse::<usize>() {
                Ok(k) if k < st.len() => {
                    let b = st[k].clone();
                    st.push(b);
                    format!("ok {}", st.len() - 1)
                }
                _ => "bad-op".into(),
            },
            ["cmp", x, y] => match (x.parse::<usize>(), y.parse::<usize>()) {
                (Ok(x), Ok(y)) if x < st.len() && y < st.len() => {
                    let o = st[x].cmp(&st[y]);
                    let so: &str = &st[x];
                    let want = so.cmp(&st[y]);
                    let (a, b) = (&st[x], &st[y]);
                    let ops_agree = (a < b) == (so < &**b) && (a <= b) == (so <= &**b) && (a > b) == (so > &**b) && (a >= b) == (so >= &**b)
                        && a.clone().max(b.clone()) == *std::cmp::max(so, &**b) && a.clone().min(b.clone()) == *std::cmp::min(so, &**b);
                    if !ops_agree || o != want || st[x].partial_cmp(&st[y]) != Some(want) || (st[x] == st[y]) != (want == std::cmp::Ordering::Equal) {
                        rep.t3("C20", &format!("cmp of {} and {} differs from str", hex(st[x].as_bytes()), hex(st[y].as_bytes())));
                    }
                    // every `==` / `!=` the type offers agrees with `str == str`
                    let eq = want == std::cmp::Ordering::Equal;
                    let sb: &str = &st[y];
                    let owned: String = sb.to_string();
                    #[allow(clippy::op_ref)]
                    let eqs = [*a == *b, *a == *sb, *a == sb, *a == owned, *a == &owned, !(*a != *b), !(*a != *sb), !(*a != owned), *a == std::borrow::Cow::Borrowed(sb), *a == owned.clone().into_boxed_str()];
                    if eqs.iter().any(|e| *e != eq) {
                        rep.t3("C20", &format!("`==` between {} and {} is {:?} for (ByteString, str, &str, String, &String, !=…, Cow, Box<str>) but the strs are {}", hex(a.as_bytes()), hex(b.as_bytes()), eqs, if eq { "equal" } else { "different" }));
                    }
                    // slices, vectors and tuples of ByteStrings drive a Hasher like the same collections of strs
                    let (pa, pb): (&str, &str) = (so, sb);
                    if trace(&[a.clone(), b.clone()][..]) != trace(&[pa, pb][..]) || trace(&vec![a.clone(), b.clone()]) != trace(&vec![pa, pb])
                        || trace(&[a.clone(), b.clone()]) != trace(&[pa, pb]) || trace(&(a.clone(), b.clone())) != trace(&(pa, pb))
                        || h(&[a.clone(), b.clone()][..]) != h(&[pa, pb][..])
                    {
                        rep.t3("C20", &format!("a slice / Vec / array / tuple of ByteStrings [{}, {}] hashes differently from the same collection of strs", hex(a.as_bytes()), hex(b.as_bytes())));
                    }
                    match o {
                        std::cmp::Ordering::Less => "lt".into(),
                        std::cmp::Ordering::Equal => "eq".into(),
                        std::cmp::Ordering::Greater => "gt".into(),
                    }
                }
                _ => "bad-op".into(),
            },
            ["get", k] => match k.parse::<usize>() {
                Ok(k) if k < st.len() => {
                    check_valid(&st[k], &mut rep, "store");
                    hex(st[k].as_bytes())
                }
                _ => "bad-op".into(),
            },
            ["boundary", k, i] => match (k.parse::<usize>(), i.parse::<usize>()) {
                (Ok(k), Ok(i)) if k < st.len() => {
                    if st[k].is_char_boundary(i) { "1".into() } else { "0".into() }
                }
                _ => "bad-op".into(),
            },
            _ => "bad-op".into(),
        };
        rep.obs(&line, &real);
    }
    rep.finish();
}

fn main() {
    let a = parse_args();
    match a.cmd.as_str() {
        "gen" => gen(&a),
        "run" => run(&a),
        _ => {
            eprintln!("usage: bs gen|run …");
            std::process::exit(2)
        }
    }
}
