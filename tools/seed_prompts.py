#!/usr/bin/env python3
"""tools/seed_prompts.py <round-number> <n1> <n2> [--focus <text-file>]
Writes /tmp/seed<round>/<Cxx>.prompt.md for every property: the generic seeding brief (/verif/seeded/PROMPT.md),
the list of code sites / mechanisms that earlier rounds already used for that property (from seeded/*/patch.diff
and the descriptions), and the property's text.  The sub-agent gets ONLY that prompt and its own scratch
worktree /tmp/seed<round>/<Cxx> (created here with `git worktree add`)."""
import json, os, re, subprocess, sys

rnd, n1, n2 = sys.argv[1], sys.argv[2], sys.argv[3]
root = "/tmp/seed%s" % rnd
os.makedirs(root, exist_ok=True)
props = {json.loads(l)["id"]: json.loads(l) for l in open("/verif/properties.jsonl")}
base = open("/verif/seeded/PROMPT.md").read()
base = (base.replace("patch-1.diff, patch-2.diff", "patch-%s.diff, patch-%s.diff" % (n1, n2))
            .replace("demo-1.<ext>, demo-2.<ext>", "demo-%s.<ext>, demo-%s.<ext>" % (n1, n2))
            .replace("seed_demo_1.rs", "seed_demo_%s.rs" % n1))
desc = json.load(open("/verif/seeded/ROUND2-descriptions.json"))
ordinal = {"6": "SIXTH", "7": "SEVENTH", "8": "EIGHTH"}.get(rnd, "FURTHER")
for pid, p in props.items():
    taken = []
    for n in range(1, int(n1)):
        f = "/verif/seeded/%s-%d/patch.diff" % (pid, n)
        if not os.path.exists(f):
            continue
        d = open(f).read()
        files = re.findall(r"^\+\+\+ b/(\S+)", d, re.M)
        hunks = re.findall(r"^@@ .*? @@ ?(.*)$", d, re.M)
        meta = json.load(open("/verif/seeded/%s-%d/meta.json" % (pid, n)))
        what = meta.get("what") or desc.get("%s-%d" % (pid, n), [""])[0]
        taken.append("- %s (%s): %s" % (", ".join(files), "; ".join(h for h in hunks if h)[:90], what[:180]))
    extra = (
        "\n\nThis is a %s round. Earlier rounds already produced the changes listed below for this property — do NOT\n"
        "reuse their code sites or mechanisms. The obvious sites are taken; what is left is what a careful reviewer would\n"
        "still wave through: a refactor that looks behaviour-preserving but is not (extracted helper with one case\n"
        "lost, loop rewritten with iterator adaptors, match arms merged, `?` introduced or removed, early return moved,\n"
        "field reordered, default changed, integer type narrowed, `<`/`<=` at a size nobody tests, an optimisation\n"
        "fast-path), a change in a file OUTSIDE the property's anchors that the property nevertheless depends on (another\n"
        "crate of the workspace, a shared helper, a macro, a trait default method, a public constructor or builder path\n"
        "that the usual entry point does not take), a change that only shows under a rarely used public API variant of\n"
        "the same feature, or two cooperating edits that are each harmless alone:\n" % ordinal
        + "\n".join(taken)
        + "\n\nName your deliverables patch-%s.diff / patch-%s.diff / demo-%s.* / demo-%s.* (numbers %s and %s).\n" % (n1, n2, n1, n2, n1, n2)
    )
    if pid in ("C18", "C19"):
        extra += "Note: actix-tls tests need features, e.g. `cargo test --offline -p actix-tls --features rustls-0_23,openssl,accept,connect`.\n"
    open("%s/%s.prompt.md" % (root, pid), "w").write(
        base + extra + "\n\nTHE PROPERTY (id %s):\n" % pid
        + json.dumps({k: p[k] for k in ("id", "title", "statement", "quantifier", "why_tests_cant", "anchors")}, indent=1)
        + "\n\nYour worktree: %s/%s\n" % (root, pid))
    if not os.path.isdir("%s/%s" % (root, pid)):
        subprocess.run(["git", "-C", "/repo", "worktree", "add", "--detach", "%s/%s" % (root, pid), "HEAD"],
                       stdout=subprocess.DEVNULL, stderr=subprocess.DEVNULL)
print("prompts in", root)
