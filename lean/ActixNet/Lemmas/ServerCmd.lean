import ActixNet.Model.ServerCmd
/-! # Lemmas about the command loop model (`Model/ServerCmd.lean`) -/
namespace ActixNet.ServerCmd

def Cmd.isStop : Cmd → Bool | .stop .. => true | _ => false

@[simp] theorem emit_log (s : St) (es : List Ev) : (emit s es).log = s.log ++ es := rfl

theorem handle_workers (s : St) (c : Cmd) : (handle s c).workers = s.workers := by
  cases c <;> simp only [handle, emit]
  split <;> rfl

theorem handle_wakeFirst (s : St) (c : Cmd) : (handle s c).wakeFirst = s.wakeFirst := by
  cases c <;> simp only [handle, emit]
  split <;> rfl

theorem handle_log (s : St) (c : Cmd) : ∃ evs, (handle s c).log = s.log ++ evs := by
  cases c with
  | pause a => exact ⟨_, rfl⟩
  | resume a => exact ⟨_, rfl⟩
  | stop g comp => exact ⟨_, rfl⟩
  | workerFaulted idx =>
    simp only [handle]; split
    · exact ⟨_, rfl⟩
    · exact ⟨[], by simp⟩

theorem handle_stopping_of_not_stop {s : St} {c : Cmd} (h : c.isStop = false) : (handle s c).stopping = s.stopping := by
  cases c <;> simp only [handle, emit] <;> first | rfl | (split <;> rfl) | (simp [Cmd.isStop] at h)

theorem handle_panicked_of_known {s : St} {c : Cmd} (h : ∀ idx, c = .workerFaulted idx → idx ∈ s.workers) :
    (handle s c).panicked = s.panicked := by
  cases c with
  | workerFaulted idx => simp only [handle]; rw [if_pos (h idx rfl)]; rfl
  | _ => rfl

theorem runLoop_log (cs : List Cmd) : ∀ (s : St), ∃ evs, (runLoop s cs).log = s.log ++ evs := by
  induction cs with
  | nil => intro s; exact ⟨[], by simp [runLoop]⟩
  | cons c cs ih =>
    intro s
    obtain ⟨e1, h1⟩ := handle_log s c
    simp only [runLoop]
    split
    · exact ⟨e1, h1⟩
    · split
      · exact ⟨e1 ++ (droppedAcks cs ++ [.returned]), by simp [h1]⟩
      · obtain ⟨e2, h2⟩ := ih (handle s c)
        exact ⟨e1 ++ e2, by rw [h2, h1]; simp⟩

theorem runLoop_workers (cs : List Cmd) : ∀ (s : St), (runLoop s cs).workers = s.workers := by
  induction cs with
  | nil => intro s; rfl
  | cons c cs ih =>
    intro s; simp only [runLoop]
    split
    · exact handle_workers s c
    · split
      · exact handle_workers s c
      · rw [ih, handle_workers]

theorem runLoop_wakeFirst (cs : List Cmd) : ∀ (s : St), (runLoop s cs).wakeFirst = s.wakeFirst := by
  induction cs with
  | nil => intro s; rfl
  | cons c cs ih =>
    intro s; simp only [runLoop]
    split
    · exact handle_wakeFirst s c
    · split
      · exact handle_wakeFirst s c
      · rw [ih, handle_wakeFirst]

/-- commands that are not `Stop` (and name known workers) leave the loop running -/
theorem runLoop_pre (pre : List Cmd) : ∀ (s : St), s.stopping = false → s.panicked = false →
    (∀ c ∈ pre, c.isStop = false) → (∀ c ∈ pre, ∀ idx, c = .workerFaulted idx → idx ∈ s.workers) →
    (runLoop s pre).stopping = false ∧ (runLoop s pre).panicked = false ∧ (runLoop s pre).returned = s.returned ∧
    ∀ post, runLoop s (pre ++ post) = runLoop (runLoop s pre) post := by
  induction pre with
  | nil => intro s h1 h2 _ _; exact ⟨h1, h2, rfl, fun _ => rfl⟩
  | cons c pre ih =>
    intro s h1 h2 h3 h4
    have hs : (handle s c).stopping = false := by rw [handle_stopping_of_not_stop (h3 c (by simp))]; exact h1
    have hp : (handle s c).panicked = false := by rw [handle_panicked_of_known (h4 c (by simp))]; exact h2
    have hr : (handle s c).returned = s.returned := by
      cases c <;> simp only [handle, emit] <;> first | rfl | (split <;> rfl)
    obtain ⟨a, b, c', d⟩ := ih (handle s c) hs hp (fun x hx => h3 x (by simp [hx]))
      (fun x hx idx he => by rw [handle_workers]; exact h4 x (by simp [hx]) idx he)
    simp only [runLoop, List.cons_append, hs, hp, Bool.false_eq_true, if_false]
    exact ⟨a, b, c'.trans hr, d⟩

/-- **the shape of a run that stops**: the commands before the first `Stop` are handled, then the `Stop`,
then the channel is dropped with whatever is left in it, then `run` returns -/
theorem runLoop_stop_shape (s : St) (pre post : List Cmd) (g : Bool) (comp : Option Nat)
    (h1 : s.stopping = false) (h2 : s.panicked = false) (h3 : ∀ c ∈ pre, c.isStop = false)
    (h4 : ∀ c ∈ pre, ∀ idx, c = .workerFaulted idx → idx ∈ s.workers) :
    (runLoop s (pre ++ .stop g comp :: post)).returned = true ∧
    (runLoop s (pre ++ .stop g comp :: post)).log =
      (runLoop s pre).log ++ stopEvs s.wakeFirst s.workers g comp ++ droppedAcks post ++ [.returned] := by
  obtain ⟨a, b, _, d⟩ := runLoop_pre pre s h1 h2 h3 h4
  rw [d]
  have hw := runLoop_workers pre s
  have hwf := runLoop_wakeFirst pre s
  simp only [runLoop, handle, emit, b, Bool.false_eq_true, if_false, if_true, hw, hwf]
  refine ⟨?_, ?_⟩ <;> simp

theorem mem_droppedAcks {cs : List Cmd} {c : Cmd} {a : Nat} (h : c ∈ cs) (ha : c.ack? = some a) : Ev.ackDropped a ∈ droppedAcks cs := by
  simp only [droppedAcks, List.mem_filterMap]
  exact ⟨c, h, by simp [ha]⟩

theorem handle_acks {s : St} {c : Cmd} {a : Nat} (ha : c.ack? = some a) : Ev.ack a ∈ (handle s c).log := by
  cases c with
  | pause a' => simp [Cmd.ack?] at ha; subst ha; simp [handle]
  | resume a' => simp [Cmd.ack?] at ha; subst ha; simp [handle]
  | stop g comp => simp [Cmd.ack?] at ha; subst ha; simp [handle, stopEvs, ackEv]
  | workerFaulted idx => simp [Cmd.ack?] at ha

/-- once `run` has returned, every command that was in the channel has had its ack sent or its ack sender dropped -/
theorem runLoop_resolves (cs : List Cmd) : ∀ (s : St), (runLoop s cs).returned = true → s.returned = false →
    ∀ c ∈ cs, ∀ a, c.ack? = some a → Ev.ack a ∈ (runLoop s cs).log ∨ Ev.ackDropped a ∈ (runLoop s cs).log := by
  induction cs with
  | nil => intro s h1 h2; rw [runLoop, h2] at h1; cases h1
  | cons c cs ih =>
    intro s h1 h2 c' hc' a ha
    have hr : (handle s c).returned = s.returned := by
      cases c <;> simp only [handle, emit] <;> first | rfl | (split <;> rfl)
    simp only [runLoop] at h1 ⊢
    split at h1
    · rw [hr, h2] at h1; cases h1
    · split at h1
      · rename_i hp hs
        have hp' : (handle s c).panicked = false := by simpa using hp
        simp only [hp', hs, if_true, Bool.false_eq_true, if_false]
        simp only [List.mem_cons] at hc'
        rcases hc' with rfl | hc'
        · exact Or.inl (by simp [handle_acks ha])
        · exact Or.inr (by simp [mem_droppedAcks hc' ha])
      · rename_i hp hs
        have hp' : (handle s c).panicked = false := by simpa using hp
        have hs' : (handle s c).stopping = false := by simpa using hs
        simp only [hp', hs', Bool.false_eq_true, if_false]
        simp only [List.mem_cons] at hc'
        rcases hc' with rfl | hc'
        · obtain ⟨evs, hl⟩ := runLoop_log cs (handle s c')
          exact Or.inl (by rw [hl]; simp [handle_acks ha])
        · exact ih _ h1 (hr.trans h2) c' hc' a ha

end ActixNet.ServerCmd
