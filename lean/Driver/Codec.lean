import ActixNet.Model.Lines
import ActixNet.Model.Framed
import Driver.Util
/-! Engine `codec`: line protocol for the actix-codec models (C13 Framed read side, C14 Framed
write side, C15 LinesCodec). -/
namespace Driver.Codec
open Driver ActixNet

inductive CodecSel where | lines | bytes | len | lenx
deriving DecidableEq, Repr

structure State where
  sel : CodecSel := .lines
  rs : Framed.RState := {}
  ws : Framed.WState := {}

def init : State := {}

def codecOf : CodecSel → Framed.Codec Framed.Bytes
  | .lines => Framed.linesCodec
  | .bytes => Framed.bytesCodec
  | .len => Framed.lenCodec
  | .lenx => Framed.lenxCodec

/-- largest chunk a scripted read may carry: never more than the room `Framed` guarantees -/
def maxChunk : Nat := 1024

/-- short byte strings in hex, long ones as `#<len>.<hash>` -/
def showBytes (bs : List Nat) : String :=
  if bs.length ≤ 24 then toHex bs
  else s!"#{bs.length}.{bs.foldl (fun (h : UInt64) b => (h * 31 + b.toUInt64) % 4294967296) 7}"

def kindNames : List (String × Src.ErrorKind) :=
  [("ConnectionReset", .ConnectionReset), ("BrokenPipe", .BrokenPipe), ("TimedOut", .TimedOut),
   ("Other", .Other), ("UnexpectedEof", .UnexpectedEof), ("InvalidData", .InvalidData),
   ("InvalidInput", .InvalidInput), ("WriteZero", .WriteZero), ("WouldBlock", .WouldBlock),
   ("Interrupted", .Interrupted), ("ConnectionAborted", .ConnectionAborted), ("NotConnected", .NotConnected)]

def parseKind (s : String) : Option Src.ErrorKind := (kindNames.find? (·.1 == s)).map (·.2)
def kindStr (k : Src.ErrorKind) : String := ((kindNames.find? (·.2 == k)).map (·.1)).getD "?"

def outStr : Framed.Out Framed.Bytes → String
  | .item f => "item:" ++ showBytes f
  | .decErr k => "derr:" ++ kindStr k
  | .ioErr k => "ioerr:" ++ kindStr k
  | .pending => "pending"
  | .none => "none"
  | .spin => "spin"

/-- `d:<hex>` data chunk, `p` Pending, `e:<Kind>` I/O error, `z` end of file -/
def parseRd (w : String) : Option Framed.Rd :=
  if w == "p" then some .pending
  else if w == "z" then some .eof
  else if w.startsWith "d:" then
    match parseHex (w.drop 2).toString with
    | some bs => if bs.length ≤ maxChunk then some (.data bs) else none
    | none => none
  else if w.startsWith "e:" then (parseKind (w.drop 2).toString).map .ioErr
  else none

def encOf : CodecSel → Framed.Enc Framed.Bytes
  | .lines => Framed.linesEnc
  | .bytes => Framed.bytesEnc
  | .len => Framed.lenEnc
  | .lenx => Framed.lenEnc

def wresStr : Framed.WRes → String
  | .ok => "ok"
  | .pending => "pending"
  | .err k => "err:" ++ kindStr k
  | .spin => "spin"

/-- `a:<k>` accept up to k bytes, `p` Pending, `z` zero-length write, `e:<Kind>` error -/
def parseWr (w : String) : Option Framed.Wr :=
  if w == "p" then some .pending
  else if w == "z" then some .zero
  else if w.startsWith "a:" then ((w.drop 2).toString.toNat?).map .accept
  else if w.startsWith "e:" then (parseKind (w.drop 2).toString).map .err
  else none

/-- `ok`, `p` Pending, `e:<Kind>` error -/
def parseFl (w : String) : Option Framed.Fl :=
  if w == "ok" then some .ok
  else if w == "p" then some .pending
  else if w.startsWith "e:" then (parseKind (w.drop 2).toString).map .err
  else none

/-- an item: hex bytes, or `n:<len>` = `len` times the byte `a` -/
def parseItem (w : String) : Option (List Nat) :=
  if w.startsWith "n:" then
    match (w.drop 2).toString.toNat? with
    | some n => if n ≤ 300000 then some (List.replicate n 97) else none
    | none => none
  else parseHex w

/-- `is_write_ready` / `is_write_buf_full` / `is_write_buf_empty` as `r`/`f`/`e` or `-` -/
def wrFlags (ws : Framed.WState) : String :=
  (if Src.framedWriteReady ws.wbuf.length then "r" else "-") ++
  (if Src.framedWriteFull ws.wbuf.length then "f" else "-") ++
  (if ws.wbuf.isEmpty then "e" else "-")

/-- calls of `poll_write`/`poll_flush`/`poll_shutdown`, the bytes on the wire, the bytes staged in the
transport (accepted, not yet flushed), the write buffer, the three predicates on it -/
def wrCounters (ws : Framed.WState) : String :=
  s!"w={ws.nWrite} f={ws.nFlush} s={ws.nShutdown} out={showBytes ws.written} st={showBytes ws.staged} wb={showBytes ws.wbuf} is={wrFlags ws}"

def wrAnswer (st : State) (r : Framed.WRes × Framed.WState) : State × String :=
  ({ st with ws := r.2 }, s!"{wresStr r.1} {wrCounters r.2}")

def rdCounters (rs : Framed.RState) : String :=
  s!"rd={rs.nRead} dec={rs.nDecode} eofc={rs.nDecodeEof} buf={showBytes rs.buf} e={if rs.buf.isEmpty then 1 else 0}"

def parseSel (w : String) : Option CodecSel :=
  if w == "lines" then some .lines else if w == "bytes" then some .bytes
  else if w == "len" then some .len else if w == "lenx" then some .lenx else none

/-! ## C15: LinesCodec on a contiguous buffer -/

def resStr : Lines.Res → String
  | .none => "none"
  | .ok s => "ok:" ++ toHex s
  | .err => "err"

def resList (rs : List Lines.Res) : String := "[" ++ ",".intercalate (rs.map resStr) ++ "]"

/-- `decode` until `None`, then `decode_eof` until `None`, and what is left in the buffer -/
def linesRun (s : List Nat) : String :=
  let (xs, rest) := Lines.decodeLoop (s.length + 1) s
  let (ys, rest') := Lines.eofLoop (rest.length + 2) rest
  s!"dec={resList xs} mid={toHex rest} eof={resList ys} rest={toHex rest'}"

def parseAll (ws : List String) : Option (List (List Nat)) := ws.mapM parseHex

/-- ONE codec instance, the buffer growing piece by piece: `decode` until `None` after every piece
(not after the last one when `direct`), then `decode_eof` until `None`; results per piece -/
def chunksRun (pieces : List (List Nat)) (direct : Bool) : String :=
  let n := pieces.length
  let (outs, buf, _) := pieces.foldl (fun (acc : List String × List Nat × Nat) p =>
    let (outs, buf, i) := acc
    let buf := buf ++ p
    if direct && i + 1 == n then (outs ++ ["-"], buf, i + 1)
    else
      let (xs, rest) := Lines.decodeLoop (buf.length + 1) buf
      (outs ++ [resList xs], rest, i + 1)) ([], [], 0)
  let (ys, rest') := Lines.eofLoop (buf.length + 2) buf
  s!"p={"|".intercalate outs} eof={resList ys} rest={toHex rest'}"

/-- split a list into pieces of `c` elements (fuel: the length) -/
def chunksOf (c : Nat) : Nat → List Nat → List (List Nat)
  | 0, _ => []
  | fuel + 1, l => if l.isEmpty then [] else l.take c :: chunksOf c fuel (l.drop c)

/-- a token of the `framed` op: `p` (Pending), hex (one read, at most `maxChunk` bytes), or
`x<len>/<chunk>`: `len` letters (`a` + i mod 26) offered in reads of `chunk` bytes -/
def framedToken (h : String) : Option (List (Option (List Nat))) :=
  if h == "p" then some [none]
  else if h.startsWith "x" then
    match (h.drop 1).toString.splitOn "/" with
    | [n, c] =>
      match n.toNat?, c.toNat? with
      | some n, some c =>
        if n ≤ 100000 && 0 < c && c ≤ 100000 then
          some ((chunksOf c n ((List.range n).map (fun i => 97 + i % 26))).map some)
        else none
      | _, _ => none
    | _ => none
  else match parseHex h with
    | some p => if p.length ≤ maxChunk then some [some p] else none
    | none => none

def parseCase (ws : List String) : Option State :=
  ws.foldlM (fun st w =>
    if w == "codec=lines" then some { st with sel := .lines }
    else if w == "codec=bytes" then some { st with sel := .bytes }
    else if w == "codec=len" then some { st with sel := .len }
    else if w == "codec=lenx" then some { st with sel := .lenx }
    else if w.startsWith "codec=" then none
    -- how the `Framed` is made: `Framed::new` (buffers with capacity HW), from `FramedParts::new`
    -- (no capacity), from `FramedParts::with_read_buf` (bytes handed over, flags empty)
    else if w == "init=new" then some st
    else if w == "init=parts" then some { st with rs := { st.rs with room := 0 } }
    else if w.startsWith "init=rbuf:" then
      match parseHex (w.drop 10).toString with
      | some bs => if bs.length ≤ maxChunk then some { st with rs := { st.rs with buf := bs, room := 0 } } else none
      | none => none
    -- a BIG handed-over buffer: `init=rbufr:<len>:<hex unit>` = the unit repeated, cut at <len> bytes
    else if w.startsWith "init=rbufr:" then
      match ((w.drop 11).toString.splitOn ":") with
      | [n, u] =>
        match n.toNat?, parseHex u with
        | some n, some unit =>
          if n ≤ 40000 && !unit.isEmpty && unit.length ≤ 256 && u != "-" then
            let buf := ((List.replicate (n / unit.length + 1) unit).flatten).take n
            some { st with rs := { st.rs with buf := buf, room := 0 } }
          else none
        | _, _ => none
      | _ => none
    else if w.startsWith "init=" then none
    else some st) init

def step (st : State) (line : String) : State × String :=
  match words line with
  | "case" :: _ :: cfg => match parseCase cfg with
    | some st' => (st', "ok")
    | none => (init, "bad-op")
  | ["case"] => (init, "ok")
  | "script" :: evs => match evs.mapM parseRd with
    | some es =>
      let rs := { st.rs with script := st.rs.script ++ es }
      ({ st with rs := rs }, s!"ok {rs.script.length}")
    | none => (st, "bad-op")
  | "wscript" :: evs => match evs.mapM parseWr with
    | some es =>
      let ws := { st.ws with wscript := st.ws.wscript ++ es }
      ({ st with ws := ws }, s!"ok {ws.wscript.length}")
    | none => (st, "bad-op")
  | "fscript" :: evs => match evs.mapM parseFl with
    | some es =>
      let ws := { st.ws with fscript := st.ws.fscript ++ es }
      ({ st with ws := ws }, s!"ok {ws.fscript.length}")
    | none => (st, "bad-op")
  | "sscript" :: evs => match evs.mapM parseFl with
    | some es =>
      let ws := { st.ws with sscript := st.ws.sscript ++ es }
      ({ st with ws := ws }, s!"ok {ws.sscript.length}")
    | none => (st, "bad-op")
  -- `send` = `Sink::start_send`, `write` = `Framed::write` (the same function)
  | ["send", it] => match parseItem it with
    | some item => wrAnswer st (Framed.wsend (encOf st.sel) item st.ws)
    | none => (st, "bad-op")
  | ["write", it] => match parseItem it with
    | some item => wrAnswer st (Framed.wsend (encOf st.sel) item st.ws)
    | none => (st, "bad-op")
  | ["ready"] => wrAnswer st (Framed.wready st.ws)
  -- `flush`/`close` = `Sink::poll_flush`/`poll_close`, `xflush`/`xclose` = `Framed::flush`/`close`
  | ["flush"] => wrAnswer st (Framed.wflush st.ws)
  | ["xflush"] => wrAnswer st (Framed.wflush st.ws)
  | ["close"] => wrAnswer st (Framed.wclose st.ws)
  | ["xclose"] => wrAnswer st (Framed.wclose st.ws)
  -- codec swap (`into_map_codec` / `replace_codec` / `into_parts` + `from_parts`): flags and both
  -- buffers are carried over, only the codec changes; `mapio` (`into_map_io`) changes nothing
  | ["swap", c, via] => match parseSel c with
    | some sel =>
      if via == "map" || via == "replace" || via == "parts" then
        ({ st with sel := sel }, s!"ok {rdCounters st.rs} {wrCounters st.ws}")
      else (st, "bad-op")
    | none => (st, "bad-op")
  -- `BytesCodec::decode` directly on a buffer of n bytes (i*31+7 mod 256), until `None`
  | ["bdec", n] => match n.toNat? with
    | some n =>
      if n ≤ 40000 then
        let data := (List.range n).map (fun i => (i * 31 + 7) % 256)
        match Framed.bytesDecode data with
        | .frame f _ => (st, s!"[{showBytes f}]")
        | _ => (st, "[]")
      else (st, "bad-op")
    | none => (st, "bad-op")
  | ["mapio"] => (st, s!"ok {rdCounters st.rs} {wrCounters st.ws}")
  -- `poll` = `Stream::poll_next`, `next` = `Framed::next_item` (the same function)
  | ["poll"] =>
    let (o, rs) := Framed.pollNext (codecOf st.sel) st.rs
    ({ st with rs := rs }, s!"{outStr o} {rdCounters rs}")
  | ["next"] =>
    let (o, rs) := Framed.pollNext (codecOf st.sel) st.rs
    ({ st with rs := rs }, s!"{outStr o} {rdCounters rs}")
  | ["drain", n] => match n.toNat? with
    | some n =>
      if n ≤ 10000 then
        let (os, rs) := Framed.pollN (codecOf st.sel) n st.rs
        ({ st with rs := rs }, s!"[{",".intercalate (os.map outStr)}] {rdCounters rs}")
      else (st, "bad-op")
    | none => (st, "bad-op")
  | ["dec", h] => match parseHex h with
    | some bs => (st, linesRun bs)
    | none => (st, "bad-op")
  | "chunks" :: hs => match parseAll hs with
    | some ps => if ps.isEmpty then (st, "bad-op") else (st, chunksRun ps false)
    | none => (st, "bad-op")
  | "chunkse" :: hs => match parseAll hs with
    | some ps => if ps.isEmpty then (st, "bad-op") else (st, chunksRun ps true)
    | none => (st, "bad-op")
  -- `LinesCodec` under `Framed`: the non-empty pieces are the reads, then end of file
  | "framed" :: hs =>
    -- tokens: a piece of data (hex) or `p` = Pending
    match hs.mapM framedToken with
    | some tokss =>
      let toks := tokss.flatten
      let ps := toks.filterMap id
      if toks.isEmpty then (st, "bad-op")
      else
        let script : List Framed.Rd := toks.filterMap (fun t => match t with
          | none => some .pending
          | some p => if p.isEmpty then none else some (.data p))
        let polls := script.length + (ps.flatten.filter (· == 10)).length + 4
        let (os, _) := Framed.pollN Framed.linesCodec polls (Framed.rinit script)
        (st, s!"[{",".intercalate (os.map outStr)}]")
    | none => (st, "bad-op")
  | "enc" :: hs => match parseAll hs with
    | some xs =>
      if xs.all Utf8.valid then (st, toHex (xs.foldl (fun dst x => Lines.encode x dst) []))
      else (st, "bad-op")   -- not a `str`: the harness cannot even issue it
    | none => (st, "bad-op")
  | "rt" :: hs => match parseAll hs with
    | some xs =>
      if xs.all Utf8.valid then
        let buf := xs.foldl (fun dst x => Lines.encode x dst) []
        (st, s!"buf={toHex buf} {linesRun buf}")
      else (st, "bad-op")
    | none => (st, "bad-op")
  | _ => (st, "bad-op")

end Driver.Codec
