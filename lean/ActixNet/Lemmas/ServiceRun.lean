import ActixNet.Lemmas.ServiceFac
/-!
# Glue for the C11 / C12 property statements: the observable run of a call / of a factory
-/
namespace ActixNet.Service

/-- what the harness observes for `call req`: the call, then the manual executor with `n` polls of
fuel and waker identities `w, w+1, …`: (result, event log, waker of the last poll) -/
def run (n : Nat) (s : Svc) (req w : Nat) : Option Res × List Evt × Nat :=
  ((drive n (call s req).1 w).1, (call s req).2 ++ (drive n (call s req).1 w).2.1, (drive n (call s req).1 w).2.2)

theorem run_eq (n : Nat) (s : Svc) (req w : Nat) (hn : pendOf s req < n) :
    run n s req w = (some (eval s req), refLog s req w, w + pendOf s req) := by
  have hd := call_drive s req w n hn
  have hc := call_spec s req w
  simp only [run, hd, hc.2.2.2]

/-- what the harness observes for `fac f cfg` -/
def facRun (n : Nat) (f : Fac) (cfg w : Nat) : Option IRes × List Evt × Nat :=
  ((idrive n (newService f cfg).1 w).1, (newService f cfg).2 ++ (idrive n (newService f cfg).1 w).2.1,
   (idrive n (newService f cfg).1 w).2.2)

theorem quiet_not_repoll (e : Evt) (h : quiet e = true) : isRepoll e = false := by
  cases e <;> simp_all [quiet, isRepoll]

theorem newService_log_not_repoll (f : Fac) (cfg : Nat) : ∀ e ∈ (newService f cfg).2, isRepoll e = false := by
  induction f generalizing cfg with
  | leaf id ip iok uc s => cases uc <;> simp [newService, isRepoll]
  | fnSvc => simp [newService]
  | map a f ih => simpa [newService] using ih cfg
  | mapErr a f ih => simpa [newService] using ih cfg
  | mapInitErr a f ih => simpa [newService] using ih cfg
  | andThen a b iha ihb =>
    intro e he; simp only [newService, List.mem_append] at he
    rcases he with he | he
    · exact iha cfg e he
    · exact ihb cfg e he
  | applyFn a kind k ih => simpa [newService] using ih cfg
  | transform t tp tok a ih => simpa [newService] using ih cfg
  | applyCfg s f ip iok => simp [newService, isRepoll]
  | applyCfgFac a f ip iok ih => simpa [newService] using ih 0
  | mapConfig a f ih => have := ih (mapFn f cfg); simp [newService, isRepoll]; exact this
  | unitConfig a ih => simpa [newService] using ih 0
  | boxed a ih => simpa [newService] using ih cfg
  | rc a ih => simpa [newService] using ih cfg

end ActixNet.Service
