"""T1 structural spans for C06 (server half): the order of the steps of `handle_cmd(Stop)`, the guard of
`join_all`, the exit of the command loop and the eager send in `ServerHandle::stop`.

The command-loop model (`Model/ServerCmd.lean`) is hand-written; `Props/C06.lean` states that the
source still has the shape the model transcribes (`source_shape`), so a change of that shape breaks a
proof obligation instead of going unnoticed."""
_S = "actix-server/src/server.rs"
_H = "actix-server/src/handle.rs"


def _lean_list(xs):
    return "[" + ", ".join('"%s"' % x for x in xs) + "]"


_UNRECOGNISED = "def hcStopOrder : List String := []\n\ndef hcAwaitGuard : String := \"unrecognised\""


def _handle_stop(src):
    """order of the steps of the `Stop` arm of `handle_cmd` and the guard of `join_all`; an unrecognised shape yields an
    empty order (the `source_shape` theorem then fails) rather than a missing definition"""
    m = re.search(r"async fn handle_cmd\b.*?\n    \}\n", src, re.S)
    if not m:
        return _UNRECOGNISED, src[:200]
    body = m.group(0)
    a = re.search(r"ServerCommand::Stop\s*\{", body)
    b = re.search(r"ServerCommand::WorkerFaulted\s*\(", body)
    if not a or not b or b.start() < a.start():
        return _UNRECOGNISED, body
    arm = body[a.start():b.start()]
    steps = [
        ("stopping", r"self\.stopping\s*=\s*true"),
        ("wake_stop", r"self\.waker_queue\.wake\(\s*WakerInterest::Stop\s*\)"),
        # (collected at once: `map` is lazy, the Stop messages are sent by the collection — for a forced stop as well)
        ("stop_workers", r"\.map\(\s*\|worker\|\s*worker\.stop\(\s*graceful\s*\)\s*\)\s*\.collect::<Vec<_>>\(\)\s*;"),
        ("await_workers", r"(?<![A-Za-z0-9_:.])join_all\(\s*workers_stop\s*\)\s*\.await"),
        ("join_accept", r"\.join\(\)"),
        ("completion", r"tx\.send\(\s*\(\)\s*\)"),
    ]
    found = []
    for name, rx in steps:
        ms = list(re.finditer(rx, arm))
        if len(ms) != 1:
            return _UNRECOGNISED, arm
        found.append((ms[0].start(), name))
    order = [n for _, n in sorted(found)]
    # … and `join_all` is the crate's own (waits for every future whatever it yields), not a library look-alike
    if not re.search(r"use crate::\{[^}]*\bjoin_all::join_all\b[^}]*\}", src) or re.search(r"use\s+futures_util::[^;]*\bjoin_all\b", src):
        return _UNRECOGNISED, arm
    if re.search(r"if\s+graceful\s*\{[^{}]*(?<![A-Za-z0-9_:.])join_all\(\s*workers_stop\s*\)\s*\.await[^{}]*\}", arm):
        guard = "graceful"
    elif re.search(r"if\s+[^{]*\{[^{}]*(?<![A-Za-z0-9_:.])join_all\(\s*workers_stop\s*\)\s*\.await[^{}]*\}", arm):
        guard = "other"
    else:
        guard = "always"
    lean = "def hcStopOrder : List String := %s\n\ndef hcAwaitGuard : String := \"%s\"" % (_lean_list(order), guard)
    return lean, arm


def _run_loop(src):
    m = re.search(r"async fn run\(builder: ServerBuilder\).*?\n    \}\n", src, re.S)
    if not m:
        return "def srRunBreaksOnStopping : Bool := false", src[:200]
    body = m.group(0)
    ok = re.search(r"while let Some\(cmd\) = mux\.next\(\)\.await\s*\{\s*this\.handle_cmd\(cmd\)\.await;\s*if this\.stopping\s*\{\s*break;\s*\}\s*\}\s*Ok\(\(\)\)", body) is not None
    return "def srRunBreaksOnStopping : Bool := %s" % ("true" if ok else "false"), body


def _handle_stop_eager(src):
    m = re.search(r"pub fn stop\(&self, graceful: bool\).*?\n    \}\n", src, re.S)
    if not m:
        return "def hsStopSendsEagerly : Bool := false\n\ndef hsStopDropsUndelivered : Bool := false", src[:200]
    body = m.group(0)
    send = re.search(r"self\.cmd_tx\.send\(\s*ServerCommand::Stop\s*\{", body)
    asyn = re.search(r"\basync\b", body)
    comp = re.search(r"completion:\s*Some\(tx\)", body)
    ok = bool(send and asyn and comp and send.start() < asyn.start())
    # the result of the send is discarded on the spot (`let _ = …`): an undelivered command — the server is gone — is dropped
    # with its completion sender before the future is built, and the future captures nothing but the receiver
    drops = bool(re.search(r"let\s+_\s*=\s*self\.cmd_tx\.send\(\s*ServerCommand::Stop\s*\{", body)
                 and re.search(r"\basync\s*\{\s*let\s+_\s*=\s*rx\.await;\s*\}", body))
    return ("def hsStopSendsEagerly : Bool := %s\n\ndef hsStopDropsUndelivered : Bool := %s"
            % ("true" if ok else "false", "true" if drops else "false")), body


register("srv_handle_stop_order", span_custom(_S, _handle_stop))
register("srv_run_loop_exit", span_custom(_S, _run_loop))
register("srv_handle_stop_eager", span_custom(_H, _handle_stop_eager))


_W = "actix-server/src/worker.rs"


def _none_arm(src):
    """the `None` arm of the match on `this.conn_rx.poll_recv(cx)` in the `Available` loop of `ServerWorker::poll`:
    does it look at the `Stop` channel again (demanded by C06, finding F8) or return `Ready` unconditionally?
    An unrecognised shape yields `false` (not the demanded shape) rather than a missing definition, so that the
    models still build and the proof / kernel-shape obligations report the change."""
    pm = re.search(r"fn poll\(mut self: Pin<&mut Self>.*?\n    \}\n", src, re.S)
    body = pm.group(0) if pm else src
    m = re.search(r"match\s+ready!\(\s*this\.conn_rx\.poll_recv\(cx\)\s*\)\s*\{", body)
    if not m:
        return "def wkNoneArmPollsStop : Bool := false", body
    rest = body[m.end():]
    n = re.search(r"\bNone\s*=>", rest)
    if not n:
        return "def wkNoneArmPollsStop : Bool := false", body
    # the arm ends where the match closes: first `}` at the nesting depth of the match
    depth, i, end = 0, n.end(), None
    while i < len(rest):
        c = rest[i]
        if c == "{":
            depth += 1
        elif c == "}":
            if depth == 0:
                end = i
                break
            depth -= 1
        i += 1
    if end is None:
        return "def wkNoneArmPollsStop : Bool := false", body
    arm = rest[n.end():end]
    polls = re.search(r"stop_rx\s*\.\s*poll_recv\(", arm) is not None
    return "def wkNoneArmPollsStop : Bool := %s" % ("true" if polls else "false"), arm


register("srv_worker_none_arm", span_custom(_W, _none_arm))


_G = "actix-server/src/signals.rs"


def _sig_table(src):
    """`Signals::new`: the table OS signal -> `SignalKind` (unix). An unrecognised shape yields an empty table."""
    m = re.search(r"let sig_map = \[(.*?)\];", src, re.S)
    if not m:
        return "def sigMapTable : List (String × Signal) := []", src[:200]
    rows = re.findall(r"\(\s*unix::SignalKind::(\w+)\(\)\s*,\s*SignalKind::(\w+)\s*\)", m.group(1))
    if not rows or any(k not in ("Int", "Term", "Quit") for _, k in rows):
        return "def sigMapTable : List (String × Signal) := []", m.group(0)
    lean = "def sigMapTable : List (String × Signal) := [%s]" % ", ".join('("%s", .%s)' % (u, k) for u, k in rows)
    return lean, m.group(0)


register("srv_signal_table", span_custom(_G, _sig_table))


_B = "actix-server/src/builder.rs"


def _config_default(src):
    """`impl Default for ServerWorkerConfig`: the configuration of a server on which the builder's setters were never
    called (documented: shutdown timeout 30 s, 25600 connections per worker, 512 / parallelism blocking threads, at least 1).
    An unrecognised shape yields 0 for the part that was not understood (the `default_shutdown_timeout_is_30s` theorem then fails)."""
    m = re.search(r"impl Default for ServerWorkerConfig\s*\{.*?\n\}\n", src, re.S)
    body = m.group(0) if m else ""
    secs, conns, fallback, blocking = 0, 0, 0, "0"
    t = re.findall(r"\bshutdown_timeout:\s*Duration::from_(secs|millis)\(\s*([0-9_]+)\s*\)", body)
    if len(t) == 1 and t[0][0] == "secs":
        secs = int(t[0][1].replace("_", ""))
    c = re.findall(r"\bmax_concurrent_connections:\s*([0-9_]+)\s*,", body)
    if len(c) == 1:
        conns = int(c[0].replace("_", ""))
    p = re.search(r"let parallelism\s*=\s*std::thread::available_parallelism\(\)\s*\.map_or\(\s*([0-9_]+)\s*,\s*NonZeroUsize::get\s*\)\s*;", body)
    b = re.search(r"let max_blocking_threads\s*=\s*std::cmp::max\(\s*([0-9_]+)\s*/\s*parallelism\s*,\s*([0-9_]+)\s*\)\s*;", body)
    plain = re.search(r"\n\s*max_blocking_threads\s*,", body)
    if p and b and plain:
        fallback = int(p.group(1).replace("_", ""))
        blocking = "max (%d / parallelism) %d" % (int(b.group(1).replace("_", "")), int(b.group(2).replace("_", "")))
    lean = ("def wcDefaultShutdownSecs : Nat := %d\n\ndef wcDefaultMaxConn : Nat := %d\n\n"
            "def wcDefaultParallelismFallback : Nat := %d\n\ndef wcDefaultBlockingThreads (parallelism : Nat) : Nat := %s"
            % (secs, conns, fallback, blocking))
    return lean, body or src[:200]


def _builder_default(src):
    """`ServerBuilder::new` starts from `ServerWorkerConfig::default()` and `shutdown_timeout(sec)` stores `sec` seconds"""
    new = re.search(r"pub fn new\(\) -> ServerBuilder\s*\{.*?\n    \}\n", src, re.S)
    st = re.search(r"pub fn shutdown_timeout\(mut self, sec: u64\) -> Self\s*\{.*?\n    \}\n", src, re.S)
    ok = bool(new and st and re.search(r"\bworker_config:\s*ServerWorkerConfig::default\(\)\s*,", new.group(0))
              and re.search(r"self\.worker_config\s*\.shutdown_timeout\(\s*Duration::from_secs\(\s*sec\s*\)\s*\)\s*;\s*self\s*\}", st.group(0)))
    return "def sbStartsFromDefaultConfig : Bool := %s" % ("true" if ok else "false"), (new.group(0) if new else "") + (st.group(0) if st else "")


def _mux(src):
    """`ServerEventMultiplexer::poll_next`: after the signal future the command channel is polled and its answer handed on
    unchanged; the channel is closed nowhere in server.rs (a command sent while a `Stop` is being handled stays in the channel
    until `run` returns: its ack sender is dropped only then — C06, every stop future)"""
    m = re.search(r"impl Stream for ServerEventMultiplexer\s*\{.*?\n\}\n", src, re.S)
    body = m.group(0) if m else ""
    ok = bool(m and re.search(r"\}\s*this\.cmd_rx\.poll_recv\(cx\)\s*\}\s*\}\s*$", body)
              and not re.search(r"cmd_rx\s*\.\s*close\s*\(", src))
    return "def smMuxHandsOnCmdRx : Bool := %s" % ("true" if ok else "false"), body or src[:200]


register("srv_worker_config_default", span_custom(_W, _config_default))
register("srv_builder_default_config", span_custom(_B, _builder_default))
register("srv_mux_cmd_rx", span_custom(_S, _mux))


_J = "actix-server/src/join_all.rs"


def _join_all(src):
    """the crate's `JoinAll::poll`: every future still running is polled, one that is ready is stored whatever it yielded,
    and the join is ready only when none is pending (a dead worker's stop receiver yields Err at once: the others are still
    waited for)"""
    m = re.search(r"impl<T> Future for JoinAll<T>\s*\{.*?\n\}\n", src, re.S)
    body = m.group(0) if m else ""
    ok = bool(m and re.search(
        r"let mut ready = true;\s*let this = self\.get_mut\(\);\s*for fut in this\.fut\.iter_mut\(\)\s*\{\s*"
        r"if let JoinFuture::Future\(f\) = fut\s*\{\s*match f\.as_mut\(\)\.poll\(cx\)\s*\{\s*"
        r"Poll::Ready\(t\) => \{\s*\*fut = JoinFuture::Result\(Some\(t\)\);\s*\}\s*"
        r"Poll::Pending => ready = false,\s*\}\s*\}\s*\}\s*if ready \{", body))
    return "def jaWaitsForAll : Bool := %s" % ("true" if ok else "false"), body or src[:200]


register("srv_join_all", span_custom(_J, _join_all))


def _system_stop(src):
    """the end of the `Stop` arm of `handle_cmd`: the actix System is stopped only if there is one (`System::try_current()`):
    on a plain Tokio runtime a stop that asks for a system stop (any OS signal, `system_exit()`) still lets `run` return"""
    m = re.search(r"async fn handle_cmd\b.*?\n    \}\n", src, re.S)
    body = m.group(0) if m else ""
    ok = bool(m and re.search(
        r"if self\.system_stop \|\| force_system_stop \{\s*sleep\(Duration::from_millis\(300\)\)\.await;\s*"
        r"System::try_current\(\)\.as_ref\(\)\.map\(System::stop\);\s*\}", body)
        and not re.search(r"System::current\(\)", src))
    return "def hcSystemStopIfAny : Bool := %s" % ("true" if ok else "false"), body or src[:200]


register("srv_handle_system_stop", span_custom(_S, _system_stop))
